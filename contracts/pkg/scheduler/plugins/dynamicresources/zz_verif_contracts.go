//go:build verif

// Contracts for govc (contract-based deductive verification); comments only.
package dynamicresources

//@ import rapi "k8s.io/api/resource/v1"
//@ import types "k8s.io/apimachinery/pkg/types"
//@ import common_info "github.com/NVIDIA/KAI-scheduler/pkg/scheduler/api/common_info"

// =====================================================================================================================
// Scheduler-side DRA plugin. Properties:
//   C13 "Any sequence of virtual allocate, nominate, evict and un-evict steps that an action later discards ... leaves
//        the scheduler's view of ... resource claims ... exactly as it was": deallocateResourceClaim is the mirror of
//        allocateResourceClaim (claim tracker entry: consumer list + allocation; the task's ResourceClaimInfo entry).
//   C12 "every snapshot charges the pod's resources (including ... claimed devices) to the selected node": at session
//        open the allocation recorded in a live BindRequest is signalled to the claim tracker as pending.
//   C10 no panic for pods naming missing claims, claims without allocation, nil maps.
//   C04/C01 preFilter rejects what must not be placed (feature off, consumer list full, shared GPU claim of another queue).
//
// ---- the scheduler's view of resource claims (ghost model of the upstream claim tracker) ------------------------------
// The upstream tracker (k8s.io/kubernetes/pkg/scheduler/framework.ResourceClaimTracker, an assume-cache over the
// ResourceClaim informer plus the in-flight allocations) is LIBRARY code. Its documented behaviour - "the result [of
// List/Get] is guaranteed to immediately include any changes made via AssumeClaimAfterAPICall() and
// SignalClaimPendingAllocation()" - is modelled by three ghost families; only the ASSUMED contracts below write them:
//   tracked(k)   the claim object the tracker currently answers with for key k = namespace/name (assume-cache view)
//   pending(u)   the claim object signalled as "allocation pending in the binding phase" for claim UID u
//   draFaults()  number of tracker / lister / allocator calls that have reported failure so far: every such call may
//                fail, nondeterministically, at every call site (all fault schedules are covered, no enumeration)
// One tracker per scheduler: the receiver is ignored.
//@ ghost tracked(k string) *rapi.ResourceClaim
//@ ghost pending(u string) *rapi.ResourceClaim
//@ ghost draFaults() int
//@ define draKey(ns string, name string) string = ns + "/" + name
// informerObj(k): the informer's (API server's) version of claim k, what AssumedClaimRestore goes back to
//@ declare informerObj(k string) ref
// allocVal(a): the content of an AllocationResult object (device results, node selector). AllocationResult objects are
// never written by this package after they are built (only pointers to them are stored), DeepCopy preserves the content.
//@ declare allocVal(a ref) int

//@ func k8s.io/kubernetes/pkg/scheduler/framework.SharedDRAManager.ResourceClaims
//@   pure
//@   ensures result != nil
//@   note assumed (library interface): accessor, returns the tracker
//@ end
//@ func k8s.io/kubernetes/pkg/scheduler/framework.SharedDRAManager.ResourceSlices
//@   pure
//@   ensures result != nil
//@   note assumed (library interface): accessor
//@ end
//@ func k8s.io/kubernetes/pkg/scheduler/framework.SharedDRAManager.DeviceClasses
//@   pure
//@   note assumed (library interface): accessor
//@ end
// Get: a failure is counted; success answers with the tracked object of that key, whose identity is the key's.
//@ func k8s.io/kubernetes/pkg/scheduler/framework.ResourceClaimTracker.Get
//@   modifies draFaults()
//@   ensures draFaults() == old(draFaults()) + ite(result1 != nil, 1, 0)
//@   ensures result1 == nil ==> result0 != nil && result0 == tracked(draKey(namespace, claimName)) && result0.Namespace == namespace && result0.Name == claimName
//@   note assumed (library): Get answers with the tracker's current object for namespace/name (documented: includes every assumed change) or fails; may fail for any key (missing claim)
//@ end
// List: on success no nil entries, every entry is the tracked object of its own key.
//@ func k8s.io/kubernetes/pkg/scheduler/framework.ResourceClaimTracker.List
//@   modifies draFaults()
//@   ensures draFaults() == old(draFaults()) + ite(result1 != nil, 1, 0)
//@   ensures result1 == nil ==> (forall i int :: 0 <= i && i < len(result0) ==> result0[i] != nil && result0[i] == tracked(draKey(result0[i].Namespace, result0[i].Name)))
//@   note assumed (library): List returns the tracked objects, no nil entries
//@ end
// AssumeClaimAfterAPICall: success makes the object handed in the tracker's answer for its key; failure changes nothing.
//@ func k8s.io/kubernetes/pkg/scheduler/framework.ResourceClaimTracker.AssumeClaimAfterAPICall
//@   requires claim != nil
//@   modifies family(tracked("")), draFaults()
//@   ensures draFaults() == old(draFaults()) + ite(result != nil, 1, 0)
//@   ensures forall k string :: k != draKey(claim.Namespace, claim.Name) ==> tracked(k) == old(tracked(k))
//@   ensures result == nil ==> tracked(draKey(claim.Namespace, claim.Name)) == claim
//@   ensures result != nil ==> tracked(draKey(claim.Namespace, claim.Name)) == old(tracked(draKey(claim.Namespace, claim.Name)))
//@   note assumed (library): documented "this change is immediately reflected in the result of List() and the other accessors"; the assume-cache may refuse (e.g. stale resource version): then nothing changes
//@ end
// AssumedClaimRestore: the tracker goes back to the informer's version of that one claim.
//@ func k8s.io/kubernetes/pkg/scheduler/framework.ResourceClaimTracker.AssumedClaimRestore
//@   modifies family(tracked(""))
//@   ensures forall k string :: k != draKey(namespace, claimName) ==> tracked(k) == old(tracked(k))
//@   ensures tracked(draKey(namespace, claimName)) == informerObj(draKey(namespace, claimName))
//@   note assumed (library): documented "List() and the other accessors immediately stop reflecting the assumed change, and go back to the informer version"
//@ end
// SignalClaimPendingAllocation: success records the object as the pending allocation of that claim UID.
//@ func k8s.io/kubernetes/pkg/scheduler/framework.ResourceClaimTracker.SignalClaimPendingAllocation
//@   requires allocatedClaim != nil
//@   modifies family(pending("")), draFaults()
//@   ensures draFaults() == old(draFaults()) + ite(result != nil, 1, 0)
//@   ensures forall u string :: u != string(claimUID) ==> pending(u) == old(pending(u))
//@   ensures result == nil ==> pending(string(claimUID)) == allocatedClaim
//@   ensures result != nil ==> pending(string(claimUID)) == old(pending(string(claimUID)))
//@   note assumed (library): the in-flight allocation table of the tracker, keyed by claim UID
//@ end
//@ func k8s.io/kubernetes/pkg/scheduler/framework.ResourceClaimTracker.GatherAllocatedState
//@   modifies draFaults()
//@   ensures draFaults() == old(draFaults()) + ite(result1 != nil, 1, 0)
//@   ensures result1 == nil ==> result0 != nil
//@   note assumed (library): read-only summary of the allocated devices; on success a non-nil state (the plugin dereferences it)
//@ end
//@ func k8s.io/kubernetes/pkg/scheduler/framework.ResourceSliceLister.ListWithDeviceTaintRules
//@   modifies draFaults()
//@   ensures draFaults() == old(draFaults()) + ite(result1 != nil, 1, 0)
//@   note assumed (library): read-only lister
//@ end
//@ func k8s.io/dynamic-resource-allocation/structured.NewAllocator
//@   modifies draFaults()
//@   ensures draFaults() == old(draFaults()) + ite(result1 != nil, 1, 0)
//@   ensures result1 == nil ==> result0 != nil
//@   note assumed (library): constructor of the structured allocator; on success a non-nil allocator
//@ end
// Allocate: "failure" for the plugin is `err != nil || result == nil`; on success there is one result per claim
// (upstream: `result := make([]resourceapi.AllocationResult, len(alloc.claimsToAllocate))`), the plugin indexes [0].
//@ func k8s.io/dynamic-resource-allocation/structured.Allocator.Allocate
//@   modifies draFaults()
//@   ensures draFaults() == old(draFaults()) + ite(result1 != nil || result0 == nil, 1, 0)
//@   ensures result1 == nil && result0 != nil ==> len(result0) == len(claims)
//@   note assumed (library): the device allocator is not modelled; WEAKEST facts only: it writes nothing the plugin's model reads (in particular not the claims handed in), and a successful answer has one AllocationResult per claim. NOTE for C10: the plugin tests `result == nil` and then takes result[0]; a non-nil EMPTY slice would panic - excluded by this assumption only.
//@ end
// generated deep copies (k8s.io/api, no body in the loaded program)
//@ func (*k8s.io/api/resource/v1.ResourceClaim).DeepCopy
//@   trusted
//@   requires in != nil
//@   fresh
//@   ensures result != nil && result.Name == in.Name && result.Namespace == in.Namespace && result.UID == in.UID
//@   ensures len(result.Status.ReservedFor) == len(in.Status.ReservedFor)
//@   ensures forall i int :: 0 <= i && i < len(in.Status.ReservedFor) ==> result.Status.ReservedFor[i].Name == in.Status.ReservedFor[i].Name && result.Status.ReservedFor[i].UID == in.Status.ReservedFor[i].UID && result.Status.ReservedFor[i].Resource == in.Status.ReservedFor[i].Resource && result.Status.ReservedFor[i].APIGroup == in.Status.ReservedFor[i].APIGroup
//@   ensures (result.Status.Allocation == nil) == (in.Status.Allocation == nil)
//@   ensures in.Status.Allocation != nil ==> fresh(result.Status.Allocation) && allocVal(result.Status.Allocation) == allocVal(in.Status.Allocation)
//@   note generated deepcopy: a new object with the same identity, an element-wise copy of the consumer list (in a new array) and a copy of the allocation (new object, same content)
//@ end
//@ func (*k8s.io/api/resource/v1.AllocationResult).DeepCopy
//@   trusted
//@   fresh
//@   ensures (result == nil) == (in == nil)
//@   ensures in != nil ==> allocVal(result) == allocVal(in)
//@   note generated deepcopy: nil for nil, else a new object with the same content
//@ end

// ---- C04 / C01: shared GPU claims belong to one queue -----------------------------------------------------------------
// "Shared GPU claims can be used by multiple pods and must have the correct queue label to be scheduled": a claim that
// the pod references by NAME (not created per pod from a template) and that asks for a GPU device class is accepted
// iff it carries the queue label and the label names the job's queue; every other claim is accepted.
//@ define sharedGpuClaim(podClaim *v1.PodResourceClaim, claim *rapi.ResourceClaim) bool = podClaim.ResourceClaimTemplateName == nil && resources.IsGpuResourceClaim(claim)
//@ define queueLabelOK(drap *draPlugin, job *podgroup_info.PodGroupInfo, claim *rapi.ResourceClaim) bool = claim.Labels[drap.queueLabelKey] != "" && claim.Labels[drap.queueLabelKey] == string(job.Queue)
//@ func (*draPlugin).validateSharedGpuClaimQueueLabel
//@   props C04 C01 C10
//@   requires drap != nil && job != nil && podClaim != nil && claim != nil
//@   pure
//@   ensures [exact] (result == nil) == (!sharedGpuClaim(podClaim, claim) || queueLabelOK(drap, job, claim))
//@   ensures [templateClaimsExempt] podClaim.ResourceClaimTemplateName != nil ==> result == nil
//@   ensures [sharedGpuClaimOfAnotherQueueRejected] sharedGpuClaim(podClaim, claim) && claim.Labels[drap.queueLabelKey] != string(job.Queue) ==> result != nil
//@   ensures [sharedGpuClaimWithoutLabelRejected] sharedGpuClaim(podClaim, claim) && claim.Labels[drap.queueLabelKey] == "" ==> result != nil
//@ end

// log helper: total for every claim (nil allocation = empty string)
//@ func getClaimDevicesString
//@   props C10 C13
//@   requires claim != nil
//@   pure
//@   loop 1
//@     invariant -1 <= rangeindex && rangeindex < len(claim.Status.Allocation.Devices.Results)
//@     decreases len(claim.Status.Allocation.Devices.Results) - rangeindex
//@ end

// ---- C13: allocate / deallocate one claim of a task are mirrors ------------------------------------------------------
// the three places the plugin keeps a task's claim: (1) the tracked claim's consumer list (Status.ReservedFor),
// (2) the tracked claim's Status.Allocation, (3) the task's ResourceClaimInfo entry for the pod-level claim name.
//@ define rciOK(task *pod_info.PodInfo) bool = forall k in task.ResourceClaimInfo :: task.ResourceClaimInfo[k] != nil
//@ define sameRefs(c *rapi.ResourceClaim, o *rapi.ResourceClaim, i int) bool = c.Status.ReservedFor[i].Name == o.Status.ReservedFor[i].Name && c.Status.ReservedFor[i].UID == o.Status.ReservedFor[i].UID && c.Status.ReservedFor[i].Resource == o.Status.ReservedFor[i].Resource && c.Status.ReservedFor[i].APIGroup == o.Status.ReservedFor[i].APIGroup
// c is what allocate leaves in the tracker when o was there before: same identity, o's consumers kept in place, the pod
// appended iff it was not listed yet, an allocation present
//@ define allocatedView(c *rapi.ResourceClaim, o *rapi.ResourceClaim, pod *v1.Pod) bool = c != nil && c != o && c.Name == o.Name && c.Namespace == o.Namespace && c.UID == o.UID && resources.claimReservedFor(c, pod) && c.Status.Allocation != nil && len(c.Status.ReservedFor) == len(o.Status.ReservedFor) + ite(resources.claimReservedFor(o, pod), 0, 1) && (forall i int :: 0 <= i && i < len(o.Status.ReservedFor) ==> sameRefs(c, o, i))
// c is what deallocate leaves when o was there before: the pod is no consumer any more, every other consumer of o is
// still listed, exactly the pod's entries are gone, and the allocation is dropped iff no consumer is left
//@ define deallocIdentity(c *rapi.ResourceClaim, o *rapi.ResourceClaim) bool = c != nil && c != o && c.Name == o.Name && c.Namespace == o.Namespace && c.UID == o.UID
//@ define deallocOthersKept(c *rapi.ResourceClaim, o *rapi.ResourceClaim, pod *v1.Pod) bool = forall g string, r string, n string, u types.UID :: resources.hasRef(o, g, r, n, u) && !resources.isPodQuad(pod, g, r, n, u) ==> resources.hasRef(c, g, r, n, u)
//@ define deallocNoneInvented(c *rapi.ResourceClaim, o *rapi.ResourceClaim, pod *v1.Pod) bool = forall g string, r string, n string, u types.UID :: resources.hasRef(c, g, r, n, u) ==> resources.hasRef(o, g, r, n, u) && !resources.isPodQuad(pod, g, r, n, u)
//@ define deallocShrinks(c *rapi.ResourceClaim, o *rapi.ResourceClaim, pod *v1.Pod) bool = len(c.Status.ReservedFor) <= len(o.Status.ReservedFor) && (len(c.Status.ReservedFor) < len(o.Status.ReservedFor)) == resources.claimReservedFor(o, pod)
//@ define deallocAllocation(c *rapi.ResourceClaim, o *rapi.ResourceClaim) bool = (len(c.Status.ReservedFor) == 0 ==> c.Status.Allocation == nil) && (len(c.Status.ReservedFor) > 0 ==> (c.Status.Allocation == nil) == (o.Status.Allocation == nil) && (o.Status.Allocation != nil ==> allocVal(c.Status.Allocation) == allocVal(o.Status.Allocation)))

//@ func (*draPlugin).allocateResourceClaim
//@   props C13 C12 C10
//@   requires drap != nil && drap.manager != nil && task != nil && task.Pod != nil && podClaim != nil
//@   requires task.ResourceClaimInfo != nil && rciOK(task)
//@   modifies family(tracked("")), draFaults(), task.ResourceClaimInfo[podClaim.Name]
//@   ensures [faultsOnlyGrow] draFaults() >= old(draFaults())
//@   ensures [failsIffUnresolvableOrFault] (result == nil) == (resources.rcResolvable(task.Pod, podClaim) && draFaults() == old(draFaults()))
//@   ensures [failureChangesNothing] result != nil ==> (forall k string :: tracked(k) == old(tracked(k))) && task.ResourceClaimInfo[podClaim.Name] == old(task.ResourceClaimInfo[podClaim.Name]) && (podClaim.Name in task.ResourceClaimInfo) == old(podClaim.Name in task.ResourceClaimInfo)
//@   ensures [onlyThisClaim] forall name string, k string :: resources.rcResolves(task.Pod, podClaim, name) && k != draKey(task.Namespace, name) ==> tracked(k) == old(tracked(k))
//@   ensures [atMostOneClaimTouched] exists name string :: (forall k string :: k != draKey(task.Namespace, name) ==> tracked(k) == old(tracked(k))) && (result == nil ==> resources.rcResolves(task.Pod, podClaim, name))
//@   ensures [trackerListsPodAndAllocation] result == nil ==> (forall name string :: resources.rcResolves(task.Pod, podClaim, name) ==> allocatedView(tracked(draKey(task.Namespace, name)), old(tracked(draKey(task.Namespace, name))), task.Pod))
//@   ensures [taskEntryRecorded] result == nil ==> task.ResourceClaimInfo[podClaim.Name] != nil && fresh(task.ResourceClaimInfo[podClaim.Name]) && task.ResourceClaimInfo[podClaim.Name].Name == podClaim.Name && task.ResourceClaimInfo[podClaim.Name].Allocation != nil
//@   ensures [taskEntryIsTheTrackedAllocation] result == nil ==> (forall name string :: resources.rcResolves(task.Pod, podClaim, name) ==> allocVal(task.ResourceClaimInfo[podClaim.Name].Allocation) == allocVal(tracked(draKey(task.Namespace, name)).Status.Allocation))
//@   ensures [recoversAllocationFromTask] result == nil && old(task.ResourceClaimInfo[podClaim.Name] != nil && task.ResourceClaimInfo[podClaim.Name].Allocation != nil) ==> allocVal(task.ResourceClaimInfo[podClaim.Name].Allocation) == old(allocVal(task.ResourceClaimInfo[podClaim.Name].Allocation))
//@   ensures [keepsExistingSharedAllocation] result == nil && !old(task.ResourceClaimInfo[podClaim.Name] != nil && task.ResourceClaimInfo[podClaim.Name].Allocation != nil) ==> (forall name string :: resources.rcResolves(task.Pod, podClaim, name) && old(tracked(draKey(task.Namespace, name)).Status.Allocation) != nil ==> allocVal(task.ResourceClaimInfo[podClaim.Name].Allocation) == allocVal(old(tracked(draKey(task.Namespace, name)).Status.Allocation)))
//@ end

// C13: "deallocateResourceClaim is the MIRROR of allocateResourceClaim for the same task/claim": what allocate adds to
// the tracked claim's consumer list / allocation and to task.ResourceClaimInfo, deallocate removes, nothing else:
//   (1) the pod's consumer entries are dropped, every other consumer stays;
//   (2) the allocation is dropped iff no consumer is left (a claim shared with other pods keeps its allocation);
//   (3) the task's entry (if there is one) is not deleted - it now carries the tracked claim's allocation pointer, i.e.
//       nil iff no consumer is left; no entry is added; no other entry, no other tracked claim is touched.
//@ func (*draPlugin).deallocateResourceClaim
//@   props C13 C10
//@   requires drap != nil && drap.manager != nil && task != nil && task.Pod != nil && podClaim != nil
//@   modifies family(tracked("")), draFaults(), task.ResourceClaimInfo[podClaim.Name].Allocation
//@   ensures [faultsOnlyGrow] draFaults() >= old(draFaults())
//@   ensures [failsIffUnresolvableOrFault] (result == nil) == (resources.rcResolvable(task.Pod, podClaim) && draFaults() == old(draFaults()))
//@   ensures [failureChangesNothing] result != nil ==> (forall k string :: tracked(k) == old(tracked(k))) && (task.ResourceClaimInfo[podClaim.Name] != nil ==> task.ResourceClaimInfo[podClaim.Name].Allocation == old(task.ResourceClaimInfo[podClaim.Name].Allocation))
//@   ensures [onlyThisClaim] forall name string, k string :: resources.rcResolves(task.Pod, podClaim, name) && k != draKey(task.Namespace, name) ==> tracked(k) == old(tracked(k))
//@   ensures [atMostOneClaimTouched] exists name string :: (forall k string :: k != draKey(task.Namespace, name) ==> tracked(k) == old(tracked(k))) && (result == nil ==> resources.rcResolves(task.Pod, podClaim, name))
//@   ensures [trackerKeepsIdentity] result == nil ==> (forall name string :: resources.rcResolves(task.Pod, podClaim, name) ==> deallocIdentity(tracked(draKey(task.Namespace, name)), old(tracked(draKey(task.Namespace, name)))))
//@   ensures [trackerDropsPod] result == nil ==> (forall name string :: resources.rcResolves(task.Pod, podClaim, name) ==> !resources.claimReservedFor(tracked(draKey(task.Namespace, name)), task.Pod))
//@   ensures [trackerKeepsOtherConsumers] result == nil ==> (forall name string :: resources.rcResolves(task.Pod, podClaim, name) ==> deallocOthersKept(tracked(draKey(task.Namespace, name)), old(tracked(draKey(task.Namespace, name))), task.Pod))
//@   ensures [trackerInventsNoConsumer] result == nil ==> (forall name string :: resources.rcResolves(task.Pod, podClaim, name) ==> deallocNoneInvented(tracked(draKey(task.Namespace, name)), old(tracked(draKey(task.Namespace, name))), task.Pod))
//@   ensures [consumerListShrinksIffPodWasListed] result == nil ==> (forall name string :: resources.rcResolves(task.Pod, podClaim, name) ==> deallocShrinks(tracked(draKey(task.Namespace, name)), old(tracked(draKey(task.Namespace, name))), task.Pod))
//@   ensures [allocationDroppedIffNoConsumerLeft] result == nil ==> (forall name string :: resources.rcResolves(task.Pod, podClaim, name) ==> deallocAllocation(tracked(draKey(task.Namespace, name)), old(tracked(draKey(task.Namespace, name)))))
//@   ensures [taskEntryFollowsTracker] result == nil && task.ResourceClaimInfo[podClaim.Name] != nil ==> (forall name string :: resources.rcResolves(task.Pod, podClaim, name) ==> task.ResourceClaimInfo[podClaim.Name].Allocation == tracked(draKey(task.Namespace, name)).Status.Allocation)
//@   ensures [lastConsumerClearsTaskAllocation] result == nil && task.ResourceClaimInfo[podClaim.Name] != nil ==> (forall name string :: resources.rcResolves(task.Pod, podClaim, name) && len(tracked(draKey(task.Namespace, name)).Status.ReservedFor) == 0 ==> task.ResourceClaimInfo[podClaim.Name].Allocation == nil)
//@   ensures [noEntryAddedOrDeleted] task.ResourceClaimInfo == old(task.ResourceClaimInfo) && (forall n string :: (n in task.ResourceClaimInfo) == old(n in task.ResourceClaimInfo) && task.ResourceClaimInfo[n] == old(task.ResourceClaimInfo[n]))
//@ end

// ---- C13: the event handlers run the per-claim step for EVERY claim of the task ----------------------------------------
// the j-th claim reference of the pod (the handlers iterate over copies of pod.Spec.ResourceClaims[j]): it resolves
// iff it names a claim directly or (template claim) the pod status records a generated name for it
//@ define rcDirectAt(pod *v1.Pod, j int) bool = pod.Spec.ResourceClaims[j].ResourceClaimName != nil
//@ define rcResolvableAt(pod *v1.Pod, j int) bool = pod.Spec.ResourceClaims[j].ResourceClaimName != nil || (pod.Spec.ResourceClaims[j].ResourceClaimTemplateName != nil && (exists i int :: 0 <= i && i < len(pod.Status.ResourceClaimStatuses) && resources.rcStatusHit(pod, pod.Spec.ResourceClaims[j].Name, i)))
// the tracked claim c that reference j of the pod names may take the pod: known, room for one more consumer, and - for a
// shared GPU claim (referenced by name, GPU device class) - labelled with the job's queue
//@ define claimAdmissible(drap *draPlugin, job *podgroup_info.PodGroupInfo, pod *v1.Pod, j int, c *rapi.ResourceClaim) bool = c != nil && len(c.Status.ReservedFor) < 256 && (pod.Spec.ResourceClaims[j].ResourceClaimTemplateName != nil || !resources.IsGpuResourceClaim(c) || queueLabelOK(drap, job, c))
//@ define allocatedNow(c *rapi.ResourceClaim, pod *v1.Pod) bool = c != nil && resources.claimReservedFor(c, pod) && c.Status.Allocation != nil
//@ define releasedNow(c *rapi.ResourceClaim, pod *v1.Pod) bool = c != nil && !resources.claimReservedFor(c, pod) && (len(c.Status.ReservedFor) == 0 ==> c.Status.Allocation == nil)
//@ define otherClaimMapsKept(task *pod_info.PodInfo) bool = forall m map[string]*schedulingv1alpha2.ResourceClaimAllocation, n string :: m != task.ResourceClaimInfo && old(allocated(m)) ==> (n in m) == old(n in m) && m[n] == old(m[n])

// C13 / C12: when a task is (virtually) allocated to a node, EVERY claim reference of its pod that resolves to a claim
// is recorded in task.ResourceClaimInfo with an allocation, and (stated for the directly named claims; for template
// claims the per-claim contract of allocateResourceClaim says the same about the resolved name) reserved for the pod
// with an allocation in the tracker - unless a tracker / allocator call reports a failure (then that one claim is
// skipped, logged, and left exactly as it was). Every tracked claim that changes ends reserved for the pod.
//@ func (*draPlugin).allocateHandlerFn$1
//@   props C13 C12 C10
//@   requires drap != nil && drap.manager != nil && ssn != nil && ssn.ClusterInfo != nil
//@   requires event != nil && event.Task != nil && event.Task.Pod != nil && event.Task.ResourceClaimInfo != nil && rciOK(event.Task)
//@   requires (event.Task.NodeName in ssn.ClusterInfo.Nodes) && ssn.ClusterInfo.Nodes[event.Task.NodeName] != nil
//@   modifies family(tracked("")), draFaults(), event.Task.ResourceClaimInfo[*]
//@   loop 1
//@     invariant -1 <= rangeindex && rangeindex < len(event.Task.Pod.Spec.ResourceClaims)
//@     invariant draFaults() >= old(draFaults())
//@     invariant rangeindex == 0 - 1 ==> draFaults() == old(draFaults()) && (forall k string :: tracked(k) == old(tracked(k)))
//@     invariant event.Task.ResourceClaimInfo == old(event.Task.ResourceClaimInfo) && rciOK(event.Task)
//@     invariant otherClaimMapsKept(event.Task)
//@     invariant draFaults() == old(draFaults()) ==> (forall j int :: 0 <= j && j <= rangeindex && rcDirectAt(event.Task.Pod, j) ==> allocatedNow(tracked(draKey(event.Task.Namespace, *event.Task.Pod.Spec.ResourceClaims[j].ResourceClaimName)), event.Task.Pod))
//@     invariant draFaults() == old(draFaults()) ==> (forall j int :: 0 <= j && j <= rangeindex && rcResolvableAt(event.Task.Pod, j) ==> event.Task.ResourceClaimInfo[event.Task.Pod.Spec.ResourceClaims[j].Name] != nil && event.Task.ResourceClaimInfo[event.Task.Pod.Spec.ResourceClaims[j].Name].Allocation != nil)
//@     invariant forall k string :: tracked(k) != old(tracked(k)) ==> allocatedNow(tracked(k), event.Task.Pod)
//@     invariant forall n string :: event.Task.ResourceClaimInfo[n] != old(event.Task.ResourceClaimInfo[n]) ==> event.Task.ResourceClaimInfo[n] != nil && event.Task.ResourceClaimInfo[n].Name == n && event.Task.ResourceClaimInfo[n].Allocation != nil
//@     invariant forall n string :: old(n in event.Task.ResourceClaimInfo) ==> (n in event.Task.ResourceClaimInfo)
//@     decreases len(event.Task.Pod.Spec.ResourceClaims) - rangeindex
//@   ensures [faultsOnlyGrow] draFaults() >= old(draFaults())
//@   ensures [everyDirectlyNamedClaimAllocated] draFaults() == old(draFaults()) ==> (forall j int :: 0 <= j && j < len(event.Task.Pod.Spec.ResourceClaims) && rcDirectAt(event.Task.Pod, j) ==> allocatedNow(tracked(draKey(event.Task.Namespace, *event.Task.Pod.Spec.ResourceClaims[j].ResourceClaimName)), event.Task.Pod))
//@   ensures [everyResolvableClaimRecorded] draFaults() == old(draFaults()) ==> (forall j int :: 0 <= j && j < len(event.Task.Pod.Spec.ResourceClaims) && rcResolvableAt(event.Task.Pod, j) ==> event.Task.ResourceClaimInfo[event.Task.Pod.Spec.ResourceClaims[j].Name] != nil && event.Task.ResourceClaimInfo[event.Task.Pod.Spec.ResourceClaims[j].Name].Allocation != nil)
//@   ensures [touchedClaimsEndReservedForThePod] forall k string :: tracked(k) != old(tracked(k)) ==> allocatedNow(tracked(k), event.Task.Pod)
//@   ensures [onlyAllocatedEntriesWritten] forall n string :: event.Task.ResourceClaimInfo[n] != old(event.Task.ResourceClaimInfo[n]) ==> event.Task.ResourceClaimInfo[n] != nil && event.Task.ResourceClaimInfo[n].Name == n && event.Task.ResourceClaimInfo[n].Allocation != nil
//@   ensures [noEntryDeleted] event.Task.ResourceClaimInfo == old(event.Task.ResourceClaimInfo) && (forall n string :: old(n in event.Task.ResourceClaimInfo) ==> (n in event.Task.ResourceClaimInfo))
//@   ensures [noClaimsNoEffect] len(event.Task.Pod.Spec.ResourceClaims) == 0 ==> draFaults() == old(draFaults()) && (forall k string :: tracked(k) == old(tracked(k)))
//@ end
//@ func (*draPlugin).allocateHandlerFn
//@   props C13 C12 C10
//@   pure
//@   ensures result != nil
//@ end

// C13: when a task is (virtually) deallocated, EVERY claim reference of its pod is released again: the pod is no consumer
// of the claim any more, and the claim's allocation is gone iff no consumer is left (stated for the directly named
// claims; for template claims see deallocateResourceClaim) - unless a tracker call reports a failure. Every tracked
// claim that changes ends without the pod; no entry of task.ResourceClaimInfo is added or deleted (only the Allocation
// field of existing entries is rewritten), nothing else is touched.
//@ func (*draPlugin).deallocateHandlerFn$1
//@   props C13 C10
//@   requires drap != nil && drap.manager != nil
//@   requires event != nil && event.Task != nil && event.Task.Pod != nil
//@   modifies family(tracked("")), draFaults(), family(event.Task.ResourceClaimInfo[""].Allocation)
//@   note the frame clause names the whole Allocation field family (the engine has no `m[*].f` target); the exact frame is the proved clause [onlyThisTasksEntriesRewritten]
//@   loop 1
//@     invariant -1 <= rangeindex && rangeindex < len(event.Task.Pod.Spec.ResourceClaims)
//@     invariant draFaults() >= old(draFaults())
//@     invariant rangeindex == 0 - 1 ==> draFaults() == old(draFaults()) && (forall k string :: tracked(k) == old(tracked(k)))
//@     invariant event.Task.ResourceClaimInfo == old(event.Task.ResourceClaimInfo)
//@     invariant forall m map[string]*schedulingv1alpha2.ResourceClaimAllocation, n string :: old(allocated(m)) ==> (n in m) == old(n in m) && m[n] == old(m[n])
//@     invariant forall a *schedulingv1alpha2.ResourceClaimAllocation :: a != nil && old(allocated(a)) && a.Allocation != old(a.Allocation) ==> (exists n string :: (n in event.Task.ResourceClaimInfo) && event.Task.ResourceClaimInfo[n] == a)
//@     invariant draFaults() == old(draFaults()) ==> (forall j int :: 0 <= j && j <= rangeindex && rcDirectAt(event.Task.Pod, j) ==> releasedNow(tracked(draKey(event.Task.Namespace, *event.Task.Pod.Spec.ResourceClaims[j].ResourceClaimName)), event.Task.Pod))
//@     invariant forall k string :: tracked(k) != old(tracked(k)) ==> releasedNow(tracked(k), event.Task.Pod)
//@     decreases len(event.Task.Pod.Spec.ResourceClaims) - rangeindex
//@   ensures [faultsOnlyGrow] draFaults() >= old(draFaults())
//@   ensures [everyDirectlyNamedClaimReleased] draFaults() == old(draFaults()) ==> (forall j int :: 0 <= j && j < len(event.Task.Pod.Spec.ResourceClaims) && rcDirectAt(event.Task.Pod, j) ==> releasedNow(tracked(draKey(event.Task.Namespace, *event.Task.Pod.Spec.ResourceClaims[j].ResourceClaimName)), event.Task.Pod))
//@   ensures [touchedClaimsEndWithoutThePod] forall k string :: tracked(k) != old(tracked(k)) ==> releasedNow(tracked(k), event.Task.Pod)
//@   ensures [onlyThisTasksEntriesRewritten] forall a *schedulingv1alpha2.ResourceClaimAllocation :: a != nil && old(allocated(a)) && a.Allocation != old(a.Allocation) ==> (exists n string :: (n in event.Task.ResourceClaimInfo) && event.Task.ResourceClaimInfo[n] == a)
//@   ensures [noEntryAddedOrDeleted] event.Task.ResourceClaimInfo == old(event.Task.ResourceClaimInfo) && (forall n string :: (n in event.Task.ResourceClaimInfo) == old(n in event.Task.ResourceClaimInfo) && event.Task.ResourceClaimInfo[n] == old(event.Task.ResourceClaimInfo[n]))
//@   ensures [noClaimsNoEffect] len(event.Task.Pod.Spec.ResourceClaims) == 0 ==> draFaults() == old(draFaults()) && (forall k string :: tracked(k) == old(tracked(k)))
//@ end
//@ func (*draPlugin).deallocateHandlerFn
//@   props C13 C10
//@   pure
//@   ensures result != nil
//@ end

// ---- C12: the allocation recorded in a live BindRequest is re-assumed at session open ---------------------------------
// "From the moment the scheduler creates a BindRequest until it reaches a terminal outcome, every snapshot charges the
// pod's resources (including ... claimed devices) to the selected node": for a claim allocation of the BindRequest whose
// claim is not yet allocated in the tracker, a copy of the claim that lists the pod as consumer and carries EXACTLY the
// recorded allocation (the pointer stored in the BindRequest entry) is signalled as pending under the claim's UID; an
// already allocated claim, an unknown reference and any tracker failure leave the pending table alone.
//@ define refNamed(pod *v1.Pod, n string) bool = exists i int :: 0 <= i && i < len(pod.Spec.ResourceClaims) && pod.Spec.ResourceClaims[i].Name == n
//@ func (*draPlugin).assumePendingClaim
//@   props C12 C10
//@   requires drap != nil && drap.manager != nil && claim != nil && pod != nil
//@   modifies family(pending("")), draFaults()
//@   loop 1
//@     invariant -1 <= rangeindex && rangeindex < len(pod.Spec.ResourceClaims)
//@     invariant claimName == ""
//@     invariant forall j int :: 0 <= j && j <= rangeindex ==> pod.Spec.ResourceClaims[j].Name != claim.Name
//@     decreases len(pod.Spec.ResourceClaims) - rangeindex
//@   ensures [faultsOnlyGrow] draFaults() >= old(draFaults())
//@   ensures [unknownReferenceReported] !refNamed(pod, claim.Name) ==> result != nil
//@   ensures [failureSignalsNothing] result != nil ==> (forall u string :: pending(u) == old(pending(u)))
//@   ensures [atMostOneSignal] exists u0 string :: forall u string :: u != u0 ==> pending(u) == old(pending(u))
//@   ensures [signalledClaimChargesThePod] forall u string :: pending(u) != old(pending(u)) ==> pending(u) != nil && string(pending(u).UID) == u && pending(u).Namespace == pod.Namespace && resources.claimReservedFor(pending(u), pod) && pending(u).Status.Allocation == claim.Allocation
//@   ensures [signalledClaimIsTheTrackedOne] forall u string :: pending(u) != old(pending(u)) ==> (exists k string :: tracked(k) != nil && string(tracked(k).UID) == u && tracked(k).Name == pending(u).Name && tracked(k).Status.Allocation == nil)
//@   ensures [successWithoutFaultMeansChargedOrAlreadyAllocated] result == nil ==> draFaults() == old(draFaults())
//@ end

// NOT under contract: (*draPlugin).assumePendingClaims (the three nested loops that hand every claim allocation of every
// pod with a live BindRequest to assumePendingClaim). Engine limitation: `for _, pod := range podGroup.GetAllPodsMap()`
// iterates over the UNNAMED result of a call; a loop invariant cannot name that map, so "every value of the map is a
// non-nil pod with a non-nil v1.Pod" (needed for the dereferences in the body) cannot be carried; a formulation over all
// fresh maps (`forall m pod_info.PodsMap :: fresh(m) ==> ...`) is refuted at the loop entry (objects the callee allocates).

// restoreAllClaims: every listed claim goes back to the informer's version; every other key is untouched (C12/C13: the
// tracker state a session starts from is the API state plus the pending allocations re-assumed right afterwards).
//@ func (*draPlugin).restoreAllClaims
//@   props C12 C13 C10
//@   requires drap != nil && drap.manager != nil
//@   modifies family(tracked("")), draFaults()
//@   loop 1
//@     invariant -1 <= rangeindex && rangeindex < len(claims)
//@     invariant draFaults() == old(draFaults())
//@     invariant forall i int :: 0 <= i && i < len(claims) ==> claims[i] != nil
//@     invariant forall k string :: tracked(k) == old(tracked(k)) || tracked(k) == informerObj(k)
//@     invariant forall j int :: 0 <= j && j <= rangeindex ==> tracked(draKey(claims[j].Namespace, claims[j].Name)) == informerObj(draKey(claims[j].Namespace, claims[j].Name))
//@     decreases len(claims) - rangeindex
//@   ensures [listFailureChangesNothing] draFaults() != old(draFaults()) ==> (forall k string :: tracked(k) == old(tracked(k)))
//@   ensures [everyKeyKeptOrRestored] forall k string :: tracked(k) == old(tracked(k)) || tracked(k) == informerObj(k)
//@ end

// ---- C04 / C01 / C10: preFilter ---------------------------------------------------------------------------------------
// A pod with resource claims is rejected when DRA is disabled; otherwise it is accepted only if every claim reference
// resolves, the tracker knows the claim, the claim still has room for a consumer (< ResourceClaimReservedForMaxSize = 256)
// and, for a shared GPU claim, the queue label names the job's queue. Pods without claims are always accepted.
//@ func (*draPlugin).preFilter
//@   props C04 C01 C10
//@   requires drap != nil && drap.manager != nil && task != nil && task.Pod != nil && job != nil
//@   modifies draFaults()
//@   loop 1
//@     invariant -1 <= rangeindex && rangeindex < len(pod.Spec.ResourceClaims)
//@     decreases len(pod.Spec.ResourceClaims) - rangeindex
//@   loop 2
//@     invariant -1 <= rangeindex && rangeindex < len(pod.Spec.ResourceClaims)
//@     invariant draFaults() == old(draFaults())
//@     invariant forall j int :: 0 <= j && j <= rangeindex ==> rcResolvableAt(pod, j)
//@     invariant forall j int :: 0 <= j && j <= rangeindex && rcDirectAt(pod, j) ==> claimAdmissible(drap, job, pod, j, tracked(draKey(pod.Namespace, *pod.Spec.ResourceClaims[j].ResourceClaimName)))
//@     decreases len(pod.Spec.ResourceClaims) - rangeindex
//@   ensures [noClaimsAccepted] len(task.Pod.Spec.ResourceClaims) == 0 ==> result == nil && draFaults() == old(draFaults())
//@   ensures [featureOffRejectsClaims] !drap.enabled && len(task.Pod.Spec.ResourceClaims) > 0 ==> result != nil
//@   ensures [acceptedMeansNoFault] result == nil ==> draFaults() == old(draFaults())
//@   ensures [acceptedMeansEveryClaimResolves] result == nil ==> (forall j int :: 0 <= j && j < len(task.Pod.Spec.ResourceClaims) ==> rcResolvableAt(task.Pod, j))
//@   ensures [acceptedMeansEveryDirectClaimAdmissible] result == nil ==> (forall j int :: 0 <= j && j < len(task.Pod.Spec.ResourceClaims) && rcDirectAt(task.Pod, j) ==> claimAdmissible(drap, job, task.Pod, j, tracked(draKey(task.Pod.Namespace, *task.Pod.Spec.ResourceClaims[j].ResourceClaimName))))
//@ end
