//go:build verif

// Contracts for govc (contract-based deductive verification); comments only.
package taskorder

//@ import pi "github.com/NVIDIA/KAI-scheduler/pkg/scheduler/api/pod_info"

// Task comparator of the "taskorder" plugin (orders the TASKS OF ONE JOB by the pod label
// kai.scheduler/task-priority; sign convention as for the job comparators: -1 = l is ordered first).
// C16 ("priority, then FIFO, decides between equal workloads"): this comparator looks at nothing but the two
// pods' own task-priority labels - it never reads the job, its priority or its creation time, so it cannot
// contradict the job order; for two pods without the label (and for two pods with the same number) it
// returns 0 = undecided, and the next task comparator / the session fallback decides.
//
// rank of one pod: 0 = no label, 1 = label that strconv.Atoi rejects, 2 = numeric label.
//@ define toHas(p *pi.PodInfo) bool = labels.TaskOrderLabelKey in p.Pod.Labels
//@ define toStr(p *pi.PodInfo) string = p.Pod.Labels[labels.TaskOrderLabelKey]
//@ define toNumOk(p *pi.PodInfo) bool = tuple1(strconv.Atoi(toStr(p))) == nil
//@ define toNum(p *pi.PodInfo) int = tuple0(strconv.Atoi(toStr(p)))
//@ define sgnDesc(a int, b int) int = ite(a > b, 0 - 1, ite(a < b, 1, 0))
// what the comparator decides, case by case (this is the reference the property text gives for a
// "task-priority" label: labelled before unlabelled, numeric before malformed, higher number first):
//@ define toCmp(l *pi.PodInfo, r *pi.PodInfo) int = ite(toHas(l) && !toHas(r), 0 - 1, ite(!toHas(l) && toHas(r), 1, ite(!toHas(l) && !toHas(r), 0, ite(!toNumOk(l), 1, ite(!toNumOk(r), 0 - 1, sgnDesc(toNum(l), toNum(r)))))))
//@ define toWF(x interface{}) bool = typeis(x, "*pi.PodInfo") && unbox(x, "*pi.PodInfo") != nil && unbox(x, "*pi.PodInfo").Pod != nil
//@ define bothMalformed(l *pi.PodInfo, r *pi.PodInfo) bool = toHas(l) && toHas(r) && !toNumOk(l) && !toNumOk(r)

//@ func TaskOrderFn
//@   props C16 C10
//@   requires toWF(l) && toWF(r)
//@   pure
//@   ensures result == toCmp(unbox(l, "*pi.PodInfo"), unbox(r, "*pi.PodInfo"))
//@   ensures [threeValued] result == 0 - 1 || result == 0 || result == 1
//@   ensures [labelledFirst] toHas(unbox(l, "*pi.PodInfo")) && !toHas(unbox(r, "*pi.PodInfo")) ==> result == 0 - 1
//@   ensures [higherNumberFirst] toHas(unbox(l, "*pi.PodInfo")) && toHas(unbox(r, "*pi.PodInfo")) && toNumOk(unbox(l, "*pi.PodInfo")) && toNumOk(unbox(r, "*pi.PodInfo")) ==> (result < 0 <==> toNum(unbox(l, "*pi.PodInfo")) > toNum(unbox(r, "*pi.PodInfo")))
//@   ensures [undecidedWithoutLabels] !toHas(unbox(l, "*pi.PodInfo")) && !toHas(unbox(r, "*pi.PodInfo")) ==> result == 0
//@   ensures [undecidedOnEqualNumbers] toHas(unbox(l, "*pi.PodInfo")) && toHas(unbox(r, "*pi.PodInfo")) && toNumOk(unbox(l, "*pi.PodInfo")) && toNumOk(unbox(r, "*pi.PodInfo")) && toNum(unbox(l, "*pi.PodInfo")) == toNum(unbox(r, "*pi.PodInfo")) ==> result == 0
//@   note antisymmetry result(l,r) == -result(r,l) holds EXCEPT when both pods carry a label that strconv.Atoi rejects: then TaskOrderFn(l,r) == 1 and TaskOrderFn(r,l) == 1 (each says "the other one first"); replayed on the real code (see helper report plug2). The unrestricted lemma is therefore kept out of the file; the lemma below states exactly where it holds.
//@   lemma [antisymUnlessBothMalformed] !bothMalformed(unbox(l, "*pi.PodInfo"), unbox(r, "*pi.PodInfo")) ==> result == 0 - toCmp(unbox(r, "*pi.PodInfo"), unbox(l, "*pi.PodInfo"))
//@   lemma [transitive] forall m *pi.PodInfo :: m != nil && m.Pod != nil && result <= 0 && toCmp(unbox(r, "*pi.PodInfo"), m) <= 0 ==> toCmp(unbox(l, "*pi.PodInfo"), m) <= 0
//@   lemma [transitiveStrict] forall m *pi.PodInfo :: m != nil && m.Pod != nil && result < 0 && toCmp(unbox(r, "*pi.PodInfo"), m) < 0 ==> toCmp(unbox(l, "*pi.PodInfo"), m) < 0
//@   lemma [bothMalformedNotAntisym] bothMalformed(unbox(l, "*pi.PodInfo"), unbox(r, "*pi.PodInfo")) ==> result == 1 && toCmp(unbox(r, "*pi.PodInfo"), unbox(l, "*pi.PodInfo")) == 1
//@ end
