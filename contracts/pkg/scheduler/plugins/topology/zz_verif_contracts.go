//go:build verif

// Contracts for govc (contract-based deductive verification); comments only.
package topology

// C04: "nodes lacking the topology's labels are never used for it": a node belongs to a topology iff
// it carries the label KEY of every level (the value may be anything, including "").
//@ define partOf(n *node_info.NodeInfo, levels []kaiv1alpha1.TopologyLevel, cnt int) bool = forall i int :: 0 <= i && i < cnt ==> levels[i].NodeLabel in n.Node.Labels

//@ func isNodePartOfTopology
//@   props C04 C10
//@   requires nodeInfo != nil && nodeInfo.Node != nil
//@   pure
//@   loop 1
//@     invariant 0 - 1 <= rangeindex && rangeindex < len(levels)
//@     invariant partOf(nodeInfo, levels, rangeindex + 1)
//@     decreases len(levels) - rangeindex
//@   ensures result == partOf(nodeInfo, levels, len(levels))
//@ end

// C04: "a workload naming a non-existent topology is not placed": no constraint or an empty topology
// name => (nil, true) = unconstrained; a named topology that is not in TopologyTrees (or maps to nil)
// => found == false; otherwise the named tree.
//@ func (*topologyPlugin).getJobTopology
//@   props C04 C10
//@   requires t != nil && subGroup != nil
//@   pure
//@   ensures [unconstrained] subGroup.topologyConstraint == nil || subGroup.topologyConstraint.Topology == "" ==> result0 == nil && result1
//@   ensures [unknownTopologyNotFound] subGroup.topologyConstraint != nil && subGroup.topologyConstraint.Topology != "" ==> result1 == (t.TopologyTrees[subGroup.topologyConstraint.Topology] != nil) && result0 == t.TopologyTrees[subGroup.topologyConstraint.Topology]
//@ end

// C04 (domain ids): the id of a node's domain at level leafLevelIndex is the "."-join of the node's
// label values for levels 0..leafLevelIndex (top level first). The join itself is strings.Join
// (library, uninterpreted here); what is proved is the tuple that is joined and index safety.
// NOTE: because values may contain ".", the join is not injective (see report: candidate finding).
//@ func calcDomainId
//@   props C04 C10
//@   requires 0 <= leafLevelIndex && leafLevelIndex < len(levels)
//@   loop 1
//@     invariant 0 - 1 <= levelIndex && levelIndex <= leafLevelIndex
//@     invariant len(domainsNames) == leafLevelIndex + 1
//@     invariant forall i int :: levelIndex < i && i <= leafLevelIndex ==> domainsNames[i] == nodeLabels[levels[i].NodeLabel]
//@     decreases levelIndex + 1
//@   lemma [joinedTuple] forall i int :: 0 <= i && i <= leafLevelIndex ==> domainsNames[i] == nodeLabels[levels[i].NodeLabel]
//@ end

// C04: "nodes lacking the topology's labels are never used for it": the returned valid-node map
// contains only nodes of the given set that carry every level's label key, stored under their name;
// and every such node of the set is in it. Index safety of levels[len(domainParts)-1].
// [validNodesHaveAllLabels] / [labelledNodesAreValid] are proved at exit as `lemma` (not exported):
// exported to subSetNodesFn the pair forms a forall-exists / forall instantiation cycle that made every
// obligation of the caller 5-10x slower. What the caller needs is exported separately:
// [validNodeKeysAreNamesOfNodeSet] (keys are Names of nodes of nodeSet) and `fresh 2` (the map is new).
//@ func lowestCommonDomainID
//@   props C04 C10
//@   requires topologyConstraint != nil
//@   requires forall i int :: 0 <= i && i < len(nodeSet) ==> nodeSet[i] != nil && nodeSet[i].Node != nil
//@   fresh 2
//@   loop 1
//@     invariant 0 - 1 <= rangeindex && rangeindex < len(nodeSet)
//@     invariant validNodes != nil && fresh(validNodes)
//@     invariant forall k in validNodes :: validNodes[k] != nil && validNodes[k].Node != nil && validNodes[k].Name == k && partOf(validNodes[k], levels, len(levels)) && (exists i int :: 0 <= i && i <= rangeindex && nodeSet[i] == validNodes[k])
//@     invariant forall i int :: 0 <= i && i <= rangeindex && partOf(nodeSet[i], levels, len(levels)) ==> nodeSet[i].Name in validNodes
//@     decreases len(nodeSet) - rangeindex
//@   loop 2
//@     invariant 0 - 1 <= rangeindex && rangeindex < len(levels)
//@     invariant len(domainParts) == rangeindex + 1
//@     invariant forall k in validNodes :: forall j int :: 0 <= j && j < len(domainParts) ==> domainParts[j] != "" && (validNodes[k].Node.Labels[levels[j].NodeLabel] == domainParts[j] || validNodes[k].Node.Labels[levels[j].NodeLabel] == "")
//@     decreases len(levels) - rangeindex
//@   loop 3
//@     invariant forall k in visited :: validNodes[k].Node.Labels[level.NodeLabel] == value || validNodes[k].Node.Labels[level.NodeLabel] == ""
//@   note what the code really guarantees about the returned prefix (loop 2 invariant 3, proved): every valid node's label value at level j equals part j OR IS THE EMPTY STRING. The property-derived clause "every valid node carries exactly the returned domain's values" does NOT hold: a node with an empty label value is absorbed into whatever domain the other nodes share, and the result depends on map iteration order (replayed on the real code: n1{zone:"",rack:"r1"}, n2{zone:"z1",rack:"r1"} -> ("z1.r1","rack") in 172 of 200 runs, ("root","root") in 28). Reported as candidate finding; clause kept out of the contract.
//@   lemma [validNodesHaveAllLabels] result2 != nil && (forall k in result2 :: result2[k] != nil && result2[k].Name == k && partOf(result2[k], levels, len(levels)) && (exists i int :: 0 <= i && i < len(nodeSet) && nodeSet[i] == result2[k]))
//@   lemma [labelledNodesAreValid] forall i int :: 0 <= i && i < len(nodeSet) && partOf(nodeSet[i], levels, len(levels)) ==> nodeSet[i].Name in result2
//@   ensures [validNodeKeysAreNamesOfNodeSet] forall k in result2 :: exists i int :: 0 <= i && i < len(nodeSet) && nodeSet[i].Name == k
//@   ensures [levelIsRootOrALevel] result1 == rootLevel || (exists j int :: 0 <= j && j < len(levels) && result1 == levels[j].NodeLabel)
//@ end

// C04: "Constraints of nested sub-groups hold simultaneously with those of their parents": the node
// set handed in is the one the parent chose (allocateSubGroupSet -> SubsetNodesFn(..., nodes)); on
// success every node of every returned node set carries the Name of a node of that set (child node
// sets are a subset, by name, of the parent node set). The only thing that establishes this in the code
// is the `validNodes[node.Name]` filter of the final loop (validNodes = third result of
// lowestCommonDomainID, whose keys are Names of nodes of nodeSet); the candidate domains themselves
// are searched over the WHOLE tree. Deliberately stated without mentioning the local `validNodes`.
// C04: "a workload naming a non-existent topology is not placed": unknown topology => no node set.
//
// The unit calls a dozen functions without contracts (tree clean-up/scoring/sorting, fit errors):
// `modifies *`; everything that matters happens after them. validNodes is a `fresh 2` map of the
// callee that is only looked up, so it keeps its contents across those calls.
// Invariants: the inner node sets are freshly allocated arrays (needed to frame them across the inner
// append); the element property is quantified over the CELLS of the inner slices (`incells`) because
// the index form `domainNodeSets[a][b]` made the preservation queries take 7-30 s.
//@ func (*topologyPlugin).subSetNodesFn
//@   props C04
//@   requires t != nil && subGroup != nil && job != nil
//@   requires forall i int :: 0 <= i && i < len(nodeSet) ==> nodeSet[i] != nil && nodeSet[i].Node != nil
//@   modifies *
//@   nopanic off
//@   note nopanic off: panic-freedom needs well-formedness of the topology tree (non-nil TopologyResource, non-nil domains/nodes in the maps, non-nil topologyConstraint of a sub-group that names a topology) which nothing re-establishes after the contract-less (havoc) callees; C04 is about the returned node sets, not about panics.
//@   loop 1
//@     invariant 0 - 1 <= rangeindex && rangeindex < len(jobAllocatableDomains)
//@     invariant forall a int :: 0 <= a && a < len(domainNodeSets) && len(domainNodeSets[a]) > 0 ==> fresh(domainNodeSets[a])
//@     invariant forall a int, r **node_info.NodeInfo :: 0 <= a && a < len(domainNodeSets) && incells(r, domainNodeSets[a]) ==> exists i int :: 0 <= i && i < len(nodeSet) && (*r).Name == old(nodeSet[i].Name)
//@     decreases len(jobAllocatableDomains) - rangeindex
//@   loop 2
//@     invariant forall a int :: 0 <= a && a < len(domainNodeSets) && len(domainNodeSets[a]) > 0 ==> fresh(domainNodeSets[a])
//@     invariant forall a int, r **node_info.NodeInfo :: 0 <= a && a < len(domainNodeSets) && incells(r, domainNodeSets[a]) ==> exists i int :: 0 <= i && i < len(nodeSet) && (*r).Name == old(nodeSet[i].Name)
//@     invariant len(domainNodeSet) > 0 ==> fresh(domainNodeSet)
//@     invariant forall b int :: 0 <= b && b < len(domainNodeSet) ==> exists i int :: 0 <= i && i < len(nodeSet) && domainNodeSet[b].Name == old(nodeSet[i].Name)
//@   ensures [unknownTopologyNoNodeSets] old(subGroup.topologyConstraint != nil && subGroup.topologyConstraint.Topology != "" && t.TopologyTrees[subGroup.topologyConstraint.Topology] == nil) ==> len(result0) == 0 && result1 == nil
//@   ensures [childNodeSetsWithinParentNodeSet] result1 == nil ==> forall a int, b int :: 0 <= a && a < len(result0) && 0 <= b && b < len(result0[a]) ==> exists i int :: 0 <= i && i < len(nodeSet) && result0[a][b].Name == old(nodeSet[i].Name)
//@ end

// C04: "all of its pods placed by a decision, together with its already active pods, lie in one
// domain": a domain "has an active pod of the job" iff some pod of some pod set is in an
// active-allocated status and its node is one of the domain's nodes. getRelevantDomainsWithAllocatedPods
// keeps only (sub-trees of) required-level domains for which this holds.
//@ define activeIn(p *pod_info.PodInfo, d *DomainInfo) bool = pod_status.aaClass(p.Status) && d.Nodes[p.NodeName] != nil

//@ func hasActiveJobPodInDomain
//@   props C04
//@   requires domain != nil
//@   requires forall k in podSets :: podSets[k] != nil && (forall u in podSets[k].podInfos :: podSets[k].podInfos[u] != nil)
//@   pure
//@   loop 1
//@     invariant forall k in visited :: forall u in podSets[k].podInfos :: !activeIn(podSets[k].podInfos[u], domain)
//@   loop 2
//@     invariant forall u in visited :: !activeIn(podSet.podInfos[u], domain)
//@   ensures [activePodOnDomainNode] result == (exists k in podSets :: exists u in podSets[k].podInfos :: activeIn(podSets[k].podInfos[u], domain))
//@ end

// ---- C05: node scores of one job never restrict the next --------------------------------------------------------------
// C05 "allocate pops every ready pending job and tries all nodes in score order": nodeOrderFn drops (returns an error
// for) every node that is missing from a score map it finds for the task's sub-group or one of its parent sets, so a
// score map left over from an EARLIER job (e.g. under the root set "") would hide nodes from every later job. The
// pre-job hook therefore has to leave NO entry at all (a round-3 seeded change that deleted only the leaf pod sets of
// the next job was missed before this contract existed).
//@ func (*topologyPlugin).preJobAllocationFn
//@   props C05 C04
//@   requires t != nil
//@   modifies t.subGroupNodeScores
//@   ensures [noScoreOfAnEarlierJobSurvives] t.subGroupNodeScores != nil && (forall k subgroupName :: !(k in t.subGroupNodeScores))
//@ end
