//go:build verif

// Contracts for govc (contract-based deductive verification); comments only.
package reclaimable

//@ import ri "github.com/NVIDIA/KAI-scheduler/pkg/scheduler/api/resource_info"

// C07: "The reclaiming queue stays within its fair share after receiving the resources, a
// non-preemptible reclaimer keeps its queue's non-preemptible allocation within deserved quota".
//@ define withinFair(q *rs.QueueAttributes, res *ri.Resource) bool = rs.leq(q.CPU.Allocated + res.milliCpu, q.CPU.FairShare) && rs.leq(q.Memory.Allocated + res.memory, q.Memory.FairShare) && rs.leq(q.GPU.Allocated + res.gpus + ri.migGpus(res), q.GPU.FairShare)
//@ define nonPreemptWithinDeserved(q *rs.QueueAttributes, res *ri.Resource) bool = rs.leq(q.CPU.AllocatedNotPreemptible + res.milliCpu, q.CPU.Deserved) && rs.leq(q.Memory.AllocatedNotPreemptible + res.memory, q.Memory.Deserved) && rs.leq(q.GPU.AllocatedNotPreemptible + res.gpus + ri.migGpus(res), q.GPU.Deserved)

//@ func (*Reclaimable).CanReclaimResources
//@   props C07 C05
//@   requires reclaimer != nil && reclaimer.RequiredResources != nil
//@   requires reclaimer.Queue in queues && queues[reclaimer.Queue] != nil && rs.cacheOK(queues[reclaimer.Queue])
//@   modifies queues[reclaimer.Queue].lastFairShare, queues[reclaimer.Queue].lastDeservedShare
//@   ensures result == (withinFair(queues[reclaimer.Queue], reclaimer.RequiredResources) && (reclaimer.IsPreemptable || nonPreemptWithinDeserved(queues[reclaimer.Queue], reclaimer.RequiredResources)))
//@   ensures rs.cacheOK(queues[reclaimer.Queue])
//@ end

// ratio allocated/fairShare with the documented edge cases (fair share 0 -> +Inf or 0, unlimited -> 0)
//@ define ratio(a real, f real) real = ite(f == 0.0, ite(a > 0.0, pinf(), 0.0), ite(f == -1.0, 0.0, a / f))
// C07: "no ancestor of the reclaimer ends both above its own fair share and at least as saturated as the sibling it took from"
//@ define satBad(ra real, rf real, sa real, sf real, m real) bool = !(rf == -1.0 && sf == -1.0) && ratio(ra, rf) > 1.0 && sf > 0.0 && ratio(ra, rf) * m >= ratio(sa, sf)

//@ func fairShareSaturationRatio
//@   props C07
//@   ieee
//@   pure
//@   ensures result == ratio(allocated, fairShare)
//@ end

//@ func (*Reclaimable).isFairShareSaturationLowerPerResource
//@   props C07
//@   ieee
//@   requires r != nil
//@   pure
//@   loop 1
//@     invariant forall k in visited :: !satBad(reclaimerAllocated[k], reclaimerFair[k], siblingAlloc[k], siblingFair[k], r.saturationMultiplier)
//@   ensures result == (forall k in involvedResources :: !satBad(reclaimerAllocated[k], reclaimerFair[k], siblingAlloc[k], siblingFair[k], r.saturationMultiplier))
//@ end

// ---- involved resource names ---------------------------------------------------------------
// A resource name is "involved" iff some non-nil element of the slice requests a strictly positive
// amount of it (GPU: the whole-GPU field `gpus`; MIG instances are not looked at by the code).
//@ define cpuInv(s []*ri.Resource, n int) bool = exists i int :: 0 <= i && i < n && s[i] != nil && s[i].milliCpu > 0.0
//@ define memInv(s []*ri.Resource, n int) bool = exists i int :: 0 <= i && i < n && s[i] != nil && s[i].memory > 0.0
//@ define gpuInv(s []*ri.Resource, n int) bool = exists i int :: 0 <= i && i < n && s[i] != nil && s[i].gpus > 0.0

//@ func getInvolvedResourcesNames
//@   props C07
//@   fresh
//@   loop 1
//@     invariant 0 - 1 <= rangeindex && rangeindex < len(resources)
//@     invariant involvedResources != nil
//@     invariant ("CPU" in involvedResources) == cpuInv(resources, rangeindex + 1)
//@     invariant ("Memory" in involvedResources) == memInv(resources, rangeindex + 1)
//@     invariant ("GPU" in involvedResources) == gpuInv(resources, rangeindex + 1)
//@     invariant forall k in involvedResources :: k == "CPU" || k == "Memory" || k == "GPU"
//@     decreases len(resources) - rangeindex
//@   ensures result != nil
//@   ensures ("CPU" in result) == cpuInv(resources, len(resources))
//@   ensures ("Memory" in result) == memInv(resources, len(resources))
//@   ensures ("GPU" in result) == gpuInv(resources, len(resources))
//@   ensures forall k in result :: k == "CPU" || k == "Memory" || k == "GPU"
//@ end

// ---- queue tree ------------------------------------------------------------------------------
// Well-formed queue map: every value is non-nil and stored under its own UID (proportion.go builds
// the map as queues[q.UID] = q).
//@ define wfQueues(queues map[common_info.QueueID]*rs.QueueAttributes) bool = forall k in queues :: queues[k] != nil && queues[k].UID == k
// Acyclicity of the parent relation, witnessed by a ranking that strictly decreases towards the root.
// NOT established by the current code (C10: UpdateQueueHierarchy accepts parent cycles); it is the
// termination precondition of every parent-chain loop in this package.
//@ declare rank(q common_info.QueueID) int
//@ define acyclic(queues map[common_info.QueueID]*rs.QueueAttributes) bool = forall k in queues :: rank(k) >= 0 && (queues[k].ParentQueue in queues ==> rank(queues[k].ParentQueue) < rank(k))
