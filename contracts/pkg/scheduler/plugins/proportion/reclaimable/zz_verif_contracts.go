//go:build verif

// Contracts for govc (contract-based deductive verification); comments only.
package reclaimable

//@ import ri "github.com/NVIDIA/KAI-scheduler/pkg/scheduler/api/resource_info"

// C07: "The reclaiming queue stays within its fair share after receiving the resources, a
// non-preemptible reclaimer keeps its queue's non-preemptible allocation within deserved quota".
//@ define withinFair(q *rs.QueueAttributes, res *ri.Resource) bool = rs.leq(q.CPU.Allocated + res.milliCpu, q.CPU.FairShare) && rs.leq(q.Memory.Allocated + res.memory, q.Memory.FairShare) && rs.leq(q.GPU.Allocated + res.gpus + ri.migGpus(res), q.GPU.FairShare)
//@ define nonPreemptWithinDeserved(q *rs.QueueAttributes, res *ri.Resource) bool = rs.leq(q.CPU.AllocatedNotPreemptible + res.milliCpu, q.CPU.Deserved) && rs.leq(q.Memory.AllocatedNotPreemptible + res.memory, q.Memory.Deserved) && rs.leq(q.GPU.AllocatedNotPreemptible + res.gpus + ri.migGpus(res), q.GPU.Deserved)

//@ func (*Reclaimable).CanReclaimResources
//@   props C07 C05
//@   requires reclaimer != nil && reclaimer.RequiredResources != nil
//@   requires reclaimer.Queue in queues && queues[reclaimer.Queue] != nil && rs.cacheOK(queues[reclaimer.Queue])
//@   modifies queues[reclaimer.Queue].lastFairShare, queues[reclaimer.Queue].lastDeservedShare
//@   ensures result == (withinFair(queues[reclaimer.Queue], reclaimer.RequiredResources) && (reclaimer.IsPreemptable || nonPreemptWithinDeserved(queues[reclaimer.Queue], reclaimer.RequiredResources)))
//@   ensures rs.cacheOK(queues[reclaimer.Queue])
//@ end

// ratio allocated/fairShare with the documented edge cases (fair share 0 -> +Inf or 0, unlimited -> 0)
//@ define ratio(a real, f real) real = ite(f == 0.0, ite(a > 0.0, pinf(), 0.0), ite(f == -1.0, 0.0, a / f))
// C07: "no ancestor of the reclaimer ends both above its own fair share and at least as saturated as the sibling it took from"
//@ define satBad(ra real, rf real, sa real, sf real, m real) bool = !(rf == -1.0 && sf == -1.0) && ratio(ra, rf) > 1.0 && sf > 0.0 && ratio(ra, rf) * m >= ratio(sa, sf)

//@ func fairShareSaturationRatio
//@   props C07
//@   ieee
//@   pure
//@   ensures result == ratio(allocated, fairShare)
//@ end

//@ func (*Reclaimable).isFairShareSaturationLowerPerResource
//@   props C07
//@   ieee
//@   requires r != nil
//@   pure
//@   loop 1
//@     invariant forall k in visited :: !satBad(reclaimerAllocated[k], reclaimerFair[k], siblingAlloc[k], siblingFair[k], r.saturationMultiplier)
//@   ensures result == (forall k in involvedResources :: !satBad(reclaimerAllocated[k], reclaimerFair[k], siblingAlloc[k], siblingFair[k], r.saturationMultiplier))
//@ end
