//go:build verif

// Contracts for govc (contract-based deductive verification); comments only.
package reclaimable

//@ import ri "github.com/NVIDIA/KAI-scheduler/pkg/scheduler/api/resource_info"

// C07: "The reclaiming queue stays within its fair share after receiving the resources, a
// non-preemptible reclaimer keeps its queue's non-preemptible allocation within deserved quota".
//@ define withinFair(q *rs.QueueAttributes, res *ri.Resource) bool = rs.leq(q.CPU.Allocated + res.milliCpu, q.CPU.FairShare) && rs.leq(q.Memory.Allocated + res.memory, q.Memory.FairShare) && rs.leq(q.GPU.Allocated + res.gpus + ri.migGpus(res), q.GPU.FairShare)
//@ define nonPreemptWithinDeserved(q *rs.QueueAttributes, res *ri.Resource) bool = rs.leq(q.CPU.AllocatedNotPreemptible + res.milliCpu, q.CPU.Deserved) && rs.leq(q.Memory.AllocatedNotPreemptible + res.memory, q.Memory.Deserved) && rs.leq(q.GPU.AllocatedNotPreemptible + res.gpus + ri.migGpus(res), q.GPU.Deserved)

//@ func (*Reclaimable).CanReclaimResources
//@   props C07 C05
//@   requires reclaimer != nil && reclaimer.RequiredResources != nil
//@   requires reclaimer.Queue in queues && queues[reclaimer.Queue] != nil && rs.cacheOK(queues[reclaimer.Queue])
//@   modifies queues[reclaimer.Queue].lastFairShare, queues[reclaimer.Queue].lastDeservedShare
//@   ensures result == (withinFair(queues[reclaimer.Queue], reclaimer.RequiredResources) && (reclaimer.IsPreemptable || nonPreemptWithinDeserved(queues[reclaimer.Queue], reclaimer.RequiredResources)))
//@   ensures rs.cacheOK(queues[reclaimer.Queue])
//@   ensures [cachesKeptOrNew] strategies.cachesKeptOrNew(queues[reclaimer.Queue])
//@ end

// ratio allocated/fairShare with the documented edge cases (fair share 0 -> +Inf or 0, unlimited -> 0)
//@ define ratio(a real, f real) real = ite(f == 0.0, ite(a > 0.0, pinf(), 0.0), ite(f == -1.0, 0.0, a / f))
// C07: "no ancestor of the reclaimer ends both above its own fair share and at least as saturated as the sibling it took from"
//@ define satBad(ra real, rf real, sa real, sf real, m real) bool = !(rf == -1.0 && sf == -1.0) && ratio(ra, rf) > 1.0 && sf > 0.0 && ratio(ra, rf) * m >= ratio(sa, sf)

// satU is satBad behind an uninterpreted symbol: callers of isFairShareSaturationLowerPerResource reason about the
// saturation condition as an opaque predicate (the IEEE case analysis stays inside that one unit). Its defining
// equation is the `assume` of isFairShareSaturationLowerPerResource (a definition of a fresh ghost symbol, not a
// restriction on inputs).
//@ declare satU(ra (float64), rf (float64), sa (float64), sf (float64), m (float64)) bool

//@ func fairShareSaturationRatio
//@   props C07
//@   ieee
//@   pure
//@   ensures result == ratio(allocated, fairShare)
//@ end

//@ func (*Reclaimable).isFairShareSaturationLowerPerResource
//@   props C07
//@   ieee
//@   assume forall ra (float64), rf (float64), sa (float64), sf (float64), m (float64) :: satU(ra, rf, sa, sf, m) == satBad(ra, rf, sa, sf, m)
//@   requires r != nil
//@   pure
//@   loop 1
//@     invariant forall k in visited :: !satBad(reclaimerAllocated[k], reclaimerFair[k], siblingAlloc[k], siblingFair[k], r.saturationMultiplier)
//@   lemma [saturation] result == (forall k in involvedResources :: !satBad(reclaimerAllocated[k], reclaimerFair[k], siblingAlloc[k], siblingFair[k], r.saturationMultiplier))
//@   ensures result == (forall k in involvedResources :: !satU(reclaimerAllocated[k], reclaimerFair[k], siblingAlloc[k], siblingFair[k], r.saturationMultiplier))
//@ end

// ---- involved resource names ---------------------------------------------------------------
// A resource name is "involved" iff some non-nil element of the slice requests a strictly positive
// amount of it (GPU: the whole-GPU field `gpus`; MIG instances are not looked at by the code).
//@ define cpuInv(s []*ri.Resource, n int) bool = exists i int :: 0 <= i && i < n && s[i] != nil && s[i].milliCpu > 0.0
//@ define memInv(s []*ri.Resource, n int) bool = exists i int :: 0 <= i && i < n && s[i] != nil && s[i].memory > 0.0
//@ define gpuInv(s []*ri.Resource, n int) bool = exists i int :: 0 <= i && i < n && s[i] != nil && s[i].gpus > 0.0

//@ func getInvolvedResourcesNames
//@   props C07
//@   fresh
//@   loop 1
//@     invariant 0 - 1 <= rangeindex && rangeindex < len(resources)
//@     invariant involvedResources != nil
//@     invariant ("CPU" in involvedResources) == cpuInv(resources, rangeindex + 1)
//@     invariant ("Memory" in involvedResources) == memInv(resources, rangeindex + 1)
//@     invariant ("GPU" in involvedResources) == gpuInv(resources, rangeindex + 1)
//@     invariant forall k in involvedResources :: k == "CPU" || k == "Memory" || k == "GPU"
//@     decreases len(resources) - rangeindex
//@   ensures result != nil
//@   ensures ("CPU" in result) == cpuInv(resources, len(resources))
//@   ensures ("Memory" in result) == memInv(resources, len(resources))
//@   ensures ("GPU" in result) == gpuInv(resources, len(resources))
//@   ensures forall k in result :: k == "CPU" || k == "Memory" || k == "GPU"
//@ end

// ---- queue tree ------------------------------------------------------------------------------
// Well-formed queue map: every value is non-nil and stored under its own UID (proportion.go builds
// the map as queues[q.UID] = q).
//@ define wfQueues(queues map[common_info.QueueID]*rs.QueueAttributes) bool = forall k in queues :: queues[k] != nil && queues[k].UID == k
// Acyclicity of the parent relation, witnessed by a ranking that strictly decreases towards the root.
// NOT established by the current code (C10: UpdateQueueHierarchy accepts parent cycles); it is the
// termination precondition of every parent-chain loop in this package.
//@ declare rank(q common_info.QueueID) int
//@ define acyclic(queues map[common_info.QueueID]*rs.QueueAttributes) bool = forall k in queues :: rank(k) >= 0 && (queues[k].ParentQueue in queues ==> rank(queues[k].ParentQueue) < rank(k))
// Ghost ancestor relation of the queue tree: anc(q, a) <=> a is q itself or an ancestor of q. It is
// DEFINED by ancRoot+ancStep (on an acyclic map this recursion has exactly one solution, the reflexive-
// transitive closure of "parent"); ancSelf/ancUp/ancIn/ancSib (two different ancestors-or-self of one queue never have the same parent) are consequences by induction on rank that SMT
// cannot derive and are therefore stated with the definition. The parent is a bound variable (p) so that
// instantiating these facts never creates new anc() terms (no matching loops).
//@ declare anc(q common_info.QueueID, a common_info.QueueID) bool
//@ define ancSelf(queues map[common_info.QueueID]*rs.QueueAttributes) bool = forall q in queues :: anc(q, q)
//@ define ancRoot(queues map[common_info.QueueID]*rs.QueueAttributes) bool = forall q common_info.QueueID, a common_info.QueueID :: q in queues && !(queues[q].ParentQueue in queues) ==> (anc(q, a) == (a == q))
//@ define ancStep(queues map[common_info.QueueID]*rs.QueueAttributes) bool = forall q common_info.QueueID, p common_info.QueueID, a common_info.QueueID :: q in queues && p in queues && queues[q].ParentQueue == p ==> (anc(q, a) == (a == q || anc(p, a)))
//@ define ancIn(queues map[common_info.QueueID]*rs.QueueAttributes) bool = forall q common_info.QueueID, a common_info.QueueID :: q in queues && anc(q, a) ==> a in queues && rank(a) <= rank(q)
//@ define ancUp(queues map[common_info.QueueID]*rs.QueueAttributes) bool = forall q common_info.QueueID, a common_info.QueueID, p common_info.QueueID :: q in queues && anc(q, a) && p in queues && queues[a].ParentQueue == p ==> anc(q, p)
//@ define ancSib(queues map[common_info.QueueID]*rs.QueueAttributes) bool = forall q common_info.QueueID, a common_info.QueueID, b common_info.QueueID :: q in queues && anc(q, a) && anc(q, b) && a != b ==> queues[a].ParentQueue != queues[b].ParentQueue
//@ define treeOK(queues map[common_info.QueueID]*rs.QueueAttributes) bool = wfQueues(queues) && acyclic(queues) && ancSelf(queues) && ancRoot(queues) && ancStep(queues) && ancIn(queues) && ancUp(queues) && ancSib(queues)

// C07 "taken at the hierarchy level where it diverges": the path is the parent chain of queueId,
// root first: last element is queues[queueId], each element is followed by one of its children
// (element i-1 is the parent of element i), the first element has no parent in the map.
//@ func (*Reclaimable).getHierarchyPath
//@   props C07 C10
//@   requires treeOK(queues)
//@   loop 1
//@     invariant found ==> queue != nil && queue.UID in queues && queues[queue.UID] == queue && anc(queueId, queue.UID) && queueId in queues
//@     invariant len(hierarchyPath) == 0 ==> found == (queueId in queues) && (found ==> queue == queues[queueId])
//@     invariant len(hierarchyPath) > 0 ==> queueId in queues && hierarchyPath[len(hierarchyPath) - 1] == queues[queueId]
//@     invariant len(hierarchyPath) > 0 ==> found == (hierarchyPath[0].ParentQueue in queues) && (found ==> queue == queues[hierarchyPath[0].ParentQueue])
//@     invariant forall i int :: 0 <= i && i < len(hierarchyPath) ==> hierarchyPath[i] != nil && hierarchyPath[i].UID in queues && queues[hierarchyPath[i].UID] == hierarchyPath[i] && anc(queueId, hierarchyPath[i].UID)
//@     invariant forall i int :: 0 < i && i < len(hierarchyPath) ==> hierarchyPath[i].ParentQueue in queues && hierarchyPath[i - 1] == queues[hierarchyPath[i].ParentQueue]
//@     invariant forall p **rs.QueueAttributes :: !fresh(p) ==> *p == old(*p)
//@     decreases ite(found, rank(queue.UID) + 1, 0)
//@   ensures [empty] !(queueId in queues) ==> len(result) == 0
//@   ensures [leaf] queueId in queues ==> len(result) >= 1 && result[len(result) - 1] == queues[queueId]
//@   ensures [root] len(result) > 0 ==> !(result[0].ParentQueue in queues)
//@   ensures [members] forall i int :: 0 <= i && i < len(result) ==> result[i] != nil && result[i].UID in queues && queues[result[i].UID] == result[i] && anc(queueId, result[i].UID)
//@   ensures [chain] forall i int :: 0 < i && i < len(result) ==> result[i].ParentQueue in queues && result[i - 1] == queues[result[i].ParentQueue]
//@ end

// C07 "(taken at the hierarchy level where it diverges from the reclaimer's queue)": the returned pair
// are the ancestors-or-self of the reclaimer's and the reclaimee's queue at the first level where the
// two root paths differ, i.e. two distinct queues with the same parent (or two distinct top-level
// queues); when the paths never differ (one queue is an ancestor-or-self of the other) both results are
// that ancestor.
//@ define sameParent(queues map[common_info.QueueID]*rs.QueueAttributes, a *rs.QueueAttributes, b *rs.QueueAttributes) bool = (a.ParentQueue in queues) == (b.ParentQueue in queues) && (a.ParentQueue in queues ==> a.ParentQueue == b.ParentQueue)
//@ func (*Reclaimable).getLeveledQueues
//@   props C07
//@   requires treeOK(queues)
//@   loop 1
//@     invariant 0 <= i && i <= minLength
//@     invariant i == 0 ==> reclaimerQueue == nil && reclaimeeQueue == nil
//@     invariant i > 0 ==> reclaimerQueue == reclaimers[i - 1] && reclaimeeQueue == reclaimees[i - 1] && reclaimerQueue.UID == reclaimeeQueue.UID
//@     decreases minLength - i
//@   ensures [nil] (result0 == nil) == !(reclaimerQueueID in queues && reclaimeeQueueID in queues) && (result1 == nil) == (result0 == nil)
//@   ensures [ancestors] result0 != nil ==> anc(reclaimerQueueID, result0.UID) && anc(reclaimeeQueueID, result1.UID) && queues[result0.UID] == result0 && queues[result1.UID] == result1
//@   ensures [divergence] result0 != nil && result0.UID != result1.UID ==> sameParent(queues, result0, result1)
//@   ensures [nested] result0 != nil && result0.UID == result1.UID ==> result0 == result1 && (result0 == queues[reclaimerQueueID] || result0 == queues[reclaimeeQueueID])
//@ end

// ---- remaining shares ----------------------------------------------------------------------------
// remaining-share map: every entry is a distinct non-nil quantities object
//@ define remOK(rem map[common_info.QueueID]rs.ResourceQuantities) bool = (forall a in rem :: rem[a] != nil && allocated(rem[a])) && (forall a common_info.QueueID, b common_info.QueueID :: a in rem && b in rem && a != b ==> rem[a] != rem[b])
// involved-resource sets: every entry is a distinct non-nil set object
//@ define invOK(inv map[common_info.QueueID]map[rs.ResourceName]any) bool = (forall a in inv :: inv[a] != nil && allocated(inv[a])) && (forall a common_info.QueueID, b common_info.QueueID :: a in inv && b in inv && a != b ==> inv[a] != inv[b])
// quantities of a victim, as utils.QuantifyResource computes them
//@ define qCpu(res *ri.Resource) real = res.milliCpu
//@ define qMem(res *ri.Resource) real = res.memory
//@ define qGpu(res *ri.Resource) real = res.gpus + ri.migGpus(res)

// C07 (design): "for every queue touched, remaining[q] = allocated(q) - victims already processed under q":
// one call subtracts one victim from the reclaimee queue and from every ancestor of it (entries are
// initialised from Allocated when absent); every other entry is unchanged; the loop terminates.
//@ func (*Reclaimable).subtractReclaimedResources
//@   props C07 C10
//@   requires reclaimedResources != nil && remainingResourcesMap != nil && involvedResourcesByQueue != nil
//@   requires treeOK(queues)
//@   requires remOK(remainingResourcesMap)
//@   requires invOK(involvedResourcesByQueue) && reclaimeeQueueID in involvedResourcesByQueue
//@   modifies remainingResourcesMap[*], involvedResourcesByQueue[*], family(remainingResourcesMap[reclaimeeQueueID][*]), family(involvedResourcesByQueue[reclaimeeQueueID][*])
//@   loop 1
//@     invariant ok ==> queue != nil && queue.UID in queues && queues[queue.UID] == queue && anc(reclaimeeQueueID, queue.UID) && reclaimeeQueueID in queues
//@     invariant remOK(remainingResourcesMap)
//@     invariant forall a common_info.QueueID :: reclaimeeQueueID in queues && anc(reclaimeeQueueID, a) && !(ok && anc(queue.UID, a)) ==> a in remainingResourcesMap && remainingResourcesMap[a]["CPU"] == ite(old(a in remainingResourcesMap), old(remainingResourcesMap[a]["CPU"]), queues[a].CPU.Allocated) - qCpu(reclaimedResources) && remainingResourcesMap[a]["Memory"] == ite(old(a in remainingResourcesMap), old(remainingResourcesMap[a]["Memory"]), queues[a].Memory.Allocated) - qMem(reclaimedResources) && remainingResourcesMap[a]["GPU"] == ite(old(a in remainingResourcesMap), old(remainingResourcesMap[a]["GPU"]), queues[a].GPU.Allocated) - qGpu(reclaimedResources)
//@     invariant forall a common_info.QueueID :: !(reclaimeeQueueID in queues && anc(reclaimeeQueueID, a)) || (ok && anc(queue.UID, a)) ==> (a in remainingResourcesMap) == old(a in remainingResourcesMap) && remainingResourcesMap[a] == old(remainingResourcesMap[a]) && remainingResourcesMap[a]["CPU"] == old(remainingResourcesMap[a]["CPU"]) && remainingResourcesMap[a]["Memory"] == old(remainingResourcesMap[a]["Memory"]) && remainingResourcesMap[a]["GPU"] == old(remainingResourcesMap[a]["GPU"])
//@     invariant forall a common_info.QueueID :: old(a in remainingResourcesMap) ==> a in remainingResourcesMap && remainingResourcesMap[a] == old(remainingResourcesMap[a])
//@     invariant forall a common_info.QueueID :: a in remainingResourcesMap && !old(a in remainingResourcesMap) ==> fresh(remainingResourcesMap[a])
//@     invariant forall m rs.ResourceQuantities, k rs.ResourceName :: !fresh(m) && (forall a common_info.QueueID :: old(a in remainingResourcesMap) ==> old(remainingResourcesMap[a]) != m) ==> m[k] == old(m[k]) && (k in m) == old(k in m)
//@     invariant invOK(involvedResourcesByQueue)
//@     invariant forall k rs.ResourceName :: (k in involvedResourcesByQueue[reclaimeeQueueID]) == old(k in involvedResourcesByQueue[reclaimeeQueueID])
//@     invariant forall a common_info.QueueID :: reclaimeeQueueID in queues && anc(reclaimeeQueueID, a) && !(ok && anc(queue.UID, a)) ==> a in involvedResourcesByQueue
//@     invariant forall a common_info.QueueID, k rs.ResourceName :: reclaimeeQueueID in queues && anc(reclaimeeQueueID, a) && !(ok && anc(queue.UID, a)) ==> ((k in involvedResourcesByQueue[a]) == (old(k in involvedResourcesByQueue[a]) || old(k in involvedResourcesByQueue[reclaimeeQueueID])))
//@     invariant forall a common_info.QueueID :: !(reclaimeeQueueID in queues && anc(reclaimeeQueueID, a)) || (ok && anc(queue.UID, a)) ==> (a in involvedResourcesByQueue) == old(a in involvedResourcesByQueue) && involvedResourcesByQueue[a] == old(involvedResourcesByQueue[a])
//@     invariant forall a common_info.QueueID, k rs.ResourceName :: !(reclaimeeQueueID in queues && anc(reclaimeeQueueID, a)) || (ok && anc(queue.UID, a)) ==> (k in old(involvedResourcesByQueue[a])) == old(k in involvedResourcesByQueue[a])
//@     invariant forall a common_info.QueueID :: old(a in involvedResourcesByQueue) ==> a in involvedResourcesByQueue && involvedResourcesByQueue[a] == old(involvedResourcesByQueue[a])
//@     invariant forall a common_info.QueueID :: a in involvedResourcesByQueue && !old(a in involvedResourcesByQueue) ==> fresh(involvedResourcesByQueue[a])
//@     invariant forall m map[rs.ResourceName]any, k rs.ResourceName :: !fresh(m) && (forall a common_info.QueueID :: old(a in involvedResourcesByQueue) ==> old(involvedResourcesByQueue[a]) != m) ==> (k in m) == old(k in m) && m[k] == old(m[k])
//@     decreases ite(ok, rank(queue.UID) + 1, 0)
//@   ensures remOK(remainingResourcesMap)
//@   ensures [subCPU] forall a common_info.QueueID :: reclaimeeQueueID in queues && anc(reclaimeeQueueID, a) ==> a in remainingResourcesMap && remainingResourcesMap[a]["CPU"] == ite(old(a in remainingResourcesMap), old(remainingResourcesMap[a]["CPU"]), queues[a].CPU.Allocated) - qCpu(reclaimedResources)
//@   ensures [subMemory] forall a common_info.QueueID :: reclaimeeQueueID in queues && anc(reclaimeeQueueID, a) ==> remainingResourcesMap[a]["Memory"] == ite(old(a in remainingResourcesMap), old(remainingResourcesMap[a]["Memory"]), queues[a].Memory.Allocated) - qMem(reclaimedResources)
//@   ensures [subGPU] forall a common_info.QueueID :: reclaimeeQueueID in queues && anc(reclaimeeQueueID, a) ==> remainingResourcesMap[a]["GPU"] == ite(old(a in remainingResourcesMap), old(remainingResourcesMap[a]["GPU"]), queues[a].GPU.Allocated) - qGpu(reclaimedResources)
//@   ensures [others] forall a common_info.QueueID :: !(reclaimeeQueueID in queues && anc(reclaimeeQueueID, a)) ==> (a in remainingResourcesMap) == old(a in remainingResourcesMap) && remainingResourcesMap[a] == old(remainingResourcesMap[a]) && remainingResourcesMap[a]["CPU"] == old(remainingResourcesMap[a]["CPU"]) && remainingResourcesMap[a]["Memory"] == old(remainingResourcesMap[a]["Memory"]) && remainingResourcesMap[a]["GPU"] == old(remainingResourcesMap[a]["GPU"])
//@   ensures [kept] forall a common_info.QueueID :: old(a in remainingResourcesMap) ==> a in remainingResourcesMap && remainingResourcesMap[a] == old(remainingResourcesMap[a])
//@   ensures [new] forall a common_info.QueueID :: a in remainingResourcesMap && !old(a in remainingResourcesMap) ==> fresh(remainingResourcesMap[a])
//@   ensures [rqframe] forall m rs.ResourceQuantities, k rs.ResourceName :: !fresh(m) && (forall a common_info.QueueID :: old(a in remainingResourcesMap) ==> old(remainingResourcesMap[a]) != m) ==> m[k] == old(m[k]) && (k in m) == old(k in m)
//@   ensures invOK(involvedResourcesByQueue)
//@   ensures [invAncIn] forall a common_info.QueueID :: reclaimeeQueueID in queues && anc(reclaimeeQueueID, a) ==> a in involvedResourcesByQueue
//@   ensures [invAnc] forall a common_info.QueueID, k rs.ResourceName :: reclaimeeQueueID in queues && anc(reclaimeeQueueID, a) ==> ((k in involvedResourcesByQueue[a]) == (old(k in involvedResourcesByQueue[a]) || old(k in involvedResourcesByQueue[reclaimeeQueueID])))
//@   ensures [invOthers] forall a common_info.QueueID :: !(reclaimeeQueueID in queues && anc(reclaimeeQueueID, a)) ==> (a in involvedResourcesByQueue) == old(a in involvedResourcesByQueue) && involvedResourcesByQueue[a] == old(involvedResourcesByQueue[a])
//@   ensures [invOthersSets] forall a common_info.QueueID, k rs.ResourceName :: !(reclaimeeQueueID in queues && anc(reclaimeeQueueID, a)) ==> (k in involvedResourcesByQueue[a]) == old(k in involvedResourcesByQueue[a])
//@   ensures [invKept] forall a common_info.QueueID :: old(a in involvedResourcesByQueue) ==> a in involvedResourcesByQueue && involvedResourcesByQueue[a] == old(involvedResourcesByQueue[a])
//@   ensures [invNew] forall a common_info.QueueID :: a in involvedResourcesByQueue && !old(a in involvedResourcesByQueue) ==> fresh(involvedResourcesByQueue[a])
//@   ensures [invFrame] forall m map[rs.ResourceName]any, k rs.ResourceName :: !fresh(m) && (forall a common_info.QueueID :: old(a in involvedResourcesByQueue) ==> old(involvedResourcesByQueue[a]) != m) ==> (k in m) == old(k in m) && m[k] == old(m[k])
//@ end

// ---- boundaries of the reclaiming queues ---------------------------------------------------------
// every queue's two memoised quantity maps are coherent
//@ define cachesOK(queues map[common_info.QueueID]*rs.QueueAttributes) bool = forall q in queues :: rs.cacheOK(queues[q]) && allocated(queues[q].lastFairShare) && allocated(queues[q].lastDeservedShare)
// the memoised maps are not entries of the remaining-share map (so in-place Add/Sub on entries keeps them coherent)
//@ define cachesApart(queues map[common_info.QueueID]*rs.QueueAttributes, rem map[common_info.QueueID]rs.ResourceQuantities) bool = forall q common_info.QueueID, a common_info.QueueID :: q in queues && a in rem ==> queues[q].lastFairShare != rem[a] && queues[q].lastDeservedShare != rem[a]
//@ define onlyNames(m map[rs.ResourceName]any) bool = forall k in m :: k == "CPU" || k == "Memory" || k == "GPU"

// share of queue q that the saturation test uses for the reclaiming side: its remaining share if it gave resources, else its allocation
//@ define baseCpu(queues map[common_info.QueueID]*rs.QueueAttributes, rem map[common_info.QueueID]rs.ResourceQuantities, q common_info.QueueID) real = ite(q in rem, rem[q]["CPU"], queues[q].CPU.Allocated)
//@ define baseMem(queues map[common_info.QueueID]*rs.QueueAttributes, rem map[common_info.QueueID]rs.ResourceQuantities, q common_info.QueueID) real = ite(q in rem, rem[q]["Memory"], queues[q].Memory.Allocated)
//@ define baseGpu(queues map[common_info.QueueID]*rs.QueueAttributes, rem map[common_info.QueueID]rs.ResourceQuantities, q common_info.QueueID) real = ite(q in rem, rem[q]["GPU"], queues[q].GPU.Allocated)
// s is a sibling of q (same parent, different queue) that gave resources
//@ define sibOf(queues map[common_info.QueueID]*rs.QueueAttributes, rem map[common_info.QueueID]rs.ResourceQuantities, q common_info.QueueID, s common_info.QueueID) bool = s in rem && s != q && queues[s].ParentQueue == queues[q].ParentQueue
// C07: "no ancestor of the reclaimer ends both above its own fair share and at least as saturated as the sibling it took from",
// per resource that the reclaimer requests or that was taken under the sibling
//@ define lvlCpu(queues map[common_info.QueueID]*rs.QueueAttributes, rem map[common_info.QueueID]rs.ResourceQuantities, inv map[common_info.QueueID]map[rs.ResourceName]any, r *Reclaimable, res *ri.Resource, q common_info.QueueID, s common_info.QueueID) bool = ("CPU" in inv[s] || res.milliCpu > 0.0) ==> !satU(baseCpu(queues, rem, q) + qCpu(res), queues[q].CPU.FairShare, rem[s]["CPU"], queues[s].CPU.FairShare, r.saturationMultiplier)
//@ define lvlMem(queues map[common_info.QueueID]*rs.QueueAttributes, rem map[common_info.QueueID]rs.ResourceQuantities, inv map[common_info.QueueID]map[rs.ResourceName]any, r *Reclaimable, res *ri.Resource, q common_info.QueueID, s common_info.QueueID) bool = ("Memory" in inv[s] || res.memory > 0.0) ==> !satU(baseMem(queues, rem, q) + qMem(res), queues[q].Memory.FairShare, rem[s]["Memory"], queues[s].Memory.FairShare, r.saturationMultiplier)
// NOTE (finding, reproduced on the real code, see report): "involved" follows getInvolvedResourcesNames, i.e. the whole-GPU
// field `gpus`, while the quantities use gpus + MIG share. For a MIG-only reclaimer and MIG-only victims GPU is not
// "involved" and the GPU saturation test is skipped although GPU quantity moves. The property-derived guard would be
// qGpu(res) > 0 || (GPU quantity taken under s) > 0; with that guard [boundaries] does NOT hold for the code.
//@ define lvlGpu(queues map[common_info.QueueID]*rs.QueueAttributes, rem map[common_info.QueueID]rs.ResourceQuantities, inv map[common_info.QueueID]map[rs.ResourceName]any, r *Reclaimable, res *ri.Resource, q common_info.QueueID, s common_info.QueueID) bool = ("GPU" in inv[s] || res.gpus > 0.0) ==> !satU(baseGpu(queues, rem, q) + qGpu(res), queues[q].GPU.FairShare, rem[s]["GPU"], queues[s].GPU.FairShare, r.saturationMultiplier)
//@ define lvlOK(queues map[common_info.QueueID]*rs.QueueAttributes, rem map[common_info.QueueID]rs.ResourceQuantities, inv map[common_info.QueueID]map[rs.ResourceName]any, r *Reclaimable, res *ri.Resource, q common_info.QueueID, s common_info.QueueID) bool = lvlCpu(queues, rem, inv, r, res, q, s) && lvlMem(queues, rem, inv, r, res, q, s) && lvlGpu(queues, rem, inv, r, res, q, s)

//@ func (*Reclaimable).reclaimingQueuesRemainWithinBoundaries
//@   props C07 C10
//@   ieee
//@   requires r != nil && reclaimer != nil && reclaimer.RequiredResources != nil
//@   requires treeOK(queues) && cachesOK(queues)
//@   requires remOK(remainingResourcesMap) && cachesApart(queues, remainingResourcesMap)
//@   requires forall s in remainingResourcesMap :: s in queues && s in involvedResourcesByQueue && involvedResourcesByQueue[s] != nil && allocated(involvedResourcesByQueue[s]) && onlyNames(involvedResourcesByQueue[s])
//@   modifies family(queues[reclaimer.Queue].lastFairShare), family(queues[reclaimer.Queue].lastDeservedShare), family(remainingResourcesMap[reclaimer.Queue][*])
//@   loop 1
//@     invariant found ==> reclaimingQueue != nil && reclaimingQueue.UID in queues && queues[reclaimingQueue.UID] == reclaimingQueue && anc(reclaimer.Queue, reclaimingQueue.UID) && reclaimer.Queue in queues
//@     invariant requestedQuota != nil && requestedQuota["CPU"] == qCpu(reclaimer.RequiredResources) && requestedQuota["Memory"] == qMem(reclaimer.RequiredResources) && requestedQuota["GPU"] == qGpu(reclaimer.RequiredResources)
//@     invariant reclaimerInvolvedResources != nil && ("CPU" in reclaimerInvolvedResources) == (reclaimer.RequiredResources.milliCpu > 0.0) && ("Memory" in reclaimerInvolvedResources) == (reclaimer.RequiredResources.memory > 0.0) && ("GPU" in reclaimerInvolvedResources) == (reclaimer.RequiredResources.gpus > 0.0) && onlyNames(reclaimerInvolvedResources)
//@     invariant forall m map[rs.ResourceName]any, k rs.ResourceName :: !fresh(m) ==> (k in m) == old(k in m) && m[k] == old(m[k])
//@     invariant cachesOK(queues)
//@     invariant cachesApart(queues, remainingResourcesMap)
//@     invariant forall a common_info.QueueID :: !(reclaimer.Queue in queues && anc(reclaimer.Queue, a) && !(found && anc(reclaimingQueue.UID, a))) ==> remainingResourcesMap[a]["CPU"] == old(remainingResourcesMap[a]["CPU"]) && remainingResourcesMap[a]["Memory"] == old(remainingResourcesMap[a]["Memory"]) && remainingResourcesMap[a]["GPU"] == old(remainingResourcesMap[a]["GPU"])
//@     invariant forall q common_info.QueueID, s common_info.QueueID :: reclaimer.Queue in queues && anc(reclaimer.Queue, q) && !(found && anc(reclaimingQueue.UID, q)) && old(sibOf(queues, remainingResourcesMap, q, s)) ==> old(lvlOK(queues, remainingResourcesMap, involvedResourcesByQueue, r, reclaimer.RequiredResources, q, s))
//@     invariant forall q common_info.QueueID :: reclaimer.Queue in queues && anc(reclaimer.Queue, q) && !(found && anc(reclaimingQueue.UID, q)) && !reclaimer.IsPreemptable ==> nonPreemptWithinDeserved(queues[q], reclaimer.RequiredResources)
//@     decreases ite(found, rank(reclaimingQueue.UID) + 1, 0)
//@   loop 2
//@     invariant reclaimerInvolvedResources != nil && ("CPU" in reclaimerInvolvedResources) == (reclaimer.RequiredResources.milliCpu > 0.0) && ("Memory" in reclaimerInvolvedResources) == (reclaimer.RequiredResources.memory > 0.0) && ("GPU" in reclaimerInvolvedResources) == (reclaimer.RequiredResources.gpus > 0.0) && onlyNames(reclaimerInvolvedResources)
//@     invariant forall m map[rs.ResourceName]any, k rs.ResourceName :: !fresh(m) ==> (k in m) == old(k in m) && m[k] == old(m[k])
//@     invariant cachesOK(queues)
//@     invariant cachesApart(queues, remainingResourcesMap)
//@     invariant forall s in visited :: forall q common_info.QueueID :: q == reclaimingQueue.UID && old(sibOf(queues, remainingResourcesMap, q, s)) ==> old(lvlOK(queues, remainingResourcesMap, involvedResourcesByQueue, r, reclaimer.RequiredResources, q, s))
//@   ensures [boundaries] result ==> (forall q common_info.QueueID, s common_info.QueueID :: reclaimer.Queue in queues && anc(reclaimer.Queue, q) && old(sibOf(queues, remainingResourcesMap, q, s)) ==> old(lvlOK(queues, remainingResourcesMap, involvedResourcesByQueue, r, reclaimer.RequiredResources, q, s)))
//@   ensures [nonPreemptible] result && !reclaimer.IsPreemptable ==> (forall q common_info.QueueID :: reclaimer.Queue in queues && anc(reclaimer.Queue, q) ==> nonPreemptWithinDeserved(queues[q], reclaimer.RequiredResources))
//@   ensures [caches] cachesOK(queues)
//@   ensures [complete] !result ==> !((forall q common_info.QueueID, s common_info.QueueID :: reclaimer.Queue in queues && anc(reclaimer.Queue, q) && old(sibOf(queues, remainingResourcesMap, q, s)) ==> old(lvlOK(queues, remainingResourcesMap, involvedResourcesByQueue, r, reclaimer.RequiredResources, q, s))) && (!reclaimer.IsPreemptable ==> (forall q common_info.QueueID :: reclaimer.Queue in queues && anc(reclaimer.Queue, q) ==> nonPreemptWithinDeserved(queues[q], reclaimer.RequiredResources))))
//@ end

// ---- victims, one by one -------------------------------------------------------------------------
// Trigger function for quantified slice facts: `s[i]` is encoded as cell(arr, off + i), and E-matching does not
// instantiate i := rangeindex + 1 through that arithmetic; at(i) (the identity) gives the solver an arithmetic-free
// pattern. The axiom is the definition of at.
//@ declare at(i int) int
//@ axiom forall x int :: at(x) == x
//@ declare isQ(e common_info.QueueID) bool
//@ axiom forall e common_info.QueueID :: isQ(e)
// every victim of every reclaimee queue is a non-nil resource (the caller, proportion.reclaimableFn, only appends non-nil ones)
//@ define victimsOK(vm map[common_info.QueueID][]*ri.Resource) bool = forall e in vm :: isQ(e) ==> (forall i int :: 0 <= i && i < len(vm[e]) ==> (at(i) == i ==> vm[e][i] != nil))

// scalar form of the strategies' decision (strategies.FitsReclaimStrategy ensures) on a remaining share (c, m, g)
//@ define overAllocS(q *rs.QueueAttributes, c real, m real, g real) bool = !(rs.leq(c, rs.allocatable(q.CPU)) && rs.leq(m, rs.allocatable(q.Memory)) && rs.leq(g, rs.allocatable(q.GPU)))
//@ define overDesS(q *rs.QueueAttributes, c real, m real, g real) bool = !(rs.leq(c, q.CPU.Deserved) && rs.leq(m, q.Memory.Deserved) && rs.leq(g, q.GPU.Deserved))
//@ define fitsS(res *ri.Resource, rq *rs.QueueAttributes, eq *rs.QueueAttributes, c real, m real, g real) bool = overAllocS(eq, c, m, g) || (strategies.reclaimerWithinQuota(res, rq) && overDesS(eq, c, m, g))

// C07: "resources are taken only from queues above their deserved quota or above their fair share ... (remaining share
// shrinks victim by victim)". What is proved here: [lastCheck] (inner loop invariant) every subtraction was preceded by
// a successful strategy decision on the share that remained BEFORE it, taken at the divergence level ([divergenceLevel]),
// on the very object that the subtraction then updates; a failed decision returns (false, nil, nil) immediately; on
// success the two maps satisfy the preconditions of reclaimingQueuesRemainWithinBoundaries. The closed form
// remaining[q] = allocated(q) - sum of the victims under q is NOT stated (needs sums over a map of slices).
//@ func (*Reclaimable).reclaimResourcesFromReclaimees
//@   props C07 C10
//@   requires reclaimer != nil && reclaimer.RequiredResources != nil && reclaimer.Queue in queues
//@   requires treeOK(queues) && cachesOK(queues)
//@   requires forall e in reclaimeesResourcesByQueue :: e in queues && len(reclaimeesResourcesByQueue[e]) >= 1
//@   requires victimsOK(reclaimeesResourcesByQueue)
//@   modifies family(queues[reclaimer.Queue].lastFairShare), family(queues[reclaimer.Queue].lastDeservedShare)
//@   loop 1
//@     invariant remainingResourcesMap != nil && involvedResourcesByQueue != nil && fresh(remainingResourcesMap) && fresh(involvedResourcesByQueue)
//@     invariant remOK(remainingResourcesMap) && invOK(involvedResourcesByQueue)
//@     invariant cachesOK(queues) && cachesApart(queues, remainingResourcesMap)
//@     invariant forall s in remainingResourcesMap :: s in queues && fresh(remainingResourcesMap[s])
//@     invariant forall s in involvedResourcesByQueue :: fresh(involvedResourcesByQueue[s])
//@     invariant forall s common_info.QueueID, k rs.ResourceName :: s in involvedResourcesByQueue && k in involvedResourcesByQueue[s] ==> k == "CPU" || k == "Memory" || k == "GPU"
//@     invariant forall m rs.ResourceQuantities, k rs.ResourceName :: !fresh(m) ==> m[k] == old(m[k]) && (k in m) == old(k in m)
//@     invariant forall m map[rs.ResourceName]any, k rs.ResourceName :: !fresh(m) ==> (k in m) == old(k in m) && m[k] == old(m[k])
//@     invariant forall m map[common_info.QueueID]rs.ResourceQuantities, k common_info.QueueID :: !fresh(m) ==> (k in m) == old(k in m) && m[k] == old(m[k])
//@     invariant forall m map[common_info.QueueID]map[rs.ResourceName]any, k common_info.QueueID :: !fresh(m) ==> (k in m) == old(k in m) && m[k] == old(m[k])
//@     invariant forall s in remainingResourcesMap :: s in involvedResourcesByQueue
//@   loop 2
//@     invariant remainingResourcesMap != nil && involvedResourcesByQueue != nil && fresh(remainingResourcesMap) && fresh(involvedResourcesByQueue)
//@     invariant remOK(remainingResourcesMap) && invOK(involvedResourcesByQueue)
//@     invariant cachesOK(queues) && cachesApart(queues, remainingResourcesMap)
//@     invariant forall s in remainingResourcesMap :: s in queues && fresh(remainingResourcesMap[s])
//@     invariant forall s in involvedResourcesByQueue :: fresh(involvedResourcesByQueue[s])
//@     invariant forall s common_info.QueueID, k rs.ResourceName :: s in involvedResourcesByQueue && k in involvedResourcesByQueue[s] ==> k == "CPU" || k == "Memory" || k == "GPU"
//@     invariant forall m rs.ResourceQuantities, k rs.ResourceName :: !fresh(m) ==> m[k] == old(m[k]) && (k in m) == old(k in m)
//@     invariant forall m map[rs.ResourceName]any, k rs.ResourceName :: !fresh(m) ==> (k in m) == old(k in m) && m[k] == old(m[k])
//@     invariant forall m map[common_info.QueueID]rs.ResourceQuantities, k common_info.QueueID :: !fresh(m) ==> (k in m) == old(k in m) && m[k] == old(m[k])
//@     invariant forall m map[common_info.QueueID]map[rs.ResourceName]any, k common_info.QueueID :: !fresh(m) ==> (k in m) == old(k in m) && m[k] == old(m[k])
//@     invariant 0 - 1 <= rangeindex && rangeindex < len(reclaimeeQueueReclaimedResources)
//@     invariant reclaimeeQueueID in reclaimeesResourcesByQueue && len(reclaimeeQueueReclaimedResources) == len(reclaimeesResourcesByQueue[reclaimeeQueueID])
//@     invariant forall i int :: 0 <= i && i < len(reclaimeeQueueReclaimedResources) ==> (at(i) == i ==> reclaimeeQueueReclaimedResources[i] == reclaimeesResourcesByQueue[reclaimeeQueueID][i])
//@     invariant isQ(reclaimeeQueueID) && (forall i int :: 0 <= i && i < len(reclaimeesResourcesByQueue[reclaimeeQueueID]) ==> (at(i) == i ==> reclaimeesResourcesByQueue[reclaimeeQueueID][i] != nil))
//@     invariant forall i int :: 0 <= i && i < len(reclaimeeQueueReclaimedResources) ==> (at(i) == i ==> reclaimeeQueueReclaimedResources[i] != nil)   // at(i) is the E-matching trigger, see `declare at`
//@     invariant rangeindex + 1 < len(reclaimeeQueueReclaimedResources) ==> at(rangeindex + 1) == rangeindex + 1 && reclaimeeQueueReclaimedResources[rangeindex + 1] != nil
//@     invariant len(reclaimeeQueueReclaimedResources) >= 1
//@     invariant reclaimerQueue != nil && reclaimeeQueue != nil && queues[reclaimeeQueue.UID] == reclaimeeQueue && reclaimeeQueue.UID in queues && queues[reclaimerQueue.UID] == reclaimerQueue && reclaimerQueue.UID in queues && reclaimeeQueueID in queues && anc(reclaimeeQueueID, reclaimeeQueue.UID)
//@     invariant reclaimeeQueue.UID in remainingResourcesMap && remainingResources == remainingResourcesMap[reclaimeeQueue.UID] && reclaimeeQueueID in involvedResourcesByQueue
//@     invariant [divergenceLevel] anc(reclaimer.Queue, reclaimerQueue.UID) && (reclaimerQueue.UID != reclaimeeQueue.UID ==> sameParent(queues, reclaimerQueue, reclaimeeQueue)) && (reclaimerQueue.UID == reclaimeeQueue.UID ==> reclaimerQueue == reclaimeeQueue && (reclaimerQueue == queues[reclaimer.Queue] || reclaimerQueue == queues[reclaimeeQueueID]))
//@     invariant forall s in remainingResourcesMap :: s in involvedResourcesByQueue || (rangeindex < 0 && s == reclaimeeQueue.UID)
//@     invariant [lastCheck] rangeindex >= 0 ==> fitsS(reclaimer.RequiredResources, reclaimerQueue, reclaimeeQueue, remainingResources["CPU"] + qCpu(reclaimeeQueueReclaimedResources[rangeindex]), remainingResources["Memory"] + qMem(reclaimeeQueueReclaimedResources[rangeindex]), remainingResources["GPU"] + qGpu(reclaimeeQueueReclaimedResources[rangeindex]))
//@     decreases len(reclaimeeQueueReclaimedResources) - rangeindex
//@   ensures [failFast] !result0 ==> result1 == nil && result2 == nil
//@   ensures [maps] result0 ==> result1 != nil && result2 != nil && remOK(result1) && invOK(result2)
//@   ensures [caches] cachesOK(queues) && (result0 ==> cachesApart(queues, result1))
//@   ensures [keys] result0 ==> (forall s in result1 :: s in queues && s in result2 && result2[s] != nil && onlyNames(result2[s]))
//@ end

// ---- the validator -------------------------------------------------------------------------------
// C07 (composition): victims are accepted one by one by the strategy (reclaimResourcesFromReclaimees, [lastCheck] /
// [divergenceLevel]) and then the saturation ordering and the non-preemptible bound are checked at every ancestor level of the
// reclaimer (reclaimingQueuesRemainWithinBoundaries). Stated on the inputs here: "a non-preemptible reclaimer keeps its
// queue's non-preemptible allocation within deserved quota", at every level of the hierarchy. The saturation clause is a
// statement about the internal remaining-share map and is the postcondition [boundaries] of
// reclaimingQueuesRemainWithinBoundaries; its closed form over the victims needs sums over a map of slices (not stated).
//@ func (*Reclaimable).Reclaimable
//@   props C07 C10
//@   ieee
//@   requires r != nil && reclaimer != nil && reclaimer.RequiredResources != nil && reclaimer.Queue in queues
//@   requires treeOK(queues) && cachesOK(queues)
//@   requires forall e in reclaimeeResourcesByQueue :: e in queues && len(reclaimeeResourcesByQueue[e]) >= 1
//@   requires victimsOK(reclaimeeResourcesByQueue)
//@   modifies family(queues[reclaimer.Queue].lastFairShare), family(queues[reclaimer.Queue].lastDeservedShare), family(queues[reclaimer.Queue].lastFairShare[*])
//@   ensures [nonPreemptible] result && !reclaimer.IsPreemptable ==> (forall q common_info.QueueID :: anc(reclaimer.Queue, q) ==> nonPreemptWithinDeserved(queues[q], reclaimer.RequiredResources))
//@   ensures [caches] cachesOK(queues)
//@ end
