//go:build verif

// Contracts for govc (contract-based deductive verification); comments only.
package strategies

//@ import ri "github.com/NVIDIA/KAI-scheduler/pkg/scheduler/api/resource_info"
//@ constglobal strategies

// remaining share of the reclaimee is NOT within its allocatable share (max(deserved, fair share), capped by the limit)
//@ define overAllocatable(q *rs.QueueAttributes, rem rs.ResourceQuantities) bool = !(rs.leq(rem["CPU"], rs.allocatable(q.CPU)) && rs.leq(rem["Memory"], rs.allocatable(q.Memory)) && rs.leq(rem["GPU"], rs.allocatable(q.GPU)))
// remaining share of the reclaimee is NOT within its deserved quota in every resource
//@ define overDeserved(q *rs.QueueAttributes, rem rs.ResourceQuantities) bool = !(rs.leq(rem["CPU"], q.CPU.Deserved) && rs.leq(rem["Memory"], q.Memory.Deserved) && rs.leq(rem["GPU"], q.GPU.Deserved))
// the reclaimer's queue stays within its deserved quota in every resource after receiving the request
// a memoised quantity map of q is either untouched or replaced by a newly allocated map
//@ define cachesKeptOrNew(q *rs.QueueAttributes) bool = (q.lastDeservedShare == old(q.lastDeservedShare) || fresh(q.lastDeservedShare)) && (q.lastFairShare == old(q.lastFairShare) || fresh(q.lastFairShare))
//@ define reclaimerWithinQuota(res *ri.Resource, q *rs.QueueAttributes) bool = rs.leq(q.CPU.Allocated + res.milliCpu, q.CPU.Deserved) && rs.leq(q.Memory.Allocated + res.memory, q.Memory.Deserved) && rs.leq(q.GPU.Allocated + res.gpus + ri.migGpus(res), q.GPU.Deserved)

//@ func reclaimerWillGoOverQuota
//@   props C07
//@   requires reclaimerResources != nil && reclaimerQueue != nil && rs.cacheOK(reclaimerQueue)
//@   modifies reclaimerQueue.lastDeservedShare
//@   ensures result == !reclaimerWithinQuota(reclaimerResources, reclaimerQueue)
//@   ensures rs.cacheOK(reclaimerQueue)
//@   ensures [cachesKeptOrNew] cachesKeptOrNew(reclaimerQueue)
//@ end

//@ func (*MaintainFairShareStrategy).Reclaimable
//@   props C07
//@   requires reclaimerQueue != nil && reclaimeeQueue != nil && rs.cacheOK(reclaimeeQueue) && rs.cacheOK(reclaimerQueue)
//@   modifies reclaimeeQueue.lastDeservedShare, reclaimeeQueue.lastFairShare, reclaimerQueue.lastDeservedShare, reclaimerQueue.lastFairShare
//@   ensures result == overAllocatable(reclaimeeQueue, reclaimeeRemainingShare)
//@   ensures rs.cacheOK(reclaimeeQueue) && rs.cacheOK(reclaimerQueue)
//@   ensures [cachesKeptOrNew] cachesKeptOrNew(reclaimeeQueue) && cachesKeptOrNew(reclaimerQueue)
//@ end

//@ func (*GuaranteeDeservedQuotaStrategy).Reclaimable
//@   props C07
//@   requires reclaimerResources != nil && reclaimerQueue != nil && reclaimeeQueue != nil && rs.cacheOK(reclaimeeQueue) && rs.cacheOK(reclaimerQueue)
//@   modifies reclaimeeQueue.lastDeservedShare, reclaimeeQueue.lastFairShare, reclaimerQueue.lastDeservedShare, reclaimerQueue.lastFairShare
//@   ensures result == (reclaimerWithinQuota(reclaimerResources, reclaimerQueue) && overDeserved(reclaimeeQueue, reclaimeeRemainingShare))
//@   ensures rs.cacheOK(reclaimeeQueue) && rs.cacheOK(reclaimerQueue)
//@   ensures [cachesKeptOrNew] cachesKeptOrNew(reclaimeeQueue) && cachesKeptOrNew(reclaimerQueue)
//@ end

// Property C07 (top-level, from the property text): resources are taken only from queues above
// their deserved quota or above their fair share; a queue within its deserved quota in every
// resource is never reduced.
//@ func FitsReclaimStrategy
//@   props C07 C05
//@   requires reclaimerResources != nil && reclaimerQueue != nil && reclaimeeQueue != nil && rs.cacheOK(reclaimeeQueue) && rs.cacheOK(reclaimerQueue)
//@   modifies reclaimeeQueue.lastDeservedShare, reclaimeeQueue.lastFairShare, reclaimerQueue.lastDeservedShare, reclaimerQueue.lastFairShare
//@   loop 1 unroll 2
//@   ensures result == (overAllocatable(reclaimeeQueue, reclaimeeRemainingShare) || (reclaimerWithinQuota(reclaimerResources, reclaimerQueue) && overDeserved(reclaimeeQueue, reclaimeeRemainingShare)))
//@   ensures [withinQuotaIsSafe] !overDeserved(reclaimeeQueue, reclaimeeRemainingShare) && !overAllocatable(reclaimeeQueue, reclaimeeRemainingShare) ==> !result
//@   ensures [starvedReclaimerServed] reclaimerWithinQuota(reclaimerResources, reclaimerQueue) && overDeserved(reclaimeeQueue, reclaimeeRemainingShare) ==> result
//@   ensures rs.cacheOK(reclaimeeQueue) && rs.cacheOK(reclaimerQueue)
//@   ensures [cachesKeptOrNew] cachesKeptOrNew(reclaimeeQueue) && cachesKeptOrNew(reclaimerQueue)
//@ end
