//go:build verif

// Contracts for govc (contract-based deductive verification); comments only.
package queue_order

// Sign convention (same as the job comparators): -1 = lQueue is ordered first, 1 = rQueue first.
//@ define sgn(d int) int = ite(d < 0, 0 - 1, ite(d > 0, 1, 0))
// a queue is over-utilised when its fair share is strictly below its allocation in every resource
//@ define overUtilized(q *rs.QueueAttributes) bool = q.CPU.FairShare < q.CPU.Allocated && q.Memory.FairShare < q.Memory.Allocated && q.GPU.FairShare < q.GPU.Allocated
//@ define b2i(b bool) int = ite(b, 1, 0)
// allocatable share of l is <= r's in every resource (with -1 = unlimited) and strictly below in at least one
//@ define allocLeq(l *rs.QueueAttributes, r *rs.QueueAttributes) bool = rs.leq(rs.allocatable(l.CPU), rs.allocatable(r.CPU)) && rs.leq(rs.allocatable(l.Memory), rs.allocatable(r.Memory)) && rs.leq(rs.allocatable(l.GPU), rs.allocatable(r.GPU))
//@ define weaker(l *rs.QueueAttributes, r *rs.QueueAttributes) bool = allocLeq(l, r) && !allocLeq(r, l)

// C16 (comparators feeding the hierarchical priority queue must be consistent; DESIGN: strict weak
// order lemma "attempted" for QueueOrderFn): higher queue priority first.
//@ func prioritizePrioritized
//@   props C16
//@   requires lQueue != nil && rQueue != nil
//@   pure
//@   ensures result == sgn(rQueue.Priority - lQueue.Priority)
//@   ensures [higherFirst] lQueue.Priority > rQueue.Priority <==> result < 0
//@   lemma [antisym] result == 0 - sgn(lQueue.Priority - rQueue.Priority)
//@ end

// queues not above their fair share go before queues above it
//@ func prioritizeUnderUtilized
//@   props C16
//@   requires lQueue != nil && rQueue != nil && rs.cacheOK(lQueue) && rs.cacheOK(rQueue)
//@   modifies lQueue.lastFairShare, rQueue.lastFairShare
//@   ensures result == sgn(b2i(overUtilized(lQueue)) - b2i(overUtilized(rQueue)))
//@   ensures [underUtilizedFirst] !overUtilized(lQueue) && overUtilized(rQueue) <==> result < 0
//@   lemma [antisym] result == 0 - sgn(b2i(overUtilized(rQueue)) - b2i(overUtilized(lQueue)))
//@   ensures rs.cacheOK(lQueue) && rs.cacheOK(rQueue)
//@ end

// the queue with the (component-wise) smaller allocatable share goes first
//@ func prioritizeBasedOnAllocatableShare
//@   props C16
//@   requires lQueue != nil && rQueue != nil
//@   pure
//@   ensures result == ite(weaker(lQueue, rQueue), 0 - 1, ite(weaker(rQueue, lQueue), 1, 0))
//@   lemma [antisym] result == 0 - ite(weaker(rQueue, lQueue), 0 - 1, ite(weaker(lQueue, rQueue), 1, 0))
//@ end

// Last tie-break: the older queue first; never "equal" (timestamps are opaque integers in the engine's model).
// For EQUAL timestamps the result is rQueuePrioritized in both argument orders: as a `less` (result < 0) relation
// this is still asymmetric (lemma), but cmp(l,r) == -cmp(r,l) does not hold and the Session's UID tie-break is
// never reached while the proportion plugin is registered (see report).
//@ define ctCmp(l *rs.QueueAttributes, r *rs.QueueAttributes) int = ite(l.CreationTimestamp < r.CreationTimestamp, 0 - 1, 1)
//@ func prioritizeBasedOnCreationTime
//@   props C16
//@   requires lQueue != nil && rQueue != nil
//@   pure
//@   ensures [olderFirst] result == ctCmp(lQueue, rQueue)
//@   ensures [neverEqual] result == 1 || result == 0 - 1
//@   lemma [lessIsAsymmetric] !(result < 0 && ctCmp(rQueue, lQueue) < 0)
//@ end
