//go:build verif

// Contracts for govc (contract-based deductive verification); comments only.
package utils

//@ import ri "github.com/NVIDIA/KAI-scheduler/pkg/scheduler/api/resource_info"
//@ import ci "github.com/NVIDIA/KAI-scheduler/pkg/scheduler/api/common_info"

// ---- the parent chain of a queue (shared by capacity_policy and proportion) ----------------
// anc(s, n)  : id of the n-th ancestor of queue id s (anc(s,0) = s)
// depth(s)   : number of queues on the parent chain of s that are present in the queue map
// lvl(q)     : position of the attributes object q on that chain (inverse of anc on the chain)
// chainOK(queues, s) says: these three uninterpreted symbols describe the parent chain of s in the
// map `queues` of the current heap, that chain is FINITE (leaves the map after depth(s) steps, i.e.
// the queue graph has no cycle reachable from s) and has no nil entry. For every heap in which the
// loop `for q, ok := queues[s]; ok; q, ok = queues[q.ParentQueue]` terminates without a nil
// dereference such anc/depth/lvl exist, so contracts that require chainOK speak about exactly the
// queues that loop visits. rank(k) = depth(s) - lvl(queues[k]) is the ranking that decreases.
// NOTE (C10): nothing in the current code establishes chainOK: UpdateQueueHierarchy prunes
// orphans only, a queue whose parentQueue is itself (or any parent cycle) makes every such loop spin.
//@ declare anc(s ci.QueueID, n int) ci.QueueID
//@ declare depth(s ci.QueueID) int
//@ declare lvl(q *rs.QueueAttributes) int
//@ define chainOK(queues map[ci.QueueID]*rs.QueueAttributes, s ci.QueueID) bool = depth(s) >= 0 && anc(s, 0) == s && !(anc(s, depth(s)) in queues) && (forall n int :: 0 <= n && n < depth(s) ==> anc(s, n) in queues && queues[anc(s, n)] != nil && lvl(queues[anc(s, n)]) == n && anc(s, n+1) == queues[anc(s, n)].ParentQueue)
// q is the attributes object of one of the ancestors (incl. s itself) of s
//@ define onChain(queues map[ci.QueueID]*rs.QueueAttributes, s ci.QueueID, q *rs.QueueAttributes) bool = 0 <= lvl(q) && lvl(q) < depth(s) && queues[anc(s, lvl(q))] == q

//@ func QuantifyResource
//@   props C07 C08
//@   requires resource != nil
//@   fresh
//@   ensures result["CPU"] == resource.milliCpu && result["Memory"] == resource.memory && result["GPU"] == resource.gpus + ri.migGpus(resource)
//@ end

// The quantities charged to / checked against queues for a task: cpu, memory and the total GPU quota.
//@ func QuantifyResourceRequirements
//@   props C08 C14
//@   requires resource != nil
//@   fresh
//@   ensures result["CPU"] == resource.milliCpu && result["Memory"] == resource.memory && result["GPU"] == resource.GetGpusQuota()
//@ end

//@ func ResourceRequirementsFromQuantities
//@   props C08 C10
//@   fresh
//@   ensures result != nil && result.milliCpu == quantities["CPU"] && result.memory == quantities["Memory"]
//@ end
