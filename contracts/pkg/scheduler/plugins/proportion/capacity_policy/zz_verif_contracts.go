//go:build verif

// Contracts for govc (contract-based deductive verification); comments only.
package capacity_policy

// ---- spec functions --------------------------------------------------------
// Property C08: "No scheduling decision raises the total allocation of a queue or of any of its
// ancestors above its configured limit in any resource [-1 unlimited]".
// okQty: one resource of one queue: a request of `req` on top of `alloc` does not raise the
// allocation above `lim` (a request of 0 raises nothing).
//@ define okQty(lim real, alloc real, req real) bool = lim == -1.0 || req == 0.0 || alloc + req <= lim
//@ define withinLimit(q *rs.QueueAttributes, r rs.ResourceQuantities) bool = okQty(q.CPU.MaxAllowed, q.CPU.Allocated, r["CPU"]) && okQty(q.Memory.MaxAllowed, q.Memory.Allocated, r["Memory"]) && okQty(q.GPU.MaxAllowed, q.GPU.Allocated, r["GPU"])
// "... and no decision raises the allocation of non-preemptible workloads of a queue or ancestor above its deserved quota"
//@ define withinQuota(q *rs.QueueAttributes, r rs.ResourceQuantities) bool = okQty(q.CPU.Deserved, q.CPU.AllocatedNotPreemptible, r["CPU"]) && okQty(q.Memory.Deserved, q.Memory.AllocatedNotPreemptible, r["Memory"]) && okQty(q.GPU.Deserved, q.GPU.AllocatedNotPreemptible, r["GPU"])

// memoised share maps of every queue on the chain are coherent (needed by GetDeservedShare in the explanation branch)
//@ define chainCacheOK(queues map[common_info.QueueID]*rs.QueueAttributes, s common_info.QueueID) bool = forall n int :: 0 <= n && n < utils.depth(s) ==> rs.cacheOK(queues[utils.anc(s, n)]) && allocated(queues[utils.anc(s, n)].lastDeservedShare) && allocated(queues[utils.anc(s, n)].lastFairShare)

// every level of the parent chain of queue id s (s itself and all ancestors) stays within its limit / quota
//@ define allWithinLimit(queues map[common_info.QueueID]*rs.QueueAttributes, s common_info.QueueID, r rs.ResourceQuantities) bool = forall n int :: 0 <= n && n < utils.depth(s) ==> withinLimit(queues[utils.anc(s, n)], r)
//@ define allWithinQuota(queues map[common_info.QueueID]*rs.QueueAttributes, s common_info.QueueID, r rs.ResourceQuantities) bool = forall n int :: 0 <= n && n < utils.depth(s) ==> withinQuota(queues[utils.anc(s, n)], r)

//@ func isOverLimit
//@   props C08
//@   requires queueAttributes != nil
//@   pure
//@   loop 1 unroll 3
//@   ensures result0 == !withinLimit(queueAttributes, requested)
//@   ensures [firstExceeding] result1 == ite(!okQty(queueAttributes.CPU.MaxAllowed, queueAttributes.CPU.Allocated, requested["CPU"]), "CPU", ite(!okQty(queueAttributes.Memory.MaxAllowed, queueAttributes.Memory.Allocated, requested["Memory"]), "Memory", ite(!okQty(queueAttributes.GPU.MaxAllowed, queueAttributes.GPU.Allocated, requested["GPU"]), "GPU", "")))
//@ end

//@ func isAllocatedNonPreemptibleOverQuota
//@   props C08
//@   requires queueAttributes != nil
//@   pure
//@   loop 1 unroll 3
//@   ensures result0 == !withinQuota(queueAttributes, requested)
//@   ensures [firstExceeding] result1 == ite(!okQty(queueAttributes.CPU.Deserved, queueAttributes.CPU.AllocatedNotPreemptible, requested["CPU"]), "CPU", ite(!okQty(queueAttributes.Memory.Deserved, queueAttributes.Memory.AllocatedNotPreemptible, requested["Memory"]), "Memory", ite(!okQty(queueAttributes.GPU.Deserved, queueAttributes.GPU.AllocatedNotPreemptible, requested["GPU"]), "GPU", "")))
//@ end

//@ func Schedulable
//@   props C08
//@   fresh
//@   ensures result != nil && result.IsSchedulable
//@ end

// Property C08 (limit half): Schedulable ==> at EVERY ancestor level allocated + requested <= limit in
// all three resources (-1 = unlimited); stated as an equivalence (the converse: an unschedulable
// answer is given only if some level really is over its limit).
//@ func (*CapacityPolicy).resultsOverLimit
//@   props C08 C10
//@   requires cp != nil && job != nil
//@   requires utils.chainOK(cp.queues, job.Queue) && chainCacheOK(cp.queues, job.Queue)
//@   modifies family(cp.queues[job.Queue].lastDeservedShare)
//@   loop 1
//@     invariant ok ==> utils.onChain(cp.queues, job.Queue, queueAttributes)
//@     invariant chainCacheOK(cp.queues, job.Queue)
//@     invariant ok ==> rs.cacheOK(queueAttributes)
//@     invariant !ok ==> (forall n int :: 0 <= n && n < utils.depth(job.Queue) ==> withinLimit(cp.queues[utils.anc(job.Queue, n)], requestedShare))
//@     invariant ok ==> (forall n int :: 0 <= n && n < utils.lvl(queueAttributes) ==> withinLimit(cp.queues[utils.anc(job.Queue, n)], requestedShare))
//@     decreases ite(ok, utils.depth(job.Queue) - utils.lvl(queueAttributes), 0)
//@   ensures result != nil
//@   ensures [cacheKept] chainCacheOK(cp.queues, job.Queue)
//@   ensures result.IsSchedulable == old(forall n int :: 0 <= n && n < utils.depth(job.Queue) ==> withinLimit(cp.queues[utils.anc(job.Queue, n)], requestedShare))
//@ end

// Property C08 (quota half): a NON-preemptible job is Schedulable ==> at EVERY ancestor level
// non-preemptible allocated + requested <= deserved quota in all three resources (-1 = unlimited);
// preemptible jobs are not restricted by this check. Stated as an equivalence.
//@ func (*CapacityPolicy).resultsWithNonPreemptibleOverQuota
//@   props C08 C10
//@   requires cp != nil && job != nil
//@   requires utils.chainOK(cp.queues, job.Queue) && chainCacheOK(cp.queues, job.Queue)
//@   modifies family(cp.queues[job.Queue].lastDeservedShare)
//@   loop 1
//@     invariant ok ==> utils.onChain(cp.queues, job.Queue, queueAttributes)
//@     invariant chainCacheOK(cp.queues, job.Queue)
//@     invariant ok ==> rs.cacheOK(queueAttributes)
//@     invariant !ok ==> (forall n int :: 0 <= n && n < utils.depth(job.Queue) ==> withinQuota(cp.queues[utils.anc(job.Queue, n)], requestedShare))
//@     invariant ok ==> (forall n int :: 0 <= n && n < utils.lvl(queueAttributes) ==> withinQuota(cp.queues[utils.anc(job.Queue, n)], requestedShare))
//@     decreases ite(ok, utils.depth(job.Queue) - utils.lvl(queueAttributes), 0)
//@   ensures result != nil
//@   ensures [cacheKept] chainCacheOK(cp.queues, job.Queue)
//@   ensures result.IsSchedulable == old(job.Preemptibility == v2alpha2.Preemptible || (forall n int :: 0 <= n && n < utils.depth(job.Queue) ==> withinQuota(cp.queues[utils.anc(job.Queue, n)], requestedShare)))
//@ end

// ---- requested quantities of a set of tasks ------------------------------------------------------
// reqCpu(n)/reqMem(n): prefix sums over the first n tasks of THE tasksToAllocate argument
// (let-bound by the `requires sumsOf(...)` clause of each function that takes such a slice).
//@ declare reqCpu(n int) real
//@ declare reqMem(n int) real
//@ define tasksOK(tasks []*pod_info.PodInfo) bool = forall i int :: 0 <= i && i < len(tasks) ==> tasks[i] != nil && tasks[i].ResReq != nil
//@ define sumsOf(tasks []*pod_info.PodInfo) bool = reqCpu(0) == 0.0 && reqMem(0) == 0.0 && (forall i int :: 0 <= i && i < len(tasks) ==> reqCpu(i+1) == reqCpu(i) + tasks[i].ResReq.milliCpu) && (forall i int :: 0 <= i && i < len(tasks) ==> reqMem(i+1) == reqMem(i) + tasks[i].ResReq.memory)

// The quantity checked for a job = component-wise sum of cpu, memory and total GPU quota of the tasks.
// Proved for cpu and memory. The GPU component (sum of GetGpusQuota() of each task's ResReq) is NOT
// claimed: its sum definition needs a spec call whose receiver depends on the bound index, for which the engine
// drops the callee contract, and the embedded GpuResourceRequirement cannot be passed to ri.gpusQuota.
//@ func getRequiredQuota
//@   props C08 C10
//@   requires tasksOK(tasksToAllocate) && sumsOf(tasksToAllocate)
//@   fresh
//@   loop 1
//@     invariant 0 - 1 <= rangeindex && rangeindex < len(tasksToAllocate)
//@     invariant quota.MilliCPU == reqCpu(rangeindex + 1)
//@     invariant quota.Memory == reqMem(rangeindex + 1)
//@   ensures result != nil
//@   ensures [cpuMem] result.MilliCPU == reqCpu(len(tasksToAllocate)) && result.Memory == reqMem(len(tasksToAllocate))
//@ end

// ---- entry points registered with the session -----------------------------------------------------
//@ func (*CapacityPolicy).isJobOverCapacity
//@   inline
//@   loop 1 unroll 2
//@ end

// Property C08, job-level decision: Schedulable <==> for the requested quantities r of the tasks, EVERY
// level of the job's queue chain keeps allocated + r <= limit, and (for a non-preemptible job)
// non-preemptible allocated + r <= deserved quota.
//@ func (*CapacityPolicy).IsJobOverQueueCapacity
//@   props C08 C10
//@   requires cp != nil && job != nil && tasksOK(tasksToAllocate) && sumsOf(tasksToAllocate)
//@   requires utils.chainOK(cp.queues, job.Queue) && chainCacheOK(cp.queues, job.Queue)
//@   modifies family(cp.queues[job.Queue].lastDeservedShare)
//@   ensures result != nil
//@   ensures result.IsSchedulable == (allWithinLimit(cp.queues, job.Queue, requestedShareQuantities) && (job.Preemptibility == v2alpha2.Preemptible || allWithinQuota(cp.queues, job.Queue, requestedShareQuantities)))
//@   ensures [requestedIsSum] requestedShareQuantities["CPU"] == reqCpu(len(tasksToAllocate)) && requestedShareQuantities["Memory"] == reqMem(len(tasksToAllocate)) && requestedShareQuantities["GPU"] == requiredQuota.GPU
//@ end

//@ func (*CapacityPolicy).IsNonPreemptibleJobOverQuota
//@   props C08 C10
//@   requires cp != nil && job != nil && tasksOK(tasksToAllocate) && sumsOf(tasksToAllocate)
//@   requires utils.chainOK(cp.queues, job.Queue) && chainCacheOK(cp.queues, job.Queue)
//@   modifies family(cp.queues[job.Queue].lastDeservedShare)
//@   ensures result != nil
//@   ensures result.IsSchedulable == (job.Preemptibility == v2alpha2.Preemptible || allWithinQuota(cp.queues, job.Queue, requestedShareQuantities))
//@   ensures [requestedIsSum] requestedShareQuantities["CPU"] == reqCpu(len(tasksToAllocate)) && requestedShareQuantities["Memory"] == reqMem(len(tasksToAllocate)) && requestedShareQuantities["GPU"] == requiredQuota.GPU
//@ end

// Task-level decision (the check that precedes every allocate/pipeline of one task on one node): same
// equivalence for the quantities node.GetRequiredInitQuota(task) -- here named by the local requestedShare.
//@ func (*CapacityPolicy).IsTaskAllocationOnNodeOverCapacity
//@   props C08 C10
//@   requires cp != nil && job != nil && node != nil && task != nil && task.ResReq != nil
//@   requires node.MemoryOfEveryGpuOnNode > 0   // precondition of node_info.getGpuMemoryFractionalOnNode (float division), owned by helper "node"
//@   requires utils.chainOK(cp.queues, job.Queue) && chainCacheOK(cp.queues, job.Queue)
//@   modifies family(cp.queues[job.Queue].lastDeservedShare)
//@   ensures result != nil
//@   ensures result.IsSchedulable == (allWithinLimit(cp.queues, job.Queue, requestedShare) && (job.Preemptibility == v2alpha2.Preemptible || allWithinQuota(cp.queues, job.Queue, requestedShare)))
//@   ensures [requestedIsInitQuota] requestedShare["CPU"] == requiredInitQuota.MilliCPU && requestedShare["Memory"] == requiredInitQuota.Memory && requestedShare["GPU"] == requiredInitQuota.GPU
//@ end
