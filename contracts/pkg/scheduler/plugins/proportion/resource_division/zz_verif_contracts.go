//go:build verif

// Contracts for govc (contract-based deductive verification); comments only.
package resource_division

// ---- spec functions --------------------------------------------------------
//@ define validRes(r rs.ResourceName) bool = r == "CPU" || r == "Memory" || r == "GPU"
// field f of the ResourceShare record of queue q for resource r (r is one of the three valid names)
//@ define fair(q *rs.QueueAttributes, r rs.ResourceName) real = ite(r == "CPU", q.CPU.FairShare, ite(r == "Memory", q.Memory.FairShare, q.GPU.FairShare))
//@ define request(q *rs.QueueAttributes, r rs.ResourceName) real = ite(r == "CPU", q.CPU.Request, ite(r == "Memory", q.Memory.Request, q.GPU.Request))
//@ define limit(q *rs.QueueAttributes, r rs.ResourceName) real = ite(r == "CPU", q.CPU.MaxAllowed, ite(r == "Memory", q.Memory.MaxAllowed, q.GPU.MaxAllowed))
//@ define deserved(q *rs.QueueAttributes, r rs.ResourceName) real = ite(r == "CPU", q.CPU.Deserved, ite(r == "Memory", q.Memory.Deserved, q.GPU.Deserved))
//@ define weight(q *rs.QueueAttributes, r rs.ResourceName) real = ite(r == "CPU", q.CPU.OverQuotaWeight, ite(r == "Memory", q.Memory.OverQuotaWeight, q.GPU.OverQuotaWeight))
//@ define usage(q *rs.QueueAttributes, r rs.ResourceName) real = ite(r == "CPU", q.CPU.Usage, ite(r == "Memory", q.Memory.Usage, q.GPU.Usage))
// C09: "its request capped by its limit" (limit -1 = unlimited); same formula as rs.requestable
//@ define capReq(q *rs.QueueAttributes, r rs.ResourceName) real = ite(limit(q, r) == -1.0, request(q, r), min(limit(q, r), request(q, r)))
// C09: a queue is "satisfied" when its fair share covers its capped request
//@ define satisfied(q *rs.QueueAttributes, r rs.ResourceName) bool = capReq(q, r) <= fair(q, r)
// what a queue may still receive
//@ define remReq(q *rs.QueueAttributes, r rs.ResourceName) real = max(capReq(q, r) - fair(q, r), 0.0)
// every entry of the queue map is a usable queue record
//@ define queuesOK(qs map[common_info.QueueID]*rs.QueueAttributes) bool = forall k in qs :: qs[k] != nil && rs.cacheOK(qs[k])

// ---- leaves ----------------------------------------------------------------

// C09: "satisfied" <=> fair share >= request capped by limit.
//@ func isQueueSatisfied
//@   props C09
//@   requires queue != nil && validRes(resourceName)
//@   pure
//@   ensures result == satisfied(queue, resourceName)
//@ end

//@ func getRemainingRequested
//@   props C09
//@   requires queue != nil && validRes(resourceName)
//@   pure
//@   ensures result == remReq(queue, resourceName)
//@   ensures [nonneg] result >= 0.0
//@   ensures [zeroIffSatisfied] (result == 0.0) == satisfied(queue, resourceName)
//@ end

// C09 (rounding law of one round): 0 <= give <= max(fairShare,0); a queue whose remaining
// request fits its round share gets exactly the request and leaves the remainder table;
// otherwise it gets the floor of the positive part and the remainder (< 1 unit) is recorded.
//@ func getResourceToGiveInCurrentRound
//@   props C09
//@   requires queue != nil && remainingRequested != nil && requested >= 0.0
//@   modifies remainingRequested[queue.UID]
//@   ensures [lower] result >= 0.0
//@   ensures [upper] result <= max(fairShare, 0.0)
//@   ensures [atMostRequested] result <= requested
//@   ensures [satisfiedExact] requested <= fairShare ==> result == requested && !(queue.UID in remainingRequested)
//@   ensures [floorLaw] requested > fairShare ==> result == max(floor(fairShare), 0.0)
//@   ensures [remainderRecorded] requested > fairShare && fairShare - result > 0.0 ==> queue.UID in remainingRequested && fresh(remainingRequested[queue.UID]) && remainingRequested[queue.UID].queue == queue && remainingRequested[queue.UID].remainingAmount == fairShare - result
//@   ensures [remainderLtOne] requested > fairShare && fairShare > 0.0 ==> fairShare - result < 1.0
//@   ensures [noRemainderKeepsEntry] requested > fairShare && fairShare - result <= 0.0 ==> (queue.UID in remainingRequested) == old(queue.UID in remainingRequested) && remainingRequested[queue.UID] == old(remainingRequested[queue.UID])
//@ end

// ---- weights ---------------------------------------------------------------
// call-site facts (proportion.createQueueResourceAttrs keys pp.queues by queue.UID; weights come from the Queue CRD, "weight incl. 0")
//@ define keyedByUID(qs map[common_info.QueueID]*rs.QueueAttributes) bool = forall k in qs :: qs[k] != nil && qs[k].UID == k
//@ define weightsNonNeg(qs map[common_info.QueueID]*rs.QueueAttributes, r rs.ResourceName) bool = forall k in qs :: weight(qs[k], r) >= 0.0

// total over-quota weight of the unsatisfied queues: non-negative, dominates every unsatisfied queue's
// weight, zero iff all such weights are zero (helper "c09"); (helper "c09b") [closedForm]: it IS the fold
// sum k in queues :: ite(satisfied(k), 0, weight(k)).
// (helper "c09b") closed form of the fold: the SUM over the siblings of the over-quota weight of the unsatisfied ones
//@ define unsatW(q *rs.QueueAttributes, r rs.ResourceName) real = ite(satisfied(q, r), 0.0, weight(q, r))
//@ define totalUnsatW(qs map[common_info.QueueID]*rs.QueueAttributes, r rs.ResourceName) real = sum k in qs :: unsatW(qs[k], r)
//@ func getTotalWeightsForUnsatisfied
//@   props C09
//@   requires validRes(resourceName) && queuesOK(queues) && weightsNonNeg(queues, resourceName)
//@   pure
//@   loop 1
//@     invariant totalOverQuotaWeights >= 0.0
//@     invariant forall k in visited :: k in queues
//@     invariant forall k in visited :: !satisfied(queues[k], resourceName) ==> weight(queues[k], resourceName) <= totalOverQuotaWeights
//@     invariant totalOverQuotaWeights > 0.0 ==> exists k in visited :: !satisfied(queues[k], resourceName) && weight(queues[k], resourceName) > 0.0
//@     invariant totalOverQuotaWeights == sum k in visited :: unsatW(queues[k], resourceName)
//@   ensures [nonneg] result >= 0.0
//@   ensures [dominates] forall k in queues :: !satisfied(queues[k], resourceName) ==> weight(queues[k], resourceName) <= result
//@   ensures [positiveHasWitness] result > 0.0 ==> exists k in queues :: !satisfied(queues[k], resourceName) && weight(queues[k], resourceName) > 0.0
//@   ensures [closedForm] result == totalUnsatW(queues, resourceName)
//@ end

// share weight of one queue for total over-quota weight T and time-based-fairness factor kv
//@ define shareWf(w real, u real, T real, kv real) real = max(0.0, w / T + kv * (w / T - u))
//@ define shareW(q *rs.QueueAttributes, r rs.ResourceName, T real, kv real) real = shareWf(weight(q, r), usage(q, r), T, kv)

// (helper "c09b") sums over a key set S (a map's dom(..) or the ghost `visited`): the share weights stored in a table / the
// effective ("share") weight of the unsatisfied siblings (closed form). Sums are wrapped in defines so that the same
// summand evaluated in different states / for different tables is related by pointwise congruence.
//@ define swSum(S ref, m map[common_info.QueueID]float64) real = sum k in S :: m[k]
// historical usages are shares of the cluster capacity (never negative); the time-based-fairness factor is clamped to >= 0 by the plugin (proportion.New [kValueNonNegative])
//@ define usagesNonNeg(qs map[common_info.QueueID]*rs.QueueAttributes, r rs.ResourceName) bool = forall k in qs :: usage(qs[k], r) >= 0.0
// C09 "every queue with positive effective over-quota weight is satisfied": the effective (share) weight of q is 0 when no unsatisfied sibling has a weight (T == 0) or the formula yields 0
//@ define zeroEff(q *rs.QueueAttributes, r rs.ResourceName, T real, kv real) bool = T == 0.0 || shareW(q, r, T, kv) == 0.0
//@ define noClaimant(qs map[common_info.QueueID]*rs.QueueAttributes, r rs.ResourceName, kv real) bool = forall k in qs :: satisfied(qs[k], r) || zeroEff(qs[k], r, totalUnsatW(qs, r), kv)
//@ define effW(q *rs.QueueAttributes, r rs.ResourceName, T real, kv real) real = ite(satisfied(q, r), 0.0, shareW(q, r, T, kv))
//@ define effWSum(S ref, qs map[common_info.QueueID]*rs.QueueAttributes, r rs.ResourceName, T real, kv real) real = sum k in S :: effW(qs[k], r, T, kv)

// C09 ("within a priority the surplus is monotone in over-quota weight", "weight incl. 0", "all
// k-values"): per-round share weights are >= 0, bounded by their sum, exist exactly for the
// unsatisfied queues, follow the documented formula and are monotone in the over-quota weight.
//@ func calcShareWeights
//@   props C09
//@   requires validRes(resourceName) && queuesOK(queues) && keyedByUID(queues) && weightsNonNeg(queues, resourceName)
//@   loop 1
//@     invariant totalWeights > 0.0 && shareWeightsPerQueue != nil && fresh(shareWeightsPerQueue)
//@     invariant forall k in visited :: k in queues
//@     invariant shareWeightsSum >= 0.0
//@     invariant forall k in shareWeightsPerQueue :: k in visited && !satisfied(queues[k], resourceName)
//@     invariant forall k in visited :: !satisfied(queues[k], resourceName) ==> k in shareWeightsPerQueue
//@     invariant resourceName == "CPU" ==> forall k in shareWeightsPerQueue :: shareWeightsPerQueue[k] == shareWf(queues[k].CPU.OverQuotaWeight, queues[k].CPU.Usage, totalWeights, kValue)
//@     invariant resourceName == "Memory" ==> forall k in shareWeightsPerQueue :: shareWeightsPerQueue[k] == shareWf(queues[k].Memory.OverQuotaWeight, queues[k].Memory.Usage, totalWeights, kValue)
//@     invariant resourceName == "GPU" ==> forall k in shareWeightsPerQueue :: shareWeightsPerQueue[k] == shareWf(queues[k].GPU.OverQuotaWeight, queues[k].GPU.Usage, totalWeights, kValue)
//@     invariant forall k in shareWeightsPerQueue :: shareWeightsPerQueue[k] <= shareWeightsSum
//@     invariant kValue >= 0.0 && usagesNonNeg(queues, resourceName) ==> forall k in queues :: weight(queues[k], resourceName) == 0.0 ==> shareWeightsPerQueue[k] == 0.0
//@     invariant totalWeights == totalUnsatW(queues, resourceName)
//@     invariant shareWeightsSum == swSum(visited, shareWeightsPerQueue)
//@     invariant shareWeightsSum == effWSum(visited, queues, resourceName, totalWeights, kValue)
//@   hint [formulaCPU] result1 != 0.0 && resourceName == "CPU" ==> forall k in result0 :: result0[k] == shareWf(queues[k].CPU.OverQuotaWeight, queues[k].CPU.Usage, totalUnsatW(queues, resourceName), kValue)
//@   hint [formulaMemory] result1 != 0.0 && resourceName == "Memory" ==> forall k in result0 :: result0[k] == shareWf(queues[k].Memory.OverQuotaWeight, queues[k].Memory.Usage, totalUnsatW(queues, resourceName), kValue)
//@   hint [formulaGPU] result1 != 0.0 && resourceName == "GPU" ==> forall k in result0 :: result0[k] == shareWf(queues[k].GPU.OverQuotaWeight, queues[k].GPU.Usage, totalUnsatW(queues, resourceName), kValue)
//@   hint [formulaClosed] result1 != 0.0 ==> forall k in result0 :: result0[k] == shareW(queues[k], resourceName, totalUnsatW(queues, resourceName), kValue)
//@   ensures [freshMap] result0 != nil && fresh(result0)
//@   ensures [sumNonNeg] result1 >= 0.0
//@   ensures [weightsNonNeg] forall k in result0 :: result0[k] >= 0.0
//@   ensures [weightsLeSum] forall k in result0 :: result0[k] <= result1
//@   ensures [keysUnsatisfied] forall k in result0 :: k in queues && !satisfied(queues[k], resourceName)
//@   ensures [unsatisfiedHaveKey] result1 != 0.0 ==> forall k in queues :: !satisfied(queues[k], resourceName) ==> k in result0
//@   # (helper "c09b") [formula] / [formulaClosed] / [sumClosedForm] are proved here but NOT exported (lemma / hint): their nonlinear bodies
//@   # (w/T + k*(w/T - u)) in the caller's context made the sum steps of divideUpToFairShare undecided; no caller needs them.
//@   # [formulaClosed] names the T of [formula]: it is totalUnsatW (the fold of getTotalWeightsForUnsatisfied).
//@   lemma [formula] result1 != 0.0 ==> exists T real :: T > 0.0 && (forall k in queues :: !satisfied(queues[k], resourceName) ==> weight(queues[k], resourceName) <= T) && (forall k in result0 :: result0[k] == shareW(queues[k], resourceName, T, kValue))
//@   ensures [sumOfWeights] totalUnsatW(queues, resourceName) != 0.0 ==> result1 == swSum(queues, result0)
//@   ensures [zeroWeightZeroShare] kValue >= 0.0 && usagesNonNeg(queues, resourceName) ==> forall k in queues :: weight(queues[k], resourceName) == 0.0 ==> result0[k] == 0.0
//@   ensures [zeroSumNoClaimant] result1 == 0.0 ==> noClaimant(queues, resourceName, kValue)
//@   lemma [sumClosedForm] totalUnsatW(queues, resourceName) != 0.0 ==> result1 == effWSum(queues, queues, resourceName, totalUnsatW(queues, resourceName), kValue)
//@   ensures [nothingToShare] totalUnsatW(queues, resourceName) == 0.0 ==> result1 == 0.0 && forall k common_info.QueueID :: !(k in result0)
//@   ensures [weightMonotoneCPU] resourceName == "CPU" && kValue >= 0.0 ==> forall a in result0 :: forall b in result0 :: queues[a].CPU.OverQuotaWeight <= queues[b].CPU.OverQuotaWeight && queues[a].CPU.Usage >= queues[b].CPU.Usage ==> result0[a] <= result0[b]
//@   ensures [weightMonotoneMemory] resourceName == "Memory" && kValue >= 0.0 ==> forall a in result0 :: forall b in result0 :: queues[a].Memory.OverQuotaWeight <= queues[b].Memory.OverQuotaWeight && queues[a].Memory.Usage >= queues[b].Memory.Usage ==> result0[a] <= result0[b]
//@   ensures [weightMonotoneGPU] resourceName == "GPU" && kValue >= 0.0 ==> forall a in result0 :: forall b in result0 :: queues[a].GPU.OverQuotaWeight <= queues[b].GPU.OverQuotaWeight && queues[a].GPU.Usage >= queues[b].GPU.Usage ==> result0[a] <= result0[b]
//@ end

// ---- phase 1: deserved quota ------------------------------------------------
// deserved quota of q ("quota incl. unlimited": -1 means the whole amount being divided)
//@ define deservedCap(q *rs.QueueAttributes, r rs.ResourceName, total real) real = ite(deserved(q, r) == -1.0, total, deserved(q, r))
// C09: "min(deserved quota, its request capped by its limit)"
//@ define deservedPart(q *rs.QueueAttributes, r rs.ResourceName, total real) real = min(deservedCap(q, r, total), capReq(q, r))
// the shares of the resources other than r are as in the pre-state
//@ define otherResKept(q *rs.QueueAttributes, r rs.ResourceName) bool = (r != "CPU" ==> q.CPU.FairShare == old(q.CPU.FairShare)) && (r != "Memory" ==> q.Memory.FairShare == old(q.Memory.FairShare)) && (r != "GPU" ==> q.GPU.FairShare == old(q.GPU.FairShare))
//@ define member(qs map[common_info.QueueID]*rs.QueueAttributes, q *rs.QueueAttributes) bool = q.UID in qs && qs[q.UID] == q

// queues that are not among the siblings keep their shares (and their fair-share cache)
//@ define othersKept(qs map[common_info.QueueID]*rs.QueueAttributes) bool = forall q *rs.QueueAttributes :: q != nil && !member(qs, q) ==> q.CPU.FairShare == old(q.CPU.FairShare) && q.Memory.FairShare == old(q.Memory.FairShare) && q.GPU.FairShare == old(q.GPU.FairShare) && q.lastFairShare == old(q.lastFairShare)

// (helper "c09b") sums over a key set S of the siblings: what phase 1 hands out / the fair shares themselves
//@ define deservedSum(S ref, qs map[common_info.QueueID]*rs.QueueAttributes, r rs.ResourceName, total real) real = sum k in S :: deservedPart(qs[k], r, total)
//@ define fairSum(S ref, qs map[common_info.QueueID]*rs.QueueAttributes, r rs.ResourceName) real = sum k in S :: fair(qs[k], r)

// C09: "each queue's fair share is at least min(deserved quota, its request capped by its limit)":
// phase 1 adds exactly that amount to every sibling (functional, hence independent of the map
// iteration order), touches no other queue and no other resource.
//@ func setDeservedResource
//@   props C09
//@   requires validRes(resource) && queuesOK(queues) && keyedByUID(queues)
//@   modifies family(queues[""].CPU.FairShare), family(queues[""].lastFairShare)
//@   loop 1
//@     invariant forall k in visited :: k in queues
//@     invariant queuesOK(queues)
//@     invariant forall k in queues :: fair(queues[k], resource) == old(fair(queues[k], resource)) + ite(k in visited, deservedPart(queues[k], resource, totalResourceAmount), 0.0)
//@     invariant forall k in queues :: otherResKept(queues[k], resource)
//@     invariant othersKept(queues)
//@     invariant (forall k in queues :: deservedPart(queues[k], resource, totalResourceAmount) >= 0.0) ==> remainingAmount <= totalResourceAmount && forall k in visited :: remainingAmount <= totalResourceAmount - deservedPart(queues[k], resource, totalResourceAmount)
//@     invariant remainingAmount == totalResourceAmount - deservedSum(visited, queues, resource, totalResourceAmount)
//@     invariant fairSum(queues, queues, resource) + remainingAmount == old(fairSum(queues, queues, resource)) + totalResourceAmount
//@   ensures [deservedAdded] forall k in queues :: fair(queues[k], resource) == old(fair(queues[k], resource)) + deservedPart(queues[k], resource, totalResourceAmount)
//@   ensures [leftAfterDeserved] remainingAmount == totalResourceAmount - deservedSum(queues, queues, resource, totalResourceAmount)
//@   ensures [conservation] fairSum(queues, queues, resource) + remainingAmount == old(fairSum(queues, queues, resource)) + totalResourceAmount
//@   ensures [otherResourcesKept] forall k in queues :: otherResKept(queues[k], resource)
//@   ensures [otherQueuesKept] othersKept(queues)
//@   ensures [cache] queuesOK(queues)
//@   ensures [remainingBounded] (forall k in queues :: deservedPart(queues[k], resource, totalResourceAmount) >= 0.0) ==> remainingAmount <= totalResourceAmount && forall k in queues :: remainingAmount <= totalResourceAmount - deservedPart(queues[k], resource, totalResourceAmount)
//@ end

// ---- phase 2: priorities ----------------------------------------------------
// C09: "While a higher over-quota priority is unsatisfied, lower priorities receive at most ...":
// the comparator handed to slices.SortFunc orders priorities descending (negative <=> i before j <=> i > j).
//@ func getQueuesByPriority$1
//@   props C09
//@   pure
//@   ensures result == j - i
//@   ensures [higherFirst] (result < 0) == (i > j)
//@   ensures [equalOnlyIfSame] (result == 0) == (i == j)
//@ end

// Assumed contracts of the two generic library functions used by getQueuesByPriority (bodies are not
// part of the verified program).
//@ func golang.org/x/exp/maps.Keys
//@   trusted
//@   note library (golang.org/x/exp/maps): "Keys returns the keys of the map m. The keys will be in an indeterminate order." New slice, one element per key, nothing else written.
//@   fresh
//@   ensures [oneElementPerKey] len(result) == len(arg0)
//@   ensures [elementsAreKeys] forall i in result :: result[i] in arg0
//@   ensures [everyKeyListed] forall k in arg0 :: exists i in result :: result[i] == k
//@   ensures [noDuplicates] forall i in result :: forall j in result :: i != j ==> result[i] != result[j]
//@ end

// sortCmp stands for "the cmp argument of slices.SortFunc" (function values cannot be called in specs): the only
// SortFunc call of this package passes getQueuesByPriority$1, whose proved contract is result == j - i.
//@ define sortCmp(a int, b int) int = b - a
//@ func slices.SortFunc
//@   trusted
//@   note library (slices): "SortFunc sorts the slice x in ascending order as determined by the cmp function" (cmp(a,b) < 0 when a must come before b; requires a strict weak ordering, proved for getQueuesByPriority$1). In-place permutation of the elements.
//@   modifies arg0[*]
//@   ensures [sameLength] len(arg0) == old(len(arg0))
//@   ensures [onlyOldElements] forall i in arg0 :: exists j in arg0 :: arg0[i] == old(arg0[j])
//@   ensures [allOldElements] forall j in arg0 :: exists i in arg0 :: arg0[i] == old(arg0[j])
//@   ensures [noNewDuplicates] forall i in arg0 :: forall j in arg0 :: i != j && arg0[i] == arg0[j] ==> exists i2 in arg0 :: exists j2 in arg0 :: i2 != j2 && old(arg0[i2]) == old(arg0[j2])
//@   ensures [sorted] forall i in arg0 :: forall j in arg0 :: i < j ==> sortCmp(arg0[j], arg0[i]) >= 0
//@ end

// grouping of the siblings by priority is a partition of the input map (functional => independent of
// the map iteration order); the priority list is the key set of the partition, sorted descending.
//@ func getQueuesByPriority
//@   props C09
//@   requires forall k in queues :: queues[k] != nil
//@   loop 1
//@     invariant queuesByPriority != nil && fresh(queuesByPriority)
//@     invariant forall m map[common_info.QueueID]*rs.QueueAttributes :: forall k common_info.QueueID :: m != nil && !fresh(m) ==> (k in m) == old(k in m) && m[k] == old(m[k])
//@     invariant forall k in visited :: k in queues
//@     invariant forall p in queuesByPriority :: queuesByPriority[p] != nil && fresh(queuesByPriority[p]) && allocated(queuesByPriority[p])
//@     invariant forall p in queuesByPriority :: forall p2 in queuesByPriority :: p != p2 ==> queuesByPriority[p] != queuesByPriority[p2]
//@     invariant forall k in visited :: queues[k].Priority in queuesByPriority && k in queuesByPriority[queues[k].Priority] && queuesByPriority[queues[k].Priority][k] == queues[k]
//@     invariant forall p in queuesByPriority :: forall k in queuesByPriority[p] :: k in visited && queues[k].Priority == p
//@     invariant forall p in queuesByPriority :: exists k in queuesByPriority[p] :: true
//@   ensures [groupsFresh] result0 != nil && fresh(result0) && forall p in result0 :: result0[p] != nil && fresh(result0[p])
//@   ensures [groupsDistinct] forall p in result0 :: forall p2 in result0 :: p != p2 ==> result0[p] != result0[p2]
//@   ensures [everyQueueInItsGroup] forall k in queues :: queues[k].Priority in result0 && k in result0[queues[k].Priority] && result0[queues[k].Priority][k] == queues[k]
//@   ensures [groupsOnlyOwnPriority] forall p in result0 :: forall k in result0[p] :: k in queues && queues[k].Priority == p
//@   ensures [noEmptyGroup] forall p in result0 :: exists k in result0[p] :: true
//@   ensures [prioritiesAreGroupKeys] forall i in result1 :: result1[i] in result0
//@   ensures [everyGroupListed] forall p in result0 :: exists i in result1 :: result1[i] == p
//@   ensures [strictlyDescending] forall i in result1 :: forall j in result1 :: i < j ==> result1[i] > result1[j]
//@ end

// ---- phase 3: remainder hand-out order ---------------------------------------
// documented order of the remainder phase: larger rounding remainder first, then older queue, then UID
//@ define rrBefore(l *remainingRequestedResource, r *remainingRequestedResource) bool = l.remainingAmount > r.remainingAmount || (l.remainingAmount == r.remainingAmount && (l.queue.CreationTimestamp < r.queue.CreationTimestamp || (l.queue.CreationTimestamp == r.queue.CreationTimestamp && l.queue.UID < r.queue.UID)))
//@ define rrSameKey(l *remainingRequestedResource, r *remainingRequestedResource) bool = l.remainingAmount == r.remainingAmount && l.queue.CreationTimestamp == r.queue.CreationTimestamp && l.queue.UID == r.queue.UID

// C09 ("the result is independent of the order in which queues are enumerated"): the pop order of
// the remainder phase is a strict total order on (remainder, creation time, UID), i.e. a strict weak
// order whose only ties are entries with identical keys.
//@ func remainingRequestedOrderFn$1
//@   props C09
//@   requires typeis(lH, "*remainingRequestedResource") && typeis(rH, "*remainingRequestedResource")
//@   requires unbox(lH, "*remainingRequestedResource") != nil && unbox(rH, "*remainingRequestedResource") != nil
//@   requires unbox(lH, "*remainingRequestedResource").queue != nil && unbox(rH, "*remainingRequestedResource").queue != nil
//@   pure
//@   ensures result == rrBefore(unbox(lH, "*remainingRequestedResource"), unbox(rH, "*remainingRequestedResource"))
//@   lemma [irreflexiveAsymmetric] result ==> !rrBefore(unbox(rH, "*remainingRequestedResource"), unbox(lH, "*remainingRequestedResource"))
//@   lemma [totalUpToKey] !result && !rrBefore(unbox(rH, "*remainingRequestedResource"), unbox(lH, "*remainingRequestedResource")) ==> rrSameKey(unbox(lH, "*remainingRequestedResource"), unbox(rH, "*remainingRequestedResource"))
//@   lemma [transitive] forall m *remainingRequestedResource :: m != nil && m.queue != nil && result && rrBefore(unbox(rH, "*remainingRequestedResource"), m) ==> rrBefore(unbox(lH, "*remainingRequestedResource"), m)
//@ end

//@ func remainingRequestedOrderFn
//@   props C09
//@   inline
//@ end

// ---- phase 2: weighted rounds -------------------------------------------------
// the remainder table handed to the remainder phase: one fresh record per still-unsatisfied queue,
// keyed by the queue's UID, holding a rounding remainder strictly between 0 and 1
//@ define rrOK(rr map[common_info.QueueID]*remainingRequestedResource, qs map[common_info.QueueID]*rs.QueueAttributes, r rs.ResourceName) bool = forall k in rr :: k in qs && rr[k] != nil && fresh(rr[k]) && rr[k].queue == qs[k] && rr[k].remainingAmount > 0.0 && rr[k].remainingAmount < 1.0 && !satisfied(qs[k], r)
// no remainder table that existed before the call is touched
//@ define oldTablesKept() bool = forall m map[common_info.QueueID]*remainingRequestedResource :: forall k common_info.QueueID :: m != nil && !fresh(m) ==> (k in m) == old(k in m) && m[k] == old(m[k])
//@ define rrDistinct(rr map[common_info.QueueID]*remainingRequestedResource) bool = forall j in rr :: forall k in rr :: j != k ==> rr[j] != rr[k]

// C09, weighted rounds of one priority level. Proved per queue (hence for every map iteration order):
// shares only grow, never beyond the capped request ("exceeds its capped request by less than one
// rounding unit": by nothing at all in this phase), nothing is taken back (remaining <= total), other
// resources / other queues are untouched, and every rounding remainder recorded for the remainder
// phase belongs to a still unsatisfied queue of this level and is < 1 unit.
// (helper "c09b", finite sums) C09 "the surplus handed out never exceeds what is left after deserved quotas":
//  [conservation]  sum of the siblings' shares + what is left == the same before + the amount to divide (every unit taken
//                  from the counter went into exactly one sibling's share, every round, every iteration order);
//  [neverNegative] the counter never goes below 0 (per round: what a queue gets is <= its round share A*(w_k/S), the round
//                  shares of all siblings add up to A because the normalised weights w_k/S add up to 1);
//  C09 "surplus stays undistributed only if every queue with positive effective over-quota weight is satisfied" and
//  "while a higher over-quota priority is unsatisfied, lower priorities receive at most its rounding remainder (less than
//  one unit per higher-priority queue)":
//  [priorityLaw]   what this level leaves (= what the next lower priority gets to divide) is 0, or no unsatisfied sibling
//                  has a positive effective weight (noClaimant: then everything is passed down), or it is < 1 unit per
//                  still-unsatisfied sibling with non-zero over-quota weight (the floor() remainders of the last round).
//                  Needs kValue >= 0 (proportion.New clamps it) and usages >= 0: otherwise a sibling with weight 0 can get a
//                  positive share weight, is skipped by the rounds, and its share of the surplus is silently passed down.
// Order-independence of the weighted rounds is NOT stated as a functional postcondition (the result is a fixpoint over an
// unbounded number of rounds; the state at the head of a round cannot be named in an inner-loop invariant); every clause
// above is proved for every iteration order (the key picked by each range step is arbitrary).
// (helper "c09b") round share of queue k: the code's `amountToGiveInCurrentRound * (shareWeightsPerQueue[k] / shareWeightsSum)`, and its sum
//@ define roundShare(m map[common_info.QueueID]float64, k common_info.QueueID, A real, S real) real = A * (m[k] / S)
// normalised weights of a round add up to 1 (engine: sums are linear in a factor that does not depend on the key)
//@ define normSum(V ref, m map[common_info.QueueID]float64, S real) real = sum k in V :: m[k] / S
//@ define roundShareSum(V ref, m map[common_info.QueueID]float64, A real, S real) real = sum k in V :: roundShare(m, k, A, S)
// (helper "c09b") unsatisfied siblings that take part in the weighted rounds (over-quota weight != 0), and their number
//@ define unsatNZ(q *rs.QueueAttributes, r rs.ResourceName) bool = !satisfied(q, r) && weight(q, r) != 0.0
//@ define unsatCount(S ref, qs map[common_info.QueueID]*rs.QueueAttributes, r rs.ResourceName) int = count k in S :: unsatNZ(qs[k], r)
// "less than one unit per unsatisfied queue": left < shares + c strictly, or nothing is owed to anybody (c == 0) and left <= shares
//@ define lawBound(left real, c int) bool = left < real(c) || (c == 0 && left <= 0.0)
//@ func divideUpToFairShare
//@   props C09
//@   requires validRes(resourceName) && queuesOK(queues) && keyedByUID(queues) && weightsNonNeg(queues, resourceName)
//@   modifies family(queues[""].CPU.FairShare), family(queues[""].lastFairShare)
//@   loop 1
//@     invariant remainingRequested != nil && fresh(remainingRequested)
//@     invariant queuesOK(queues)
//@     invariant cur(totalResourceAmount) <= totalResourceAmount
//@     invariant forall k in queues :: fair(queues[k], resourceName) >= old(fair(queues[k], resourceName)) && fair(queues[k], resourceName) <= max(old(fair(queues[k], resourceName)), capReq(queues[k], resourceName))
//@     invariant forall k in queues :: otherResKept(queues[k], resourceName)
//@     invariant othersKept(queues)
//@     invariant rrOK(remainingRequested, queues, resourceName)
//@     invariant rrDistinct(remainingRequested)
//@     invariant oldTablesKept()
//@     invariant totalResourceAmount >= 0.0 ==> cur(totalResourceAmount) >= 0.0
//@     invariant fairSum(queues, queues, resourceName) + cur(totalResourceAmount) == old(fairSum(queues, queues, resourceName)) + totalResourceAmount
//@   loop 2
//@     invariant remainingRequested != nil && fresh(remainingRequested)
//@     invariant forall k in visited :: k in queues
//@     invariant shareWeightsSum > 0.0 && shareWeightsSum == swSum(queues, shareWeightsPerQueue) && forall k common_info.QueueID :: shareWeightsPerQueue[k] >= 0.0
//@     invariant normSum(queues, shareWeightsPerQueue, shareWeightsSum) == 1.0
//@     invariant roundShareSum(queues, shareWeightsPerQueue, amountToGiveInCurrentRound, shareWeightsSum) == amountToGiveInCurrentRound
//@     invariant totalResourceAmount >= 0.0 ==> amountToGiveInCurrentRound >= 0.0
//@     invariant totalResourceAmount >= 0.0 ==> amountToGiveInCurrentRound - cur(totalResourceAmount) <= roundShareSum(visited, shareWeightsPerQueue, amountToGiveInCurrentRound, shareWeightsSum)
//@     invariant fairSum(queues, queues, resourceName) + cur(totalResourceAmount) == old(fairSum(queues, queues, resourceName)) + totalResourceAmount
//@     invariant forall k in queues :: !(k in visited) ==> ((k in shareWeightsPerQueue) == !satisfied(queues[k], resourceName))
//@     invariant kValue >= 0.0 && usagesNonNeg(queues, resourceName) ==> forall k in queues :: weight(queues[k], resourceName) == 0.0 ==> shareWeightsPerQueue[k] == 0.0
//@     invariant totalResourceAmount >= 0.0 && kValue >= 0.0 && usagesNonNeg(queues, resourceName) && !shouldRunAnotherRound ==> lawBound(cur(totalResourceAmount) - amountToGiveInCurrentRound + roundShareSum(visited, shareWeightsPerQueue, amountToGiveInCurrentRound, shareWeightsSum), unsatCount(visited, queues, resourceName))
//@     invariant queuesOK(queues)
//@     invariant cur(totalResourceAmount) <= totalResourceAmount
//@     invariant forall k in queues :: fair(queues[k], resourceName) >= old(fair(queues[k], resourceName)) && fair(queues[k], resourceName) <= max(old(fair(queues[k], resourceName)), capReq(queues[k], resourceName))
//@     invariant forall k in queues :: otherResKept(queues[k], resourceName)
//@     invariant othersKept(queues)
//@     invariant rrOK(remainingRequested, queues, resourceName)
//@     invariant rrDistinct(remainingRequested)
//@     invariant oldTablesKept()
//@   hint [lastRoundHadNoClaimant] shareWeightsSum == 0.0 ==> noClaimant(queues, resourceName, kValue)
//@   hint [lastRoundLeftLessThanOneUnitEach] totalResourceAmount >= 0.0 && kValue >= 0.0 && usagesNonNeg(queues, resourceName) ==> remainingAmount == 0.0 || shareWeightsSum == 0.0 || remainingAmount < real(unsatCount(queues, queues, resourceName))
//@   ensures [remainderTableFresh] remainingRequested != nil && fresh(remainingRequested)
//@   ensures [nothingTakenBack] remainingAmount <= totalResourceAmount
//@   ensures [neverNegative] totalResourceAmount >= 0.0 ==> remainingAmount >= 0.0
//@   ensures [conservation] fairSum(queues, queues, resourceName) + remainingAmount == old(fairSum(queues, queues, resourceName)) + totalResourceAmount
//@   ensures [priorityLaw] totalResourceAmount >= 0.0 && kValue >= 0.0 && usagesNonNeg(queues, resourceName) ==> remainingAmount == 0.0 || noClaimant(queues, resourceName, kValue) || remainingAmount < real(unsatCount(queues, queues, resourceName))
//@   ensures [sharesOnlyGrow] forall k in queues :: fair(queues[k], resourceName) >= old(fair(queues[k], resourceName))
//@   ensures [neverBeyondCappedRequest] forall k in queues :: fair(queues[k], resourceName) <= max(old(fair(queues[k], resourceName)), capReq(queues[k], resourceName))
//@   ensures [otherResourcesKept] forall k in queues :: otherResKept(queues[k], resourceName)
//@   ensures [otherQueuesKept] othersKept(queues)
//@   ensures [remaindersWellFormed] rrOK(remainingRequested, queues, resourceName)
//@   ensures [remaindersDistinct] rrDistinct(remainingRequested)
//@   ensures [cache] queuesOK(queues)
//@ end

// ---- phase 3: remainder hand-out ----------------------------------------------
//@ import su "github.com/NVIDIA/KAI-scheduler/pkg/scheduler/scheduler_util"
// usable remainder table (as built by divideUpToFairShare): every record is stored under the UID of its
// queue (so different records belong to different queues), fair-share caches coherent
//@ define rrKeyed(rr map[common_info.QueueID]*remainingRequestedResource) bool = forall k in rr :: rr[k] != nil && rr[k].queue != nil && rr[k].queue.UID == k && rs.cacheOK(rr[k].queue)
// e is a record of the table / q is a queue with a record in the table
//@ define fromTable(rr map[common_info.QueueID]*remainingRequestedResource, e *remainingRequestedResource) bool = e != nil && e.queue != nil && e.queue.UID in rr && rr[e.queue.UID] == e
//@ define inTable(rr map[common_info.QueueID]*remainingRequestedResource, q *rs.QueueAttributes) bool = q != nil && q.UID in rr && rr[q.UID].queue == q
// every element of the priority queue is (a boxed pointer to) a record of the table, each at most once
//@ define pqFromTable(pq *su.PriorityQueue, rr map[common_info.QueueID]*remainingRequestedResource) bool = forall i int :: 0 <= i && i < len(pq.queue.items) ==> typeis(pq.queue.items[i], "*remainingRequestedResource") && fromTable(rr, unbox(pq.queue.items[i], "*remainingRequestedResource"))
//@ define pqNoDup(pq *su.PriorityQueue) bool = forall i1 int, i2 int :: 0 <= i1 && i1 < i2 && i2 < len(pq.queue.items) ==> unbox(pq.queue.items[i1], "*remainingRequestedResource") != unbox(pq.queue.items[i2], "*remainingRequestedResource")
// priority queues and interface cells that existed before the call are untouched
//@ define oldQueuesKept() bool = (forall p *su.priorityQueue :: p != nil && !fresh(p) ==> p.items == old(p.items)) && (forall c *interface{} :: old(allocated(c)) ==> *c == old(*c))
// the share of q for resource r is as in the pre-state
//@ define ungained(q *rs.QueueAttributes, r rs.ResourceName) bool = fair(q, r) == old(fair(q, r))

// (helper "c09b") number of records of a remainder table (S = the table, or the ghost `visited` of a loop over it)
//@ define rrCount(S ref) int = count k in S :: true
// the priority queue of the remainder phase holds every record of the table exactly once (functional:
// independent of the map iteration order up to the heap's internal layout)
//@ func sortByOverQuotaWeight
//@   props C09
//@   requires rrKeyed(remainingRequested)
//@   fresh
//@   loop 1
//@     invariant sortedGroupQueues != nil && fresh(sortedGroupQueues) && sortedGroupQueues.maxQueueSize == 0 - 1 && fresh(sortedGroupQueues.queue.items)
//@     invariant oldQueuesKept()
//@     invariant forall k in visited :: k in remainingRequested
//@     invariant pqFromTable(sortedGroupQueues, remainingRequested)
//@     invariant forall i int :: 0 <= i && i < len(sortedGroupQueues.queue.items) ==> unbox(sortedGroupQueues.queue.items[i], "*remainingRequestedResource").queue.UID in visited
//@     invariant len(sortedGroupQueues.queue.items) == rrCount(visited)
//@   ensures [unbounded] result != nil && result.maxQueueSize == 0 - 1 && fresh(result.queue.items)
//@   ensures [onlyTableRecords] pqFromTable(result, remainingRequested)
//@   # (helper "c09b", on main's instruction) `invariant pqNoDup(sortedGroupQueues)` / `ensures [noDuplicates] pqNoDup(result)` removed: the
//@   # preservation through Push was decided only in the retry phase (10-80 s, red under load) and no unit uses the clause;
//@   # "one element per record" is now claimed as the cardinality fact [oneElementPerRecord] (count of the table's keys).
//@   ensures [oneElementPerRecord] len(result.queue.items) == rrCount(remainingRequested)
//@ end

// C09, remainder phase of one priority level ("the surplus handed out never exceeds what is left",
// "exceeds its capped request by less than one rounding unit"): hands out min(1, what is left) per
// popped record (each hand-out is at most one unit), so 0 <= remaining <= total; shares only grow;
// only queues with a recorded rounding remainder receive anything; other resources are untouched.
// NOT proved: "every queue receives at most ONE unit" (invariants `pqNoDup(sortedQueues)` + `every record
// still in the heap is ungained` + `gain <= 1`; the preservation queries through the trusted Pop contract
// ([removedOnce], [noNewDuplicates]) are not decided by any solver within 120 s), see report.
// (helper "c09b") [exactRemainder]: with n = number of records of the table, exactly min(total, n) is handed out (one unit per
// popped record, the last one possibly a fraction), i.e. remaining == max(total - n, 0): C09 "surplus stays undistributed
// only if ..." for this phase = only when every recorded queue has received its unit. NOT proved: the exact conservation
// over the table's queues (the key of the popped record is never used as a map key by the code, so the sum over the table
// cannot be split at it: no way to name a body-local value in an invariant).
//@ func divideRemainingResource
//@   props C09
//@   requires validRes(resourceName) && totalResourceAmount >= 0.0 && rrKeyed(remainingRequested)
//@   modifies family(remainingRequested[""].queue.CPU.FairShare), family(remainingRequested[""].queue.lastFairShare)
//@   loop 1
//@     invariant sortedQueues != nil && fresh(sortedQueues) && fresh(sortedQueues.queue.items)
//@     invariant oldQueuesKept()
//@     invariant forall i int :: 0 <= i && i < len(sortedQueues.queue.items) ==> typeis(sortedQueues.queue.items[i], "*remainingRequestedResource") && unbox(sortedQueues.queue.items[i], "*remainingRequestedResource") != nil && unbox(sortedQueues.queue.items[i], "*remainingRequestedResource").queue != nil
//@     invariant forall i int :: 0 <= i && i < len(sortedQueues.queue.items) ==> inTable(remainingRequested, unbox(sortedQueues.queue.items[i], "*remainingRequestedResource").queue)
//@     invariant cur(totalResourceAmount) >= 0.0 && cur(totalResourceAmount) <= totalResourceAmount
//@     invariant rrKeyed(remainingRequested)
//@     invariant len(sortedQueues.queue.items) <= rrCount(remainingRequested)
//@     invariant cur(totalResourceAmount) == max(totalResourceAmount - real(rrCount(remainingRequested) - len(sortedQueues.queue.items)), 0.0)
//@     invariant forall q *rs.QueueAttributes :: q != nil ==> fair(q, resourceName) >= old(fair(q, resourceName)) && otherResKept(q, resourceName)
//@     invariant forall q *rs.QueueAttributes :: q != nil && !inTable(remainingRequested, q) ==> ungained(q, resourceName) && q.lastFairShare == old(q.lastFairShare)
//@   ensures [neverNegative] remainingAmount >= 0.0
//@   ensures [nothingTakenBack] remainingAmount <= totalResourceAmount
//@   ensures [exactRemainder] remainingAmount == max(totalResourceAmount - real(rrCount(remainingRequested)), 0.0)
//@   ensures [sharesOnlyGrow] forall q *rs.QueueAttributes :: q != nil ==> fair(q, resourceName) >= old(fair(q, resourceName))
//@   ensures [otherResourcesKept] forall q *rs.QueueAttributes :: q != nil ==> otherResKept(q, resourceName)
//@   ensures [onlyTableQueues] forall q *rs.QueueAttributes :: q != nil && !inTable(remainingRequested, q) ==> ungained(q, resourceName) && q.lastFairShare == old(q.lastFairShare)
//@   ensures [cache] rrKeyed(remainingRequested)
//@ end

// ---- phase 2+3 over all priority levels -----------------------------------------
// per-queue effect of the over-quota phases relative to the state at entry: shares only grow,
// other resources are untouched
//@ define grown(q *rs.QueueAttributes, r rs.ResourceName) bool = fair(q, r) >= old(fair(q, r)) && otherResKept(q, r)
// remainder tables per priority: every table is a fresh map, every record is fresh and points to one of the siblings
//@ define rrAllOK(all map[int]map[common_info.QueueID]*remainingRequestedResource, qs map[common_info.QueueID]*rs.QueueAttributes) bool = forall p in all :: all[p] != nil && fresh(all[p]) && (forall k in all[p] :: k in qs && all[p][k] != nil && fresh(all[p][k]) && all[p][k].queue == qs[k])

// C09, over-quota phases of one resource over all priority levels (levels in the strictly descending
// order delivered by getQueuesByPriority; each level first gets its weighted rounds, then, while something
// is left, the levels get their remainder hand-out in the same order). Proved per queue: shares only grow,
// nothing is taken back, other resources / other queues untouched; both loops terminate.
// (helper "c09b") [neverNegative]: remaining >= 0 through all levels and both phases. The priority law is stated where it
// is implemented (divideUpToFairShare [priorityLaw]: what a level passes down) and the levels are visited in the strictly
// descending order of getQueuesByPriority. NOT proved here: the exact conservation over ALL siblings (it holds per level,
// divideUpToFairShare [conservation]; adding the levels up needs a sum over a partition of the key set, which the sum
// axioms - one-point splits only - do not give).
//@ func divideOverQuotaResource
//@   props C09
//@   requires validRes(resourceName) && queuesOK(queues) && keyedByUID(queues) && weightsNonNeg(queues, resourceName)
//@   modifies family(queues[""].CPU.FairShare), family(queues[""].lastFairShare)
//@   loop 1
//@     invariant 0 - 1 <= rangeindex && rangeindex < len(priorities)
//@     invariant remainingRequested != nil && fresh(remainingRequested)
//@     invariant queuesOK(queues)
//@     invariant remainingAmount <= totalResourceAmount
//@     invariant totalResourceAmount >= 0.0 ==> remainingAmount >= 0.0
//@     invariant forall k in queues :: grown(queues[k], resourceName)
//@     invariant othersKept(queues)
//@     invariant rrAllOK(remainingRequested, queues)
//@     invariant oldTablesKept()
//@     decreases len(priorities) - rangeindex
//@   loop 2
//@     invariant 0 - 1 <= rangeindex && rangeindex < len(priorities)
//@     invariant remainingRequested != nil && fresh(remainingRequested)
//@     invariant queuesOK(queues)
//@     invariant remainingAmount <= totalResourceAmount
//@     invariant totalResourceAmount >= 0.0 ==> remainingAmount >= 0.0
//@     invariant forall k in queues :: grown(queues[k], resourceName)
//@     invariant othersKept(queues)
//@     invariant rrAllOK(remainingRequested, queues)
//@     invariant oldTablesKept()
//@     decreases len(priorities) - rangeindex
//@   ensures [nothingTakenBack] remainingAmount <= totalResourceAmount
//@   ensures [neverNegative] totalResourceAmount >= 0.0 ==> remainingAmount >= 0.0
//@   ensures [sharesOnlyGrow] forall k in queues :: fair(queues[k], resourceName) >= old(fair(queues[k], resourceName))
//@   ensures [otherResourcesKept] forall k in queues :: otherResKept(queues[k], resourceName)
//@   ensures [otherQueuesKept] othersKept(queues)
//@   ensures [cache] queuesOK(queues)
//@ end

// ---- one resource, all resources -----------------------------------------------
// C09 (top level, one resource): "each queue's fair share is at least min(deserved quota, its request
// capped by its limit)": after the division of `totalAmount` every sibling's share has grown by at
// least that amount (quota -1 = unlimited = the whole amount); other resources and other queues are
// untouched. Functional per queue, hence independent of the enumeration order of the siblings.
//@ func setResourceShare
//@   props C09
//@   requires validRes(resourceName) && queuesOK(queues) && keyedByUID(queues) && weightsNonNeg(queues, resourceName)
//@   modifies family(queues[""].CPU.FairShare), family(queues[""].lastFairShare)
//@   ensures [deservedFloor] forall k in queues :: fair(queues[k], resourceName) >= old(fair(queues[k], resourceName)) + deservedPart(queues[k], resourceName, totalAmount)
//@   ensures [neverNegative] result >= 0.0
//@   ensures [surplusBounded] result <= max(totalAmount - deservedSum(queues, queues, resourceName, totalAmount), 0.0)
//@   ensures [nothingLeftWhenOverbooked] totalAmount - deservedSum(queues, queues, resourceName, totalAmount) <= 0.0 ==> result == 0.0
//@   ensures [otherResourcesKept] forall k in queues :: otherResKept(queues[k], resourceName)
//@   ensures [otherQueuesKept] othersKept(queues)
//@   ensures [cache] queuesOK(queues)
//@ end

// logging and metrics only
//@ func reportDivisionResult
//@   props C09
//@   requires forall k in queues :: queues[k] != nil
//@   pure
//@   loop 1
//@     invariant true
//@ end

// C09 (top level): the floor law for all three resources of one sibling set.
//@ func SetResourcesShare
//@   props C09
//@   requires queuesOK(queues) && keyedByUID(queues)
//@   requires weightsNonNeg(queues, "CPU") && weightsNonNeg(queues, "Memory") && weightsNonNeg(queues, "GPU")
//@   modifies family(queues[""].CPU.FairShare), family(queues[""].lastFairShare)
//@   loop 1 unroll 3
//@   ensures [deservedFloorCPU] forall k in queues :: queues[k].CPU.FairShare >= old(queues[k].CPU.FairShare) + deservedPart(queues[k], "CPU", totalResource["CPU"])
//@   ensures [deservedFloorMemory] forall k in queues :: queues[k].Memory.FairShare >= old(queues[k].Memory.FairShare) + deservedPart(queues[k], "Memory", totalResource["Memory"])
//@   ensures [deservedFloorGPU] forall k in queues :: queues[k].GPU.FairShare >= old(queues[k].GPU.FairShare) + deservedPart(queues[k], "GPU", totalResource["GPU"])
//@   ensures [otherQueuesKept] othersKept(queues)
//@   ensures [cache] queuesOK(queues)
//@ end
