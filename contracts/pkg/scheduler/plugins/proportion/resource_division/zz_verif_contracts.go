//go:build verif

// Contracts for govc (contract-based deductive verification); comments only.
package resource_division

// ---- spec functions --------------------------------------------------------
//@ define validRes(r rs.ResourceName) bool = r == "CPU" || r == "Memory" || r == "GPU"
// field f of the ResourceShare record of queue q for resource r (r is one of the three valid names)
//@ define fair(q *rs.QueueAttributes, r rs.ResourceName) real = ite(r == "CPU", q.CPU.FairShare, ite(r == "Memory", q.Memory.FairShare, q.GPU.FairShare))
//@ define request(q *rs.QueueAttributes, r rs.ResourceName) real = ite(r == "CPU", q.CPU.Request, ite(r == "Memory", q.Memory.Request, q.GPU.Request))
//@ define limit(q *rs.QueueAttributes, r rs.ResourceName) real = ite(r == "CPU", q.CPU.MaxAllowed, ite(r == "Memory", q.Memory.MaxAllowed, q.GPU.MaxAllowed))
//@ define deserved(q *rs.QueueAttributes, r rs.ResourceName) real = ite(r == "CPU", q.CPU.Deserved, ite(r == "Memory", q.Memory.Deserved, q.GPU.Deserved))
//@ define weight(q *rs.QueueAttributes, r rs.ResourceName) real = ite(r == "CPU", q.CPU.OverQuotaWeight, ite(r == "Memory", q.Memory.OverQuotaWeight, q.GPU.OverQuotaWeight))
//@ define usage(q *rs.QueueAttributes, r rs.ResourceName) real = ite(r == "CPU", q.CPU.Usage, ite(r == "Memory", q.Memory.Usage, q.GPU.Usage))
// C09: "its request capped by its limit" (limit -1 = unlimited); same formula as rs.requestable
//@ define capReq(q *rs.QueueAttributes, r rs.ResourceName) real = ite(limit(q, r) == -1.0, request(q, r), min(limit(q, r), request(q, r)))
// C09: a queue is "satisfied" when its fair share covers its capped request
//@ define satisfied(q *rs.QueueAttributes, r rs.ResourceName) bool = capReq(q, r) <= fair(q, r)
// what a queue may still receive
//@ define remReq(q *rs.QueueAttributes, r rs.ResourceName) real = max(capReq(q, r) - fair(q, r), 0.0)
// every entry of the queue map is a usable queue record
//@ define queuesOK(qs map[common_info.QueueID]*rs.QueueAttributes) bool = forall k in qs :: qs[k] != nil && rs.cacheOK(qs[k])

// ---- leaves ----------------------------------------------------------------

// C09: "satisfied" <=> fair share >= request capped by limit.
//@ func isQueueSatisfied
//@   props C09
//@   requires queue != nil && validRes(resourceName)
//@   pure
//@   ensures result == satisfied(queue, resourceName)
//@ end

//@ func getRemainingRequested
//@   props C09
//@   requires queue != nil && validRes(resourceName)
//@   pure
//@   ensures result == remReq(queue, resourceName)
//@   ensures [nonneg] result >= 0.0
//@   ensures [zeroIffSatisfied] (result == 0.0) == satisfied(queue, resourceName)
//@ end

// C09 (rounding law of one round): 0 <= give <= max(fairShare,0); a queue whose remaining
// request fits its round share gets exactly the request and leaves the remainder table;
// otherwise it gets the floor of the positive part and the remainder (< 1 unit) is recorded.
//@ func getResourceToGiveInCurrentRound
//@   props C09
//@   requires queue != nil && remainingRequested != nil && requested >= 0.0
//@   modifies remainingRequested[queue.UID]
//@   ensures [lower] result >= 0.0
//@   ensures [upper] result <= max(fairShare, 0.0)
//@   ensures [atMostRequested] result <= requested
//@   ensures [satisfiedExact] requested <= fairShare ==> result == requested && !(queue.UID in remainingRequested)
//@   ensures [floorLaw] requested > fairShare ==> result == max(floor(fairShare), 0.0)
//@   ensures [remainderRecorded] requested > fairShare && fairShare - result > 0.0 ==> queue.UID in remainingRequested && fresh(remainingRequested[queue.UID]) && remainingRequested[queue.UID].queue == queue && remainingRequested[queue.UID].remainingAmount == fairShare - result
//@   ensures [remainderLtOne] requested > fairShare && fairShare > 0.0 ==> fairShare - result < 1.0
//@   ensures [noRemainderKeepsEntry] requested > fairShare && fairShare - result <= 0.0 ==> (queue.UID in remainingRequested) == old(queue.UID in remainingRequested) && remainingRequested[queue.UID] == old(remainingRequested[queue.UID])
//@ end

// ---- weights ---------------------------------------------------------------
// call-site facts (proportion.createQueueResourceAttrs keys pp.queues by queue.UID; weights come from the Queue CRD, "weight incl. 0")
//@ define keyedByUID(qs map[common_info.QueueID]*rs.QueueAttributes) bool = forall k in qs :: qs[k] != nil && qs[k].UID == k
//@ define weightsNonNeg(qs map[common_info.QueueID]*rs.QueueAttributes, r rs.ResourceName) bool = forall k in qs :: weight(qs[k], r) >= 0.0

// total over-quota weight of the unsatisfied queues: stated without the fold (no sum in the
// spec language): non-negative, dominates every unsatisfied queue's weight, zero iff all such
// weights are zero.
//@ func getTotalWeightsForUnsatisfied
//@   props C09
//@   requires validRes(resourceName) && queuesOK(queues) && weightsNonNeg(queues, resourceName)
//@   pure
//@   loop 1
//@     invariant totalOverQuotaWeights >= 0.0
//@     invariant forall k in visited :: k in queues
//@     invariant forall k in visited :: !satisfied(queues[k], resourceName) ==> weight(queues[k], resourceName) <= totalOverQuotaWeights
//@     invariant totalOverQuotaWeights > 0.0 ==> exists k in visited :: !satisfied(queues[k], resourceName) && weight(queues[k], resourceName) > 0.0
//@   ensures [nonneg] result >= 0.0
//@   ensures [dominates] forall k in queues :: !satisfied(queues[k], resourceName) ==> weight(queues[k], resourceName) <= result
//@   ensures [positiveHasWitness] result > 0.0 ==> exists k in queues :: !satisfied(queues[k], resourceName) && weight(queues[k], resourceName) > 0.0
//@ end

// share weight of one queue for total over-quota weight T and time-based-fairness factor kv
//@ define shareW(q *rs.QueueAttributes, r rs.ResourceName, T real, kv real) real = max(0.0, weight(q, r) / T + kv * (weight(q, r) / T - usage(q, r)))

// C09 ("within a priority the surplus is monotone in over-quota weight", "weight incl. 0", "all
// k-values"): per-round share weights are >= 0, bounded by their sum, exist exactly for the
// unsatisfied queues, follow the documented formula and are monotone in the over-quota weight.
//@ func calcShareWeights
//@   props C09
//@   requires validRes(resourceName) && queuesOK(queues) && keyedByUID(queues) && weightsNonNeg(queues, resourceName)
//@   loop 1
//@     invariant totalWeights > 0.0 && shareWeightsPerQueue != nil && fresh(shareWeightsPerQueue)
//@     invariant forall k in visited :: k in queues
//@     invariant shareWeightsSum >= 0.0
//@     invariant forall k in shareWeightsPerQueue :: k in visited && !satisfied(queues[k], resourceName)
//@     invariant forall k in visited :: !satisfied(queues[k], resourceName) ==> k in shareWeightsPerQueue
//@     invariant forall k in shareWeightsPerQueue :: shareWeightsPerQueue[k] == shareW(queues[k], resourceName, totalWeights, kValue)
//@     invariant forall k in shareWeightsPerQueue :: shareWeightsPerQueue[k] <= shareWeightsSum
//@   ensures [freshMap] result0 != nil && fresh(result0)
//@   ensures [sumNonNeg] result1 >= 0.0
//@   ensures [weightsNonNeg] forall k in result0 :: result0[k] >= 0.0
//@   ensures [weightsLeSum] forall k in result0 :: result0[k] <= result1
//@   ensures [keysUnsatisfied] forall k in result0 :: k in queues && !satisfied(queues[k], resourceName)
//@   ensures [unsatisfiedHaveKey] result1 != 0.0 ==> forall k in queues :: !satisfied(queues[k], resourceName) ==> k in result0
//@   ensures [formula] result1 != 0.0 ==> exists T real :: T > 0.0 && (forall k in queues :: !satisfied(queues[k], resourceName) ==> weight(queues[k], resourceName) <= T) && (forall k in result0 :: result0[k] == shareW(queues[k], resourceName, T, kValue))
//@   ensures [weightMonotone] kValue >= 0.0 ==> forall a in result0 :: forall b in result0 :: weight(queues[a], resourceName) <= weight(queues[b], resourceName) && usage(queues[a], resourceName) >= usage(queues[b], resourceName) ==> result0[a] <= result0[b]
//@ end

// ---- phase 1: deserved quota ------------------------------------------------
// deserved quota of q ("quota incl. unlimited": -1 means the whole amount being divided)
//@ define deservedCap(q *rs.QueueAttributes, r rs.ResourceName, total real) real = ite(deserved(q, r) == -1.0, total, deserved(q, r))
// C09: "min(deserved quota, its request capped by its limit)"
//@ define deservedPart(q *rs.QueueAttributes, r rs.ResourceName, total real) real = min(deservedCap(q, r, total), capReq(q, r))
//@ define member(qs map[common_info.QueueID]*rs.QueueAttributes, q *rs.QueueAttributes) bool = q.UID in qs && qs[q.UID] == q

// C09: "each queue's fair share is at least min(deserved quota, its request capped by its limit)":
// phase 1 adds exactly that amount to every sibling (functional, hence independent of the map
// iteration order), touches no other queue and no other resource.
//@ func setDeservedResource
//@   props C09
//@   requires validRes(resource) && queuesOK(queues) && keyedByUID(queues)
//@   modifies family(queues[""].CPU.FairShare), family(queues[""].lastFairShare)
//@   loop 1
//@     invariant forall k in visited :: k in queues
//@     invariant queuesOK(queues)
//@     invariant forall k in queues :: fair(queues[k], resource) == old(fair(queues[k], resource)) + ite(k in visited, deservedPart(queues[k], resource, totalResourceAmount), 0.0)
//@     invariant forall k in queues :: forall r rs.ResourceName :: validRes(r) && r != resource ==> fair(queues[k], r) == old(fair(queues[k], r))
//@     invariant forall q *rs.QueueAttributes :: q != nil && !member(queues, q) ==> q.CPU.FairShare == old(q.CPU.FairShare) && q.Memory.FairShare == old(q.Memory.FairShare) && q.GPU.FairShare == old(q.GPU.FairShare) && q.lastFairShare == old(q.lastFairShare)
//@     invariant (forall k in queues :: deservedPart(queues[k], resource, totalResourceAmount) >= 0.0) ==> remainingAmount <= totalResourceAmount && forall k in visited :: remainingAmount <= totalResourceAmount - deservedPart(queues[k], resource, totalResourceAmount)
//@   ensures [deservedAdded] forall k in queues :: fair(queues[k], resource) == old(fair(queues[k], resource)) + deservedPart(queues[k], resource, totalResourceAmount)
//@   ensures [otherResourcesKept] forall k in queues :: forall r rs.ResourceName :: validRes(r) && r != resource ==> fair(queues[k], r) == old(fair(queues[k], r))
//@   ensures [otherQueuesKept] forall q *rs.QueueAttributes :: q != nil && !member(queues, q) ==> q.CPU.FairShare == old(q.CPU.FairShare) && q.Memory.FairShare == old(q.Memory.FairShare) && q.GPU.FairShare == old(q.GPU.FairShare) && q.lastFairShare == old(q.lastFairShare)
//@   ensures [cache] queuesOK(queues)
//@   ensures [remainingBounded] (forall k in queues :: deservedPart(queues[k], resource, totalResourceAmount) >= 0.0) ==> remainingAmount <= totalResourceAmount && forall k in queues :: remainingAmount <= totalResourceAmount - deservedPart(queues[k], resource, totalResourceAmount)
//@ end

// ---- phase 2: priorities ----------------------------------------------------
// C09: "While a higher over-quota priority is unsatisfied, lower priorities receive at most ...":
// the comparator handed to slices.SortFunc orders priorities descending (negative <=> i before j <=> i > j).
//@ func getQueuesByPriority$1
//@   props C09
//@   pure
//@   ensures result == j - i
//@   ensures [higherFirst] (result < 0) == (i > j)
//@   ensures [equalOnlyIfSame] (result == 0) == (i == j)
//@ end

// Assumed contracts of the two generic library functions used by getQueuesByPriority (bodies are not
// part of the verified program).
//@ func golang.org/x/exp/maps.Keys
//@   trusted
//@   note library (golang.org/x/exp/maps): "Keys returns the keys of the map m. The keys will be in an indeterminate order." New slice, one element per key, nothing else written.
//@   fresh
//@   ensures [oneElementPerKey] len(result) == len(arg0)
//@   ensures [elementsAreKeys] forall i in result :: result[i] in arg0
//@   ensures [everyKeyListed] forall k in arg0 :: exists i in result :: result[i] == k
//@   ensures [noDuplicates] forall i in result :: forall j in result :: i != j ==> result[i] != result[j]
//@ end

// sortCmp abstracts "the cmp argument of slices.SortFunc" (function values cannot be called in specs). The
// only SortFunc call of this package passes getQueuesByPriority$1, whose proved contract is result == j - i.
//@ declare sortCmp(a int, b int) int
//@ axiom forall a int, b int :: sortCmp(a, b) == b - a
//@ func slices.SortFunc
//@   trusted
//@   note library (slices): "SortFunc sorts the slice x in ascending order as determined by the cmp function" (cmp(a,b) < 0 when a must come before b; requires a strict weak ordering, proved for the comparator getQueuesByPriority$1). In-place permutation of the elements.
//@   modifies arg0[*]
//@   ensures [sameLength] len(arg0) == old(len(arg0))
//@   ensures [onlyOldElements] forall i in arg0 :: exists j in arg0 :: arg0[i] == old(arg0[j])
//@   ensures [allOldElements] forall j in arg0 :: exists i in arg0 :: arg0[i] == old(arg0[j])
//@   ensures [noNewDuplicates] forall i in arg0 :: forall j in arg0 :: i != j && arg0[i] == arg0[j] ==> exists i2 in arg0 :: exists j2 in arg0 :: i2 != j2 && old(arg0[i2]) == old(arg0[j2])
//@   ensures [sorted] forall i in arg0 :: forall j in arg0 :: i < j ==> sortCmp(arg0[j], arg0[i]) >= 0
//@ end

// grouping of the siblings by priority is a partition of the input map (functional => independent of
// the map iteration order); the priority list is the key set of the partition, sorted descending.
//@ func getQueuesByPriority
//@   props C09
//@   requires forall k in queues :: queues[k] != nil
//@   loop 1
//@     invariant queuesByPriority != nil && fresh(queuesByPriority)
//@     invariant forall m map[common_info.QueueID]*rs.QueueAttributes :: forall k common_info.QueueID :: m != nil && !fresh(m) ==> (k in m) == old(k in m) && m[k] == old(m[k])
//@     invariant forall k in visited :: k in queues
//@     invariant forall p in queuesByPriority :: queuesByPriority[p] != nil && fresh(queuesByPriority[p]) && allocated(queuesByPriority[p])
//@     invariant forall p in queuesByPriority :: forall p2 in queuesByPriority :: p != p2 ==> queuesByPriority[p] != queuesByPriority[p2]
//@     invariant forall k in visited :: queues[k].Priority in queuesByPriority && k in queuesByPriority[queues[k].Priority] && queuesByPriority[queues[k].Priority][k] == queues[k]
//@     invariant forall p in queuesByPriority :: forall k in queuesByPriority[p] :: k in visited && queues[k].Priority == p
//@     invariant forall p in queuesByPriority :: exists k in queuesByPriority[p] :: true
//@   ensures [groupsFresh] result0 != nil && fresh(result0) && forall p in result0 :: result0[p] != nil && fresh(result0[p])
//@   ensures [groupsDistinct] forall p in result0 :: forall p2 in result0 :: p != p2 ==> result0[p] != result0[p2]
//@   ensures [everyQueueInItsGroup] forall k in queues :: queues[k].Priority in result0 && k in result0[queues[k].Priority] && result0[queues[k].Priority][k] == queues[k]
//@   ensures [groupsOnlyOwnPriority] forall p in result0 :: forall k in result0[p] :: k in queues && queues[k].Priority == p
//@   ensures [noEmptyGroup] forall p in result0 :: exists k in result0[p] :: true
//@   ensures [prioritiesAreGroupKeys] forall i in result1 :: result1[i] in result0
//@   ensures [everyGroupListed] forall p in result0 :: exists i in result1 :: result1[i] == p
//@   ensures [descending] forall i in result1 :: forall j in result1 :: i < j ==> result1[i] >= result1[j]
//@   ensures [noDuplicatePriority] forall i in result1 :: forall j in result1 :: i != j ==> result1[i] != result1[j]
//@ end

// ---- phase 3: remainder hand-out order ---------------------------------------
// documented order of the remainder phase: larger rounding remainder first, then older queue, then UID
//@ define rrBefore(l *remainingRequestedResource, r *remainingRequestedResource) bool = l.remainingAmount > r.remainingAmount || (l.remainingAmount == r.remainingAmount && (l.queue.CreationTimestamp < r.queue.CreationTimestamp || (l.queue.CreationTimestamp == r.queue.CreationTimestamp && l.queue.UID < r.queue.UID)))
//@ define rrSameKey(l *remainingRequestedResource, r *remainingRequestedResource) bool = l.remainingAmount == r.remainingAmount && l.queue.CreationTimestamp == r.queue.CreationTimestamp && l.queue.UID == r.queue.UID

// C09 ("the result is independent of the order in which queues are enumerated"): the pop order of
// the remainder phase is a strict total order on (remainder, creation time, UID), i.e. a strict weak
// order whose only ties are entries with identical keys.
//@ func remainingRequestedOrderFn$1
//@   props C09
//@   requires typeis(lH, "*remainingRequestedResource") && typeis(rH, "*remainingRequestedResource")
//@   requires unbox(lH, "*remainingRequestedResource") != nil && unbox(rH, "*remainingRequestedResource") != nil
//@   requires unbox(lH, "*remainingRequestedResource").queue != nil && unbox(rH, "*remainingRequestedResource").queue != nil
//@   pure
//@   ensures result == rrBefore(unbox(lH, "*remainingRequestedResource"), unbox(rH, "*remainingRequestedResource"))
//@   lemma [irreflexiveAsymmetric] result ==> !rrBefore(unbox(rH, "*remainingRequestedResource"), unbox(lH, "*remainingRequestedResource"))
//@   lemma [totalUpToKey] !result && !rrBefore(unbox(rH, "*remainingRequestedResource"), unbox(lH, "*remainingRequestedResource")) ==> rrSameKey(unbox(lH, "*remainingRequestedResource"), unbox(rH, "*remainingRequestedResource"))
//@   lemma [transitive] forall m *remainingRequestedResource :: m != nil && m.queue != nil && result && rrBefore(unbox(rH, "*remainingRequestedResource"), m) ==> rrBefore(unbox(lH, "*remainingRequestedResource"), m)
//@ end

//@ func remainingRequestedOrderFn
//@   props C09
//@   inline
//@ end
