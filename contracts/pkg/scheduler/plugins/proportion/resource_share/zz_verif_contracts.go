//go:build verif

// Contracts for govc (contract-based deductive verification); comments only.
package resource_share

//@ constglobal AllResources

// ---- spec functions --------------------------------------------------------
// cmpq: comparison of two quantities where -1 means "unlimited" (the property text: "-1 unlimited").
//@ define cmpq(a real, b real) int = ite(a == -1.0, ite(b == -1.0, 0, 1), ite(b == -1.0, 0 - 1, ite(a > b, 1, ite(a < b, 0 - 1, 0))))
//@ define leq(a real, b real) bool = cmpq(a, b) <= 0
//@ define rqLeq(a ResourceQuantities, b ResourceQuantities) bool = leq(a["CPU"], b["CPU"]) && leq(a["Memory"], b["Memory"]) && leq(a["GPU"], b["GPU"])
//@ define requestable(s *ResourceShare) real = ite(s.MaxAllowed == -1.0, s.Request, min(s.MaxAllowed, s.Request))
//@ define allocatable(s *ResourceShare) real = ite(s.Deserved == -1.0, s.MaxAllowed, ite(s.MaxAllowed != -1.0, min(s.MaxAllowed, max(s.Deserved, s.FairShare)), max(s.Deserved, s.FairShare)))
// cache coherence of the two memoised quantity maps
//@ define cacheOK(q *QueueResourceShare) bool = (q.lastDeservedShare != nil ==> q.lastDeservedShare["CPU"] == q.CPU.Deserved && q.lastDeservedShare["Memory"] == q.Memory.Deserved && q.lastDeservedShare["GPU"] == q.GPU.Deserved) && (q.lastFairShare != nil ==> q.lastFairShare["CPU"] == q.CPU.FairShare && q.lastFairShare["Memory"] == q.Memory.FairShare && q.lastFairShare["GPU"] == q.GPU.FairShare)

//@ func compareQuantities
//@   props C07 C08
//@   pure
//@   ensures result == cmpq(quantity, other)
//@ end

//@ func NewResourceQuantities
//@   props C07 C08
//@   fresh
//@   ensures result["CPU"] == cpuQty && result["Memory"] == memoryQty && result["GPU"] == gpuQty
//@ end

//@ func (ResourceQuantities).LessEqual
//@   props C07 C08
//@   pure
//@   loop 1 unroll 3
//@   ensures result == rqLeq(rq, other)
//@ end

//@ func (ResourceQuantities).Less
//@   props C07
//@   pure
//@   loop 1 unroll 3
//@   ensures result == (rq["CPU"] < other["CPU"] && rq["Memory"] < other["Memory"] && rq["GPU"] < other["GPU"])
//@ end

//@ func (ResourceQuantities).LessInAtLeastOneResource
//@   props C07
//@   pure
//@   ensures result == !rqLeq(other, rq)
//@ end

//@ func (ResourceQuantities).Add
//@   props C07 C08
//@   requires rq != nil
//@   modifies rq[*]
//@   loop 1 unroll 3
//@   ensures rq["CPU"] == old(rq["CPU"]) + old(other["CPU"])
//@   ensures rq["Memory"] == old(rq["Memory"]) + old(other["Memory"])
//@   ensures rq["GPU"] == old(rq["GPU"]) + old(other["GPU"])
//@ end

//@ func (ResourceQuantities).Sub
//@   props C07
//@   requires rq != nil
//@   modifies rq[*]
//@   loop 1 unroll 3
//@   ensures rq["CPU"] == old(rq["CPU"]) - old(other["CPU"])
//@   ensures rq["Memory"] == old(rq["Memory"]) - old(other["Memory"])
//@   ensures rq["GPU"] == old(rq["GPU"]) - old(other["GPU"])
//@ end

//@ func (*ResourceShare).GetRequestableShare
//@   props C07 C09
//@   requires rs != nil
//@   pure
//@   ensures result == requestable(rs)
//@ end

//@ func (*ResourceShare).GetAllocatableShare
//@   props C07
//@   requires rs != nil
//@   pure
//@   ensures result == allocatable(rs)
//@ end

//@ func (*QueueResourceShare).ResourceShare
//@   props C07 C08 C09
//@   requires qrs != nil
//@   inline
//@ end

//@ func (*QueueResourceShare).buildResourceQuantities
//@   inline
//@   loop 1 unroll 3
//@ end

//@ func (*QueueResourceShare).GetAllocatableShare
//@   props C07
//@   requires qrs != nil
//@   fresh
//@   ensures result["CPU"] == allocatable(qrs.CPU) && result["Memory"] == allocatable(qrs.Memory) && result["GPU"] == allocatable(qrs.GPU)
//@ end

//@ func (*QueueResourceShare).GetAllocatedShare
//@   props C07 C08
//@   requires qrs != nil
//@   fresh
//@   ensures result["CPU"] == qrs.CPU.Allocated && result["Memory"] == qrs.Memory.Allocated && result["GPU"] == qrs.GPU.Allocated
//@ end

//@ func (*QueueResourceShare).GetAllocatedNonPreemptible
//@   props C07 C08
//@   requires qrs != nil
//@   fresh
//@   ensures result["CPU"] == qrs.CPU.AllocatedNotPreemptible && result["Memory"] == qrs.Memory.AllocatedNotPreemptible && result["GPU"] == qrs.GPU.AllocatedNotPreemptible
//@ end

//@ func (*QueueResourceShare).GetMaxAllowedShare
//@   props C08
//@   requires qrs != nil
//@   fresh
//@   ensures result["CPU"] == qrs.CPU.MaxAllowed && result["Memory"] == qrs.Memory.MaxAllowed && result["GPU"] == qrs.GPU.MaxAllowed
//@ end

//@ func (*QueueResourceShare).GetRequestableShare
//@   props C07 C09
//@   requires qrs != nil
//@   fresh
//@   ensures result["CPU"] == requestable(qrs.CPU) && result["Memory"] == requestable(qrs.Memory) && result["GPU"] == requestable(qrs.GPU)
//@ end

//@ func (*QueueResourceShare).GetDeservedShare
//@   props C07 C08
//@   requires qrs != nil && cacheOK(qrs)
//@   modifies qrs.lastDeservedShare
//@   ensures result != nil && result == qrs.lastDeservedShare
//@   ensures result["CPU"] == qrs.CPU.Deserved && result["Memory"] == qrs.Memory.Deserved && result["GPU"] == qrs.GPU.Deserved
//@   ensures cacheOK(qrs)
//@   ensures [cacheKeptOrNew] qrs.lastDeservedShare == old(qrs.lastDeservedShare) || fresh(qrs.lastDeservedShare)
//@ end

//@ func (*QueueResourceShare).GetFairShare
//@   props C07 C09
//@   requires qrs != nil && cacheOK(qrs)
//@   modifies qrs.lastFairShare
//@   ensures result != nil && result == qrs.lastFairShare
//@   ensures result["CPU"] == qrs.CPU.FairShare && result["Memory"] == qrs.Memory.FairShare && result["GPU"] == qrs.GPU.FairShare
//@   ensures cacheOK(qrs)
//@   ensures [cacheKeptOrNew] qrs.lastFairShare == old(qrs.lastFairShare) || fresh(qrs.lastFairShare)
//@ end

//@ func (*QueueResourceShare).AddResourceShare
//@   props C09
//@   requires qrs != nil && cacheOK(qrs)
//@   requires resource == "CPU" || resource == "Memory" || resource == "GPU"
//@   modifies qrs.lastFairShare, qrs.CPU.FairShare, qrs.Memory.FairShare, qrs.GPU.FairShare
//@   ensures qrs.CPU.FairShare == old(qrs.CPU.FairShare) + ite(resource == "CPU", amount, 0.0)
//@   ensures qrs.Memory.FairShare == old(qrs.Memory.FairShare) + ite(resource == "Memory", amount, 0.0)
//@   ensures qrs.GPU.FairShare == old(qrs.GPU.FairShare) + ite(resource == "GPU", amount, 0.0)
//@   ensures cacheOK(qrs)
//@ end

//@ func (*QueueResourceShare).SetQuotaResources
//@   props C09 C08
//@   requires qrs != nil && cacheOK(qrs)
//@   requires resource == "CPU" || resource == "Memory" || resource == "GPU"
//@   modifies qrs.lastDeservedShare, qrs.ResourceShare(resource).Deserved, qrs.ResourceShare(resource).MaxAllowed, qrs.ResourceShare(resource).OverQuotaWeight
//@   ensures cacheOK(qrs)
//@   ensures qrs.ResourceShare(resource).Deserved == deserved && qrs.ResourceShare(resource).MaxAllowed == maxAllowed && qrs.ResourceShare(resource).OverQuotaWeight == overQuotaWeight
//@ end
