//go:build verif

// Contracts for govc (contract-based deductive verification); comments only.
package resource_share

//@ constglobal AllResources

//@ define cmpq(a real, b real) int = ite(a == -1.0, ite(b == -1.0, 0, 1), ite(b == -1.0, 0 - 1, ite(a > b, 1, ite(a < b, 0 - 1, 0))))
//@ define leq(a real, b real) bool = cmpq(a, b) <= 0
//@ define rqLeq(a ResourceQuantities, b ResourceQuantities) bool = leq(a["CPU"], b["CPU"]) && leq(a["Memory"], b["Memory"]) && leq(a["GPU"], b["GPU"])

//@ func compareQuantities
//@   props C07 C08
//@   pure
//@   ensures result == cmpq(quantity, other)
//@ end

//@ func (ResourceQuantities).LessEqual
//@   props C07 C08
//@   pure
//@   loop 1 unroll 3
//@   ensures result == rqLeq(rq, other)
//@ end

//@ func (ResourceQuantities).Less
//@   props C07
//@   pure
//@   loop 1 unroll 3
//@   ensures result == (rq["CPU"] < other["CPU"] && rq["Memory"] < other["Memory"] && rq["GPU"] < other["GPU"])
//@ end

//@ func (ResourceQuantities).LessInAtLeastOneResource
//@   props C07
//@   pure
//@   ensures result == !rqLeq(other, rq)
//@ end

//@ func (ResourceQuantities).Add
//@   props C07 C08
//@   requires rq != nil
//@   modifies rq[*]
//@   loop 1 unroll 3
//@   ensures rq["CPU"] == old(rq["CPU"]) + old(other["CPU"])
//@   ensures rq["Memory"] == old(rq["Memory"]) + old(other["Memory"])
//@   ensures rq["GPU"] == old(rq["GPU"]) + old(other["GPU"])
//@ end
