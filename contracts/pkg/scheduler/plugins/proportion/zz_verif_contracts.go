//go:build verif

// Contracts for govc (contract-based deductive verification); comments only.
package proportion

// add(q, s, r): amount added to a per-queue counter of attributes object q by an event on queue id s:
// r for every queue on the parent chain of s (s itself and all its ancestors), 0 for every other queue.
//@ define add(queues map[common_info.QueueID]*rs.QueueAttributes, s common_info.QueueID, q *rs.QueueAttributes, r real) real = ite(utils.onChain(queues, s, q), r, 0.0)
// same, restricted to the chain prefix already processed when the loop is at `cur` (all of it when !ok)
//@ define addUpTo(queues map[common_info.QueueID]*rs.QueueAttributes, s common_info.QueueID, q *rs.QueueAttributes, ok bool, cur *rs.QueueAttributes, r real) real = ite(utils.onChain(queues, s, q) && (!ok || utils.lvl(q) < utils.lvl(cur)), r, 0.0)

// C14 (QueueInv, establish): a task of an allocated job is charged to its queue and to EVERY ancestor:
// Allocated and Request grow by the task's quantities, AllocatedNotPreemptible iff the job is
// non-preemptible; no other queue changes (C08 frame). C10: terminates on an acyclic chain.
//@ func (*proportionPlugin).updateQueuesResourceUsageForAllocatedJob
//@   props C14 C08 C10
//@   requires pp != nil
//@   requires utils.chainOK(pp.queues, queueId)
//@   modifies family(pp.queues[queueId].CPU.Allocated), family(pp.queues[queueId].CPU.Request), family(pp.queues[queueId].CPU.AllocatedNotPreemptible)
//@   loop 1
//@     invariant ok ==> utils.onChain(pp.queues, queueId, queueAttributes)
//@     invariant forall q *rs.QueueAttributes :: q.CPU.Allocated == old(q.CPU.Allocated) + addUpTo(pp.queues, queueId, q, ok, queueAttributes, resourceQuantities["CPU"])
//@     invariant forall q *rs.QueueAttributes :: q.CPU.Request == old(q.CPU.Request) + addUpTo(pp.queues, queueId, q, ok, queueAttributes, resourceQuantities["CPU"])
//@     invariant forall q *rs.QueueAttributes :: q.CPU.AllocatedNotPreemptible == old(q.CPU.AllocatedNotPreemptible) + addUpTo(pp.queues, queueId, q, ok, queueAttributes, ite(!preemptibleJob, resourceQuantities["CPU"], 0.0))
//@     invariant forall q *rs.QueueAttributes :: q.Memory.Allocated == old(q.Memory.Allocated) + addUpTo(pp.queues, queueId, q, ok, queueAttributes, resourceQuantities["Memory"])
//@     invariant forall q *rs.QueueAttributes :: q.Memory.Request == old(q.Memory.Request) + addUpTo(pp.queues, queueId, q, ok, queueAttributes, resourceQuantities["Memory"])
//@     invariant forall q *rs.QueueAttributes :: q.Memory.AllocatedNotPreemptible == old(q.Memory.AllocatedNotPreemptible) + addUpTo(pp.queues, queueId, q, ok, queueAttributes, ite(!preemptibleJob, resourceQuantities["Memory"], 0.0))
//@     invariant forall q *rs.QueueAttributes :: q.GPU.Allocated == old(q.GPU.Allocated) + addUpTo(pp.queues, queueId, q, ok, queueAttributes, resourceQuantities["GPU"])
//@     invariant forall q *rs.QueueAttributes :: q.GPU.Request == old(q.GPU.Request) + addUpTo(pp.queues, queueId, q, ok, queueAttributes, resourceQuantities["GPU"])
//@     invariant forall q *rs.QueueAttributes :: q.GPU.AllocatedNotPreemptible == old(q.GPU.AllocatedNotPreemptible) + addUpTo(pp.queues, queueId, q, ok, queueAttributes, ite(!preemptibleJob, resourceQuantities["GPU"], 0.0))
//@     decreases ite(ok, utils.depth(queueId) - utils.lvl(queueAttributes), 0)
//@   loop 2 unroll 3
//@   ensures [CPUAllocated] forall q *rs.QueueAttributes :: q.CPU.Allocated == old(q.CPU.Allocated) + add(pp.queues, queueId, q, resourceQuantities["CPU"])
//@   ensures [CPURequest] forall q *rs.QueueAttributes :: q.CPU.Request == old(q.CPU.Request) + add(pp.queues, queueId, q, resourceQuantities["CPU"])
//@   ensures [CPUAllocatedNotPreemptible] forall q *rs.QueueAttributes :: q.CPU.AllocatedNotPreemptible == old(q.CPU.AllocatedNotPreemptible) + add(pp.queues, queueId, q, ite(!preemptibleJob, resourceQuantities["CPU"], 0.0))
//@   ensures [MemoryAllocated] forall q *rs.QueueAttributes :: q.Memory.Allocated == old(q.Memory.Allocated) + add(pp.queues, queueId, q, resourceQuantities["Memory"])
//@   ensures [MemoryRequest] forall q *rs.QueueAttributes :: q.Memory.Request == old(q.Memory.Request) + add(pp.queues, queueId, q, resourceQuantities["Memory"])
//@   ensures [MemoryAllocatedNotPreemptible] forall q *rs.QueueAttributes :: q.Memory.AllocatedNotPreemptible == old(q.Memory.AllocatedNotPreemptible) + add(pp.queues, queueId, q, ite(!preemptibleJob, resourceQuantities["Memory"], 0.0))
//@   ensures [GPUAllocated] forall q *rs.QueueAttributes :: q.GPU.Allocated == old(q.GPU.Allocated) + add(pp.queues, queueId, q, resourceQuantities["GPU"])
//@   ensures [GPURequest] forall q *rs.QueueAttributes :: q.GPU.Request == old(q.GPU.Request) + add(pp.queues, queueId, q, resourceQuantities["GPU"])
//@   ensures [GPUAllocatedNotPreemptible] forall q *rs.QueueAttributes :: q.GPU.AllocatedNotPreemptible == old(q.GPU.AllocatedNotPreemptible) + add(pp.queues, queueId, q, ite(!preemptibleJob, resourceQuantities["GPU"], 0.0))
//@ end

// Pending tasks only raise Request, at every level of the chain; nothing else changes.
//@ func (*proportionPlugin).updateQueuesResourceUsageForPendingJob
//@   props C14 C10
//@   requires pp != nil
//@   requires utils.chainOK(pp.queues, queueId)
//@   modifies family(pp.queues[queueId].CPU.Request)
//@   loop 1
//@     invariant ok ==> utils.onChain(pp.queues, queueId, queueAttributes)
//@     invariant forall q *rs.QueueAttributes :: q.CPU.Request == old(q.CPU.Request) + addUpTo(pp.queues, queueId, q, ok, queueAttributes, resourceQuantities["CPU"])
//@     invariant forall q *rs.QueueAttributes :: q.Memory.Request == old(q.Memory.Request) + addUpTo(pp.queues, queueId, q, ok, queueAttributes, resourceQuantities["Memory"])
//@     invariant forall q *rs.QueueAttributes :: q.GPU.Request == old(q.GPU.Request) + addUpTo(pp.queues, queueId, q, ok, queueAttributes, resourceQuantities["GPU"])
//@     decreases ite(ok, utils.depth(queueId) - utils.lvl(queueAttributes), 0)
//@   loop 2 unroll 3
//@   ensures [CPURequest] forall q *rs.QueueAttributes :: q.CPU.Request == old(q.CPU.Request) + add(pp.queues, queueId, q, resourceQuantities["CPU"])
//@   ensures [MemoryRequest] forall q *rs.QueueAttributes :: q.Memory.Request == old(q.Memory.Request) + add(pp.queues, queueId, q, resourceQuantities["Memory"])
//@   ensures [GPURequest] forall q *rs.QueueAttributes :: q.GPU.Request == old(q.GPU.Request) + add(pp.queues, queueId, q, resourceQuantities["GPU"])
//@ end

// n-th queue object on the parent chain of queue id s
//@ define chainQ(queues map[common_info.QueueID]*rs.QueueAttributes, s common_info.QueueID, n int) *rs.QueueAttributes = queues[utils.anc(s, n)]
// C08 running-sum step (DESIGN: L limitInvariant): a counter that passed the check `okQty(bound, before, r)` is, after
// being charged, within its bound (or the bound is -1 = unlimited, or it was not raised at all).
//@ define stays(bound real, after real, before real) bool = bound == -1.0 || after <= bound || after == before

// ---- event handlers (closures) ----------------------------------------------------
// Property C08 (mechanism "allocate/deallocate event handlers keep Allocated and AllocatedNotPreemptible
// current"): for the queue of the task's job and EVERY ancestor q: Allocated'(q) = Allocated(q) + r in all
// three resources (r = quantities of the task's AcceptedResource), AllocatedNotPreemptible likewise iff
// the job is non-preemptible; every other queue (and every other field) is unchanged.
//@ func (*proportionPlugin).allocateHandlerFn$1
//@   props C08 C14 C10
//@   requires pp != nil && ssn != nil && ssn.ClusterInfo != nil && event != nil && event.Task != nil && event.Task.AcceptedResource != nil
//@   requires ssn.ClusterInfo.PodGroupInfos[event.Task.Job] != nil
//@   requires utils.chainOK(pp.queues, ssn.ClusterInfo.PodGroupInfos[event.Task.Job].Queue) && utils.depth(ssn.ClusterInfo.PodGroupInfos[event.Task.Job].Queue) >= 1
//@   modifies family(pp.queues[ssn.ClusterInfo.PodGroupInfos[event.Task.Job].Queue].CPU.Allocated), family(pp.queues[ssn.ClusterInfo.PodGroupInfos[event.Task.Job].Queue].CPU.AllocatedNotPreemptible)
//@   loop 1
//@     invariant ok ==> utils.onChain(pp.queues, job.Queue, queue)
//@     invariant forall q *rs.QueueAttributes :: q.CPU.Allocated == old(q.CPU.Allocated) + addUpTo(pp.queues, job.Queue, q, ok, queue, taskResources["CPU"])
//@     invariant forall q *rs.QueueAttributes :: q.CPU.AllocatedNotPreemptible == old(q.CPU.AllocatedNotPreemptible) + addUpTo(pp.queues, job.Queue, q, ok, queue, ite(isPreemptibleJob, 0.0, taskResources["CPU"]))
//@     invariant forall q *rs.QueueAttributes :: q.Memory.Allocated == old(q.Memory.Allocated) + addUpTo(pp.queues, job.Queue, q, ok, queue, taskResources["Memory"])
//@     invariant forall q *rs.QueueAttributes :: q.Memory.AllocatedNotPreemptible == old(q.Memory.AllocatedNotPreemptible) + addUpTo(pp.queues, job.Queue, q, ok, queue, ite(isPreemptibleJob, 0.0, taskResources["Memory"]))
//@     invariant forall q *rs.QueueAttributes :: q.GPU.Allocated == old(q.GPU.Allocated) + addUpTo(pp.queues, job.Queue, q, ok, queue, taskResources["GPU"])
//@     invariant forall q *rs.QueueAttributes :: q.GPU.AllocatedNotPreemptible == old(q.GPU.AllocatedNotPreemptible) + addUpTo(pp.queues, job.Queue, q, ok, queue, ite(isPreemptibleJob, 0.0, taskResources["GPU"]))
//@     decreases ite(ok, utils.depth(job.Queue) - utils.lvl(queue), 0)
//@   loop 2 unroll 3
//@   ensures [CPUAllocated] forall q *rs.QueueAttributes :: q.CPU.Allocated == old(q.CPU.Allocated) + add(pp.queues, ssn.ClusterInfo.PodGroupInfos[event.Task.Job].Queue, q, event.Task.AcceptedResource.milliCpu)
//@   ensures [CPUAllocatedNotPreemptible] forall q *rs.QueueAttributes :: q.CPU.AllocatedNotPreemptible == old(q.CPU.AllocatedNotPreemptible) + add(pp.queues, ssn.ClusterInfo.PodGroupInfos[event.Task.Job].Queue, q, ite(ssn.ClusterInfo.PodGroupInfos[event.Task.Job].Preemptibility == "preemptible", 0.0, event.Task.AcceptedResource.milliCpu))
//@   ensures [MemoryAllocated] forall q *rs.QueueAttributes :: q.Memory.Allocated == old(q.Memory.Allocated) + add(pp.queues, ssn.ClusterInfo.PodGroupInfos[event.Task.Job].Queue, q, event.Task.AcceptedResource.memory)
//@   ensures [MemoryAllocatedNotPreemptible] forall q *rs.QueueAttributes :: q.Memory.AllocatedNotPreemptible == old(q.Memory.AllocatedNotPreemptible) + add(pp.queues, ssn.ClusterInfo.PodGroupInfos[event.Task.Job].Queue, q, ite(ssn.ClusterInfo.PodGroupInfos[event.Task.Job].Preemptibility == "preemptible", 0.0, event.Task.AcceptedResource.memory))
//@   ensures [GPUAllocated] forall q *rs.QueueAttributes :: q.GPU.Allocated == old(q.GPU.Allocated) + add(pp.queues, ssn.ClusterInfo.PodGroupInfos[event.Task.Job].Queue, q, event.Task.AcceptedResource.GetGpusQuota())
//@   ensures [GPUAllocatedNotPreemptible] forall q *rs.QueueAttributes :: q.GPU.AllocatedNotPreemptible == old(q.GPU.AllocatedNotPreemptible) + add(pp.queues, ssn.ClusterInfo.PodGroupInfos[event.Task.Job].Queue, q, ite(ssn.ClusterInfo.PodGroupInfos[event.Task.Job].Preemptibility == "preemptible", 0.0, event.Task.AcceptedResource.GetGpusQuota()))
//@   lemma [limitInvariant] forall n int :: 0 <= n && n < utils.depth(ssn.ClusterInfo.PodGroupInfos[event.Task.Job].Queue) ==> (old(cp.okQty(chainQ(pp.queues, ssn.ClusterInfo.PodGroupInfos[event.Task.Job].Queue, n).CPU.MaxAllowed, chainQ(pp.queues, ssn.ClusterInfo.PodGroupInfos[event.Task.Job].Queue, n).CPU.Allocated, event.Task.AcceptedResource.milliCpu)) ==> stays(chainQ(pp.queues, ssn.ClusterInfo.PodGroupInfos[event.Task.Job].Queue, n).CPU.MaxAllowed, chainQ(pp.queues, ssn.ClusterInfo.PodGroupInfos[event.Task.Job].Queue, n).CPU.Allocated, old(chainQ(pp.queues, ssn.ClusterInfo.PodGroupInfos[event.Task.Job].Queue, n).CPU.Allocated))) && (old(cp.okQty(chainQ(pp.queues, ssn.ClusterInfo.PodGroupInfos[event.Task.Job].Queue, n).Memory.MaxAllowed, chainQ(pp.queues, ssn.ClusterInfo.PodGroupInfos[event.Task.Job].Queue, n).Memory.Allocated, event.Task.AcceptedResource.memory)) ==> stays(chainQ(pp.queues, ssn.ClusterInfo.PodGroupInfos[event.Task.Job].Queue, n).Memory.MaxAllowed, chainQ(pp.queues, ssn.ClusterInfo.PodGroupInfos[event.Task.Job].Queue, n).Memory.Allocated, old(chainQ(pp.queues, ssn.ClusterInfo.PodGroupInfos[event.Task.Job].Queue, n).Memory.Allocated))) && (old(cp.okQty(chainQ(pp.queues, ssn.ClusterInfo.PodGroupInfos[event.Task.Job].Queue, n).GPU.MaxAllowed, chainQ(pp.queues, ssn.ClusterInfo.PodGroupInfos[event.Task.Job].Queue, n).GPU.Allocated, event.Task.AcceptedResource.GetGpusQuota())) ==> stays(chainQ(pp.queues, ssn.ClusterInfo.PodGroupInfos[event.Task.Job].Queue, n).GPU.MaxAllowed, chainQ(pp.queues, ssn.ClusterInfo.PodGroupInfos[event.Task.Job].Queue, n).GPU.Allocated, old(chainQ(pp.queues, ssn.ClusterInfo.PodGroupInfos[event.Task.Job].Queue, n).GPU.Allocated)))
//@   lemma [quotaInvariant] ssn.ClusterInfo.PodGroupInfos[event.Task.Job].Preemptibility != "preemptible" ==> (forall n int :: 0 <= n && n < utils.depth(ssn.ClusterInfo.PodGroupInfos[event.Task.Job].Queue) ==> (old(cp.okQty(chainQ(pp.queues, ssn.ClusterInfo.PodGroupInfos[event.Task.Job].Queue, n).CPU.Deserved, chainQ(pp.queues, ssn.ClusterInfo.PodGroupInfos[event.Task.Job].Queue, n).CPU.AllocatedNotPreemptible, event.Task.AcceptedResource.milliCpu)) ==> stays(chainQ(pp.queues, ssn.ClusterInfo.PodGroupInfos[event.Task.Job].Queue, n).CPU.Deserved, chainQ(pp.queues, ssn.ClusterInfo.PodGroupInfos[event.Task.Job].Queue, n).CPU.AllocatedNotPreemptible, old(chainQ(pp.queues, ssn.ClusterInfo.PodGroupInfos[event.Task.Job].Queue, n).CPU.AllocatedNotPreemptible))) && (old(cp.okQty(chainQ(pp.queues, ssn.ClusterInfo.PodGroupInfos[event.Task.Job].Queue, n).Memory.Deserved, chainQ(pp.queues, ssn.ClusterInfo.PodGroupInfos[event.Task.Job].Queue, n).Memory.AllocatedNotPreemptible, event.Task.AcceptedResource.memory)) ==> stays(chainQ(pp.queues, ssn.ClusterInfo.PodGroupInfos[event.Task.Job].Queue, n).Memory.Deserved, chainQ(pp.queues, ssn.ClusterInfo.PodGroupInfos[event.Task.Job].Queue, n).Memory.AllocatedNotPreemptible, old(chainQ(pp.queues, ssn.ClusterInfo.PodGroupInfos[event.Task.Job].Queue, n).Memory.AllocatedNotPreemptible))) && (old(cp.okQty(chainQ(pp.queues, ssn.ClusterInfo.PodGroupInfos[event.Task.Job].Queue, n).GPU.Deserved, chainQ(pp.queues, ssn.ClusterInfo.PodGroupInfos[event.Task.Job].Queue, n).GPU.AllocatedNotPreemptible, event.Task.AcceptedResource.GetGpusQuota())) ==> stays(chainQ(pp.queues, ssn.ClusterInfo.PodGroupInfos[event.Task.Job].Queue, n).GPU.Deserved, chainQ(pp.queues, ssn.ClusterInfo.PodGroupInfos[event.Task.Job].Queue, n).GPU.AllocatedNotPreemptible, old(chainQ(pp.queues, ssn.ClusterInfo.PodGroupInfos[event.Task.Job].Queue, n).GPU.AllocatedNotPreemptible))))
//@ end

// Mirror image: the deallocate handler subtracts exactly what the allocate handler added.
//@ func (*proportionPlugin).deallocateHandlerFn$1
//@   props C08 C14 C10
//@   requires pp != nil && ssn != nil && ssn.ClusterInfo != nil && event != nil && event.Task != nil && event.Task.AcceptedResource != nil
//@   requires ssn.ClusterInfo.PodGroupInfos[event.Task.Job] != nil
//@   requires utils.chainOK(pp.queues, ssn.ClusterInfo.PodGroupInfos[event.Task.Job].Queue) && utils.depth(ssn.ClusterInfo.PodGroupInfos[event.Task.Job].Queue) >= 1
//@   modifies family(pp.queues[ssn.ClusterInfo.PodGroupInfos[event.Task.Job].Queue].CPU.Allocated), family(pp.queues[ssn.ClusterInfo.PodGroupInfos[event.Task.Job].Queue].CPU.AllocatedNotPreemptible)
//@   loop 1
//@     invariant ok ==> utils.onChain(pp.queues, job.Queue, queue)
//@     invariant forall q *rs.QueueAttributes :: q.CPU.Allocated == old(q.CPU.Allocated) - addUpTo(pp.queues, job.Queue, q, ok, queue, taskResources["CPU"])
//@     invariant forall q *rs.QueueAttributes :: q.CPU.AllocatedNotPreemptible == old(q.CPU.AllocatedNotPreemptible) - addUpTo(pp.queues, job.Queue, q, ok, queue, ite(isPreemptibleJob, 0.0, taskResources["CPU"]))
//@     invariant forall q *rs.QueueAttributes :: q.Memory.Allocated == old(q.Memory.Allocated) - addUpTo(pp.queues, job.Queue, q, ok, queue, taskResources["Memory"])
//@     invariant forall q *rs.QueueAttributes :: q.Memory.AllocatedNotPreemptible == old(q.Memory.AllocatedNotPreemptible) - addUpTo(pp.queues, job.Queue, q, ok, queue, ite(isPreemptibleJob, 0.0, taskResources["Memory"]))
//@     invariant forall q *rs.QueueAttributes :: q.GPU.Allocated == old(q.GPU.Allocated) - addUpTo(pp.queues, job.Queue, q, ok, queue, taskResources["GPU"])
//@     invariant forall q *rs.QueueAttributes :: q.GPU.AllocatedNotPreemptible == old(q.GPU.AllocatedNotPreemptible) - addUpTo(pp.queues, job.Queue, q, ok, queue, ite(isPreemptibleJob, 0.0, taskResources["GPU"]))
//@     decreases ite(ok, utils.depth(job.Queue) - utils.lvl(queue), 0)
//@   loop 2 unroll 3
//@   ensures [CPUAllocated] forall q *rs.QueueAttributes :: q.CPU.Allocated == old(q.CPU.Allocated) - add(pp.queues, ssn.ClusterInfo.PodGroupInfos[event.Task.Job].Queue, q, event.Task.AcceptedResource.milliCpu)
//@   ensures [CPUAllocatedNotPreemptible] forall q *rs.QueueAttributes :: q.CPU.AllocatedNotPreemptible == old(q.CPU.AllocatedNotPreemptible) - add(pp.queues, ssn.ClusterInfo.PodGroupInfos[event.Task.Job].Queue, q, ite(ssn.ClusterInfo.PodGroupInfos[event.Task.Job].Preemptibility == "preemptible", 0.0, event.Task.AcceptedResource.milliCpu))
//@   ensures [MemoryAllocated] forall q *rs.QueueAttributes :: q.Memory.Allocated == old(q.Memory.Allocated) - add(pp.queues, ssn.ClusterInfo.PodGroupInfos[event.Task.Job].Queue, q, event.Task.AcceptedResource.memory)
//@   ensures [MemoryAllocatedNotPreemptible] forall q *rs.QueueAttributes :: q.Memory.AllocatedNotPreemptible == old(q.Memory.AllocatedNotPreemptible) - add(pp.queues, ssn.ClusterInfo.PodGroupInfos[event.Task.Job].Queue, q, ite(ssn.ClusterInfo.PodGroupInfos[event.Task.Job].Preemptibility == "preemptible", 0.0, event.Task.AcceptedResource.memory))
//@   ensures [GPUAllocated] forall q *rs.QueueAttributes :: q.GPU.Allocated == old(q.GPU.Allocated) - add(pp.queues, ssn.ClusterInfo.PodGroupInfos[event.Task.Job].Queue, q, event.Task.AcceptedResource.GetGpusQuota())
//@   ensures [GPUAllocatedNotPreemptible] forall q *rs.QueueAttributes :: q.GPU.AllocatedNotPreemptible == old(q.GPU.AllocatedNotPreemptible) - add(pp.queues, ssn.ClusterInfo.PodGroupInfos[event.Task.Job].Queue, q, ite(ssn.ClusterInfo.PodGroupInfos[event.Task.Job].Preemptibility == "preemptible", 0.0, event.Task.AcceptedResource.GetGpusQuota()))
//@ end

// ---- queue hierarchy helpers (C09 recursion inputs, C10 nil safety) ------------------------------
// Top queues = exactly the queues without a parent, keyed by their own id. Needs the map to be keyed
// by UID (established by createQueueResourceAttrs) and to have no nil entry.
//@ func (*proportionPlugin).getTopQueues
//@   props C09 C10
//@   requires pp != nil
//@   requires forall k in pp.queues :: pp.queues[k] != nil && pp.queues[k].UID == k
//@   fresh
//@   loop 1
//@     invariant topQueues != nil && fresh(topQueues)
//@     invariant forall k in visited :: k in pp.queues
//@     invariant forall k common_info.QueueID :: k in topQueues <==> (k in visited && len(pp.queues[k].ParentQueue) == 0)
//@     invariant forall k in topQueues :: topQueues[k] == pp.queues[k] && topQueues[k] != nil
//@   ensures forall k common_info.QueueID :: k in result <==> (k in pp.queues && len(pp.queues[k].ParentQueue) == 0)
//@   ensures forall k in result :: result[k] == pp.queues[k] && result[k] != nil
//@ end

// Child map of a queue: one entry per listed child id, value = that child's attributes. A listed id
// that is missing from pp.queues yields a NIL entry (C10: SetResourcesShare dereferences it), which is
// exactly what [sameObjects] says: result[k] == pp.queues[k] (nil when k is absent).
//@ func (*proportionPlugin).getChildQueues
//@   props C09 C10
//@   requires pp != nil && parentQueue != nil
//@   fresh
//@   loop 1
//@     invariant childQueues != nil && fresh(childQueues)
//@     invariant 0 - 1 <= rangeindex && rangeindex < len(parentQueue.ChildQueues)
//@     invariant forall i int :: 0 <= i && i <= rangeindex ==> parentQueue.ChildQueues[i] in childQueues
//@     invariant forall k in childQueues :: childQueues[k] == pp.queues[k]
//@     invariant (forall i int :: 0 <= i && i < len(parentQueue.ChildQueues) ==> parentQueue.ChildQueues[i] in pp.queues) ==> (forall k in childQueues :: k in pp.queues)
//@   ensures [allChildren] forall i int :: 0 <= i && i < len(parentQueue.ChildQueues) ==> parentQueue.ChildQueues[i] in result
//@   ensures [sameObjects] forall k in result :: result[k] == pp.queues[k]
//@   ensures [noNilChild] (forall i int :: 0 <= i && i < len(parentQueue.ChildQueues) ==> parentQueue.ChildQueues[i] in pp.queues) ==> (forall k in result :: k in pp.queues)
//@ end

// ---- session getters (C10 nil sweep): total only for queues that are in the plugin's map ----------
//@ func (*proportionPlugin).getQueueDeservedResourcesFn
//@   props C10 C08
//@   requires pp != nil && queue != nil
//@   requires queue.UID in pp.queues && pp.queues[queue.UID] != nil && rs.cacheOK(pp.queues[queue.UID])
//@   modifies pp.queues[queue.UID].lastDeservedShare
//@   ensures result != nil && result.milliCpu == pp.queues[queue.UID].CPU.Deserved && result.memory == pp.queues[queue.UID].Memory.Deserved
//@   ensures rs.cacheOK(pp.queues[queue.UID])
//@ end

//@ func (*proportionPlugin).getQueueFairShareFn
//@   props C10 C09
//@   requires pp != nil && queue != nil
//@   requires queue.UID in pp.queues && pp.queues[queue.UID] != nil && rs.cacheOK(pp.queues[queue.UID])
//@   modifies pp.queues[queue.UID].lastFairShare
//@   ensures result != nil && result.milliCpu == pp.queues[queue.UID].CPU.FairShare && result.memory == pp.queues[queue.UID].Memory.FairShare
//@   ensures rs.cacheOK(pp.queues[queue.UID])
//@ end

//@ func (*proportionPlugin).getQueueAllocatedResourceFn
//@   props C10 C08 C14
//@   requires pp != nil && queue != nil
//@   requires queue.UID in pp.queues && pp.queues[queue.UID] != nil
//@   ensures result != nil && result.milliCpu == pp.queues[queue.UID].CPU.Allocated && result.memory == pp.queues[queue.UID].Memory.Allocated
//@ end

// ---- fair-share recursion over the hierarchy (C09 / C10) ---------------------------------------------
// every queue record of the plugin is usable: non-nil, keyed by its UID, coherent caches, non-negative
// over-quota weights, and every listed child id is present (so getChildQueues yields no nil entry)
//@ define shapeOK(m map[common_info.QueueID]*rs.QueueAttributes) bool = forall k in m :: m[k] != nil && m[k].UID == k && m[k].CPU.OverQuotaWeight >= 0.0 && m[k].Memory.OverQuotaWeight >= 0.0 && m[k].GPU.OverQuotaWeight >= 0.0
// every child id listed by a value of `sub` is a key of m (flat two-variable form: one E-matching step)
//@ define kidsIn(sub map[common_info.QueueID]*rs.QueueAttributes, m map[common_info.QueueID]*rs.QueueAttributes) bool = forall k common_info.QueueID, i int :: k in sub && 0 <= i && i < len(sub[k].ChildQueues) ==> sub[k].ChildQueues[i] in m
//@ define childrenPresent(m map[common_info.QueueID]*rs.QueueAttributes) bool = kidsIn(m, m)
//@ define cachesOK(m map[common_info.QueueID]*rs.QueueAttributes) bool = forall k in m :: rs.cacheOK(m[k])
//@ define keysIn(sub map[common_info.QueueID]*rs.QueueAttributes, m map[common_info.QueueID]*rs.QueueAttributes) bool = forall k in sub :: k in m
//@ define sameAs(sub map[common_info.QueueID]*rs.QueueAttributes, m map[common_info.QueueID]*rs.QueueAttributes) bool = forall k in sub :: sub[k] == m[k]

// C09: every level divides the parent's fair share among its children (SetResourcesShare on the child
// map with resources = parent.GetFairShare()); C10: no nil child entry is dereferenced when every listed
// child is present. Partial correctness only: termination of the recursion needs the child graph to be
// acyclic AND a measure "max height over a map", which the spec language cannot express (see report).
//@ func (*proportionPlugin).setFairShareForQueues
//@   props C09 C10
//@   requires pp != nil && shapeOK(pp.queues)
//@   requires childrenPresent(pp.queues)
//@   requires cachesOK(pp.queues)
//@   requires keysIn(queues, pp.queues)
//@   requires sameAs(queues, pp.queues)
//@   modifies family(pp.queues[""].CPU.FairShare), family(pp.queues[""].lastFairShare)
//@   loop 1
//@     invariant shapeOK(pp.queues)
//@     invariant childrenPresent(pp.queues)
//@     invariant keysIn(queues, pp.queues)
//@     invariant sameAs(queues, pp.queues)
//@     invariant cachesOK(pp.queues)
//@   ensures [cachesKept] cachesOK(pp.queues)
//@ end
