//go:build verif

// Contracts for govc (contract-based deductive verification); comments only.
package proportion

// add(q, s, r): amount added to a per-queue counter of attributes object q by an event on queue id s:
// r for every queue on the parent chain of s (s itself and all its ancestors), 0 for every other queue.
//@ define add(queues map[common_info.QueueID]*rs.QueueAttributes, s common_info.QueueID, q *rs.QueueAttributes, r real) real = ite(utils.onChain(queues, s, q), r, 0.0)
// same, restricted to the chain prefix already processed when the loop is at `cur` (all of it when !ok)
//@ define addUpTo(queues map[common_info.QueueID]*rs.QueueAttributes, s common_info.QueueID, q *rs.QueueAttributes, ok bool, cur *rs.QueueAttributes, r real) real = ite(utils.onChain(queues, s, q) && (!ok || utils.lvl(q) < utils.lvl(cur)), r, 0.0)

// C14 (QueueInv, establish): a task of an allocated job is charged to its queue and to EVERY ancestor:
// Allocated and Request grow by the task's quantities, AllocatedNotPreemptible iff the job is
// non-preemptible; no other queue changes (C08 frame). C10: terminates on an acyclic chain.
//@ func (*proportionPlugin).updateQueuesResourceUsageForAllocatedJob
//@   props C14 C08 C10
//@   requires pp != nil
//@   requires utils.chainOK(pp.queues, queueId)
//@   modifies family(pp.queues[queueId].CPU.Allocated), family(pp.queues[queueId].CPU.Request), family(pp.queues[queueId].CPU.AllocatedNotPreemptible)
//@   loop 1
//@     invariant ok ==> utils.onChain(pp.queues, queueId, queueAttributes)
//@     invariant utils.anyQueue(0).CPU.Allocated == old(utils.anyQueue(0).CPU.Allocated) + addUpTo(pp.queues, queueId, utils.anyQueue(0), ok, queueAttributes, resourceQuantities["CPU"])
//@     invariant utils.anyQueue(0).CPU.Request == old(utils.anyQueue(0).CPU.Request) + addUpTo(pp.queues, queueId, utils.anyQueue(0), ok, queueAttributes, resourceQuantities["CPU"])
//@     invariant utils.anyQueue(0).CPU.AllocatedNotPreemptible == old(utils.anyQueue(0).CPU.AllocatedNotPreemptible) + addUpTo(pp.queues, queueId, utils.anyQueue(0), ok, queueAttributes, ite(!preemptibleJob, resourceQuantities["CPU"], 0.0))
//@     invariant utils.anyQueue(0).Memory.Allocated == old(utils.anyQueue(0).Memory.Allocated) + addUpTo(pp.queues, queueId, utils.anyQueue(0), ok, queueAttributes, resourceQuantities["Memory"])
//@     invariant utils.anyQueue(0).Memory.Request == old(utils.anyQueue(0).Memory.Request) + addUpTo(pp.queues, queueId, utils.anyQueue(0), ok, queueAttributes, resourceQuantities["Memory"])
//@     invariant utils.anyQueue(0).Memory.AllocatedNotPreemptible == old(utils.anyQueue(0).Memory.AllocatedNotPreemptible) + addUpTo(pp.queues, queueId, utils.anyQueue(0), ok, queueAttributes, ite(!preemptibleJob, resourceQuantities["Memory"], 0.0))
//@     invariant utils.anyQueue(0).GPU.Allocated == old(utils.anyQueue(0).GPU.Allocated) + addUpTo(pp.queues, queueId, utils.anyQueue(0), ok, queueAttributes, resourceQuantities["GPU"])
//@     invariant utils.anyQueue(0).GPU.Request == old(utils.anyQueue(0).GPU.Request) + addUpTo(pp.queues, queueId, utils.anyQueue(0), ok, queueAttributes, resourceQuantities["GPU"])
//@     invariant utils.anyQueue(0).GPU.AllocatedNotPreemptible == old(utils.anyQueue(0).GPU.AllocatedNotPreemptible) + addUpTo(pp.queues, queueId, utils.anyQueue(0), ok, queueAttributes, ite(!preemptibleJob, resourceQuantities["GPU"], 0.0))
//@     decreases ite(ok, utils.depth(queueId) - utils.lvl(queueAttributes), 0)
//@   loop 2 unroll 3
//@   ensures [CPUAllocated] utils.anyQueue(0).CPU.Allocated == old(utils.anyQueue(0).CPU.Allocated) + add(pp.queues, queueId, utils.anyQueue(0), resourceQuantities["CPU"])
//@   ensures [CPURequest] utils.anyQueue(0).CPU.Request == old(utils.anyQueue(0).CPU.Request) + add(pp.queues, queueId, utils.anyQueue(0), resourceQuantities["CPU"])
//@   ensures [CPUAllocatedNotPreemptible] utils.anyQueue(0).CPU.AllocatedNotPreemptible == old(utils.anyQueue(0).CPU.AllocatedNotPreemptible) + add(pp.queues, queueId, utils.anyQueue(0), ite(!preemptibleJob, resourceQuantities["CPU"], 0.0))
//@   ensures [MemoryAllocated] utils.anyQueue(0).Memory.Allocated == old(utils.anyQueue(0).Memory.Allocated) + add(pp.queues, queueId, utils.anyQueue(0), resourceQuantities["Memory"])
//@   ensures [MemoryRequest] utils.anyQueue(0).Memory.Request == old(utils.anyQueue(0).Memory.Request) + add(pp.queues, queueId, utils.anyQueue(0), resourceQuantities["Memory"])
//@   ensures [MemoryAllocatedNotPreemptible] utils.anyQueue(0).Memory.AllocatedNotPreemptible == old(utils.anyQueue(0).Memory.AllocatedNotPreemptible) + add(pp.queues, queueId, utils.anyQueue(0), ite(!preemptibleJob, resourceQuantities["Memory"], 0.0))
//@   ensures [GPUAllocated] utils.anyQueue(0).GPU.Allocated == old(utils.anyQueue(0).GPU.Allocated) + add(pp.queues, queueId, utils.anyQueue(0), resourceQuantities["GPU"])
//@   ensures [GPURequest] utils.anyQueue(0).GPU.Request == old(utils.anyQueue(0).GPU.Request) + add(pp.queues, queueId, utils.anyQueue(0), resourceQuantities["GPU"])
//@   ensures [GPUAllocatedNotPreemptible] utils.anyQueue(0).GPU.AllocatedNotPreemptible == old(utils.anyQueue(0).GPU.AllocatedNotPreemptible) + add(pp.queues, queueId, utils.anyQueue(0), ite(!preemptibleJob, resourceQuantities["GPU"], 0.0))
//@ end

// Pending tasks only raise Request, at every level of the chain; nothing else changes.
//@ func (*proportionPlugin).updateQueuesResourceUsageForPendingJob
//@   props C14 C10
//@   requires pp != nil
//@   requires utils.chainOK(pp.queues, queueId)
//@   modifies family(pp.queues[queueId].CPU.Request)
//@   loop 1
//@     invariant ok ==> utils.onChain(pp.queues, queueId, queueAttributes)
//@     invariant utils.anyQueue(0).CPU.Request == old(utils.anyQueue(0).CPU.Request) + addUpTo(pp.queues, queueId, utils.anyQueue(0), ok, queueAttributes, resourceQuantities["CPU"])
//@     invariant utils.anyQueue(0).Memory.Request == old(utils.anyQueue(0).Memory.Request) + addUpTo(pp.queues, queueId, utils.anyQueue(0), ok, queueAttributes, resourceQuantities["Memory"])
//@     invariant utils.anyQueue(0).GPU.Request == old(utils.anyQueue(0).GPU.Request) + addUpTo(pp.queues, queueId, utils.anyQueue(0), ok, queueAttributes, resourceQuantities["GPU"])
//@     decreases ite(ok, utils.depth(queueId) - utils.lvl(queueAttributes), 0)
//@   loop 2 unroll 3
//@   ensures [CPURequest] utils.anyQueue(0).CPU.Request == old(utils.anyQueue(0).CPU.Request) + add(pp.queues, queueId, utils.anyQueue(0), resourceQuantities["CPU"])
//@   ensures [MemoryRequest] utils.anyQueue(0).Memory.Request == old(utils.anyQueue(0).Memory.Request) + add(pp.queues, queueId, utils.anyQueue(0), resourceQuantities["Memory"])
//@   ensures [GPURequest] utils.anyQueue(0).GPU.Request == old(utils.anyQueue(0).GPU.Request) + add(pp.queues, queueId, utils.anyQueue(0), resourceQuantities["GPU"])
//@ end

// ---- event handlers (closures) ----------------------------------------------------
// Property C08 (mechanism "allocate/deallocate event handlers keep Allocated and AllocatedNotPreemptible
// current"): for the queue of the task's job and EVERY ancestor q: Allocated'(q) = Allocated(q) + r in all
// three resources (r = quantities of the task's AcceptedResource), AllocatedNotPreemptible likewise iff
// the job is non-preemptible; every other queue (and every other field) is unchanged.
//@ func (*proportionPlugin).allocateHandlerFn$1
//@   props C08 C14 C10
//@   requires pp != nil && ssn != nil && ssn.ClusterInfo != nil && event != nil && event.Task != nil && event.Task.AcceptedResource != nil
//@   requires ssn.ClusterInfo.PodGroupInfos[event.Task.Job] != nil
//@   requires utils.chainOK(pp.queues, ssn.ClusterInfo.PodGroupInfos[event.Task.Job].Queue) && utils.depth(ssn.ClusterInfo.PodGroupInfos[event.Task.Job].Queue) >= 1
//@   modifies family(pp.queues[ssn.ClusterInfo.PodGroupInfos[event.Task.Job].Queue].CPU.Allocated), family(pp.queues[ssn.ClusterInfo.PodGroupInfos[event.Task.Job].Queue].CPU.AllocatedNotPreemptible)
//@   loop 1
//@     invariant ok ==> utils.onChain(pp.queues, job.Queue, queue)
//@     invariant utils.anyQueue(0).CPU.Allocated == old(utils.anyQueue(0).CPU.Allocated) + addUpTo(pp.queues, job.Queue, utils.anyQueue(0), ok, queue, taskResources["CPU"])
//@     invariant utils.anyQueue(0).CPU.AllocatedNotPreemptible == old(utils.anyQueue(0).CPU.AllocatedNotPreemptible) + addUpTo(pp.queues, job.Queue, utils.anyQueue(0), ok, queue, ite(isPreemptibleJob, 0.0, taskResources["CPU"]))
//@     invariant utils.anyQueue(0).Memory.Allocated == old(utils.anyQueue(0).Memory.Allocated) + addUpTo(pp.queues, job.Queue, utils.anyQueue(0), ok, queue, taskResources["Memory"])
//@     invariant utils.anyQueue(0).Memory.AllocatedNotPreemptible == old(utils.anyQueue(0).Memory.AllocatedNotPreemptible) + addUpTo(pp.queues, job.Queue, utils.anyQueue(0), ok, queue, ite(isPreemptibleJob, 0.0, taskResources["Memory"]))
//@     invariant utils.anyQueue(0).GPU.Allocated == old(utils.anyQueue(0).GPU.Allocated) + addUpTo(pp.queues, job.Queue, utils.anyQueue(0), ok, queue, taskResources["GPU"])
//@     invariant utils.anyQueue(0).GPU.AllocatedNotPreemptible == old(utils.anyQueue(0).GPU.AllocatedNotPreemptible) + addUpTo(pp.queues, job.Queue, utils.anyQueue(0), ok, queue, ite(isPreemptibleJob, 0.0, taskResources["GPU"]))
//@     decreases ite(ok, utils.depth(job.Queue) - utils.lvl(queue), 0)
//@   loop 2 unroll 3
//@   ensures [CPUAllocated] utils.anyQueue(0).CPU.Allocated == old(utils.anyQueue(0).CPU.Allocated) + add(pp.queues, ssn.ClusterInfo.PodGroupInfos[event.Task.Job].Queue, utils.anyQueue(0), old(event.Task.AcceptedResource.milliCpu))
//@   ensures [CPUAllocatedNotPreemptible] utils.anyQueue(0).CPU.AllocatedNotPreemptible == old(utils.anyQueue(0).CPU.AllocatedNotPreemptible) + add(pp.queues, ssn.ClusterInfo.PodGroupInfos[event.Task.Job].Queue, utils.anyQueue(0), ite(ssn.ClusterInfo.PodGroupInfos[event.Task.Job].Preemptibility == "preemptible", 0.0, old(event.Task.AcceptedResource.milliCpu)))
//@   ensures [MemoryAllocated] utils.anyQueue(0).Memory.Allocated == old(utils.anyQueue(0).Memory.Allocated) + add(pp.queues, ssn.ClusterInfo.PodGroupInfos[event.Task.Job].Queue, utils.anyQueue(0), old(event.Task.AcceptedResource.memory))
//@   ensures [MemoryAllocatedNotPreemptible] utils.anyQueue(0).Memory.AllocatedNotPreemptible == old(utils.anyQueue(0).Memory.AllocatedNotPreemptible) + add(pp.queues, ssn.ClusterInfo.PodGroupInfos[event.Task.Job].Queue, utils.anyQueue(0), ite(ssn.ClusterInfo.PodGroupInfos[event.Task.Job].Preemptibility == "preemptible", 0.0, old(event.Task.AcceptedResource.memory)))
//@   ensures [GPUAllocated] utils.anyQueue(0).GPU.Allocated == old(utils.anyQueue(0).GPU.Allocated) + add(pp.queues, ssn.ClusterInfo.PodGroupInfos[event.Task.Job].Queue, utils.anyQueue(0), old(event.Task.AcceptedResource.GetGpusQuota()))
//@   ensures [GPUAllocatedNotPreemptible] utils.anyQueue(0).GPU.AllocatedNotPreemptible == old(utils.anyQueue(0).GPU.AllocatedNotPreemptible) + add(pp.queues, ssn.ClusterInfo.PodGroupInfos[event.Task.Job].Queue, utils.anyQueue(0), ite(ssn.ClusterInfo.PodGroupInfos[event.Task.Job].Preemptibility == "preemptible", 0.0, old(event.Task.AcceptedResource.GetGpusQuota())))
//@ end

// Mirror image: the deallocate handler subtracts exactly what the allocate handler added.
//@ func (*proportionPlugin).deallocateHandlerFn$1
//@   props C08 C14 C10
//@   requires pp != nil && ssn != nil && ssn.ClusterInfo != nil && event != nil && event.Task != nil && event.Task.AcceptedResource != nil
//@   requires ssn.ClusterInfo.PodGroupInfos[event.Task.Job] != nil
//@   requires utils.chainOK(pp.queues, ssn.ClusterInfo.PodGroupInfos[event.Task.Job].Queue) && utils.depth(ssn.ClusterInfo.PodGroupInfos[event.Task.Job].Queue) >= 1
//@   modifies family(pp.queues[ssn.ClusterInfo.PodGroupInfos[event.Task.Job].Queue].CPU.Allocated), family(pp.queues[ssn.ClusterInfo.PodGroupInfos[event.Task.Job].Queue].CPU.AllocatedNotPreemptible)
//@   loop 1
//@     invariant ok ==> utils.onChain(pp.queues, job.Queue, queue)
//@     invariant utils.anyQueue(0).CPU.Allocated == old(utils.anyQueue(0).CPU.Allocated) - addUpTo(pp.queues, job.Queue, utils.anyQueue(0), ok, queue, taskResources["CPU"])
//@     invariant utils.anyQueue(0).CPU.AllocatedNotPreemptible == old(utils.anyQueue(0).CPU.AllocatedNotPreemptible) - addUpTo(pp.queues, job.Queue, utils.anyQueue(0), ok, queue, ite(isPreemptibleJob, 0.0, taskResources["CPU"]))
//@     invariant utils.anyQueue(0).Memory.Allocated == old(utils.anyQueue(0).Memory.Allocated) - addUpTo(pp.queues, job.Queue, utils.anyQueue(0), ok, queue, taskResources["Memory"])
//@     invariant utils.anyQueue(0).Memory.AllocatedNotPreemptible == old(utils.anyQueue(0).Memory.AllocatedNotPreemptible) - addUpTo(pp.queues, job.Queue, utils.anyQueue(0), ok, queue, ite(isPreemptibleJob, 0.0, taskResources["Memory"]))
//@     invariant utils.anyQueue(0).GPU.Allocated == old(utils.anyQueue(0).GPU.Allocated) - addUpTo(pp.queues, job.Queue, utils.anyQueue(0), ok, queue, taskResources["GPU"])
//@     invariant utils.anyQueue(0).GPU.AllocatedNotPreemptible == old(utils.anyQueue(0).GPU.AllocatedNotPreemptible) - addUpTo(pp.queues, job.Queue, utils.anyQueue(0), ok, queue, ite(isPreemptibleJob, 0.0, taskResources["GPU"]))
//@     decreases ite(ok, utils.depth(job.Queue) - utils.lvl(queue), 0)
//@   loop 2 unroll 3
//@   ensures [CPUAllocated] utils.anyQueue(0).CPU.Allocated == old(utils.anyQueue(0).CPU.Allocated) - add(pp.queues, ssn.ClusterInfo.PodGroupInfos[event.Task.Job].Queue, utils.anyQueue(0), old(event.Task.AcceptedResource.milliCpu))
//@   ensures [CPUAllocatedNotPreemptible] utils.anyQueue(0).CPU.AllocatedNotPreemptible == old(utils.anyQueue(0).CPU.AllocatedNotPreemptible) - add(pp.queues, ssn.ClusterInfo.PodGroupInfos[event.Task.Job].Queue, utils.anyQueue(0), ite(ssn.ClusterInfo.PodGroupInfos[event.Task.Job].Preemptibility == "preemptible", 0.0, old(event.Task.AcceptedResource.milliCpu)))
//@   ensures [MemoryAllocated] utils.anyQueue(0).Memory.Allocated == old(utils.anyQueue(0).Memory.Allocated) - add(pp.queues, ssn.ClusterInfo.PodGroupInfos[event.Task.Job].Queue, utils.anyQueue(0), old(event.Task.AcceptedResource.memory))
//@   ensures [MemoryAllocatedNotPreemptible] utils.anyQueue(0).Memory.AllocatedNotPreemptible == old(utils.anyQueue(0).Memory.AllocatedNotPreemptible) - add(pp.queues, ssn.ClusterInfo.PodGroupInfos[event.Task.Job].Queue, utils.anyQueue(0), ite(ssn.ClusterInfo.PodGroupInfos[event.Task.Job].Preemptibility == "preemptible", 0.0, old(event.Task.AcceptedResource.memory)))
//@   ensures [GPUAllocated] utils.anyQueue(0).GPU.Allocated == old(utils.anyQueue(0).GPU.Allocated) - add(pp.queues, ssn.ClusterInfo.PodGroupInfos[event.Task.Job].Queue, utils.anyQueue(0), old(event.Task.AcceptedResource.GetGpusQuota()))
//@   ensures [GPUAllocatedNotPreemptible] utils.anyQueue(0).GPU.AllocatedNotPreemptible == old(utils.anyQueue(0).GPU.AllocatedNotPreemptible) - add(pp.queues, ssn.ClusterInfo.PodGroupInfos[event.Task.Job].Queue, utils.anyQueue(0), ite(ssn.ClusterInfo.PodGroupInfos[event.Task.Job].Preemptibility == "preemptible", 0.0, old(event.Task.AcceptedResource.GetGpusQuota())))
//@ end

// ---- queue hierarchy helpers (C09 recursion inputs, C10 nil safety) ------------------------------
// Top queues = exactly the queues without a parent, keyed by their own id. Needs the map to be keyed
// by UID (established by createQueueResourceAttrs) and to have no nil entry.
//@ func (*proportionPlugin).getTopQueues
//@   props C09 C10
//@   requires pp != nil
//@   requires forall k in pp.queues :: pp.queues[k] != nil && pp.queues[k].UID == k
//@   fresh
//@   loop 1
//@     invariant topQueues != nil && fresh(topQueues)
//@     invariant forall k in visited :: k in pp.queues
//@     invariant forall k common_info.QueueID :: k in topQueues <==> (k in visited && len(pp.queues[k].ParentQueue) == 0)
//@     invariant forall k in topQueues :: topQueues[k] == pp.queues[k] && topQueues[k] != nil
//@   ensures forall k common_info.QueueID :: k in result <==> (k in pp.queues && len(pp.queues[k].ParentQueue) == 0)
//@   ensures forall k in result :: result[k] == pp.queues[k] && result[k] != nil
//@ end

// Child map of a queue: one entry per listed child id, value = that child's attributes; a listed id
// that is missing from pp.queues yields a nil entry (C10: consumers must not dereference it), hence
// the last ensures under the well-formedness premise.
//@ func (*proportionPlugin).getChildQueues
//@   props C09 C10
//@   requires pp != nil && parentQueue != nil
//@   fresh
//@   loop 1
//@     invariant childQueues != nil && fresh(childQueues)
//@     invariant 0 - 1 <= rangeindex && rangeindex < len(parentQueue.ChildQueues)
//@     invariant forall i int :: 0 <= i && i <= rangeindex ==> parentQueue.ChildQueues[i] in childQueues
//@     invariant forall k in childQueues :: childQueues[k] == pp.queues[k]
//@   ensures [allChildren] forall i int :: 0 <= i && i < len(parentQueue.ChildQueues) ==> parentQueue.ChildQueues[i] in result
//@   ensures [sameObjects] forall k in result :: result[k] == pp.queues[k]
//@ end
