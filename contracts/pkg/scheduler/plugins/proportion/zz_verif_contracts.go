//go:build verif

// Contracts for govc (contract-based deductive verification); comments only.
package proportion

// add(q, s, r): amount added to a per-queue counter of attributes object q by an event on queue id s:
// r for every queue on the parent chain of s (s itself and all its ancestors), 0 for every other queue.
//@ define add(queues map[common_info.QueueID]*rs.QueueAttributes, s common_info.QueueID, q *rs.QueueAttributes, r real) real = ite(utils.onChain(queues, s, q), r, 0.0)
// same, restricted to the chain prefix already processed when the loop is at `cur` (all of it when !ok)
//@ define addUpTo(queues map[common_info.QueueID]*rs.QueueAttributes, s common_info.QueueID, q *rs.QueueAttributes, ok bool, cur *rs.QueueAttributes, r real) real = ite(utils.onChain(queues, s, q) && (!ok || utils.lvl(q) < utils.lvl(cur)), r, 0.0)

// C14 (QueueInv, establish): a task of an allocated job is charged to its queue and to EVERY ancestor:
// Allocated and Request grow by the task's quantities, AllocatedNotPreemptible iff the job is
// non-preemptible; no other queue changes (C08 frame). C10: terminates on an acyclic chain.
//@ func (*proportionPlugin).updateQueuesResourceUsageForAllocatedJob
//@   props C14 C08 C10
//@   requires pp != nil
//@   requires utils.chainOK(pp.queues, queueId)
//@   modifies family(pp.queues[queueId].CPU.Allocated), family(pp.queues[queueId].CPU.Request), family(pp.queues[queueId].CPU.AllocatedNotPreemptible)
//@   loop 1
//@     invariant ok ==> utils.onChain(pp.queues, queueId, queueAttributes)
//@     invariant forall q *rs.QueueAttributes :: q.CPU.Allocated == old(q.CPU.Allocated) + addUpTo(pp.queues, queueId, q, ok, queueAttributes, resourceQuantities["CPU"])
//@     invariant forall q *rs.QueueAttributes :: q.CPU.Request == old(q.CPU.Request) + addUpTo(pp.queues, queueId, q, ok, queueAttributes, resourceQuantities["CPU"])
//@     invariant forall q *rs.QueueAttributes :: q.CPU.AllocatedNotPreemptible == old(q.CPU.AllocatedNotPreemptible) + addUpTo(pp.queues, queueId, q, ok, queueAttributes, ite(!preemptibleJob, resourceQuantities["CPU"], 0.0))
//@     invariant forall q *rs.QueueAttributes :: q.Memory.Allocated == old(q.Memory.Allocated) + addUpTo(pp.queues, queueId, q, ok, queueAttributes, resourceQuantities["Memory"])
//@     invariant forall q *rs.QueueAttributes :: q.Memory.Request == old(q.Memory.Request) + addUpTo(pp.queues, queueId, q, ok, queueAttributes, resourceQuantities["Memory"])
//@     invariant forall q *rs.QueueAttributes :: q.Memory.AllocatedNotPreemptible == old(q.Memory.AllocatedNotPreemptible) + addUpTo(pp.queues, queueId, q, ok, queueAttributes, ite(!preemptibleJob, resourceQuantities["Memory"], 0.0))
//@     invariant forall q *rs.QueueAttributes :: q.GPU.Allocated == old(q.GPU.Allocated) + addUpTo(pp.queues, queueId, q, ok, queueAttributes, resourceQuantities["GPU"])
//@     invariant forall q *rs.QueueAttributes :: q.GPU.Request == old(q.GPU.Request) + addUpTo(pp.queues, queueId, q, ok, queueAttributes, resourceQuantities["GPU"])
//@     invariant forall q *rs.QueueAttributes :: q.GPU.AllocatedNotPreemptible == old(q.GPU.AllocatedNotPreemptible) + addUpTo(pp.queues, queueId, q, ok, queueAttributes, ite(!preemptibleJob, resourceQuantities["GPU"], 0.0))
//@     decreases ite(ok, utils.depth(queueId) - utils.lvl(queueAttributes), 0)
//@   loop 2 unroll 3
//@   ensures [CPUAllocated] forall q *rs.QueueAttributes :: q.CPU.Allocated == old(q.CPU.Allocated) + add(pp.queues, queueId, q, resourceQuantities["CPU"])
//@   ensures [CPURequest] forall q *rs.QueueAttributes :: q.CPU.Request == old(q.CPU.Request) + add(pp.queues, queueId, q, resourceQuantities["CPU"])
//@   ensures [CPUAllocatedNotPreemptible] forall q *rs.QueueAttributes :: q.CPU.AllocatedNotPreemptible == old(q.CPU.AllocatedNotPreemptible) + add(pp.queues, queueId, q, ite(!preemptibleJob, resourceQuantities["CPU"], 0.0))
//@   ensures [MemoryAllocated] forall q *rs.QueueAttributes :: q.Memory.Allocated == old(q.Memory.Allocated) + add(pp.queues, queueId, q, resourceQuantities["Memory"])
//@   ensures [MemoryRequest] forall q *rs.QueueAttributes :: q.Memory.Request == old(q.Memory.Request) + add(pp.queues, queueId, q, resourceQuantities["Memory"])
//@   ensures [MemoryAllocatedNotPreemptible] forall q *rs.QueueAttributes :: q.Memory.AllocatedNotPreemptible == old(q.Memory.AllocatedNotPreemptible) + add(pp.queues, queueId, q, ite(!preemptibleJob, resourceQuantities["Memory"], 0.0))
//@   ensures [GPUAllocated] forall q *rs.QueueAttributes :: q.GPU.Allocated == old(q.GPU.Allocated) + add(pp.queues, queueId, q, resourceQuantities["GPU"])
//@   ensures [GPURequest] forall q *rs.QueueAttributes :: q.GPU.Request == old(q.GPU.Request) + add(pp.queues, queueId, q, resourceQuantities["GPU"])
//@   ensures [GPUAllocatedNotPreemptible] forall q *rs.QueueAttributes :: q.GPU.AllocatedNotPreemptible == old(q.GPU.AllocatedNotPreemptible) + add(pp.queues, queueId, q, ite(!preemptibleJob, resourceQuantities["GPU"], 0.0))
//@ end

// Pending tasks only raise Request, at every level of the chain; nothing else changes.
//@ func (*proportionPlugin).updateQueuesResourceUsageForPendingJob
//@   props C14 C10
//@   requires pp != nil
//@   requires utils.chainOK(pp.queues, queueId)
//@   modifies family(pp.queues[queueId].CPU.Request)
//@   loop 1
//@     invariant ok ==> utils.onChain(pp.queues, queueId, queueAttributes)
//@     invariant forall q *rs.QueueAttributes :: q.CPU.Request == old(q.CPU.Request) + addUpTo(pp.queues, queueId, q, ok, queueAttributes, resourceQuantities["CPU"])
//@     invariant forall q *rs.QueueAttributes :: q.Memory.Request == old(q.Memory.Request) + addUpTo(pp.queues, queueId, q, ok, queueAttributes, resourceQuantities["Memory"])
//@     invariant forall q *rs.QueueAttributes :: q.GPU.Request == old(q.GPU.Request) + addUpTo(pp.queues, queueId, q, ok, queueAttributes, resourceQuantities["GPU"])
//@     decreases ite(ok, utils.depth(queueId) - utils.lvl(queueAttributes), 0)
//@   loop 2 unroll 3
//@   ensures [CPURequest] forall q *rs.QueueAttributes :: q.CPU.Request == old(q.CPU.Request) + add(pp.queues, queueId, q, resourceQuantities["CPU"])
//@   ensures [MemoryRequest] forall q *rs.QueueAttributes :: q.Memory.Request == old(q.Memory.Request) + add(pp.queues, queueId, q, resourceQuantities["Memory"])
//@   ensures [GPURequest] forall q *rs.QueueAttributes :: q.GPU.Request == old(q.GPU.Request) + add(pp.queues, queueId, q, resourceQuantities["GPU"])
//@ end

// n-th queue object on the parent chain of queue id s
//@ define chainQ(queues map[common_info.QueueID]*rs.QueueAttributes, s common_info.QueueID, n int) *rs.QueueAttributes = queues[utils.anc(s, n)]
// C08 running-sum step (DESIGN: L limitInvariant): a counter that passed the check `okQty(bound, before, r)` is, after
// being charged, within its bound (or the bound is -1 = unlimited, or it was not raised at all).
//@ define stays(bound real, after real, before real) bool = bound == -1.0 || after <= bound || after == before

// ---- event handlers (closures) ----------------------------------------------------
// Property C08 (mechanism "allocate/deallocate event handlers keep Allocated and AllocatedNotPreemptible
// current"): for the queue of the task's job and EVERY ancestor q: Allocated'(q) = Allocated(q) + r in all
// three resources (r = quantities of the task's AcceptedResource), AllocatedNotPreemptible likewise iff
// the job is non-preemptible; every other queue (and every other field) is unchanged.
//@ func (*proportionPlugin).allocateHandlerFn$1
//@   props C08 C14 C10
//@   requires pp != nil && ssn != nil && ssn.ClusterInfo != nil && event != nil && event.Task != nil && event.Task.AcceptedResource != nil
//@   requires ssn.ClusterInfo.PodGroupInfos[event.Task.Job] != nil
//@   requires utils.chainOK(pp.queues, ssn.ClusterInfo.PodGroupInfos[event.Task.Job].Queue) && utils.depth(ssn.ClusterInfo.PodGroupInfos[event.Task.Job].Queue) >= 1
//@   modifies family(pp.queues[ssn.ClusterInfo.PodGroupInfos[event.Task.Job].Queue].CPU.Allocated), family(pp.queues[ssn.ClusterInfo.PodGroupInfos[event.Task.Job].Queue].CPU.AllocatedNotPreemptible)
//@   loop 1
//@     invariant ok ==> utils.onChain(pp.queues, job.Queue, queue)
//@     invariant forall q *rs.QueueAttributes :: q.CPU.Allocated == old(q.CPU.Allocated) + addUpTo(pp.queues, job.Queue, q, ok, queue, taskResources["CPU"])
//@     invariant forall q *rs.QueueAttributes :: q.CPU.AllocatedNotPreemptible == old(q.CPU.AllocatedNotPreemptible) + addUpTo(pp.queues, job.Queue, q, ok, queue, ite(isPreemptibleJob, 0.0, taskResources["CPU"]))
//@     invariant forall q *rs.QueueAttributes :: q.Memory.Allocated == old(q.Memory.Allocated) + addUpTo(pp.queues, job.Queue, q, ok, queue, taskResources["Memory"])
//@     invariant forall q *rs.QueueAttributes :: q.Memory.AllocatedNotPreemptible == old(q.Memory.AllocatedNotPreemptible) + addUpTo(pp.queues, job.Queue, q, ok, queue, ite(isPreemptibleJob, 0.0, taskResources["Memory"]))
//@     invariant forall q *rs.QueueAttributes :: q.GPU.Allocated == old(q.GPU.Allocated) + addUpTo(pp.queues, job.Queue, q, ok, queue, taskResources["GPU"])
//@     invariant forall q *rs.QueueAttributes :: q.GPU.AllocatedNotPreemptible == old(q.GPU.AllocatedNotPreemptible) + addUpTo(pp.queues, job.Queue, q, ok, queue, ite(isPreemptibleJob, 0.0, taskResources["GPU"]))
//@     decreases ite(ok, utils.depth(job.Queue) - utils.lvl(queue), 0)
//@   loop 2 unroll 3
//@   ensures [CPUAllocated] forall q *rs.QueueAttributes :: q.CPU.Allocated == old(q.CPU.Allocated) + add(pp.queues, ssn.ClusterInfo.PodGroupInfos[event.Task.Job].Queue, q, event.Task.AcceptedResource.milliCpu)
//@   ensures [CPUAllocatedNotPreemptible] forall q *rs.QueueAttributes :: q.CPU.AllocatedNotPreemptible == old(q.CPU.AllocatedNotPreemptible) + add(pp.queues, ssn.ClusterInfo.PodGroupInfos[event.Task.Job].Queue, q, ite(ssn.ClusterInfo.PodGroupInfos[event.Task.Job].Preemptibility == "preemptible", 0.0, event.Task.AcceptedResource.milliCpu))
//@   ensures [MemoryAllocated] forall q *rs.QueueAttributes :: q.Memory.Allocated == old(q.Memory.Allocated) + add(pp.queues, ssn.ClusterInfo.PodGroupInfos[event.Task.Job].Queue, q, event.Task.AcceptedResource.memory)
//@   ensures [MemoryAllocatedNotPreemptible] forall q *rs.QueueAttributes :: q.Memory.AllocatedNotPreemptible == old(q.Memory.AllocatedNotPreemptible) + add(pp.queues, ssn.ClusterInfo.PodGroupInfos[event.Task.Job].Queue, q, ite(ssn.ClusterInfo.PodGroupInfos[event.Task.Job].Preemptibility == "preemptible", 0.0, event.Task.AcceptedResource.memory))
//@   ensures [GPUAllocated] forall q *rs.QueueAttributes :: q.GPU.Allocated == old(q.GPU.Allocated) + add(pp.queues, ssn.ClusterInfo.PodGroupInfos[event.Task.Job].Queue, q, event.Task.AcceptedResource.GetGpusQuota())
//@   ensures [GPUAllocatedNotPreemptible] forall q *rs.QueueAttributes :: q.GPU.AllocatedNotPreemptible == old(q.GPU.AllocatedNotPreemptible) + add(pp.queues, ssn.ClusterInfo.PodGroupInfos[event.Task.Job].Queue, q, ite(ssn.ClusterInfo.PodGroupInfos[event.Task.Job].Preemptibility == "preemptible", 0.0, event.Task.AcceptedResource.GetGpusQuota()))
//@   lemma [limitInvariant] forall n int :: 0 <= n && n < utils.depth(ssn.ClusterInfo.PodGroupInfos[event.Task.Job].Queue) ==> (old(cp.okQty(chainQ(pp.queues, ssn.ClusterInfo.PodGroupInfos[event.Task.Job].Queue, n).CPU.MaxAllowed, chainQ(pp.queues, ssn.ClusterInfo.PodGroupInfos[event.Task.Job].Queue, n).CPU.Allocated, event.Task.AcceptedResource.milliCpu)) ==> stays(chainQ(pp.queues, ssn.ClusterInfo.PodGroupInfos[event.Task.Job].Queue, n).CPU.MaxAllowed, chainQ(pp.queues, ssn.ClusterInfo.PodGroupInfos[event.Task.Job].Queue, n).CPU.Allocated, old(chainQ(pp.queues, ssn.ClusterInfo.PodGroupInfos[event.Task.Job].Queue, n).CPU.Allocated))) && (old(cp.okQty(chainQ(pp.queues, ssn.ClusterInfo.PodGroupInfos[event.Task.Job].Queue, n).Memory.MaxAllowed, chainQ(pp.queues, ssn.ClusterInfo.PodGroupInfos[event.Task.Job].Queue, n).Memory.Allocated, event.Task.AcceptedResource.memory)) ==> stays(chainQ(pp.queues, ssn.ClusterInfo.PodGroupInfos[event.Task.Job].Queue, n).Memory.MaxAllowed, chainQ(pp.queues, ssn.ClusterInfo.PodGroupInfos[event.Task.Job].Queue, n).Memory.Allocated, old(chainQ(pp.queues, ssn.ClusterInfo.PodGroupInfos[event.Task.Job].Queue, n).Memory.Allocated))) && (old(cp.okQty(chainQ(pp.queues, ssn.ClusterInfo.PodGroupInfos[event.Task.Job].Queue, n).GPU.MaxAllowed, chainQ(pp.queues, ssn.ClusterInfo.PodGroupInfos[event.Task.Job].Queue, n).GPU.Allocated, event.Task.AcceptedResource.GetGpusQuota())) ==> stays(chainQ(pp.queues, ssn.ClusterInfo.PodGroupInfos[event.Task.Job].Queue, n).GPU.MaxAllowed, chainQ(pp.queues, ssn.ClusterInfo.PodGroupInfos[event.Task.Job].Queue, n).GPU.Allocated, old(chainQ(pp.queues, ssn.ClusterInfo.PodGroupInfos[event.Task.Job].Queue, n).GPU.Allocated)))
//@   lemma [quotaInvariant] ssn.ClusterInfo.PodGroupInfos[event.Task.Job].Preemptibility != "preemptible" ==> (forall n int :: 0 <= n && n < utils.depth(ssn.ClusterInfo.PodGroupInfos[event.Task.Job].Queue) ==> (old(cp.okQty(chainQ(pp.queues, ssn.ClusterInfo.PodGroupInfos[event.Task.Job].Queue, n).CPU.Deserved, chainQ(pp.queues, ssn.ClusterInfo.PodGroupInfos[event.Task.Job].Queue, n).CPU.AllocatedNotPreemptible, event.Task.AcceptedResource.milliCpu)) ==> stays(chainQ(pp.queues, ssn.ClusterInfo.PodGroupInfos[event.Task.Job].Queue, n).CPU.Deserved, chainQ(pp.queues, ssn.ClusterInfo.PodGroupInfos[event.Task.Job].Queue, n).CPU.AllocatedNotPreemptible, old(chainQ(pp.queues, ssn.ClusterInfo.PodGroupInfos[event.Task.Job].Queue, n).CPU.AllocatedNotPreemptible))) && (old(cp.okQty(chainQ(pp.queues, ssn.ClusterInfo.PodGroupInfos[event.Task.Job].Queue, n).Memory.Deserved, chainQ(pp.queues, ssn.ClusterInfo.PodGroupInfos[event.Task.Job].Queue, n).Memory.AllocatedNotPreemptible, event.Task.AcceptedResource.memory)) ==> stays(chainQ(pp.queues, ssn.ClusterInfo.PodGroupInfos[event.Task.Job].Queue, n).Memory.Deserved, chainQ(pp.queues, ssn.ClusterInfo.PodGroupInfos[event.Task.Job].Queue, n).Memory.AllocatedNotPreemptible, old(chainQ(pp.queues, ssn.ClusterInfo.PodGroupInfos[event.Task.Job].Queue, n).Memory.AllocatedNotPreemptible))) && (old(cp.okQty(chainQ(pp.queues, ssn.ClusterInfo.PodGroupInfos[event.Task.Job].Queue, n).GPU.Deserved, chainQ(pp.queues, ssn.ClusterInfo.PodGroupInfos[event.Task.Job].Queue, n).GPU.AllocatedNotPreemptible, event.Task.AcceptedResource.GetGpusQuota())) ==> stays(chainQ(pp.queues, ssn.ClusterInfo.PodGroupInfos[event.Task.Job].Queue, n).GPU.Deserved, chainQ(pp.queues, ssn.ClusterInfo.PodGroupInfos[event.Task.Job].Queue, n).GPU.AllocatedNotPreemptible, old(chainQ(pp.queues, ssn.ClusterInfo.PodGroupInfos[event.Task.Job].Queue, n).GPU.AllocatedNotPreemptible))))
//@ end

// Mirror image: the deallocate handler subtracts exactly what the allocate handler added.
//@ func (*proportionPlugin).deallocateHandlerFn$1
//@   props C08 C14 C10
//@   requires pp != nil && ssn != nil && ssn.ClusterInfo != nil && event != nil && event.Task != nil && event.Task.AcceptedResource != nil
//@   requires ssn.ClusterInfo.PodGroupInfos[event.Task.Job] != nil
//@   requires utils.chainOK(pp.queues, ssn.ClusterInfo.PodGroupInfos[event.Task.Job].Queue) && utils.depth(ssn.ClusterInfo.PodGroupInfos[event.Task.Job].Queue) >= 1
//@   modifies family(pp.queues[ssn.ClusterInfo.PodGroupInfos[event.Task.Job].Queue].CPU.Allocated), family(pp.queues[ssn.ClusterInfo.PodGroupInfos[event.Task.Job].Queue].CPU.AllocatedNotPreemptible)
//@   loop 1
//@     invariant ok ==> utils.onChain(pp.queues, job.Queue, queue)
//@     invariant forall q *rs.QueueAttributes :: q.CPU.Allocated == old(q.CPU.Allocated) - addUpTo(pp.queues, job.Queue, q, ok, queue, taskResources["CPU"])
//@     invariant forall q *rs.QueueAttributes :: q.CPU.AllocatedNotPreemptible == old(q.CPU.AllocatedNotPreemptible) - addUpTo(pp.queues, job.Queue, q, ok, queue, ite(isPreemptibleJob, 0.0, taskResources["CPU"]))
//@     invariant forall q *rs.QueueAttributes :: q.Memory.Allocated == old(q.Memory.Allocated) - addUpTo(pp.queues, job.Queue, q, ok, queue, taskResources["Memory"])
//@     invariant forall q *rs.QueueAttributes :: q.Memory.AllocatedNotPreemptible == old(q.Memory.AllocatedNotPreemptible) - addUpTo(pp.queues, job.Queue, q, ok, queue, ite(isPreemptibleJob, 0.0, taskResources["Memory"]))
//@     invariant forall q *rs.QueueAttributes :: q.GPU.Allocated == old(q.GPU.Allocated) - addUpTo(pp.queues, job.Queue, q, ok, queue, taskResources["GPU"])
//@     invariant forall q *rs.QueueAttributes :: q.GPU.AllocatedNotPreemptible == old(q.GPU.AllocatedNotPreemptible) - addUpTo(pp.queues, job.Queue, q, ok, queue, ite(isPreemptibleJob, 0.0, taskResources["GPU"]))
//@     decreases ite(ok, utils.depth(job.Queue) - utils.lvl(queue), 0)
//@   loop 2 unroll 3
//@   ensures [CPUAllocated] forall q *rs.QueueAttributes :: q.CPU.Allocated == old(q.CPU.Allocated) - add(pp.queues, ssn.ClusterInfo.PodGroupInfos[event.Task.Job].Queue, q, event.Task.AcceptedResource.milliCpu)
//@   ensures [CPUAllocatedNotPreemptible] forall q *rs.QueueAttributes :: q.CPU.AllocatedNotPreemptible == old(q.CPU.AllocatedNotPreemptible) - add(pp.queues, ssn.ClusterInfo.PodGroupInfos[event.Task.Job].Queue, q, ite(ssn.ClusterInfo.PodGroupInfos[event.Task.Job].Preemptibility == "preemptible", 0.0, event.Task.AcceptedResource.milliCpu))
//@   ensures [MemoryAllocated] forall q *rs.QueueAttributes :: q.Memory.Allocated == old(q.Memory.Allocated) - add(pp.queues, ssn.ClusterInfo.PodGroupInfos[event.Task.Job].Queue, q, event.Task.AcceptedResource.memory)
//@   ensures [MemoryAllocatedNotPreemptible] forall q *rs.QueueAttributes :: q.Memory.AllocatedNotPreemptible == old(q.Memory.AllocatedNotPreemptible) - add(pp.queues, ssn.ClusterInfo.PodGroupInfos[event.Task.Job].Queue, q, ite(ssn.ClusterInfo.PodGroupInfos[event.Task.Job].Preemptibility == "preemptible", 0.0, event.Task.AcceptedResource.memory))
//@   ensures [GPUAllocated] forall q *rs.QueueAttributes :: q.GPU.Allocated == old(q.GPU.Allocated) - add(pp.queues, ssn.ClusterInfo.PodGroupInfos[event.Task.Job].Queue, q, event.Task.AcceptedResource.GetGpusQuota())
//@   ensures [GPUAllocatedNotPreemptible] forall q *rs.QueueAttributes :: q.GPU.AllocatedNotPreemptible == old(q.GPU.AllocatedNotPreemptible) - add(pp.queues, ssn.ClusterInfo.PodGroupInfos[event.Task.Job].Queue, q, ite(ssn.ClusterInfo.PodGroupInfos[event.Task.Job].Preemptibility == "preemptible", 0.0, event.Task.AcceptedResource.GetGpusQuota()))
//@ end

// ---- queue hierarchy helpers (C09 recursion inputs, C10 nil safety) ------------------------------
// Top queues = exactly the queues without a parent, keyed by their own id. Needs the map to be keyed
// by UID (established by createQueueResourceAttrs) and to have no nil entry.
//@ func (*proportionPlugin).getTopQueues
//@   props C09 C10
//@   requires pp != nil
//@   requires forall k in pp.queues :: pp.queues[k] != nil && pp.queues[k].UID == k
//@   fresh
//@   loop 1
//@     invariant topQueues != nil && fresh(topQueues)
//@     invariant forall k in visited :: k in pp.queues
//@     invariant forall k common_info.QueueID :: k in topQueues <==> (k in visited && len(pp.queues[k].ParentQueue) == 0)
//@     invariant forall k in topQueues :: topQueues[k] == pp.queues[k] && topQueues[k] != nil
//@   ensures forall k common_info.QueueID :: k in result <==> (k in pp.queues && len(pp.queues[k].ParentQueue) == 0)
//@   ensures forall k in result :: result[k] == pp.queues[k] && result[k] != nil
//@ end

// Child map of a queue: one entry per listed child id, value = that child's attributes. A listed id
// that is missing from pp.queues yields a NIL entry (C10: SetResourcesShare dereferences it), which is
// exactly what [sameObjects] says: result[k] == pp.queues[k] (nil when k is absent).
//@ func (*proportionPlugin).getChildQueues
//@   props C09 C10
//@   requires pp != nil && parentQueue != nil
//@   fresh
//@   loop 1
//@     invariant childQueues != nil && fresh(childQueues)
//@     invariant 0 - 1 <= rangeindex && rangeindex < len(parentQueue.ChildQueues)
//@     invariant forall i int :: 0 <= i && i <= rangeindex ==> parentQueue.ChildQueues[i] in childQueues
//@     invariant forall k in childQueues :: childQueues[k] == pp.queues[k]
//@     invariant (forall i int :: 0 <= i && i < len(parentQueue.ChildQueues) ==> parentQueue.ChildQueues[i] in pp.queues) ==> (forall k in childQueues :: k in pp.queues)
//@   ensures [allChildren] forall i int :: 0 <= i && i < len(parentQueue.ChildQueues) ==> parentQueue.ChildQueues[i] in result
//@   ensures [sameObjects] forall k in result :: result[k] == pp.queues[k]
//@   ensures [noNilChild] (forall i int :: 0 <= i && i < len(parentQueue.ChildQueues) ==> parentQueue.ChildQueues[i] in pp.queues) ==> (forall k in result :: k in pp.queues)
//@ end

// ---- session getters (C10 nil sweep): total only for queues that are in the plugin's map ----------
//@ func (*proportionPlugin).getQueueDeservedResourcesFn
//@   props C10 C08
//@   requires pp != nil && queue != nil
//@   requires queue.UID in pp.queues && pp.queues[queue.UID] != nil && rs.cacheOK(pp.queues[queue.UID])
//@   modifies pp.queues[queue.UID].lastDeservedShare
//@   ensures result != nil && result.milliCpu == pp.queues[queue.UID].CPU.Deserved && result.memory == pp.queues[queue.UID].Memory.Deserved
//@   ensures rs.cacheOK(pp.queues[queue.UID])
//@ end

//@ func (*proportionPlugin).getQueueFairShareFn
//@   props C10 C09
//@   requires pp != nil && queue != nil
//@   requires queue.UID in pp.queues && pp.queues[queue.UID] != nil && rs.cacheOK(pp.queues[queue.UID])
//@   modifies pp.queues[queue.UID].lastFairShare
//@   ensures result != nil && result.milliCpu == pp.queues[queue.UID].CPU.FairShare && result.memory == pp.queues[queue.UID].Memory.FairShare
//@   ensures rs.cacheOK(pp.queues[queue.UID])
//@ end

//@ func (*proportionPlugin).getQueueAllocatedResourceFn
//@   props C10 C08 C14
//@   requires pp != nil && queue != nil
//@   requires queue.UID in pp.queues && pp.queues[queue.UID] != nil
//@   ensures result != nil && result.milliCpu == pp.queues[queue.UID].CPU.Allocated && result.memory == pp.queues[queue.UID].Memory.Allocated
//@ end

// ---- fair-share recursion over the hierarchy (C09 / C10) ---------------------------------------------
// every queue record of the plugin is usable: non-nil, keyed by its UID, coherent caches, non-negative
// over-quota weights, and every listed child id is present (so getChildQueues yields no nil entry)
//@ define shapeOK(m map[common_info.QueueID]*rs.QueueAttributes) bool = forall k in m :: m[k] != nil && m[k].UID == k && m[k].CPU.OverQuotaWeight >= 0.0 && m[k].Memory.OverQuotaWeight >= 0.0 && m[k].GPU.OverQuotaWeight >= 0.0
// every child id listed by a value of `sub` is a key of m (flat two-variable form: one E-matching step)
//@ define kidsIn(sub map[common_info.QueueID]*rs.QueueAttributes, m map[common_info.QueueID]*rs.QueueAttributes) bool = forall k common_info.QueueID, i int :: k in sub && 0 <= i && i < len(sub[k].ChildQueues) ==> sub[k].ChildQueues[i] in m
//@ define childrenPresent(m map[common_info.QueueID]*rs.QueueAttributes) bool = kidsIn(m, m)
//@ define cachesOK(m map[common_info.QueueID]*rs.QueueAttributes) bool = forall k in m :: rs.cacheOK(m[k])
//@ define keysIn(sub map[common_info.QueueID]*rs.QueueAttributes, m map[common_info.QueueID]*rs.QueueAttributes) bool = forall k in sub :: k in m
//@ define sameAs(sub map[common_info.QueueID]*rs.QueueAttributes, m map[common_info.QueueID]*rs.QueueAttributes) bool = forall k in sub :: sub[k] == m[k]

// C09: every level divides the parent's fair share among its children (SetResourcesShare on the child
// map with resources = parent.GetFairShare()); C10: no nil child entry is dereferenced when every listed
// child is present. Partial correctness only: termination of the recursion needs the child graph to be
// acyclic AND a measure "max height over a map", which the spec language cannot express (see report).
//@ func (*proportionPlugin).setFairShareForQueues
//@   props C09 C10
//@   requires pp != nil && shapeOK(pp.queues)
//@   requires childrenPresent(pp.queues)
//@   requires cachesOK(pp.queues)
//@   requires keysIn(queues, pp.queues)
//@   requires sameAs(queues, pp.queues)
//@   modifies family(pp.queues[""].CPU.FairShare), family(pp.queues[""].lastFairShare)
//@   loop 1
//@     invariant shapeOK(pp.queues)
//@     invariant childrenPresent(pp.queues)
//@     invariant keysIn(queues, pp.queues)
//@     invariant sameAs(queues, pp.queues)
//@     invariant cachesOK(pp.queues)
//@   ensures [cachesKept] cachesOK(pp.queues)
//@ end

// ==== input-building glue (helper "glue") ==========================================================
// Properties C09 ("each queue's fair share is at least min(deserved quota, its request capped by its
// limit) ... monotone in over-quota weight", "for every ... resource"), C08 ("its configured limit in any
// resource", "its deserved quota") and C07 ("within its deserved quota in every resource") all read the
// per-resource inputs Deserved / MaxAllowed / OverQuotaWeight of rs.QueueAttributes. These inputs are the
// queue's configured quota / limit / overQuotaWeight OF THE SAME RESOURCE: CPU in milli-cpu as configured,
// memory in bytes-units of the scheduler (configured value * 1000000, never below the -1 "unlimited"
// sentinel), GPUs as configured. One define per resource: a stanza reading another resource's field fails
// the obligation named after the resource.
//@ define cpuFromCPU(a *rs.QueueAttributes, q *queue_info.QueueInfo) bool = a.CPU.Deserved == q.Resources.CPU.Quota && a.CPU.MaxAllowed == q.Resources.CPU.Limit && a.CPU.OverQuotaWeight == q.Resources.CPU.OverQuotaWeight
//@ define memoryFromMemory(a *rs.QueueAttributes, q *queue_info.QueueInfo) bool = a.Memory.Deserved == max(0.0 - 1.0, q.Resources.Memory.Quota * 1000000.0) && a.Memory.MaxAllowed == max(0.0 - 1.0, q.Resources.Memory.Limit * 1000000.0) && a.Memory.OverQuotaWeight == q.Resources.Memory.OverQuotaWeight
//@ define gpuFromGPU(a *rs.QueueAttributes, q *queue_info.QueueInfo) bool = a.GPU.Deserved == q.Resources.GPU.Quota && a.GPU.MaxAllowed == q.Resources.GPU.Limit && a.GPU.OverQuotaWeight == q.Resources.GPU.OverQuotaWeight
// identity, hierarchy links, priority and age are copied from the queue
//@ define metaFromQueue(a *rs.QueueAttributes, q *queue_info.QueueInfo) bool = a.UID == q.UID && a.Name == q.Name && a.ParentQueue == q.ParentQueue && a.ChildQueues == q.ChildQueues && a.Priority == q.Priority && a.CreationTimestamp == q.CreationTimestamp

// historical usage (time-based fairness input) comes from the usage record of the same queue, resource by resource
//@ define usageFromUsage(a *rs.QueueAttributes, u queue_info.QueueUsage) bool = a.CPU.Usage == u["cpu"] && a.Memory.Usage == u["memory"] && a.GPU.Usage == u["nvidia.com/gpu"]
// a freshly built record carries no allocation, no request and no fair share yet
//@ define zeroShare(s *rs.ResourceShare) bool = s.FairShare == 0.0 && s.Allocated == 0.0 && s.AllocatedNotPreemptible == 0.0 && s.Request == 0.0

//@ func (*proportionPlugin).createQueueResourceAttrs
//@   props C09 C08 C07 C10
//@   requires pp != nil && ssn != nil && ssn.ClusterInfo != nil && pp.queues != nil
//@   requires forall k in ssn.ClusterInfo.Queues :: ssn.ClusterInfo.Queues[k] != nil && ssn.ClusterInfo.Queues[k].UID == k
//@   modifies pp.queues[*]
//@   loop 1
//@     invariant forall k in visited :: k in ssn.ClusterInfo.Queues
//@     invariant forall k in visited :: k in pp.queues && pp.queues[k] != nil && allocated(pp.queues[k])
//@     invariant forall s *rs.ResourceShare :: old(allocated(s)) ==> s.Deserved == old(s.Deserved) && s.MaxAllowed == old(s.MaxAllowed) && s.OverQuotaWeight == old(s.OverQuotaWeight) && s.FairShare == old(s.FairShare)
//@     invariant forall s *rs.ResourceShare :: old(allocated(s)) ==> s.Allocated == old(s.Allocated) && s.AllocatedNotPreemptible == old(s.AllocatedNotPreemptible) && s.Request == old(s.Request) && s.Usage == old(s.Usage)
//@     invariant forall s *rs.QueueResourceShare :: old(allocated(s)) ==> s.lastDeservedShare == old(s.lastDeservedShare)
//@     invariant forall k in visited :: cpuFromCPU(pp.queues[k], ssn.ClusterInfo.Queues[k])
//@     invariant forall k in visited :: memoryFromMemory(pp.queues[k], ssn.ClusterInfo.Queues[k])
//@     invariant forall k in visited :: gpuFromGPU(pp.queues[k], ssn.ClusterInfo.Queues[k])
//@     invariant forall k in visited :: metaFromQueue(pp.queues[k], ssn.ClusterInfo.Queues[k])
//@     invariant forall k in visited :: k in ssn.ClusterInfo.QueueResourceUsage.Queues ==> usageFromUsage(pp.queues[k], ssn.ClusterInfo.QueueResourceUsage.Queues[k])
//@     invariant forall k in visited :: !(k in ssn.ClusterInfo.QueueResourceUsage.Queues) ==> pp.queues[k].CPU.Usage == 0.0 && pp.queues[k].Memory.Usage == 0.0 && pp.queues[k].GPU.Usage == 0.0
//@     invariant forall k in visited :: rs.cacheOK(pp.queues[k])
//@     invariant forall k in visited :: zeroShare(pp.queues[k].CPU) && zeroShare(pp.queues[k].Memory) && zeroShare(pp.queues[k].GPU)
//@     invariant forall k common_info.QueueID :: !(k in visited) ==> pp.queues[k] == old(pp.queues[k]) && (k in pp.queues) == old(k in pp.queues)
//@     invariant forall k common_info.QueueID :: k in pp.queues ==> k in visited || old(k in pp.queues)
//@   ensures [present] forall k in ssn.ClusterInfo.Queues :: k in pp.queues && pp.queues[k] != nil
//@   ensures [cpuFromCPU] forall k in ssn.ClusterInfo.Queues :: cpuFromCPU(pp.queues[k], ssn.ClusterInfo.Queues[k])
//@   ensures [memoryFromMemory] forall k in ssn.ClusterInfo.Queues :: memoryFromMemory(pp.queues[k], ssn.ClusterInfo.Queues[k])
//@   ensures [gpuFromGPU] forall k in ssn.ClusterInfo.Queues :: gpuFromGPU(pp.queues[k], ssn.ClusterInfo.Queues[k])
//@   ensures [metaFromQueue] forall k in ssn.ClusterInfo.Queues :: metaFromQueue(pp.queues[k], ssn.ClusterInfo.Queues[k])
//@   ensures [usageFromUsage] forall k in ssn.ClusterInfo.Queues :: k in ssn.ClusterInfo.QueueResourceUsage.Queues ==> usageFromUsage(pp.queues[k], ssn.ClusterInfo.QueueResourceUsage.Queues[k])
//@   ensures [noUsageRecord] forall k in ssn.ClusterInfo.Queues :: !(k in ssn.ClusterInfo.QueueResourceUsage.Queues) ==> pp.queues[k].CPU.Usage == 0.0 && pp.queues[k].Memory.Usage == 0.0 && pp.queues[k].GPU.Usage == 0.0
//@   ensures [cachesOK] forall k in ssn.ClusterInfo.Queues :: rs.cacheOK(pp.queues[k])
//@   ensures [zeroed] forall k in ssn.ClusterInfo.Queues :: zeroShare(pp.queues[k].CPU) && zeroShare(pp.queues[k].Memory) && zeroShare(pp.queues[k].GPU)
//@   ensures [othersKept] forall k common_info.QueueID :: !(k in ssn.ClusterInfo.Queues) ==> pp.queues[k] == old(pp.queues[k]) && (k in pp.queues) == old(k in pp.queues)
//@   ensures [exactKeys] forall k common_info.QueueID :: k in pp.queues <==> (k in ssn.ClusterInfo.Queues || old(k in pp.queues))
//@ end

// ---- usage bookkeeping at session open (C14 establish, C08 inputs) -----------------------------------
// The per-task charge is exact in the two callees above (job's queue and EVERY ancestor, per resource,
// AllocatedNotPreemptible iff the job is non-preemptible). The fold over all jobs / statuses / tasks is a
// sum over map key sets, which the spec language cannot express; what IS decided here, for every iteration
// order of the three nested maps:
//  [offChainUntouched]   a queue that is on the parent chain of no job's queue keeps all nine counters;
//  [onlyAllocatedChargesAllocated] if no pod-status key of any job is an allocated status, no Allocated /
//                        AllocatedNotPreemptible counter moves (pending tasks raise Request only);
//  [nonPreemptibleOnlyFromNonPreemptible] if every job is preemptible no AllocatedNotPreemptible moves;
//  [requestFollowsAllocated] without Pending keys, Request and Allocated move by the same amount;
//  frame: nothing but Allocated / Request / AllocatedNotPreemptible changes (Deserved, MaxAllowed,
//  OverQuotaWeight, FairShare, Usage, the queue map and the hierarchy links are inputs and stay).
//@ define jobsOK(pp *proportionPlugin, ssn *framework.Session) bool = forall j in ssn.ClusterInfo.PodGroupInfos :: ssn.ClusterInfo.PodGroupInfos[j] != nil && utils.chainOK(pp.queues, ssn.ClusterInfo.PodGroupInfos[j].Queue)
//@ define tasksOK(ssn *framework.Session) bool = forall t *pod_info.PodInfo :: t != nil ==> t.AcceptedResource != nil && t.ResReq != nil
//@ define noNilTask(ssn *framework.Session) bool = forall j in ssn.ClusterInfo.PodGroupInfos :: forall st in ssn.ClusterInfo.PodGroupInfos[j].PodStatusIndex :: forall id in ssn.ClusterInfo.PodGroupInfos[j].PodStatusIndex[st] :: ssn.ClusterInfo.PodGroupInfos[j].PodStatusIndex[st][id] != nil
//@ define offAllChains(pp *proportionPlugin, ssn *framework.Session, q *rs.QueueAttributes) bool = forall j in ssn.ClusterInfo.PodGroupInfos :: !utils.onChain(pp.queues, ssn.ClusterInfo.PodGroupInfos[j].Queue, q)
//@ define noAllocatedStatus(ssn *framework.Session) bool = forall j in ssn.ClusterInfo.PodGroupInfos :: forall st in ssn.ClusterInfo.PodGroupInfos[j].PodStatusIndex :: bitand(pod_status.allocatedStatuses, st) == 0
//@ define allPreemptible(ssn *framework.Session) bool = forall j in ssn.ClusterInfo.PodGroupInfos :: ssn.ClusterInfo.PodGroupInfos[j].Preemptibility == "preemptible"
//@ define noPendingStatus(ssn *framework.Session) bool = forall j in ssn.ClusterInfo.PodGroupInfos :: !(pod_status.Pending in ssn.ClusterInfo.PodGroupInfos[j].PodStatusIndex)
//@ define allocSame(q *rs.QueueAttributes) bool = q.CPU.Allocated == old(q.CPU.Allocated) && q.Memory.Allocated == old(q.Memory.Allocated) && q.GPU.Allocated == old(q.GPU.Allocated)
//@ define anpSame(q *rs.QueueAttributes) bool = q.CPU.AllocatedNotPreemptible == old(q.CPU.AllocatedNotPreemptible) && q.Memory.AllocatedNotPreemptible == old(q.Memory.AllocatedNotPreemptible) && q.GPU.AllocatedNotPreemptible == old(q.GPU.AllocatedNotPreemptible)
//@ define reqSame(q *rs.QueueAttributes) bool = q.CPU.Request == old(q.CPU.Request) && q.Memory.Request == old(q.Memory.Request) && q.GPU.Request == old(q.GPU.Request)
//@ define reqMinusAllocSame(q *rs.QueueAttributes) bool = q.CPU.Request - q.CPU.Allocated == old(q.CPU.Request - q.CPU.Allocated) && q.Memory.Request - q.Memory.Allocated == old(q.Memory.Request - q.Memory.Allocated) && q.GPU.Request - q.GPU.Allocated == old(q.GPU.Request - q.GPU.Allocated)

//@ func (*proportionPlugin).updateQueuesCurrentResourceUsage
//@   props C14 C08 C10 C07
//@   requires pp != nil && ssn != nil && ssn.ClusterInfo != nil
//@   requires jobsOK(pp, ssn)
//@   requires tasksOK(ssn)
//@   requires noNilTask(ssn)
//@   requires ssn.ClusterInfo.MinNodeGPUMemory > 0   // established by snapshotNodes (starts at DefaultGpuMemory = 100)
//@   modifies family(pp.queues[""].CPU.Allocated), family(pp.queues[""].CPU.Request), family(pp.queues[""].CPU.AllocatedNotPreemptible)
//@   loop 1
//@     invariant forall m rs.ResourceQuantities, r string :: old(allocated(m)) ==> m[r] == old(m[r]) && (r in m) == old(r in m)
//@     invariant forall q *rs.QueueAttributes :: offAllChains(pp, ssn, q) ==> allocSame(q) && anpSame(q) && reqSame(q)
//@     invariant noAllocatedStatus(ssn) ==> (forall q *rs.QueueAttributes :: allocSame(q) && anpSame(q))
//@     invariant allPreemptible(ssn) ==> (forall q *rs.QueueAttributes :: anpSame(q))
//@     invariant noPendingStatus(ssn) ==> (forall q *rs.QueueAttributes :: reqMinusAllocSame(q))
//@   loop 2
//@     invariant forall m rs.ResourceQuantities, r string :: old(allocated(m)) ==> m[r] == old(m[r]) && (r in m) == old(r in m)
//@     invariant forall q *rs.QueueAttributes :: offAllChains(pp, ssn, q) ==> allocSame(q) && anpSame(q) && reqSame(q)
//@     invariant noAllocatedStatus(ssn) ==> (forall q *rs.QueueAttributes :: allocSame(q) && anpSame(q))
//@     invariant allPreemptible(ssn) ==> (forall q *rs.QueueAttributes :: anpSame(q))
//@     invariant noPendingStatus(ssn) ==> (forall q *rs.QueueAttributes :: reqMinusAllocSame(q))
//@   loop 3
//@     invariant forall q *rs.QueueAttributes :: offAllChains(pp, ssn, q) ==> allocSame(q) && anpSame(q) && reqSame(q)
//@     invariant noAllocatedStatus(ssn) ==> (forall q *rs.QueueAttributes :: allocSame(q) && anpSame(q))
//@     invariant allPreemptible(ssn) ==> (forall q *rs.QueueAttributes :: anpSame(q))
//@     invariant noPendingStatus(ssn) ==> (forall q *rs.QueueAttributes :: reqMinusAllocSame(q))
//@   loop 4
//@     invariant forall m rs.ResourceQuantities, r string :: old(allocated(m)) ==> m[r] == old(m[r]) && (r in m) == old(r in m)
//@     invariant forall q *rs.QueueAttributes :: offAllChains(pp, ssn, q) ==> allocSame(q) && anpSame(q) && reqSame(q)
//@     invariant noAllocatedStatus(ssn) ==> (forall q *rs.QueueAttributes :: allocSame(q) && anpSame(q))
//@     invariant allPreemptible(ssn) ==> (forall q *rs.QueueAttributes :: anpSame(q))
//@     invariant noPendingStatus(ssn) ==> (forall q *rs.QueueAttributes :: reqMinusAllocSame(q))
//@   ensures [offChainUntouched] forall q *rs.QueueAttributes :: offAllChains(pp, ssn, q) ==> allocSame(q) && anpSame(q) && reqSame(q)
//@   ensures [onlyAllocatedChargesAllocated] noAllocatedStatus(ssn) ==> (forall q *rs.QueueAttributes :: allocSame(q) && anpSame(q))
//@   ensures [nonPreemptibleOnlyFromNonPreemptible] allPreemptible(ssn) ==> (forall q *rs.QueueAttributes :: anpSame(q))
//@   ensures [requestFollowsAllocated] noPendingStatus(ssn) ==> (forall q *rs.QueueAttributes :: reqMinusAllocSame(q))
//@ end

// ---- session-open composition --------------------------------------------------------------------
// setFairShare starts the C09 recursion at the top queues with the cluster totals. Only FairShare (and its
// cache) moves: the per-resource inputs built above are still the configured ones afterwards.
//@ func (*proportionPlugin).setFairShare
//@   props C09 C10
//@   requires pp != nil && shapeOK(pp.queues)
//@   requires childrenPresent(pp.queues)
//@   requires cachesOK(pp.queues)
//@   modifies family(pp.queues[""].CPU.FairShare), family(pp.queues[""].lastFairShare)
//@   ensures [cachesKept] cachesOK(pp.queues)
//@ end

// ---- simulation copy (C07: the reclaim scenario validator reads pp.jobSimulationQueues) ----------------
// At the start of a job's solution the validator's queue map is a COPY of the live one: same key set, a
// distinct attributes object per queue, and per resource the same Deserved / FairShare / MaxAllowed /
// OverQuotaWeight / Allocated / AllocatedNotPreemptible / Request / Usage, same identity and parent link.
//@ define sameShare(a *rs.ResourceShare, b *rs.ResourceShare) bool = a.Deserved == b.Deserved && a.FairShare == b.FairShare && a.MaxAllowed == b.MaxAllowed && a.OverQuotaWeight == b.OverQuotaWeight && a.Allocated == b.Allocated && a.AllocatedNotPreemptible == b.AllocatedNotPreemptible && a.Request == b.Request && a.Usage == b.Usage
//@ define sameIdentity(a *rs.QueueAttributes, b *rs.QueueAttributes) bool = a.UID == b.UID && a.Name == b.Name && a.ParentQueue == b.ParentQueue && a.Priority == b.Priority

//@ func slices.Clone
//@   trusted
//@   note library (slices): "Clone returns a copy of the slice. The elements are copied using assignment, so this is a shallow clone." Same length, same elements, nothing else written (used by rs.QueueAttributes.Clone for ChildQueues).
//@   ensures [sameLength] len(result) == len(arg0)
//@   ensures [sameElements] forall i in arg0 :: result[i] == arg0[i]
//@ end

//@ func (*proportionPlugin).OnJobSolutionStartFn
//@   props C07
//@   requires pp != nil && allocated(pp.queues)
//@   requires forall k in pp.queues :: pp.queues[k] != nil && allocated(pp.queues[k])   // heap well-formedness: the live records exist before the copies are made
//@   modifies pp.jobSimulationQueues
//@   loop 1
//@     invariant pp.jobSimulationQueues != nil && fresh(pp.jobSimulationQueues)
//@     invariant forall k in visited :: k in pp.queues
//@     invariant forall k common_info.QueueID :: pp.queues[k] == old(pp.queues[k]) && (k in pp.queues) == old(k in pp.queues)
//@     invariant forall k in visited :: k in pp.jobSimulationQueues && pp.jobSimulationQueues[k] != nil && fresh(pp.jobSimulationQueues[k]) && allocated(pp.jobSimulationQueues[k])
//@     invariant forall k in visited :: sameIdentity(pp.jobSimulationQueues[k], pp.queues[k])
//@     invariant forall k in visited :: sameShare(pp.jobSimulationQueues[k].CPU, pp.queues[k].CPU)
//@     invariant forall k in visited :: sameShare(pp.jobSimulationQueues[k].Memory, pp.queues[k].Memory)
//@     invariant forall k in visited :: sameShare(pp.jobSimulationQueues[k].GPU, pp.queues[k].GPU)
//@     invariant forall k in pp.jobSimulationQueues :: k in visited
//@   ensures [copied] forall k in pp.queues :: k in pp.jobSimulationQueues && pp.jobSimulationQueues[k] != nil && pp.jobSimulationQueues[k] != pp.queues[k]
//@   ensures [sameIdentity] forall k in pp.queues :: sameIdentity(pp.jobSimulationQueues[k], pp.queues[k])
//@   ensures [cpuFromCPU] forall k in pp.queues :: sameShare(pp.jobSimulationQueues[k].CPU, pp.queues[k].CPU)
//@   ensures [memoryFromMemory] forall k in pp.queues :: sameShare(pp.jobSimulationQueues[k].Memory, pp.queues[k].Memory)
//@   ensures [gpuFromGPU] forall k in pp.queues :: sameShare(pp.jobSimulationQueues[k].GPU, pp.queues[k].GPU)
//@   ensures [noExtraQueues] forall k in pp.jobSimulationQueues :: k in pp.queues
//@ end

// ---- plugin construction (C07 quantifier: "all saturation multipliers >= 1") ----------------------------
// FINDING (kept OUT of the checked clauses, see helper report "glue"): the property-derived postconditions
//   [multiplierAtLeastOne] unbox(result, "*proportionPlugin").relcaimerSaturationMultiplier >= 1.0
//   [kValueNonNegative]    unbox(result, "*proportionPlugin").kValue >= 0.0
// are violated by the real code for the plugin argument value "NaN": strconv.ParseFloat("NaN") succeeds,
// `NaN < 1.0` / `NaN <= 0.0` are false, so the clamp is skipped and the plugin runs with a NaN multiplier /
// kValue (reproduced with a Go test: New({"relcaimerSaturationMultiplier":"NaN","kValue":"NaN"})).
// govc reports both as sat under `ieee`. What remains checked: the plugin starts with an empty queue map.
//@ func New
//@   props C07 C09
//@   ieee
//@   ensures [isProportionPlugin] typeis(result, "*proportionPlugin")
//@   ensures [emptyQueueMap] unbox(result, "*proportionPlugin").queues != nil && (forall k common_info.QueueID :: !(k in unbox(result, "*proportionPlugin").queues))
//@ end
