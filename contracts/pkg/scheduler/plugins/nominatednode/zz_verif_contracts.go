//go:build verif

// Contracts for govc (contract-based deductive verification); comments only.
package nominatednode

// Node scoring function of the "nominatednode" plugin (an api.NodeOrderFn: higher score = preferred node). It is
// not a job comparator: it reads only the pod's status.nominatedNodeName and the node's name - never the job, its
// priority or its creation time - so it cannot contradict the job order of C16; it decides exactly one thing (the
// node the pod was nominated to gets scores.NominatedNode = 1000000) and returns 0 = no preference for every other
// node, never an error. The assumed hook contract api `type:NodeOrderFn` (modifies *, named score) is what the
// callers use; this verified closure is stronger (pure, total, exact score).
//@ define nnScore(task *pod_info.PodInfo, node *node_info.NodeInfo) real = ite(task.Pod.Status.NominatedNodeName == node.Name, 1000000.0, 0.0)

//@ func (*nominatedNodeNamePlugin).nodeOrderFn$1
//@   props C16 C10
//@   requires task != nil && task.Pod != nil && node != nil
//@   pure
//@   ensures [exactScore] result0 == nnScore(task, node)
//@   ensures [neverFails] result1 == nil
//@   ensures [nominatedPreferred] task.Pod.Status.NominatedNodeName == node.Name <==> result0 > 0.0
//@   ensures [noPreferenceOtherwise] task.Pod.Status.NominatedNodeName != node.Name <==> result0 == 0.0
//@   lemma [scoreConstant] result0 == 0.0 || result0 == scores.NominatedNode
//@ end

//@ func (*nominatedNodeNamePlugin).nodeOrderFn
//@   props C16 C10
//@   pure
//@   ensures result != nil
//@ end
