//go:build verif

// Contracts for govc (contract-based deductive verification); comments only.
package predicates

// ---- C04: skip list of upstream filters -------------------------------------------------------
// skip[uid][name] is set only by Add and means "PreFilter(name, pod) returned Skip".
//@ define skipped(sp SkipPredicates, p common_info.PodID, n k8s_internal.PredicateName) bool = p in sp && sp[p][n]

// representation invariant (established by `SkipPredicates{}` in OnSessionOpen, kept by Add, the only writer):
// inner maps are non-nil and not shared between pods
//@ define skipWF(sp SkipPredicates) bool = (forall p in sp :: sp[p] != nil && allocated(sp[p])) && (forall p common_info.PodID, q common_info.PodID :: p in sp && q in sp && p != q ==> sp[p] != sp[q])

//@ func (SkipPredicates).Add
//@   props C04
//@   requires sp != nil && skipWF(sp)
//@   modifies sp[podID], sp[podID][predicateName]
//@   ensures [added] skipped(sp, podID, predicateName)
//@   ensures [wf] skipWF(sp)
//@   ensures [othersKept] forall p common_info.PodID, n k8s_internal.PredicateName :: (p != podID || n != predicateName) ==> skipped(sp, p, n) == old(skipped(sp, p, n))
//@ end

// A filter is skipped for a pod iff it was recorded for exactly that pod and that filter.
//@ func (SkipPredicates).ShouldSKip
//@   props C04
//@   pure
//@   ensures result == skipped(sp, podID, predicateName)
//@ end
