//go:build verif

// Contracts for govc (contract-based deductive verification); comments only.
package predicates

// ---- C04: skip list of upstream filters -------------------------------------------------------
// skip[uid][name] is set only by Add and means "PreFilter(name, pod) returned Skip".
//@ define skipped(sp SkipPredicates, p common_info.PodID, n k8s_internal.PredicateName) bool = p in sp && sp[p][n]

// representation invariant (established by `SkipPredicates{}` in OnSessionOpen, kept by Add, the only writer):
// inner maps are non-nil and not shared between pods
//@ define skipWF(sp SkipPredicates) bool = (forall p in sp :: sp[p] != nil && allocated(sp[p])) && (forall p common_info.PodID, q common_info.PodID :: p in sp && q in sp && p != q ==> sp[p] != sp[q])

//@ func (SkipPredicates).Add
//@   props C04
//@   requires sp != nil && skipWF(sp)
//@   modifies sp[podID], sp[podID][predicateName]
//@   ensures [added] skipped(sp, podID, predicateName)
//@   ensures [wf] skipWF(sp)
//@   ensures [othersKept] forall p common_info.PodID, n k8s_internal.PredicateName :: (p != podID || n != predicateName) ==> skipped(sp, p, n) == old(skipped(sp, p, n))
//@ end

// A filter is skipped for a pod iff it was recorded for exactly that pod and that filter.
//@ func (SkipPredicates).ShouldSKip
//@   props C04
//@   pure
//@   ensures result == skipped(sp, podID, predicateName)
//@ end

// ---- C04/C02: pod-count limit including the GPU-group reservation pod ------------------------------
// pod slots still available on the node for this cycle: idle + releasing "pods" resource
//@ define podSlots(node *node_info.NodeInfo) real = real(node.Idle.scalarResources["pods"]) + real(node.Releasing.scalarResources["pods"])
// the task asks for a shared GPU (fraction or gpu-memory request)
//@ define sharedReq(task *pod_info.PodInfo) bool = task.ResourceRequestType == pod_info.RequestTypeFraction || task.ResourceRequestType == pod_info.RequestTypeGpuMemory

// newGpuGroup(task, node) NAMES the answer of willCreateNewGpuGroup for this (task, node) in the
// state in which checkMaxPodsWithGpuGroupReservation asks (it is asked once per evaluation).
//@ declare newGpuGroup(task *pod_info.PodInfo, node *node_info.NodeInfo) bool

//@ func (*predicatesPlugin).willCreateNewGpuGroup
//@   props C04 C01
//@   trusted
//@   note naming device, not a behavioural assumption: the body calls Session.FittingGPUs (plugin callbacks through function values, outside the subset) and gpu_sharing.GetNodePreferableGpuForSharing; its boolean answer is given the name newGpuGroup(task, node). Treated as read-only (it only ranks GPUs).
//@   pure
//@   ensures result == newGpuGroup(task, node)
//@ end

// C04 (max pods): a placement is accepted only if the node still has a pod slot for the task, and TWO
// slots when a shared-GPU task needs a new GPU group (the reservation pod takes one).
//@ func (*predicatesPlugin).checkMaxPodsWithGpuGroupReservation
//@   props C04 C01
//@   requires pp != nil && task != nil && node != nil && node.Idle != nil && node.Releasing != nil
//@   ensures [maxPods] (result == nil) == ite(!sharedReq(task), podSlots(node) > 0.0, !newGpuGroup(task, node) || podSlots(node) >= 2.0)
//@   ensures [oneSlotForWholeGpuTask] result == nil && !sharedReq(task) ==> podSlots(node) > 0.0
//@   ensures [twoSlotsForNewGroup] result == nil && sharedReq(task) && newGpuGroup(task, node) ==> podSlots(node) >= 2.0
//@ end
