//go:build verif

// Contracts for govc (contract-based deductive verification); comments only.
package predicates

// ---- C04: skip list of upstream filters -------------------------------------------------------
// skip[uid][name] is set only by Add and means "PreFilter(name, pod) returned Skip".
//@ define skipped(sp SkipPredicates, p common_info.PodID, n k8s_internal.PredicateName) bool = p in sp && sp[p][n]

// representation invariant (established by `SkipPredicates{}` in OnSessionOpen, kept by Add, the only writer):
// inner maps are non-nil and not shared between pods
//@ define skipWF(sp SkipPredicates) bool = (forall p in sp :: sp[p] != nil && allocated(sp[p])) && (forall p common_info.PodID, q common_info.PodID :: p in sp && q in sp && p != q ==> sp[p] != sp[q])

//@ func (SkipPredicates).Add
//@   props C04
//@   requires sp != nil && skipWF(sp)
//@   modifies sp[podID], sp[podID][predicateName]
//@   ensures [added] skipped(sp, podID, predicateName)
//@   ensures [wf] skipWF(sp)
//@   ensures [othersKept] forall p common_info.PodID, n k8s_internal.PredicateName :: (p != podID || n != predicateName) ==> skipped(sp, p, n) == old(skipped(sp, p, n))
//@   ensures [innerKeptOrFresh] ite(old(podID in sp), sp[podID] == old(sp[podID]), fresh(sp[podID]))
//@ end

// A filter is skipped for a pod iff it was recorded for exactly that pod and that filter.
//@ func (SkipPredicates).ShouldSKip
//@   props C04
//@   pure
//@   ensures result == skipped(sp, podID, predicateName)
//@ end

// ---- C04/C02: pod-count limit including the GPU-group reservation pod ------------------------------
// pod slots still available on the node for this cycle: idle + releasing "pods" resource
//@ define podSlots(node *node_info.NodeInfo) real = real(node.Idle.scalarResources["pods"]) + real(node.Releasing.scalarResources["pods"])
// the task asks for a shared GPU (fraction or gpu-memory request)
//@ define sharedReq(task *pod_info.PodInfo) bool = task.ResourceRequestType == pod_info.RequestTypeFraction || task.ResourceRequestType == pod_info.RequestTypeGpuMemory

// newGpuGroup(task, node) NAMES the answer of willCreateNewGpuGroup for this (task, node) in the
// state in which checkMaxPodsWithGpuGroupReservation asks (it is asked once per evaluation).
//@ declare newGpuGroup(task *pod_info.PodInfo, node *node_info.NodeInfo) bool

//@ func (*predicatesPlugin).willCreateNewGpuGroup
//@   props C04 C01
//@   trusted
//@   note naming device, not a behavioural assumption: the body calls Session.FittingGPUs (plugin callbacks through function values, outside the subset) and gpu_sharing.GetNodePreferableGpuForSharing; its boolean answer is given the name newGpuGroup(task, node). Treated as read-only (it only ranks GPUs).
//@   pure
//@   ensures result == newGpuGroup(task, node)
//@ end

// C04 (max pods): a placement is accepted only if the node still has a pod slot for the task, and TWO
// slots when a shared-GPU task needs a new GPU group (the reservation pod takes one).
//@ func (*predicatesPlugin).checkMaxPodsWithGpuGroupReservation
//@   props C04 C01
//@   requires pp != nil && task != nil && node != nil
//@   assume node.Idle != nil && node.Releasing != nil
//@   note (c04c) node.Idle / node.Releasing non-nil is a data invariant of NodeInfo (NewNodeInfo); it was a `requires`, but the only caller evaluateTaskOnPredicates reaches this call after plugin callbacks (`modifies *`) that re-establish no snapshot invariant - assumed at entry instead, as the allocate layer does
//@   ensures [maxPods] (result == nil) == ite(!sharedReq(task), podSlots(node) > 0.0, !newGpuGroup(task, node) || podSlots(node) >= 2.0)
//@   ensures [oneSlotForWholeGpuTask] result == nil && !sharedReq(task) ==> podSlots(node) > 0.0
//@   ensures [twoSlotsForNewGroup] result == nil && sharedReq(task) && newGpuGroup(task, node) ==> podSlots(node) >= 2.0
//@ end

// ---- C04: every required upstream (pre-)filter of the table is consulted ------------------------------------------
// (helper c04c) The table k8sPredicates is k8s_internal/predicates.NewSessionPredicates' result; the answers of its
// function-valued fields are named by k8s_internal.required / preStatus / filterFits / filterFails (see there).
//@ define preRequired(t k8s_internal.SessionPredicates, n k8s_internal.PredicateName, pod *v1.Pod) bool = k8s_internal.required(t[n].IsPreFilterRequired, pod)
//@ define preFails(t k8s_internal.SessionPredicates, n k8s_internal.PredicateName, pod *v1.Pod) bool = k8s_internal.statusErr(k8s_internal.preStatus(t[n].PreFilter, pod))
//@ define preSkips(t k8s_internal.SessionPredicates, n k8s_internal.PredicateName, pod *v1.Pod) bool = k8s_internal.statusSkip(k8s_internal.preStatus(t[n].PreFilter, pod))

// upstream *Status accessors (library; same names as in k8s_internal's file): a nil status is a success, neither an
// error nor a skip; a success / a skip is no error (AsError() returns nil for Success, Wait and Skip)
//@ axiom !k8s_internal.statusErr(nil) && !k8s_internal.statusSkip(nil)
//@ axiom forall s ref :: k8s_internal.statusSkip(s) ==> !k8s_internal.statusErr(s)
//@ func (*k8s.io/kube-scheduler/framework.Status).AsError
//@   pure
//@   ensures (result != nil) == k8s_internal.statusErr(recv)
//@ end
//@ func (*k8s.io/kube-scheduler/framework.Status).IsSkip
//@   pure
//@   ensures result == k8s_internal.statusSkip(recv)
//@ end
//@ func (*k8s.io/kube-scheduler/framework.Status).Reasons
//@   pure
//@ end
// the intersection of the allowed-node sets is computed and DROPPED by the code (result unused): no effect
//@ func (k8s.io/apimachinery/pkg/util/sets.Set[T]).Intersection
//@   pure
//@ end
//@ func (k8s.io/apimachinery/pkg/util/sets.Set[string]).Intersection
//@   pure
//@ end

// message formatting only
//@ func generateErrorLog
//@   props C04
//@   pure
//@   nopanic off
//@   note nopanic off: formats the collected errors; every collected err is non-nil by construction (newPrePredicateError is called with a status whose AsError() is non-nil), which the value copy of the Status hides from the engine
//@   loop 1
//@     invariant true
//@ end
//@ func newPrePredicateError
//@   props C04
//@   pure
//@   nopanic off
//@   note nopanic off: called with a by-value copy of a status whose AsError() was just seen non-nil; the copy is a new object for the engine
//@ end

// the table can be evaluated: the "required" functions are there, and so is the (pre-)filter of every entry that can
// be required (established by NewSessionPredicates: [tableEvaluable])
//@ define preTableOK(t k8s_internal.SessionPredicates, pod *v1.Pod) bool = forall n in t :: t[n].IsPreFilterRequired != nil && (preRequired(t, n, pod) ==> t[n].PreFilter != nil)

// C04 pre-filter stage: the task passes iff NO entry of the table whose IsPreFilterRequired holds for the pod returns
// an error status (every such entry is evaluated: the loop does not stop at the first error, it collects them all);
// an entry that answers Skip is recorded in the skip list for exactly this pod and this entry - and nothing else is.
//@ func evaluateTaskOnPrePredicate
//@   props C04
//@   requires task != nil && skipPredicates != nil && skipWF(skipPredicates)
//@   requires preTableOK(k8sPredicates, task.Pod)
//@   modifies skipPredicates[task.UID], skipPredicates[task.UID][*]
//@   loop 1
//@     invariant skipWF(skipPredicates)
//@     invariant forall n in visited :: n in k8sPredicates
//@     invariant (len(allErrors) > 0) == (exists n in visited :: preRequired(k8sPredicates, n, task.Pod) && preFails(k8sPredicates, n, task.Pod))
//@     invariant forall n in visited :: preRequired(k8sPredicates, n, task.Pod) && preSkips(k8sPredicates, n, task.Pod) ==> skipped(skipPredicates, task.UID, n)
//@     invariant forall p common_info.PodID, n k8s_internal.PredicateName :: skipped(skipPredicates, p, n) ==> old(skipped(skipPredicates, p, n)) || (p == task.UID && n in visited && preRequired(k8sPredicates, n, task.Pod) && preSkips(k8sPredicates, n, task.Pod))
//@     invariant ite(old(task.UID in skipPredicates), skipPredicates[task.UID] == old(skipPredicates[task.UID]), !(task.UID in skipPredicates) || fresh(skipPredicates[task.UID]))
//@     invariant forall m map[k8s_internal.PredicateName]bool, k k8s_internal.PredicateName :: old(allocated(m)) && m != old(skipPredicates[task.UID]) ==> (k in m) == old(k in m) && m[k] == old(m[k])
//@   ensures [passesIffNoRequiredPreFilterFails] (result == nil) == (forall n in k8sPredicates :: preRequired(k8sPredicates, n, task.Pod) ==> !preFails(k8sPredicates, n, task.Pod))
//@   ensures [skipsRecorded] forall n in k8sPredicates :: preRequired(k8sPredicates, n, task.Pod) && preSkips(k8sPredicates, n, task.Pod) ==> skipped(skipPredicates, task.UID, n)
//@   ensures [onlySkipsRecorded] forall p common_info.PodID, n k8s_internal.PredicateName :: skipped(skipPredicates, p, n) ==> old(skipped(skipPredicates, p, n)) || (p == task.UID && n in k8sPredicates && preRequired(k8sPredicates, n, task.Pod) && preSkips(k8sPredicates, n, task.Pod))
//@   ensures [wf] skipWF(skipPredicates)
//@ end

// ---- the filter stage -----------------------------------------------------------------------------------------------
//@ define filterRequired(t k8s_internal.SessionPredicates, n k8s_internal.PredicateName, pod *v1.Pod) bool = k8s_internal.required(t[n].IsFilterRequired, pod)
// the upstream filter of entry n accepts pod on the (upstream view of the) node: fits and no error
//@ define filterPasses(t k8s_internal.SessionPredicates, n k8s_internal.PredicateName, pod *v1.Pod, kn *k8sframework.NodeInfo) bool = k8s_internal.filterFits(t[n].Filter, pod, kn) && !k8s_internal.filterFails(t[n].Filter, pod, kn)
//@ import k8sframework "k8s.io/kubernetes/pkg/scheduler/framework"

// upstream NodeInfo.SetNode (library): writes the upstream node object only
//@ func (*k8s.io/kubernetes/pkg/scheduler/framework.NodeInfo).SetNode
//@   modifies fields(recv)
//@   note assumed: upstream NodeInfo.SetNode stores the node pointer and bumps the generation of the receiver, nothing else
//@ end

// conf.GetConfig guards the process-wide configuration with a sync.Mutex (same sequential model as in cache/cluster_info's file)
//@ func (*sync.Mutex).Lock
//@   pure
//@   note sync.Mutex is outside the subset (DESIGN 1.4); sequential model: no effect on the heap
//@ end
//@ func (*sync.Mutex).Unlock
//@   pure
//@   note sync.Mutex is outside the subset (DESIGN 1.4); sequential model: no effect on the heap
//@ end

// the "restrict node scheduling" switch (a plain func() bool handed in by OnSessionOpen: ssn.IsRestrictNodeSchedulingEnabled)
//@ func param:(*predicatesPlugin).evaluateTaskOnPredicates.isRestrictNodeSchedulingEnabled
//@   pure
//@   note assumed: the configuration getter handed in is read-only
//@ end

// C04 filter stage: a (task, node) pair is accepted (nil) ONLY IF
//  * the node is ready and schedulable (scheduler_util.nodeFit: CheckNodeConditionPredicate),
//  * the pod-count limit incl. the GPU-group reservation pod holds (checkMaxPodsWithGpuGroupReservation's verdict),
//  * EVERY entry of the upstream filter table whose IsFilterRequired holds for the pod and that was not skipped by its
//    own PreFilter accepted the pod on this node (no error, fits) - the loop returns at the first failure;
//  * the per-task capacity gate (queue limits) accepted the placement.
// Stated on the state after the capacity callback (`modifies *`): everything after it only reads (the deferred
// function restores task.NodeName / task.Pod.Spec.NodeName); the verdict names are state-independent.
//@ func (*predicatesPlugin).evaluateTaskOnPredicates
//@   props C04
//@   nopanic off
//@   note nopanic off: the type assertion node.PodAffinityInfo.(*K8sNodePodAffinityInfo), task.ResReq / node.Idle after the capacity callback (`modifies *`) are data invariants of the snapshot no contract carries; C04 is about the verdict
//@   requires pp != nil && task != nil && node != nil && job != nil
//@   modifies *
//@   loop 1
//@     invariant forall n in visited :: n in k8sPredicates
//@     invariant forall n in visited :: filterRequired(k8sPredicates, n, task.Pod) && !skipped(skipPredicates, task.UID, n) ==> filterPasses(k8sPredicates, n, task.Pod, k8sNodeInfo)
//@   ensures [everyRequiredFilterPassed] result == nil ==> (forall n in k8sPredicates :: filterRequired(k8sPredicates, n, task.Pod) && !skipped(skipPredicates, task.UID, n) ==> filterPasses(k8sPredicates, n, task.Pod, k8sNodeInfo))
//@   ensures [nodeReadyAndSchedulable] result == nil ==> node.Node != nil && scheduler_util.nodeFit(node.Node)
//@   ensures [maxPodsChecked] result == nil ==> ite(!sharedReq(task), podSlots(node) > 0.0, !newGpuGroup(task, node) || podSlots(node) >= 2.0)
//@   ensures [capacityGatePassed] result == nil ==> api.taskCapacityOK(isTaskAllocationOnNodeOverCapacityFn, task, job, node)
//@   ensures [namesRestored] task.NodeName == old(task.NodeName)
//@ end
