//go:build verif

// Contracts for govc (contract-based deductive verification); comments only.
package gpu_sharing

// ---- C02: which devices a fractional pod gets, and whether it may be BOUND on them now ---------------------
// code-derived readability of the arguments (what node.IsTaskAllocatable / EnoughIdleResourcesOnGpu need)
//@ define sharingReadable(node *node_info.NodeInfo, pod *pod_info.PodInfo) bool = node_info.nodeReadable(node) && node_info.taskReadable(pod)

// position j of the fitting list names an EXISTING shared GPU group (not the "open a new group on a whole GPU" marker)
//@ define existingAt(fit []string, j int) bool = fit[j] != pod_info.WholeGpuIndicator

// C01 [top] of node.IsTaskAllocatable: the request is empty or fits what is Idle on the node (not Idle + Releasing)
//@ define bindableOnIdle(node *node_info.NodeInfo, pod *pod_info.PodInfo) bool = node_info.bestEffort(pod) || node_info.fitsAmount(node, pod, node.Idle)

// Library model (assumed): uuid.NewUUID() returns some string, touches nothing the scheduler state can see.
//@ func k8s.io/apimachinery/pkg/util/uuid.NewUUID
//@   trusted
//@   note library model of k8s.io/apimachinery/pkg/util/uuid.NewUUID (google/uuid random generator): read-only for scheduler state, result unconstrained (uniqueness of the new group name is NOT assumed)
//@   pure
//@ end

// A new group on a whole GPU: one new group name; bindable now only if not pipeline-only and the node can take the task
// out of what is Idle (node.IsTaskAllocatable, C01 [top]).
//@ func findGpuForSharingOnNode
//@   props C02 C01
//@   requires sharingReadable(node, task)
//@   fresh
//@   ensures result != nil && len(result.Groups) == 1
//@   lemma [exact] result.IsReleasing == (isPipelineOnly || !old(node.IsTaskAllocatable(task)))
//@   ensures [pipelineOnly] isPipelineOnly ==> result.IsReleasing
//@   ensures [top] !result.IsReleasing ==> bindableOnIdle(node, task)
//@ end

// C02 (top-level): "A pod asking for N fractional devices is given N distinct devices, each with room for its portion";
// "the GPU-memory or fraction requests of the pods bound to [a group] never add up to more than the device".
// The chosen groups follow the fitting list position by position; the answer is "bind now" (IsReleasing == false) only
// if EVERY existing shared group among them has room in what is allocated now (memory still held by terminating sharers
// does not count: node.EnoughIdleResourcesOnGpu), and the node can take the task out of Idle.
//@ func GetNodePreferableGpuForSharing
//@   props C02 C01
//@   requires sharingReadable(node, pod)
//@   loop 1
//@     invariant 0 - 1 <= rangeindex && rangeindex < len(fittingGPUsOnNode)
//@     invariant nodeGpusSharing != nil && len(nodeGpusSharing.Groups) == rangeindex + 1
//@     invariant forall j int :: 0 <= j && j <= rangeindex && old(existingAt(fittingGPUsOnNode, j)) ==> nodeGpusSharing.Groups[j] == old(fittingGPUsOnNode[j])
//@     invariant !nodeGpusSharing.IsReleasing ==> (forall j int :: 0 <= j && j <= rangeindex && old(existingAt(fittingGPUsOnNode, j)) ==> old(node_info.idleRoomOnGpu(node, pod.ResReq, fittingGPUsOnNode[j])))
//@     invariant !nodeGpusSharing.IsReleasing && rangeindex >= 0 ==> old(bindableOnIdle(node, pod))
//@     invariant newGpuGroups >= 0 && (!nodeGpusSharing.IsReleasing && newGpuGroups >= 1 ==> newGpuGroups <= floor(node.Idle.gpus))
//@     invariant forall j int :: 0 <= j && j <= rangeindex && !old(existingAt(fittingGPUsOnNode, j)) ==> newGpuGroups >= 1
//@     invariant forall i int, j int :: 0 <= i && i < j && j <= rangeindex && !old(existingAt(fittingGPUsOnNode, i)) && !old(existingAt(fittingGPUsOnNode, j)) ==> newGpuGroups >= 2
//@     decreases len(fittingGPUsOnNode) - rangeindex
//@   ensures [count] result != nil ==> len(result.Groups) == pod.ResReq.count && len(result.Groups) >= 1
//@   ensures [sameGroups] result != nil ==> len(result.Groups) <= len(fittingGPUsOnNode) && (forall j int :: 0 <= j && j < len(result.Groups) && old(existingAt(fittingGPUsOnNode, j)) ==> result.Groups[j] == old(fittingGPUsOnNode[j]))
//@   ensures [top] result != nil && !result.IsReleasing ==> (forall j int :: 0 <= j && j < len(result.Groups) && old(existingAt(fittingGPUsOnNode, j)) ==> node_info.idleRoomOnGpu(node, pod.ResReq, result.Groups[j]))
//@   ensures [bindFitsIdle] result != nil && !result.IsReleasing ==> bindableOnIdle(node, pod)
//@   # C02 "whole plus shared devices in use on a node never exceed the node's GPU count" / C01 "capacity held by terminating pods is
//@   # never handed to a bind": every newly opened group of a bind-now answer is paid for by an idle whole GPU of its own
//@   # (k = 1 and k = 2 instances over positions; the general count through the code's counter is the lemma below)
//@   ensures [newGroupsPaidByIdleGpus] result != nil && !result.IsReleasing ==> (forall j int :: 0 <= j && j < len(result.Groups) && !old(existingAt(fittingGPUsOnNode, j)) ==> node.Idle.gpus >= 1.0) && (forall i int, j int :: 0 <= i && i < j && j < len(result.Groups) && !old(existingAt(fittingGPUsOnNode, i)) && !old(existingAt(fittingGPUsOnNode, j)) ==> node.Idle.gpus >= 2.0)
//@   lemma [newGroupsCounterPaid] result != nil && !result.IsReleasing && newGpuGroups >= 1 ==> newGpuGroups <= floor(node.Idle.gpus)
//@ end

// Finding (fixed in /repo c0dceaf, test /verif/findings/C02/zz_fix02_newgroups_test.go): before the fix one new group was opened per
// whole-GPU marker although node.IsTaskAllocatable counts idle whole GPUs + fitting shared groups (Idle.gpus = 1, Releasing.gpus = 1,
// one fitting group, gpuspread order, 2-device request => 2 new groups bound, Idle.gpus = -1). [newGroupsPaidByIdleGpus] guards the fix.
// Also not decided: new group names differ from existing ones (uuid uniqueness is not assumed); the converse direction
// (IsReleasing == true only when needed) - IsTaskAllocatable's answer cannot be named across the loop's heap versions.

// ---- C01/C02: bind now or nominate (pipeline) ----------------------------------------------------------------
// what Statement.Allocate / Statement.Pipeline need (framework contracts): session skeleton, well-formed log, the pods
// stored on the target node are non-nil
//@ define stmtReady(stmt *framework.Statement, node *node_info.NodeInfo) bool = framework.stmtOK(stmt) && framework.wfLog(stmt) && (node.Name in stmt.ssn.ClusterInfo.Nodes ==> (forall k in stmt.ssn.ClusterInfo.Nodes[node.Name].PodInfos :: stmt.ssn.ClusterInfo.Nodes[node.Name].PodInfos[k] != nil))

// C01/C02: "Capacity held by pods that are only terminating ... is never handed to a bind": a pipeline-only decision
// never goes to Statement.Allocate (the only producer of an allocate log entry, i.e. of a Bind at Commit).
//@ func allocateSharedGPUTask
//@   props C01 C02
//@   requires ssn != nil && node != nil && task != nil && task.ResReq != nil && stmtReady(stmt, node)
//@   modifies *
//@   ensures [bindPath] !isPipelineOnly ==> ite(result, framework.appendedOne(stmt) && framework.isAllocateOp(framework.lastOp(stmt)), stmt.operations == old(stmt.operations))
//@   ensures [bindOnlyIfNotPipelineOnly] isPipelineOnly ==> (forall j int :: old(len(stmt.operations)) <= j && j < len(stmt.operations) ==> !framework.isAllocateOp(stmt.operations[j]))
//@   ensures [virtual] framework.noEmission()
//@   ensures [lenGrows] len(stmt.operations) >= old(len(stmt.operations))
//@   ensures [prefixKept] forall j int :: 0 <= j && j < old(len(stmt.operations)) ==> stmt.operations[j] == old(stmt.operations[j])
//@   ensures [newEntriesOK] forall j int :: old(len(stmt.operations)) <= j && j < len(stmt.operations) ==> framework.okEntry(stmt.operations[j], j)
//@   ensures [oneEntryOnBind] (exists j int :: old(len(stmt.operations)) <= j && j < len(stmt.operations) && framework.isAllocateOp(stmt.operations[j])) ==> result && len(stmt.operations) == old(len(stmt.operations)) + 1
//@   ensures [revFailMono] framework.revFailMono()
//@ end

// C01/C02: the fractional pod gets the groups chosen by GetNodePreferableGpuForSharing and is bound now (allocate log entry)
// only if the caller did not ask for pipeline-only AND the choice is not "releasing"; otherwise it is nominated (pipelined).
//@ func AllocateFractionalGPUTaskToNode
//@   props C01 C02
//@   requires ssn != nil && sharingReadable(node, pod) && stmtReady(stmt, node)
//@   modifies *
//@   lemma [noGpuNoChange] gpuForSharing == nil ==> !result && stmt.operations == old(stmt.operations)
//@   ensures [bindOnlyIfNotPipelineOnly] isPipelineOnly ==> (forall j int :: old(len(stmt.operations)) <= j && j < len(stmt.operations) ==> !framework.isAllocateOp(stmt.operations[j]))
//@   ensures [bindOnlyIfBindable] (exists j int :: old(len(stmt.operations)) <= j && j < len(stmt.operations) && framework.isAllocateOp(stmt.operations[j])) ==> old(bindableOnIdle(node, pod))
//@   lemma [bindOnlyOnIdleRoom] (exists j int :: old(len(stmt.operations)) <= j && j < len(stmt.operations) && framework.isAllocateOp(stmt.operations[j])) ==> old(forall i int :: 0 <= i && i < len(gpuForSharing.Groups) && existingAt(fittingGPUs, i) ==> node_info.idleRoomOnGpu(node, pod.ResReq, gpuForSharing.Groups[i]))
//@   ensures [virtual] framework.noEmission()
//@   ensures [lenGrows] len(stmt.operations) >= old(len(stmt.operations))
//@   ensures [prefixKept] forall j int :: 0 <= j && j < old(len(stmt.operations)) ==> stmt.operations[j] == old(stmt.operations[j])
//@   ensures [newEntriesOK] forall j int :: old(len(stmt.operations)) <= j && j < len(stmt.operations) ==> framework.okEntry(stmt.operations[j], j)
//@   ensures [oneEntryOnBind] (exists j int :: old(len(stmt.operations)) <= j && j < len(stmt.operations) && framework.isAllocateOp(stmt.operations[j])) ==> result && len(stmt.operations) == old(len(stmt.operations)) + 1
//@   ensures [revFailMono] framework.revFailMono()
//@ end
