//go:build verif

// Contracts for govc (contract-based deductive verification); comments only.
package predicates

// ---- C04: KAI's table of hard placement constraints (helper c04c) ----------------------------------------------------
// "Every pod the scheduler binds or nominates goes to a node that ... matches the pod's node selector and required node
// affinity, carries only ... taints the pod tolerates, and on which neither the pod's own required pod (anti-)affinity
// nor the required anti-affinity of pods already placed there - including pods placed earlier in the same cycle - is
// violated." The upstream kube-scheduler filters are library code (assumed); KAI's own logic is the table built here:
// which upstream plugin object each entry is wired to, and for which pods an entry is declared required. The entries'
// answers are named by k8s_internal.required / filterOf / preFilterOf (see k8s_internal's contract file).

// the two constant "required" functions of the table
//@ func predicateRequired
//@   props C04
//@   pure
//@   ensures [alwaysRequired] result
//@ end
//@ func predicateNotRequired
//@   props C04
//@   pure
//@   ensures [neverRequired] !result
//@ end

// stand-ins for a filter whose upstream plugin could not be constructed: accept everything
//@ func emptyPredicatePreFilter$1
//@   props C04
//@   pure
//@   nopanic off
//@   note nopanic off: pod.Namespace / pod.Name are read for a log line
//@   ensures [acceptsAll] result0 == nil && result1 == nil
//@ end
//@ func (*k8s.io/kubernetes/pkg/scheduler/framework.NodeInfo).Node
//@   pure
//@ end
//@ func emptyPredicateFilter$1
//@   props C04
//@   pure
//@   nopanic off
//@   note nopanic off: pod / node names are read for a log line
//@   ensures [acceptsAll] result0 && len(result1) == 0 && result2 == nil
//@ end

//@ func NewMaxNodeResourcesPredicate
//@   props C04
//@   trusted
//@   fresh
//@   ensures result != nil
//@ end
//@ func NewConfigMapPredicate
//@   props C04
//@   trusted
//@   fresh
//@   ensures result != nil
//@ end

// the volume-binding filter wrapper (volume_binding.go) wraps the upstream VolumeBinding plugin object it is given
//@ func NewVolumeBindingFilter
//@   props C04
//@   trust [namesWrappedPlugin] result != nil && k8s_internal.filterOf(result, plugin)
//@   nopanic off
//@   note naming device + nopanic off: the closure returned wraps FitPredicateConverter(ssn, plugin.(*VolumeBinding)); the type assertion is the caller's matter (NewSessionPredicates passes the object the cache constructed as VolumeBinding)
//@ end

//@ define alwaysReq(f k8s_internal.FitPredicateRequired) bool = forall p *v1.Pod :: k8s_internal.required(f, p)
//@ define neverReq(f k8s_internal.FitPredicateRequired) bool = forall p *v1.Pod :: !k8s_internal.required(f, p)

//@ func NewSessionPredicates
//@   props C04
//@   requires ssn != nil
//@   nopanic off
//@   note nopanic off: ssn.Cache / ssn.ClusterInfo non-nil and the dynamic types of the plugin objects handed out by the cache (type assertions) are the session's / cache's matter
//@   assume forall p *v1.Pod :: k8s_internal.required(predicateRequired, p) && !k8s_internal.required(predicateNotRequired, p)
//@   note the assume LINKS the function values predicateRequired / predicateNotRequired to their verified contracts ([alwaysRequired] / [neverRequired]): k8s_internal.required(f, pod) is by definition (type:FitPredicateRequired) the answer f(pod)
//@   modifies *
//@   # the table has an entry for every hard constraint
//@   ensures [hasHostPorts] "PodFitsHostPorts" in result
//@   ensures [hasTaints] "PodToleratesNodeTaints" in result
//@   ensures [hasNodeAffinity] "NodeAffinity" in result
//@   ensures [hasPodAffinity] "PodAffinity" in result
//@   ensures [hasVolumeBinding] "VolumeBinding" in result
//@   ensures [hasDynamicResources] "DynamicResources" in result
//@   ensures [hasMaxNodePoolResources] "MaxNodePoolResources" in result
//@   ensures [hasConfigMap] "ConfigMap" in result
//@   # required for EVERY pod (a pod without constraints of its own can still violate a constraint of the node or of a pod already there)
//@   ensures [taintsCheckedForEveryPod] alwaysReq(result["PodToleratesNodeTaints"].IsFilterRequired)
//@   ensures [nodeAffinityCheckedForEveryPod] alwaysReq(result["NodeAffinity"].IsPreFilterRequired) && alwaysReq(result["NodeAffinity"].IsFilterRequired)
//@   ensures [podAffinityCheckedForEveryPod] alwaysReq(result["PodAffinity"].IsPreFilterRequired) && alwaysReq(result["PodAffinity"].IsFilterRequired)
//@   ensures [hostPortsCheckedForEveryPod] alwaysReq(result["PodFitsHostPorts"].IsPreFilterRequired) && alwaysReq(result["PodFitsHostPorts"].IsFilterRequired)
//@   ensures [volumeBindingCheckedForEveryPod] alwaysReq(result["VolumeBinding"].IsPreFilterRequired) && alwaysReq(result["VolumeBinding"].IsFilterRequired)
//@   ensures [dynamicResourcesCheckedForEveryPod] alwaysReq(result["DynamicResources"].IsPreFilterRequired) && alwaysReq(result["DynamicResources"].IsFilterRequired)
//@   # each entry is wired to ITS upstream plugin object (the one the cache constructed under that name)
//@   ensures [taintsWired] initiatedPlugins.TaintToleration != nil ==> k8s_internal.filterOf(result["PodToleratesNodeTaints"].Filter, initiatedPlugins.TaintToleration)
//@   ensures [nodeAffinityWired] initiatedPlugins.NodeAffinity != nil ==> k8s_internal.filterOf(result["NodeAffinity"].Filter, initiatedPlugins.NodeAffinity) && k8s_internal.preFilterOf(result["NodeAffinity"].PreFilter, initiatedPlugins.NodeAffinity)
//@   ensures [podAffinityWired] initiatedPlugins.PodAffinity != nil ==> k8s_internal.filterOf(result["PodAffinity"].Filter, initiatedPlugins.PodAffinity) && k8s_internal.preFilterOf(result["PodAffinity"].PreFilter, initiatedPlugins.PodAffinity)
//@   ensures [hostPortsWired] initiatedPlugins.NodePorts != nil ==> k8s_internal.filterOf(result["PodFitsHostPorts"].Filter, initiatedPlugins.NodePorts) && k8s_internal.preFilterOf(result["PodFitsHostPorts"].PreFilter, initiatedPlugins.NodePorts)
//@   ensures [volumeBindingWired] initiatedPlugins.VolumeBinding != nil ==> k8s_internal.filterOf(result["VolumeBinding"].Filter, initiatedPlugins.VolumeBinding) && k8s_internal.preFilterOf(result["VolumeBinding"].PreFilter, initiatedPlugins.VolumeBinding)
//@   ensures [dynamicResourcesWired] initiatedPlugins.DynamicResources != nil ==> k8s_internal.filterOf(result["DynamicResources"].Filter, initiatedPlugins.DynamicResources) && k8s_internal.preFilterOf(result["DynamicResources"].PreFilter, initiatedPlugins.DynamicResources)
//@   # the table can be evaluated (no nil function is called by evaluateTaskOnPrePredicate)
//@   ensures [tableEvaluable] forall n in result :: result[n].IsPreFilterRequired != nil && result[n].IsFilterRequired != nil && (result[n].PreFilter != nil || neverReq(result[n].IsPreFilterRequired)) && (result[n].Filter != nil || n == "MaxNodePoolResources" || n == "ConfigMap")
//@ end
