//go:build verif

// Contracts for govc (contract-based deductive verification); comments only.
package predicates

// ---- C04: KAI's table of hard placement constraints (helper c04c) ----------------------------------------------------
// "Every pod the scheduler binds or nominates goes to a node that ... matches the pod's node selector and required node
// affinity, carries only ... taints the pod tolerates, and on which neither the pod's own required pod (anti-)affinity
// nor the required anti-affinity of pods already placed there - including pods placed earlier in the same cycle - is
// violated." The upstream kube-scheduler filters are library code (assumed); KAI's own logic is the table built here:
// which upstream plugin object each entry is wired to, and for which pods an entry is declared required. The entries'
// answers are named by k8s_internal.required / filterOf / preFilterOf (see k8s_internal's contract file).

// the two constant "required" functions of the table
//@ func predicateRequired
//@   props C04
//@   pure
//@   ensures [alwaysRequired] result
//@ end
//@ func predicateNotRequired
//@   props C04
//@   pure
//@   ensures [neverRequired] !result
//@ end

// stand-ins for a filter whose upstream plugin could not be constructed: accept everything
//@ func emptyPredicatePreFilter$1
//@   props C04
//@   pure
//@   nopanic off
//@   note nopanic off: pod.Namespace / pod.Name are read for a log line
//@   ensures [acceptsAll] result0 == nil && result1 == nil
//@ end
//@ func (*k8s.io/kubernetes/pkg/scheduler/framework.NodeInfo).Node
//@   pure
//@ end
//@ func emptyPredicateFilter$1
//@   props C04
//@   pure
//@   nopanic off
//@   note nopanic off: pod / node names are read for a log line
//@   ensures [acceptsAll] result0 && len(result1) == 0 && result2 == nil
//@ end

// ---- KAI's own predicates of the table ---------------------------------------------------------------------------------
// (1) ConfigMap predicate (config_maps.go): a pod whose required config maps are missing from the snapshot is not placed.
// cmKnown(p, ns, name): the predicate's index holds config map ns/name
//@ define cmKnown(p *ConfigMapPredicate, ns string, name string) bool = p.configMapsNames[ns] != nil && p.configMapsNames[ns][name]

// the index is exactly the snapshot: ns/name is known iff some config map of the snapshot has that namespace and name
//@ func NewConfigMapPredicate
//@   props C04
//@   assume forall id in configmaps :: configmaps[id] != nil
//@   note assumed data invariant of the snapshot: no nil config map entry
//@   fresh
//@   loop 1
//@     invariant predicate != nil && fresh(predicate) && predicate.configMapsNames != nil && fresh(predicate.configMapsNames)
//@     invariant forall ns in predicate.configMapsNames :: predicate.configMapsNames[ns] != nil && fresh(predicate.configMapsNames[ns])
//@     invariant forall a in predicate.configMapsNames :: forall b in predicate.configMapsNames :: a != b ==> predicate.configMapsNames[a] != predicate.configMapsNames[b]
//@     invariant forall m map[string]bool, k string :: old(allocated(m)) ==> (k in m) == old(k in m) && m[k] == old(m[k])
//@     invariant forall id in visited :: id in configmaps
//@     invariant forall id in visited :: cmKnown(predicate, configmaps[id].Namespace, configmaps[id].Name)
//@     invariant forall ns string, name string :: cmKnown(predicate, ns, name) ==> (exists id in visited :: configmaps[id].Namespace == ns && configmaps[id].Name == name)
//@   ensures [indexNonNil] result != nil && result.configMapsNames != nil
//@   ensures [everySnapshotConfigMapKnown] forall id in configmaps :: cmKnown(result, configmaps[id].Namespace, configmaps[id].Name)
//@   ensures [onlySnapshotConfigMapsKnown] forall ns string, name string :: cmKnown(result, ns, name) ==> (exists id in configmaps :: configmaps[id].Namespace == ns && configmaps[id].Name == name)
//@ end

//@ func (*ConfigMapPredicate).configMapExists
//@   props C04
//@   requires cmp != nil
//@   pure
//@   ensures [lookup] result == cmKnown(cmp, namespace, name)
//@ end

//@ func (*ConfigMapPredicate).isFilterRequired
//@   props C04
//@   pure
//@   ensures [noFilterStage] !result
//@ end

// Which config maps a pod requires (volumes that are mounted, env / envFrom references, minus optional ones and the
// shared-GPU config map) is computed by getAllRequiredConfigMapNames from the pod spec alone: nested loops over
// containers / volumes with a closure appending to a captured slice and x/exp/maps.Keys (order unspecified). Its
// answer is NAMED: cmReqCount(pod) names, cmReqAt(pod, i) the i-th of them (a function of the pod object; the pod spec
// is immutable during a scheduling cycle).
//@ declare cmReqCount(pod *v1.Pod) int
//@ declare cmReqAt(pod *v1.Pod, i int) string
//@ func getAllRequiredConfigMapNames
//@   props C04
//@   trusted
//@   note naming device + read-only frame: the list of required config-map names of a pod is named by cmReqCount / cmReqAt; the body only reads the pod spec (closure over a captured slice, maps.Keys: outside what is worth modelling here)
//@   pure
//@   ensures len(result) == cmReqCount(pod) && cmReqCount(pod) >= 0
//@   ensures forall i int :: 0 <= i && i < len(result) ==> result[i] == cmReqAt(pod, i)
//@ end

// the predicate is consulted exactly for the pods that require some config map
//@ func (*ConfigMapPredicate).isPreFilterRequired
//@   props C04
//@   pure
//@   ensures [requiredIffPodNeedsConfigMaps] result == (cmReqCount(pod) > 0)
//@ end

//@ func k8s.io/kube-scheduler/framework.NewStatus
//@   fresh
//@   note upstream constructor: returns a new Status object
//@ end

// a pod passes iff every config map it requires exists (in its own namespace) in the snapshot
//@ func (*ConfigMapPredicate).PreFilter
//@   props C04
//@   requires cmp != nil && pod != nil
//@   loop 1
//@     invariant 0 - 1 <= rangeindex && rangeindex < len(requiredConfigMapNames)
//@     invariant (len(missingConfigMaps) == 0) == (forall i int :: 0 <= i && i <= rangeindex ==> cmKnown(cmp, pod.Namespace, requiredConfigMapNames[i]))
//@     decreases len(requiredConfigMapNames) - rangeindex
//@   ensures [passesIffAllRequiredConfigMapsExist] (result1 == nil) == (forall i int :: 0 <= i && i < cmReqCount(pod) ==> cmKnown(cmp, pod.Namespace, cmReqAt(pod, i)))
//@   ensures [noNodeRestriction] result0 == nil
//@ end

// (2) MaxNodePoolResources predicate (maxNodeResources.go): a pod that asks for more than the largest node offers is not
// placed. What keeps this predicate from rejecting a pod that DOES fit some node (C05 "filters ... must only prune
// hopeless cases") is that maxResources dominates every node's allocatable resources, component by component.
//@ define dominates(m *resource_info.Resource, a *resource_info.Resource) bool = a.gpus <= m.gpus && a.milliCpu <= m.milliCpu && a.memory <= m.memory && (forall k in a.scalarResources :: k in m.scalarResources && a.scalarResources[k] <= m.scalarResources[k])

//@ func NewMaxNodeResourcesPredicate
//@   props C04
//@   assume forall k in nodesMap :: nodesMap[k] != nil && nodesMap[k].Allocatable != nil
//@   assume resource_info.claimsNonNil(resourceClaims)
//@   note assumed data invariants of the snapshot (no nil node, every node has its Allocatable resource, no nil claim): the caller NewSessionPredicates reads them from ssn.ClusterInfo right after a cache call, nothing carries them there
//@   assume forall k in nodesMap :: allocated(nodesMap[k].Allocatable) && allocated(nodesMap[k].Allocatable.scalarResources)
//@   note heap closedness: the resource objects reachable from the node map exist before the call
//@   fresh
//@   loop 1
//@     invariant predicate != nil && fresh(predicate) && predicate.maxResources != nil && fresh(predicate.maxResources)
//@     invariant predicate.maxResources.scalarResources == nil || fresh(predicate.maxResources.scalarResources)
//@     invariant forall r *resource_info.Resource :: old(allocated(r)) ==> r.gpus == old(r.gpus)
//@     invariant forall b *resource_info.BaseResource :: old(allocated(b)) ==> b.milliCpu == old(b.milliCpu) && b.memory == old(b.memory) && b.scalarResources == old(b.scalarResources)
//@     invariant forall m map[v1.ResourceName]int64, k v1.ResourceName :: old(allocated(m)) ==> (k in m) == old(k in m) && m[k] == old(m[k])
//@     invariant forall k in visited :: k in nodesMap
//@     invariant forall k in visited :: dominates(predicate.maxResources, nodesMap[k].Allocatable)
//@   ensures [nonNil] result != nil && result.maxResources != nil
//@   ensures [maxDominatesEveryNode] forall k in nodesMap :: dominates(result.maxResources, nodesMap[k].Allocatable)
//@ end

// a pod is rejected iff some component of its request exceeds the largest node: GPUs (device-plugin + DRA), CPU, memory,
// or a scalar resource that no node offers in that amount. podInfo is the function's own local (pod_info.NewTaskInfo of
// the pod), hence lemmas.
//@ func (*MaxNodeResourcesPredicate).buildUnschedulableMessage
//@   props C04
//@   trusted
//@   note message formatting only (strings.Builder, fmt.Sprintf, humanize, ResourceRequirements.DetailedString): library calls outside the subset; assumed read-only
//@   pure
//@ end
//@ define scalarsWithin(req *resource_info.ResourceRequirements, m *resource_info.Resource) bool = forall k in req.scalarResources :: k in m.scalarResources && req.scalarResources[k] <= m.scalarResources[k]
//@ func (*MaxNodeResourcesPredicate).PreFilter
//@   props C04
//@   requires mnr != nil && pod != nil && mnr.maxResources != nil
//@   assume mnr.podsToClaimsMap != nil && resource_info.claimMapNonNil(mnr.resourceClaimsMap) && resource_info.podClaimsNonNil(mnr.podsToClaimsMap)
//@   note assumed: the DRA claim indexes built by NewMaxNodeResourcesPredicate (ResourceClaimSliceToMap / CalcClaimsToPodsBaseMap [non-nil entries]) are intact
//@   modifies *
//@   note modifies *: GetDraPodClaims caches into the predicate's own pod->claims index; pod_info.NewTaskInfo builds a new PodInfo
//@   nopanic off
//@   loop 1
//@     invariant forall k in visited :: k in mnr.maxResources.scalarResources && podInfo.ResReq.scalarResources[k] <= mnr.maxResources.scalarResources[k]
//@   lemma [acceptedOnlyIfWithinLargestNode] result1 == nil ==> podGpuResources <= mnr.maxResources.gpus && podInfo.ResReq.milliCpu <= mnr.maxResources.milliCpu && podInfo.ResReq.memory <= mnr.maxResources.memory && scalarsWithin(podInfo.ResReq, mnr.maxResources)
//@   lemma [rejectedOnlyIfOversized] result1 != nil ==> podGpuResources > mnr.maxResources.gpus || podInfo.ResReq.milliCpu > mnr.maxResources.milliCpu || podInfo.ResReq.memory > mnr.maxResources.memory || !scalarsWithin(podInfo.ResReq, mnr.maxResources)
//@   ensures [noNodeRestriction] result0 == nil
//@ end

//@ func (*MaxNodeResourcesPredicate).isPreFilterRequired
//@   props C04
//@   pure
//@   ensures [checkedForEveryPod] result
//@ end
//@ func (*MaxNodeResourcesPredicate).isFilterRequired
//@   props C04
//@   pure
//@   ensures [noFilterStage] !result
//@ end

// the volume-binding filter wrapper (volume_binding.go) wraps the upstream VolumeBinding plugin object it is given
//@ func NewVolumeBindingFilter
//@   props C04
//@   trust [namesWrappedPlugin] result != nil && k8s_internal.filterOf(result, plugin)
//@   nopanic off
//@   note naming device + nopanic off: the closure returned wraps FitPredicateConverter(ssn, plugin.(*VolumeBinding)); the type assertion is the caller's matter (NewSessionPredicates passes the object the cache constructed as VolumeBinding)
//@ end

// the wrapper hands the upstream verdict through unchanged, except that - only when CSI storage scheduling is switched
// off for capacity (ignoreInsufficientResources) - an upstream ERROR may be turned into acceptance (the code compares
// the message with ErrReasonNotEnoughSpace); it never rejects what the upstream filter accepts
//@ func NewVolumeBindingFilter$1
//@   props C04
//@   pure
//@   nopanic off
//@   note nopanic off: filterFunc is the non-nil closure FitPredicateConverter returned (captured variable, not visible as such here)
//@   ensures [verdictHandedThrough] !ignoreInsufficientResources ==> result0 == k8s_internal.filterFits(filterFunc, pod, nodeInfo) && (result2 != nil) == k8s_internal.filterFails(filterFunc, pod, nodeInfo)
//@   ensures [noErrorStaysUntouched] !k8s_internal.filterFails(filterFunc, pod, nodeInfo) ==> result0 == k8s_internal.filterFits(filterFunc, pod, nodeInfo) && result2 == nil
//@   ensures [acceptanceNeedsUpstreamOrSwitch] result0 ==> k8s_internal.filterFits(filterFunc, pod, nodeInfo) || (ignoreInsufficientResources && k8s_internal.filterFails(filterFunc, pod, nodeInfo))
//@ end

//@ define alwaysReq(f k8s_internal.FitPredicateRequired) bool = forall p *v1.Pod :: k8s_internal.required(f, p)
//@ define neverReq(f k8s_internal.FitPredicateRequired) bool = forall p *v1.Pod :: !k8s_internal.required(f, p)

//@ func NewSessionPredicates
//@   props C04
//@   requires ssn != nil
//@   nopanic off
//@   note nopanic off: ssn.Cache / ssn.ClusterInfo non-nil and the dynamic types of the plugin objects handed out by the cache (type assertions) are the session's / cache's matter
//@   assume forall p *v1.Pod :: k8s_internal.required(predicateRequired, p) && !k8s_internal.required(predicateNotRequired, p)
//@   note the assume LINKS the function values predicateRequired / predicateNotRequired to their verified contracts ([alwaysRequired] / [neverRequired]): k8s_internal.required(f, pod) is by definition (type:FitPredicateRequired) the answer f(pod)
//@   modifies *
//@   # the table has an entry for every hard constraint
//@   ensures [hasHostPorts] "PodFitsHostPorts" in result
//@   ensures [hasTaints] "PodToleratesNodeTaints" in result
//@   ensures [hasNodeAffinity] "NodeAffinity" in result
//@   ensures [hasPodAffinity] "PodAffinity" in result
//@   ensures [hasVolumeBinding] "VolumeBinding" in result
//@   ensures [hasDynamicResources] "DynamicResources" in result
//@   ensures [hasMaxNodePoolResources] "MaxNodePoolResources" in result
//@   ensures [hasConfigMap] "ConfigMap" in result
//@   # required for EVERY pod (a pod without constraints of its own can still violate a constraint of the node or of a pod already there)
//@   ensures [taintsCheckedForEveryPod] alwaysReq(result["PodToleratesNodeTaints"].IsFilterRequired)
//@   ensures [nodeAffinityCheckedForEveryPod] alwaysReq(result["NodeAffinity"].IsPreFilterRequired) && alwaysReq(result["NodeAffinity"].IsFilterRequired)
//@   ensures [podAffinityCheckedForEveryPod] alwaysReq(result["PodAffinity"].IsPreFilterRequired) && alwaysReq(result["PodAffinity"].IsFilterRequired)
//@   ensures [hostPortsCheckedForEveryPod] alwaysReq(result["PodFitsHostPorts"].IsPreFilterRequired) && alwaysReq(result["PodFitsHostPorts"].IsFilterRequired)
//@   ensures [volumeBindingCheckedForEveryPod] alwaysReq(result["VolumeBinding"].IsPreFilterRequired) && alwaysReq(result["VolumeBinding"].IsFilterRequired)
//@   ensures [dynamicResourcesCheckedForEveryPod] alwaysReq(result["DynamicResources"].IsPreFilterRequired) && alwaysReq(result["DynamicResources"].IsFilterRequired)
//@   # each entry is wired to ITS upstream plugin object (the one the cache constructed under that name)
//@   ensures [taintsWired] initiatedPlugins.TaintToleration != nil ==> k8s_internal.filterOf(result["PodToleratesNodeTaints"].Filter, initiatedPlugins.TaintToleration)
//@   ensures [nodeAffinityWired] initiatedPlugins.NodeAffinity != nil ==> k8s_internal.filterOf(result["NodeAffinity"].Filter, initiatedPlugins.NodeAffinity) && k8s_internal.preFilterOf(result["NodeAffinity"].PreFilter, initiatedPlugins.NodeAffinity)
//@   ensures [podAffinityWired] initiatedPlugins.PodAffinity != nil ==> k8s_internal.filterOf(result["PodAffinity"].Filter, initiatedPlugins.PodAffinity) && k8s_internal.preFilterOf(result["PodAffinity"].PreFilter, initiatedPlugins.PodAffinity)
//@   ensures [hostPortsWired] initiatedPlugins.NodePorts != nil ==> k8s_internal.filterOf(result["PodFitsHostPorts"].Filter, initiatedPlugins.NodePorts) && k8s_internal.preFilterOf(result["PodFitsHostPorts"].PreFilter, initiatedPlugins.NodePorts)
//@   ensures [volumeBindingWired] initiatedPlugins.VolumeBinding != nil ==> k8s_internal.filterOf(result["VolumeBinding"].Filter, initiatedPlugins.VolumeBinding) && k8s_internal.preFilterOf(result["VolumeBinding"].PreFilter, initiatedPlugins.VolumeBinding)
//@   ensures [dynamicResourcesWired] initiatedPlugins.DynamicResources != nil ==> k8s_internal.filterOf(result["DynamicResources"].Filter, initiatedPlugins.DynamicResources) && k8s_internal.preFilterOf(result["DynamicResources"].PreFilter, initiatedPlugins.DynamicResources)
//@   # the table can be evaluated (no nil function is called by evaluateTaskOnPrePredicate)
//@   ensures [tableEvaluable] forall n in result :: result[n].IsPreFilterRequired != nil && result[n].IsFilterRequired != nil && (result[n].PreFilter != nil || neverReq(result[n].IsPreFilterRequired)) && (result[n].Filter != nil || n == "MaxNodePoolResources" || n == "ConfigMap")
//@ end
