//go:build verif

// Contracts for govc (contract-based deductive verification); comments only.
package k8s_internal

// ---- C04: the table of upstream kube-scheduler filters (SessionPredicates) -----------------------------------
// "Every pod the scheduler binds or nominates goes to a node that ... matches the pod's node selector and required
// node affinity, carries only ... taints the pod tolerates, and on which neither the pod's own required pod
// (anti-)affinity nor the required anti-affinity of pods already placed there ... is violated."
// The upstream filters themselves are library code (assumed). KAI's own part is the WIRING: which filters are in the
// table, for which pods they are declared required, and that every required one is consulted. The entries of the
// table are function values; their answers are NAMED by the declared functions below (assumption of the `type:`
// contracts: an entry's answer is a function of the function value and its arguments, and evaluating it changes
// nothing the scheduler's model reads - the upstream plugins only write the per-pod CycleState).
//   required(f, pod)          f (IsPreFilterRequired / IsFilterRequired) answers true for pod
//   preStatus(f, pod)         the *Status returned by PreFilter f for pod
//   filterFits(f, pod, node)  Filter f reports "fits"
//   filterFails(f, pod, node) Filter f returns a non-nil error
//@ declare required(f ref, pod ref) bool
//@ declare preStatus(f ref, pod ref) ref
//@ declare filterFits(f ref, pod ref, node ref) bool
//@ declare filterFails(f ref, pod ref, node ref) bool

//@ func type:FitPredicateRequired
//@   pure
//@   ensures [assumed] result == required(fn, pod)
//@   note assumed: the answer of a "required" function value is named by required(fn, pod); pure
//@ end

//@ func type:FitPredicatePreFilter
//@   pure
//@   ensures [assumed] result1 == preStatus(fn, pod)
//@   note assumed: the status returned by a PreFilter function value is named by preStatus(fn, pod); nothing the scheduler's model reads is written (upstream PreFilters write the pod's CycleState only)
//@ end

//@ func type:FitPredicateFilter
//@   pure
//@   ensures [assumed] result0 == filterFits(fn, pod, nodeInfo) && (result2 != nil) == filterFails(fn, pod, nodeInfo)
//@   note assumed: the verdict of a Filter function value is named by filterFits / filterFails (fn, pod, nodeInfo); nothing the scheduler's model reads is written
//@ end

// upstream *Status accessors (library): statusErr(s) <=> AsError() != nil, statusSkip(s) <=> IsSkip(),
// statusSuccess(s) <=> IsSuccess(); a nil status is a success (documented upstream), neither an error nor a skip
//@ declare statusErr(s ref) bool
//@ declare statusSkip(s ref) bool
//@ declare statusSuccess(s ref) bool
//@ axiom !statusErr(nil) && !statusSkip(nil) && statusSuccess(nil)
//@ axiom forall s ref :: statusSuccess(s) ==> !statusErr(s)
//@ func (*k8s.io/kube-scheduler/framework.Status).AsError
//@   pure
//@   ensures (result != nil) == statusErr(recv)
//@ end
//@ func (*k8s.io/kube-scheduler/framework.Status).IsSkip
//@   pure
//@   ensures result == statusSkip(recv)
//@ end
//@ func (*k8s.io/kube-scheduler/framework.Status).IsSuccess
//@   pure
//@   ensures result == statusSuccess(recv)
//@ end
//@ func (*k8s.io/kube-scheduler/framework.Status).Reasons
//@   pure
//@ end

// KAI's wrappers around an upstream plugin object: filterOf(f, plugin) / preFilterOf(f, plugin) NAME the function value
// that FitPredicateConverter / FitPrePredicateConverter return for `plugin` (the closure evaluates plugin.Filter /
// plugin.PreFilter on the session's per-pod CycleState). Nothing else is known about the two relations: they only say
// WHICH upstream plugin object a table entry is wired to.
//@ declare filterOf(f ref, plugin ref) bool
//@ declare preFilterOf(f ref, plugin ref) bool
//@ func FitPredicateConverter
//@   props C04
//@   trust [namesWrappedPlugin] result != nil && filterOf(result, nodeFilter)
//@   note naming device: the closure returned for nodeFilter is given the name filterOf(., nodeFilter); the body only builds that closure
//@ end
//@ func FitPrePredicateConverter
//@   props C04
//@   trust [namesWrappedPlugin] result != nil && preFilterOf(result, nodePreFilter)
//@   note naming device: the closure returned for nodePreFilter is given the name preFilterOf(., nodePreFilter); the body only builds that closure
//@ end

// ===== section owned by helper plug2 (podaffinity plugin: the two scoring hooks of SessionScoreFns) =====
// ASSUMED: the pre-score / score wrappers of the upstream InterPodAffinity plugin are library code behind a function
// value. Their answers are NAMED (function of the function value and the arguments): preScoreStatus(f, pod) is the
// *Status returned by PreScoreFn f for pod (the node list is a slice, it is not part of the name), podScore /
// podScoreFails name the score and whether an error is returned by ScorePredicate f for (pod, nodeInfo). Evaluating
// them changes nothing the scheduler's model reads (the upstream plugin writes the per-pod CycleState only).
//@ declare preScoreStatus(f ref, pod ref) ref
//@ declare podScore(f ref, pod ref, node ref) int
//@ declare podScoreFails(f ref, pod ref, node ref) bool
//@ func type:PreScoreFn
//@   pure
//@   ensures [assumed] result == preScoreStatus(fn, pod)
//@   note assumed: the status returned by a PreScoreFn value is named by preScoreStatus(fn, pod); nothing the scheduler's model reads is written
//@ end
//@ func type:ScorePredicate
//@   pure
//@   ensures [assumed] result0 == podScore(fn, pod, nodeInfo) && (result2 != nil) == podScoreFails(fn, pod, nodeInfo)
//@   note assumed: score and error of a ScorePredicate value are named by podScore / podScoreFails (fn, pod, nodeInfo); nothing the scheduler's model reads is written
//@ end
