//go:build verif

// Contracts for govc (contract-based deductive verification); comments only.
package conf

// C12: the labels a scheduler stamps on what it creates are exactly the labels its own list selector asks for: the
// node-pool label only when BOTH key and value are set (the "default" partition = objects WITHOUT the label).
//@ func (*SchedulingNodePoolParams).GetLabels
//@   props C12
//@   requires s != nil
//@   fresh
//@   ensures result != nil
//@   ensures [labelIffKeyAndValue] forall k string :: (k in result <==> s.NodePoolLabelKey != "" && s.NodePoolLabelValue != "" && k == s.NodePoolLabelKey)
//@   ensures [labelValue] s.NodePoolLabelKey != "" && s.NodePoolLabelValue != "" ==> result[s.NodePoolLabelKey] == s.NodePoolLabelValue
//@ end
