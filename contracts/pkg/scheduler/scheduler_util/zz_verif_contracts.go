//go:build verif

// Contracts for govc (contract-based deductive verification); comments only.
package scheduler_util

// C04: "Every pod the scheduler binds or nominates goes to a node that is ready and schedulable".
// A condition entry is acceptable iff: Ready ==> status True; MemoryPressure / DiskPressure /
// PIDPressure / NetworkUnavailable ==> status False; every other condition type is ignored.
//@ define condOK(t string, s string) bool = (t == "Ready" ==> s == "True") && ((t == "MemoryPressure" || t == "DiskPressure" || t == "PIDPressure" || t == "NetworkUnavailable") ==> s == "False")
//@ define condsOK(node *v1.Node, n int) bool = forall i int :: 0 <= i && i < n ==> condOK(node.Status.Conditions[i].Type, node.Status.Conditions[i].Status)
//@ define nodeFit(node *v1.Node) bool = !node.Spec.Unschedulable && condsOK(node, len(node.Status.Conditions))

//@ func CheckNodeConditionPredicate
//@   props C04 C10
//@   loop 1
//@     invariant 0 - 1 <= rangeindex && rangeindex < len(node.Status.Conditions)
//@     invariant (len(reasons) == 0) == (!node.Spec.Unschedulable && condsOK(node, rangeindex + 1))
//@     invariant forall p *string :: old(allocated(p)) ==> *p == old(*p)
//@     decreases len(node.Status.Conditions) - rangeindex
//@   ensures [nilNode] node == nil ==> !result0 && result2 != nil
//@   ensures [fitIffConditions] node != nil ==> result0 == nodeFit(node)
//@   ensures [reasonsIffUnfit] node != nil ==> (len(result1) == 0) == nodeFit(node)
//@   ensures [noError] node != nil ==> result2 == nil
//@ end

//@ func ValidateIsNodeReady
//@   props C04
//@   ensures result == (node != nil && nodeFit(node))
//@ end
