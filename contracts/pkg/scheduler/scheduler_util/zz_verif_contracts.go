//go:build verif

// Contracts for govc (contract-based deductive verification); comments only.
package scheduler_util

// C04: "Every pod the scheduler binds or nominates goes to a node that is ready and schedulable".
// A condition entry is acceptable iff: Ready ==> status True; MemoryPressure / DiskPressure /
// PIDPressure / NetworkUnavailable ==> status False; every other condition type is ignored.
//@ define condOK(t string, s string) bool = (t == "Ready" ==> s == "True") && ((t == "MemoryPressure" || t == "DiskPressure" || t == "PIDPressure" || t == "NetworkUnavailable") ==> s == "False")
//@ define condsOK(node *v1.Node, n int) bool = forall i int :: 0 <= i && i < n ==> condOK(node.Status.Conditions[i].Type, node.Status.Conditions[i].Status)
//@ define nodeFit(node *v1.Node) bool = !node.Spec.Unschedulable && condsOK(node, len(node.Status.Conditions))

//@ func CheckNodeConditionPredicate
//@   props C04 C10
//@   loop 1
//@     invariant 0 - 1 <= rangeindex && rangeindex < len(node.Status.Conditions)
//@     invariant (len(reasons) == 0) == (!node.Spec.Unschedulable && condsOK(node, rangeindex + 1))
//@     invariant forall p *string :: old(allocated(p)) ==> *p == old(*p)
//@     decreases len(node.Status.Conditions) - rangeindex
//@   ensures [nilNode] node == nil ==> !result0 && result2 != nil
//@   ensures [fitIffConditions] node != nil ==> result0 == nodeFit(node)
//@   ensures [reasonsIffUnfit] node != nil ==> (len(result1) == 0) == nodeFit(node)
//@   ensures [noError] node != nil ==> result2 == nil
//@ end

//@ func ValidateIsNodeReady
//@   props C04
//@   ensures result == (node != nil && nodeFit(node))
//@ end

// ---- PriorityQueue (requested by helper "job"): counts and membership only, no ordering claims ----
// x is one of the first n elements of the queue's item slice
//@ define pqHas(q *PriorityQueue, x interface{}, n int) bool = exists j int :: 0 <= j && j < n && q.queue.items[j] == x

//@ func NewPriorityQueue
//@   props C03 C16 C05 C09
//@   fresh
//@   ensures result != nil && len(result.queue.items) == 0 && result.maxQueueSize == maxQueueSize && result.queue.lessFn == lessFn
//@   ensures [freshBacking] fresh(result.queue.items)
//@ end

//@ func (*PriorityQueue).Empty
//@   props C03 C16 C05 C09
//@   requires q != nil
//@   pure
//@   ensures result == (len(q.queue.items) == 0)
//@ end

//@ func (*PriorityQueue).Len
//@   props C03 C16 C05 C09
//@   requires q != nil
//@   pure
//@   ensures result == len(q.queue.items)
//@ end

//@ func (*PriorityQueue).Push
//@   props C03 C16 C05 C09
//@   trusted
//@   note container/heap (heap.Push / heap.Remove call back into the sort.Interface methods of priorityQueue) is external library code outside the subset; the contract states counts, membership and multiplicity only (heap.Push appends then sifts = permutation of old items plus `it`; heap.Remove(maxQueueSize) drops one element when the bound is exceeded). A maxQueueSize < -1 would make heap.Remove panic; not covered.
//@   requires q != nil
//@   modifies q.queue.items, q.queue.items[*]
//@   ensures [lenUnbounded] q.maxQueueSize == QueueCapacityInfinite ==> len(q.queue.items) == old(len(q.queue.items)) + 1
//@   ensures [lenBounded] q.maxQueueSize != QueueCapacityInfinite ==> len(q.queue.items) == ite(old(len(q.queue.items)) + 1 > q.maxQueueSize, old(len(q.queue.items)), old(len(q.queue.items)) + 1)
//@   ensures [members] forall i int :: 0 <= i && i < len(q.queue.items) ==> q.queue.items[i] == it || (exists j int :: 0 <= j && j < old(len(q.queue.items)) && q.queue.items[i] == old(q.queue.items[j]))
//@   ensures [pushedPresentUnbounded] q.maxQueueSize == QueueCapacityInfinite ==> pqHas(q, it, len(q.queue.items))
//@   ensures [backing] fresh(q.queue.items) || samearray(q.queue.items, old(q.queue.items))
//@   ensures [noNewDuplicates] forall i1 int, i2 int :: 0 <= i1 && i1 < i2 && i2 < len(q.queue.items) && q.queue.items[i1] == q.queue.items[i2] ==> (exists j1 int, j2 int :: 0 <= j1 && j1 < j2 && j2 < old(len(q.queue.items)) && old(q.queue.items[j1]) == q.queue.items[i1] && old(q.queue.items[j2]) == q.queue.items[i1]) || (q.queue.items[i1] == it && (exists j int :: 0 <= j && j < old(len(q.queue.items)) && old(q.queue.items[j]) == it))
//@ end

//@ func (*PriorityQueue).Pop
//@   props C03 C16 C05 C09
//@   trusted
//@   note container/heap.Pop is external library code outside the subset (swaps first and last, sifts down, calls priorityQueue.Pop which drops the last element): the new items are a permutation of the old items minus one occurrence of the result, in the same backing array; counts, membership and multiplicity only, no ordering claim.
//@   requires q != nil
//@   modifies q.queue.items, q.queue.items[*]
//@   ensures [empty] old(len(q.queue.items)) == 0 ==> result == nil && len(q.queue.items) == 0
//@   ensures [len] old(len(q.queue.items)) > 0 ==> len(q.queue.items) == old(len(q.queue.items)) - 1
//@   ensures [resultWasMember] old(len(q.queue.items)) > 0 ==> (exists j int :: 0 <= j && j < old(len(q.queue.items)) && result == old(q.queue.items[j]))
//@   ensures [members] forall i int :: 0 <= i && i < len(q.queue.items) ==> (exists j int :: 0 <= j && j < old(len(q.queue.items)) && q.queue.items[i] == old(q.queue.items[j]))
//@   ensures [backing] samearray(q.queue.items, old(q.queue.items))
//@   ensures [removedOnce] forall i int :: 0 <= i && i < len(q.queue.items) && q.queue.items[i] == result ==> (exists j1 int, j2 int :: 0 <= j1 && j1 < j2 && j2 < old(len(q.queue.items)) && old(q.queue.items[j1]) == result && old(q.queue.items[j2]) == result)
//@   ensures [noNewDuplicates] forall i1 int, i2 int :: 0 <= i1 && i1 < i2 && i2 < len(q.queue.items) && q.queue.items[i1] == q.queue.items[i2] ==> (exists j1 int, j2 int :: 0 <= j1 && j1 < j2 && j2 < old(len(q.queue.items)) && old(q.queue.items[j1]) == q.queue.items[i1] && old(q.queue.items[j2]) == q.queue.items[i1])
//@ end
