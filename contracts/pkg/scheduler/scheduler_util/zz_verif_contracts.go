//go:build verif

// Contracts for govc (contract-based deductive verification); comments only.
package scheduler_util

// C04: "Every pod the scheduler binds or nominates goes to a node that is ready and schedulable".
// A condition entry is acceptable iff: Ready ==> status True; MemoryPressure / DiskPressure /
// PIDPressure / NetworkUnavailable ==> status False; every other condition type is ignored.
//@ define condOK(t string, s string) bool = (t == "Ready" ==> s == "True") && ((t == "MemoryPressure" || t == "DiskPressure" || t == "PIDPressure" || t == "NetworkUnavailable") ==> s == "False")
//@ define condsOK(node *v1.Node, n int) bool = forall i int :: 0 <= i && i < n ==> condOK(node.Status.Conditions[i].Type, node.Status.Conditions[i].Status)
//@ define nodeFit(node *v1.Node) bool = !node.Spec.Unschedulable && condsOK(node, len(node.Status.Conditions))

//@ func CheckNodeConditionPredicate
//@   props C04 C10
//@   loop 1
//@     invariant 0 - 1 <= rangeindex && rangeindex < len(node.Status.Conditions)
//@     invariant (len(reasons) == 0) == (!node.Spec.Unschedulable && condsOK(node, rangeindex + 1))
//@     invariant forall p *string :: old(allocated(p)) ==> *p == old(*p)
//@     decreases len(node.Status.Conditions) - rangeindex
//@   ensures [nilNode] node == nil ==> !result0 && result2 != nil
//@   ensures [fitIffConditions] node != nil ==> result0 == nodeFit(node)
//@   ensures [reasonsIffUnfit] node != nil ==> (len(result1) == 0) == nodeFit(node)
//@   ensures [noError] node != nil ==> result2 == nil
//@ end

//@ func ValidateIsNodeReady
//@   props C04
//@   ensures result == (node != nil && nodeFit(node))
//@ end

// ---- PriorityQueue (requested by helper "job"; ordering added by helper "pq") ---------------------
// x is one of the first n elements of the queue's item slice
//@ define pqHas(q *PriorityQueue, x interface{}, n int) bool = exists j int :: 0 <= j && j < n && q.queue.items[j] == x

// C16: "Priority, then FIFO, decides between equal workloads of a queue ... the allocate action never
// places a lower-priority one while leaving a higher-priority one unplaced". The queue hands out its
// elements through a comparator lessFn(l, r) = "l is handed out before r".
// lessV(f, l, r): abstract verdict of the comparator function value f (same device as
// common_info.cmpVerdict for CompareFn). ASSUMED (field:priorityQueue.lessFn below): the function stored
// in a queue is a pure, deterministic function of its two arguments.
//@ declare lessV(f ref, l ref, r ref) bool
//@ func field:priorityQueue.lessFn
//@   props C16 C03
//@   pure
//@   ensures result == lessV(fn, arg0, arg1)
//@   note assumed: the comparator stored in a priorityQueue is pure and a deterministic function of its two arguments (not of the heap state): true for the task / pod-set / job comparators while the compared objects keep their ordering keys; NOT true for the queue-node comparators of actions/utils (they look at the current best job below each node), for which no ordering clause is claimed
//@ end
// strict weak order (irreflexive, transitive, incomparability transitive): what container/heap needs from Less for
// "Pop returns the minimum". swo(f) is an uninterpreted predicate that is only ever a HYPOTHESIS of ordering clauses
// (nothing establishes it: it is a property of the registered comparators). The assumed container/heap contracts
// below are to be read with that meaning; the only verified code that needs part of it, lastToPopIndex, spells out
// what it uses as a local assumption ([swoMeaning]: irreflexive and transitive). NB: the victims comparator of
// actions/utils (!JobOrderFn) is reflexive, so swo does not hold for it and no ordering clause applies to victims queues.
//@ declare swo(f ref) bool
// the heap invariants of container/heap on the item slice s: no child (slot c) is handed out before its parent (slot p) ...
//@ define heapShape(s []interface{}, f ref) bool = forall p int, c int :: 0 <= p && p < c && c < len(s) && (c == 2 * p + 1 || c == 2 * p + 2) ==> !lessV(f, s[c], s[p])
// ... and their consequence (induction over the depth, for a strict weak order): nothing is handed out before the root
//@ define rootFirst(s []interface{}, f ref) bool = forall i int :: 0 <= i && i < len(s) ==> !lessV(f, s[i], s[0])
//@ define heapOK(s []interface{}, f ref) bool = heapShape(s, f) && rootFirst(s, f)
// heap invariant of a PriorityQueue whose comparator is a strict weak order
//@ define pqOrdered(q *PriorityQueue) bool = q.queue.lessFn != nil && swo(q.queue.lessFn) && heapOK(q.queue.items, q.queue.lessFn)

// -- the heap.Interface adapter (type priorityQueue): what container/heap sees ----------------------
//@ func (*priorityQueue).Len
//@   props C16 C03
//@   requires pq != nil
//@   pure
//@   ensures result == len(pq.items)
//@ end

//@ func (*priorityQueue).Less
//@   props C16 C03
//@   requires pq != nil
//@   requires pq.lessFn != nil ==> 0 <= i && i < len(pq.items) && 0 <= j && j < len(pq.items)
//@   pure
//@   ensures [noComparator] pq.lessFn == nil ==> result == (i < j)
//@   ensures [comparatorOnItems] pq.lessFn != nil ==> result == lessV(pq.lessFn, pq.items[i], pq.items[j])
//@ end

//@ func (priorityQueue).Swap
//@   props C16 C03
//@   requires 0 <= i && i < len(pq.items) && 0 <= j && j < len(pq.items)
//@   modifies pq.items[i], pq.items[j]
//@   ensures [swapped] pq.items[i] == old(pq.items[j]) && pq.items[j] == old(pq.items[i])
//@ end

//@ func (*priorityQueue).Push
//@   props C16 C03
//@   requires pq != nil
//@   modifies pq.items
//@   ensures [appended] len(pq.items) == old(len(pq.items)) + 1 && pq.items[old(len(pq.items))] == x
//@   ensures [prefixKept] forall i int :: 0 <= i && i < old(len(pq.items)) ==> pq.items[i] == old(pq.items[i])
//@   ensures [freshBacking] fresh(pq.items)
//@ end

//@ func (*priorityQueue).Pop
//@   props C16 C03
//@   requires pq != nil && len(pq.items) > 0
//@   modifies pq.items
//@   ensures [lastReturned] result == old(pq.items[len(pq.items) - 1])
//@   ensures [shrunk] len(pq.items) == old(len(pq.items)) - 1 && samearray(pq.items, old(pq.items))
//@   ensures [prefixKept] forall i int :: 0 <= i && i < len(pq.items) ==> pq.items[i] == old(pq.items[i])
//@ end

//@ func (*priorityQueue).Peek
//@   props C16 C03
//@   requires pq != nil
//@   pure
//@   ensures [emptyNil] len(pq.items) == 0 ==> result == nil
//@   ensures [root] len(pq.items) > 0 ==> result == pq.items[0]
//@ end

// "a bounded PriorityQueue gives up the item it would pop last" (/repo 16edb70): the index of an element
// that is handed out before no other element.
//@ func (*priorityQueue).lastToPopIndex
//@   props C16 C03
//@   requires pq != nil
//@   assume [swoMeaning] swo(pq.lessFn) ==> (forall a ref :: !lessV(pq.lessFn, a, a)) && (forall a ref, b ref, c ref :: lessV(pq.lessFn, a, b) && lessV(pq.lessFn, b, c) ==> lessV(pq.lessFn, a, c))
//@   note assume [swoMeaning]: the part of the definition of swo (strict weak order) this function uses
//@   pure
//@   loop 1
//@     invariant 1 <= i && 0 <= last && last < i && (len(pq.items) > 0 ==> i <= len(pq.items))
//@     invariant pq.lessFn == nil ==> last == i - 1
//@     invariant pq.lessFn != nil && swo(pq.lessFn) ==> (forall j int :: 0 <= j && j < i && j < len(pq.items) ==> !lessV(pq.lessFn, pq.items[last], pq.items[j]))
//@     decreases len(pq.items) + 1 - i
//@   ensures [inRange] len(pq.items) > 0 ==> 0 <= result && result < len(pq.items)
//@   ensures [noComparatorLastSlot] pq.lessFn == nil && len(pq.items) > 0 ==> result == len(pq.items) - 1
//@   ensures [handedOutLast] pq.lessFn != nil && swo(pq.lessFn) ==> (forall j int :: 0 <= j && j < len(pq.items) ==> !lessV(pq.lessFn, pq.items[result], pq.items[j]))
//@ end

// -- container/heap (library, no body visible to the engine): ASSUMED contracts, stated on the item slice of the
// adapter (its heap.Interface methods Len/Less/Swap/Push/Pop are verified above: Len = len(items), Less = lessV on
// items, Swap exchanges two cells, Push appends, Pop drops the last cell). Every routine only calls those methods, so
// the new items are a rearrangement of the old ones (plus x / minus the result) and lessFn is untouched.
// Ordering part, as documented by container/heap ("Init establishes the heap invariants required by the other
// routines", "Pop removes and returns the minimum element (according to Less)", "Pop is equivalent to Remove(h, 0)"):
// for a comparator that is a strict weak order every routine keeps heapOK = the invariants + "nothing is handed out
// before the root" (their consequence by induction over the depth, which SMT cannot do; assumed here together with the library).
// [keptIfBefore] is "no other element is lost" in the only form needed for C16 (and the only one that does not send the
// solvers into a matching loop with [members]): an old element that the comparator places before some element is still there.
//@ define hq(h ref) *priorityQueue = unbox(h, "*priorityQueue")

//@ func container/heap.Push
//@   props C03 C16 C05 C09
//@   trusted
//@   note assumed library contract (container/heap.Push = h.Push(x); up(h, h.Len()-1)): permutation of the old items plus x; keeps the heap invariants for a strict weak order
//@   requires typeis(h, "*priorityQueue") && hq(h) != nil
//@   modifies hq(h).items, hq(h).items[*]
//@   ensures [len] len(hq(h).items) == old(len(hq(h).items)) + 1
//@   ensures [members] forall i int :: 0 <= i && i < len(hq(h).items) ==> hq(h).items[i] == x || (exists j int :: 0 <= j && j < old(len(hq(h).items)) && hq(h).items[i] == old(hq(h).items[j]))
//@   ensures [keptIfBefore] forall v ref, w ref :: lessV(hq(h).lessFn, v, w) && (exists j int :: 0 <= j && j < old(len(hq(h).items)) && old(hq(h).items[j]) == v) ==> (exists i int :: 0 <= i && i < len(hq(h).items) && hq(h).items[i] == v)
//@   ensures [pushedPresent] exists i int :: 0 <= i && i < len(hq(h).items) && hq(h).items[i] == x
//@   ensures [backing] fresh(hq(h).items)   // h.Push appends: a new backing array in the engine's model of append (adapter contract (*priorityQueue).Push [freshBacking])
//@   ensures [noNewDuplicates] forall i1 int, i2 int :: 0 <= i1 && i1 < i2 && i2 < len(hq(h).items) && hq(h).items[i1] == hq(h).items[i2] ==> (exists j1 int, j2 int :: 0 <= j1 && j1 < j2 && j2 < old(len(hq(h).items)) && old(hq(h).items[j1]) == hq(h).items[i1] && old(hq(h).items[j2]) == hq(h).items[i1]) || (hq(h).items[i1] == x && (exists j int :: 0 <= j && j < old(len(hq(h).items)) && old(hq(h).items[j]) == x))
//@   ensures [heapKept] hq(h).lessFn != nil && swo(hq(h).lessFn) && old(heapOK(hq(h).items, hq(h).lessFn)) ==> heapOK(hq(h).items, hq(h).lessFn)
//@ end

//@ func container/heap.Pop
//@   props C03 C16 C05 C09
//@   trusted
//@   note assumed library contract (container/heap.Pop = Swap(0, n-1); down(0, n-1); return h.Pop()): returns the old root ("equivalent to Remove(h, 0)"), the rest is a permutation of the other old items in the same backing array; keeps the heap invariants for a strict weak order
//@   requires typeis(h, "*priorityQueue") && hq(h) != nil && len(hq(h).items) > 0
//@   modifies hq(h).items, hq(h).items[*]
//@   ensures [which] result == old(hq(h).items[0])
//@   ensures [len] len(hq(h).items) == old(len(hq(h).items)) - 1
//@   ensures [members] forall i int :: 0 <= i && i < len(hq(h).items) ==> (exists j int :: 0 <= j && j < old(len(hq(h).items)) && hq(h).items[i] == old(hq(h).items[j]))
//@   ensures [keptIfBefore] forall v ref, w ref :: lessV(hq(h).lessFn, v, w) && (exists j int :: 0 <= j && j < old(len(hq(h).items)) && j != 0 && old(hq(h).items[j]) == v) ==> (exists i int :: 0 <= i && i < len(hq(h).items) && hq(h).items[i] == v)
//@   ensures [backing] samearray(hq(h).items, old(hq(h).items))
//@   ensures [removedOnce] forall i int :: 0 <= i && i < len(hq(h).items) && hq(h).items[i] == result ==> (exists j1 int, j2 int :: 0 <= j1 && j1 < j2 && j2 < old(len(hq(h).items)) && old(hq(h).items[j1]) == result && old(hq(h).items[j2]) == result)
//@   ensures [noNewDuplicates] forall i1 int, i2 int :: 0 <= i1 && i1 < i2 && i2 < len(hq(h).items) && hq(h).items[i1] == hq(h).items[i2] ==> (exists j1 int, j2 int :: 0 <= j1 && j1 < j2 && j2 < old(len(hq(h).items)) && old(hq(h).items[j1]) == hq(h).items[i1] && old(hq(h).items[j2]) == hq(h).items[i1])
//@   ensures [heapKept] hq(h).lessFn != nil && swo(hq(h).lessFn) && old(heapOK(hq(h).items, hq(h).lessFn)) ==> heapOK(hq(h).items, hq(h).lessFn)
//@ end

//@ func container/heap.Remove
//@   props C03 C16 C05 C09
//@   trusted
//@   note assumed library contract (container/heap.Remove = Swap(i, n-1); down/up; return h.Pop()): returns the old element at index i, the rest is a permutation of the other old items in the same backing array; keeps the heap invariants for a strict weak order
//@   requires typeis(h, "*priorityQueue") && hq(h) != nil && 0 <= i && i < len(hq(h).items)
//@   modifies hq(h).items, hq(h).items[*]
//@   ensures [which] result == old(hq(h).items[i])
//@   ensures [len] len(hq(h).items) == old(len(hq(h).items)) - 1
//@   ensures [members] forall i int :: 0 <= i && i < len(hq(h).items) ==> (exists j int :: 0 <= j && j < old(len(hq(h).items)) && hq(h).items[i] == old(hq(h).items[j]))
//@   ensures [keptIfBefore] forall v ref, w ref :: lessV(hq(h).lessFn, v, w) && (exists j int :: 0 <= j && j < old(len(hq(h).items)) && j != i && old(hq(h).items[j]) == v) ==> (exists i int :: 0 <= i && i < len(hq(h).items) && hq(h).items[i] == v)
//@   ensures [backing] samearray(hq(h).items, old(hq(h).items))
//@   ensures [noNewDuplicates] forall i1 int, i2 int :: 0 <= i1 && i1 < i2 && i2 < len(hq(h).items) && hq(h).items[i1] == hq(h).items[i2] ==> (exists j1 int, j2 int :: 0 <= j1 && j1 < j2 && j2 < old(len(hq(h).items)) && old(hq(h).items[j1]) == hq(h).items[i1] && old(hq(h).items[j2]) == hq(h).items[i1])
//@   ensures [heapKept] hq(h).lessFn != nil && swo(hq(h).lessFn) && old(heapOK(hq(h).items, hq(h).lessFn)) ==> heapOK(hq(h).items, hq(h).lessFn)
//@ end

//@ func container/heap.Fix
//@   props C03 C16 C05 C09
//@   trusted
//@   note assumed library contract (container/heap.Fix = down(i) or up(i)): a permutation of the items in place; keeps the heap invariants for a strict weak order whose verdicts did not change (lessV is state independent)
//@   requires typeis(h, "*priorityQueue") && hq(h) != nil && 0 <= i && i < len(hq(h).items)
//@   modifies hq(h).items[*]
//@   ensures [members] forall i int :: 0 <= i && i < len(hq(h).items) ==> (exists j int :: 0 <= j && j < old(len(hq(h).items)) && hq(h).items[i] == old(hq(h).items[j]))
//@   ensures [keptIfBefore] forall v ref, w ref :: lessV(hq(h).lessFn, v, w) && (exists j int :: 0 <= j && j < old(len(hq(h).items)) && old(hq(h).items[j]) == v) ==> (exists i int :: 0 <= i && i < len(hq(h).items) && hq(h).items[i] == v)
//@   ensures [noNewDuplicates] forall i1 int, i2 int :: 0 <= i1 && i1 < i2 && i2 < len(hq(h).items) && hq(h).items[i1] == hq(h).items[i2] ==> (exists j1 int, j2 int :: 0 <= j1 && j1 < j2 && j2 < old(len(hq(h).items)) && old(hq(h).items[j1]) == hq(h).items[i1] && old(hq(h).items[j2]) == hq(h).items[i1])
//@   ensures [heapKept] hq(h).lessFn != nil && swo(hq(h).lessFn) && old(heapOK(hq(h).items, hq(h).lessFn)) ==> heapOK(hq(h).items, hq(h).lessFn)
//@ end

//@ func container/heap.Init
//@   props C03 C16 C05 C09
//@   trusted
//@   note assumed library contract (container/heap.Init = heapify): a permutation of the items in place; establishes the heap invariants for a strict weak order. Not called by the repo today.
//@   requires typeis(h, "*priorityQueue") && hq(h) != nil
//@   modifies hq(h).items[*]
//@   ensures [members] forall i int :: 0 <= i && i < len(hq(h).items) ==> (exists j int :: 0 <= j && j < old(len(hq(h).items)) && hq(h).items[i] == old(hq(h).items[j]))
//@   ensures [keptIfBefore] forall v ref, w ref :: lessV(hq(h).lessFn, v, w) && (exists j int :: 0 <= j && j < old(len(hq(h).items)) && old(hq(h).items[j]) == v) ==> (exists i int :: 0 <= i && i < len(hq(h).items) && hq(h).items[i] == v)
//@   ensures [noNewDuplicates] forall i1 int, i2 int :: 0 <= i1 && i1 < i2 && i2 < len(hq(h).items) && hq(h).items[i1] == hq(h).items[i2] ==> (exists j1 int, j2 int :: 0 <= j1 && j1 < j2 && j2 < old(len(hq(h).items)) && old(hq(h).items[j1]) == hq(h).items[i1] && old(hq(h).items[j2]) == hq(h).items[i1])
//@   ensures [heapEstablished] hq(h).lessFn != nil && swo(hq(h).lessFn) ==> heapOK(hq(h).items, hq(h).lessFn)
//@ end

// -- the exported queue: verified against the assumed container/heap contracts ---------------------------
//@ func NewPriorityQueue
//@   props C03 C16 C05 C09
//@   fresh
//@   ensures result != nil && len(result.queue.items) == 0 && result.maxQueueSize == maxQueueSize && result.queue.lessFn == lessFn
//@   ensures [freshBacking] fresh(result.queue.items)
//@   ensures [ordered] lessFn != nil && swo(lessFn) ==> pqOrdered(result)
//@ end

//@ func (*PriorityQueue).Empty
//@   props C03 C16 C05 C09
//@   requires q != nil
//@   pure
//@   ensures result == (len(q.queue.items) == 0)
//@ end

//@ func (*PriorityQueue).Len
//@   props C03 C16 C05 C09
//@   requires q != nil
//@   pure
//@   ensures result == len(q.queue.items)
//@ end

// C16: the element handed out next is one before which no other element of the queue is handed out.
//@ func (*PriorityQueue).Peek
//@   props C03 C16 C05 C09
//@   requires q != nil
//@   pure
//@   ensures [emptyNil] len(q.queue.items) == 0 ==> result == nil
//@   ensures [root] len(q.queue.items) > 0 ==> result == q.queue.items[0]
//@   ensures [best] pqOrdered(q) ==> (forall j int :: 0 <= j && j < len(q.queue.items) ==> !lessV(q.queue.lessFn, q.queue.items[j], result))
//@ end

// Push: length, membership and multiplicity as before (clients: podgroup_info, resource_division, actions/utils), plus:
// [pushedPresentNoOverflow]; [orderKeptShape] + [orderKeptRoot] the heap invariants survive (together: pqOrdered(q); lessFn is not written); [keepsBestOld] / [keepsBestNew] (/repo 16edb70,
// "a bounded PriorityQueue gives up the item it would pop last"): an element of old items + `it` that is no longer in the
// queue is handed out before none of the elements that stayed.
//@ func (*PriorityQueue).Push
//@   props C03 C16 C05 C09
//@   requires q != nil
//@   modifies q.queue.items, q.queue.items[*]
//@   ensures [lenUnbounded] q.maxQueueSize == QueueCapacityInfinite ==> len(q.queue.items) == old(len(q.queue.items)) + 1
//@   ensures [lenBounded] q.maxQueueSize != QueueCapacityInfinite ==> len(q.queue.items) == ite(old(len(q.queue.items)) + 1 > q.maxQueueSize, old(len(q.queue.items)), old(len(q.queue.items)) + 1)
//@   ensures [members] forall i int :: 0 <= i && i < len(q.queue.items) ==> q.queue.items[i] == it || (exists j int :: 0 <= j && j < old(len(q.queue.items)) && q.queue.items[i] == old(q.queue.items[j]))
//@   ensures [pushedPresentUnbounded] q.maxQueueSize == QueueCapacityInfinite ==> pqHas(q, it, len(q.queue.items))
//@   ensures [backing] fresh(q.queue.items) || samearray(q.queue.items, old(q.queue.items))
//@   # `q != nil &&` keeps the goal of [noNewDuplicates] out of the engine's goal skolemization: two index variables x every quantifier of the two library contracts made the obligation flaky
//@   ensures [noNewDuplicates] q != nil && (forall i1 int, i2 int :: 0 <= i1 && i1 < i2 && i2 < len(q.queue.items) && q.queue.items[i1] == q.queue.items[i2] ==> (exists j1 int, j2 int :: 0 <= j1 && j1 < j2 && j2 < old(len(q.queue.items)) && old(q.queue.items[j1]) == q.queue.items[i1] && old(q.queue.items[j2]) == q.queue.items[i1]) || (q.queue.items[i1] == it && (exists j int :: 0 <= j && j < old(len(q.queue.items)) && old(q.queue.items[j]) == it)))
//@   ensures [pushedPresentNoOverflow] q.maxQueueSize == QueueCapacityInfinite || old(len(q.queue.items)) + 1 <= q.maxQueueSize ==> pqHas(q, it, len(q.queue.items))
//@   ensures [orderKeptShape] old(pqOrdered(q)) ==> heapShape(q.queue.items, q.queue.lessFn)
//@   ensures [orderKeptRoot] old(pqOrdered(q)) ==> rootFirst(q.queue.items, q.queue.lessFn)
//@   ensures [keepsBestOld] q.queue.lessFn != nil && swo(q.queue.lessFn) ==> (forall j int, i int :: 0 <= j && j < old(len(q.queue.items)) && 0 <= i && i < len(q.queue.items) && !pqHas(q, old(q.queue.items[j]), len(q.queue.items)) ==> !lessV(q.queue.lessFn, old(q.queue.items[j]), q.queue.items[i]))
//@   ensures [keepsBestNew] q.queue.lessFn != nil && swo(q.queue.lessFn) ==> (forall i int :: 0 <= i && i < len(q.queue.items) && !pqHas(q, it, len(q.queue.items)) ==> !lessV(q.queue.lessFn, it, q.queue.items[i]))
//@ end

// Pop: as before, plus [first] it is the element Peek shows, [orderKept], and C16
// [handsOutBest]: no element of the queue is handed out before the one returned.
//@ func (*PriorityQueue).Pop
//@   props C03 C16 C05 C09
//@   requires q != nil
//@   modifies q.queue.items, q.queue.items[*]
//@   ensures [empty] old(len(q.queue.items)) == 0 ==> result == nil && len(q.queue.items) == 0
//@   ensures [len] old(len(q.queue.items)) > 0 ==> len(q.queue.items) == old(len(q.queue.items)) - 1
//@   ensures [resultWasMember] old(len(q.queue.items)) > 0 ==> (exists j int :: 0 <= j && j < old(len(q.queue.items)) && result == old(q.queue.items[j]))
//@   ensures [members] forall i int :: 0 <= i && i < len(q.queue.items) ==> (exists j int :: 0 <= j && j < old(len(q.queue.items)) && q.queue.items[i] == old(q.queue.items[j]))
//@   ensures [backing] samearray(q.queue.items, old(q.queue.items))
//@   ensures [removedOnce] forall i int :: 0 <= i && i < len(q.queue.items) && q.queue.items[i] == result ==> (exists j1 int, j2 int :: 0 <= j1 && j1 < j2 && j2 < old(len(q.queue.items)) && old(q.queue.items[j1]) == result && old(q.queue.items[j2]) == result)
//@   ensures [noNewDuplicates] forall i1 int, i2 int :: 0 <= i1 && i1 < i2 && i2 < len(q.queue.items) && q.queue.items[i1] == q.queue.items[i2] ==> (exists j1 int, j2 int :: 0 <= j1 && j1 < j2 && j2 < old(len(q.queue.items)) && old(q.queue.items[j1]) == q.queue.items[i1] && old(q.queue.items[j2]) == q.queue.items[i1])
//@   ensures [first] old(len(q.queue.items)) > 0 ==> result == old(q.queue.items[0])
//@   ensures [orderKept] old(pqOrdered(q)) ==> pqOrdered(q)
//@   ensures [handsOutBest] old(pqOrdered(q)) ==> (forall j int :: 0 <= j && j < old(len(q.queue.items)) ==> !lessV(q.queue.lessFn, old(q.queue.items[j]), result))
//@ end

// Fix(index): re-sifts one element after its ordering key changed (used by actions/utils for queue nodes): a permutation in place.
//@ func (*PriorityQueue).Fix
//@   props C03 C16 C05 C09
//@   requires q != nil && 0 <= index && index < len(q.queue.items)
//@   modifies q.queue.items[*]
//@   ensures [members] forall i int :: 0 <= i && i < len(q.queue.items) ==> (exists j int :: 0 <= j && j < old(len(q.queue.items)) && q.queue.items[i] == old(q.queue.items[j]))
//@   ensures [orderKept] old(pqOrdered(q)) ==> pqOrdered(q)
//@ end
