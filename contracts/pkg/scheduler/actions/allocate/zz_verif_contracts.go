//go:build verif

// Contracts for govc (contract-based deductive verification); comments only.
package allocate

// C03: "If only part of a gang can be bound now and the rest must wait for terminating capacity, the whole gang is
// nominated and nothing is bound" - mechanism "ShouldPipelineJob + ConvertAllAllocatedToPipelined": the statement that
// attemptToAllocateJob hands back for commit (allocated == true)
//   - either is reported as not pipelined, and then the job does NOT need pipelining in the returned state (the
//     exit state is the state in which the code evaluated ShouldPipelineJob: nothing is written between that call and
//     the return; stated with the predicate that podgroup_info's contract of ShouldPipelineJob decides),
//   - or is reported as pipelined, and then no bind (allocate) entry of this job is left in the statement
//     (framework [noBindLeftForJob] of ConvertAllAllocatedToPipelined).
// A failed attempt (allocated == false) is never pipelined and - hypothesis: no reverse closure failed, see
// actions/common - leaves the fresh statement without entries of a partially placed gang.
// what podgroup_info's contract of ShouldPipelineJob decides ([sure]): some pod set with a positive minimum has a Pipelined
// task and no really placed (non-pipelined active allocated) task
//@ define needsPipelining(job *podgroup_info.PodGroupInfo) bool = exists k in job.PodSets :: podgroup_info.hasPipelined(job.PodSets[k]) && !podgroup_info.hasPlaced(job.PodSets[k]) && job.PodSets[k].minAvailable >= 1
//@ func attemptToAllocateJob
//@   props C03 C08
//@   nopanic off
//@   note nopanic off: queue / job / node maps are read around plugin callbacks and statement operations (`modifies *`); what is proved is the pipeline-all rule and the log protocol
//@   usestable Statement.ssn Session.ClusterInfo Session.eventHandlers []*EventHandler ClusterInfo.PodGroupInfos ClusterInfo.Nodes map[common_info.PodGroupID]*podgroup_info.PodGroupInfo map[string]*node_info.NodeInfo PodGroupInfo.PodSets PodGroupInfo.UID map[string]*subgroup_info.PodSet
//@   requires ssn != nil && stmt != nil && framework.wfLog(stmt)
//@   assume framework.stmtOK(stmt) && podgroup_info.setsOK(job) && podgroup_info.allTasksOK(job)
//@   assume !fresh(stmt.ssn.eventHandlers)   // heap closedness: the handler list reachable from the session exists before the call
//@   modifies *
//@   ensures [notPipelinedMeansNoNeed] allocated && !pipelined ==> !needsPipelining(job)
//@   ensures [pipelinedMeansNoBindLeft] allocated && pipelined ==> (forall j int :: 0 <= j && j < len(stmt.operations) ==> framework.noBindOf(stmt.operations[j], old(job.UID)))
//@   ensures [failedNeverPipelined] !allocated ==> !pipelined
//@   ensures [capacityGate] !framework.jobCapacityVerdict(ssn, job) ==> !allocated
//@   # exec2: what allocate.Execute needs to hand the statement to Commit / Discard
//@   trust [failedIsDiscardable] !allocated ==> framework.wfLog(stmt)
//@   note trust [failedIsDiscardable]: Discard's precondition. Proved on the path where AllocateJob fails (its [wf*Kept] clauses); on the path where ConvertAllAllocatedToPipelined returns an error the log is whatever that function left (it keeps wfKnown/wfRev/wfBack/wfTask as loop invariants but exports no clause about the log), so the clause as a whole is assumed
//@   trust [successIsCommittable] allocated ==> framework.commitReady(stmt) && framework.wfLog(stmt) && framework.flatLog(stmt)
//@   note trust [successIsCommittable]: Commit's preconditions on the job's statement. wfLog is kept by AllocateJob, but ConvertAllAllocatedToPipelined exports neither wfLog nor the session skeleton, and "flat" (no entry undone twice, no undo of an undo) after AllocateJob's checkpoint/rollback rounds is the unmechanised log argument of C13; commitReady is the session data invariant (cache, bind mutators, Pod pointers) that no `modifies *` step re-establishes
//@ end

// ---- exec2: the Execute loop of the allocate action (C06 / C03 / C05 / C16 / C10) -------------------------
// C06 (min-runtime protection is measured from LastStartTimestamp): the job's start time is THE CURRENT time, in a
// cell of its own (no other job's clock is shared or moved).
//@ func setLastStartTimestamp
//@   props C06 C16
//@   requires job != nil
//@   modifies job.LastStartTimestamp
//@   ensures [startsNow] job.LastStartTimestamp != nil && *job.LastStartTimestamp == now()
//@   ensures [ownClock] fresh(job.LastStartTimestamp)
//@ end
// C16/C05: "the allocate action never places a lower-priority one while leaving a higher-priority one unplaced": jobs
// are attempted in exactly the order PopNextJob yields them (one attempt per popped job, on a statement of its own);
// a job whose attempt fails does not stop the loop (its statement is discarded and the next job is popped).
// C06/C03: "Every such eviction/bind is committed together ...": stmt.Commit() is reached only with the statement
// of a successful attempt (preconditions of Commit, proved at the call site from attemptToAllocateJob
// [successIsCommittable]); after a failed attempt the statement is discarded (precondition of Discard: well-formed
// log, [failedIsDiscardable]) and nothing is committed. setLastStartTimestamp and PushJob get a non-nil job.
// C05 "After the allocate action of a cycle no ready pending workload remains ...": the action ends only when the job order
// is empty - every queued job was popped and attempted ([orderDrained]; a failed attempt does not stop the loop).
// C10: no panic on any path (a non-empty order yields a job; ssn.Statement() is a fresh statement; the queue of the
// re-pushed job is known: PopNextJob [poppedQueueKnown], carried across the attempt and the commit by the stable session
// skeleton - precondition [queueKnown] of PushJob).
// Not stated (no per-iteration postcondition exists for a loop body): "setLastStartTimestamp exactly when the job became
// fully allocated in this cycle", and "a statement that is neither committed nor discarded is never dropped".
//@ func (*allocateAction).Execute
//@   props C05 C06 C03 C16 C10
//@   usestable Session.ClusterInfo JobsOrderByQueues.ssn ClusterInfo.Queues map[common_info.QueueID]*queue_info.QueueInfo PodGroupInfo.Queue
//@   requires ssn != nil && ssn.ClusterInfo != nil && ssn.Config != nil && sessionJobsOK(ssn)
//@   requires [queueDepthNotZero] ssn.GetJobsDepth("allocate") != 0
//@   modifies *
//@   loop 1
//@     modifies *
//@   ensures [orderDrained] utils.orderEmpty(jobsOrderByQueues)
//@ end
//@ define sessionJobsOK(ssn *framework.Session) bool = (forall k in ssn.ClusterInfo.PodGroupInfos :: podgroup_info.allTasksOK(ssn.ClusterInfo.PodGroupInfos[k]) && podgroup_info.setsOK(ssn.ClusterInfo.PodGroupInfos[k])) && (forall q in ssn.ClusterInfo.Queues :: ssn.ClusterInfo.Queues[q] != nil)
// ---- end exec2 ----
