//go:build verif

// Contracts for govc (contract-based deductive verification); comments only.
package allocate

// C03: "If only part of a gang can be bound now and the rest must wait for terminating capacity, the whole gang is
// nominated and nothing is bound" - mechanism "ShouldPipelineJob + ConvertAllAllocatedToPipelined": the statement that
// attemptToAllocateJob hands back for commit (allocated == true)
//   - either is reported as not pipelined, and then the job does NOT need pipelining in the returned state (the
//     exit state is the state in which the code evaluated ShouldPipelineJob: nothing is written between that call and
//     the return; stated with the predicate that podgroup_info's contract of ShouldPipelineJob decides),
//   - or is reported as pipelined, and then no bind (allocate) entry of this job is left in the statement
//     (framework [noBindLeftForJob] of ConvertAllAllocatedToPipelined).
// A failed attempt (allocated == false) is never pipelined and - hypothesis: no reverse closure failed, see
// actions/common - leaves the fresh statement without entries of a partially placed gang.
// what podgroup_info's contract of ShouldPipelineJob decides ([sure]): some pod set with a positive minimum has a Pipelined
// task and no really placed (non-pipelined active allocated) task
//@ define needsPipelining(job *podgroup_info.PodGroupInfo) bool = exists k in job.PodSets :: podgroup_info.hasPipelined(job.PodSets[k]) && !podgroup_info.hasPlaced(job.PodSets[k]) && job.PodSets[k].minAvailable >= 1
//@ func attemptToAllocateJob
//@   props C03 C08
//@   nopanic off
//@   note nopanic off: queue / job / node maps are read around plugin callbacks and statement operations (`modifies *`); what is proved is the pipeline-all rule and the log protocol
//@   usestable Statement.ssn Session.ClusterInfo Session.eventHandlers []*EventHandler ClusterInfo.PodGroupInfos ClusterInfo.Nodes map[common_info.PodGroupID]*podgroup_info.PodGroupInfo map[string]*node_info.NodeInfo PodGroupInfo.PodSets PodGroupInfo.UID map[string]*subgroup_info.PodSet
//@   requires ssn != nil && stmt != nil && framework.wfLog(stmt)
//@   assume framework.stmtOK(stmt) && podgroup_info.setsOK(job) && podgroup_info.allTasksOK(job)
//@   assume !fresh(stmt.ssn.eventHandlers)   // heap closedness: the handler list reachable from the session exists before the call
//@   modifies *
//@   ensures [notPipelinedMeansNoNeed] allocated && !pipelined ==> !needsPipelining(job)
//@   ensures [pipelinedMeansNoBindLeft] allocated && pipelined ==> (forall j int :: 0 <= j && j < len(stmt.operations) ==> framework.noBindOf(stmt.operations[j], old(job.UID)))
//@   ensures [failedNeverPipelined] !allocated ==> !pipelined
//@   ensures [capacityGate] !framework.jobCapacityVerdict(ssn, job) ==> !allocated
//@ end
