//go:build verif

// Contracts for govc (contract-based deductive verification); comments only.
package utils

//@ import v2alpha2 "github.com/NVIDIA/KAI-scheduler/pkg/apis/scheduling/v2alpha2"

// Ghost set: pushed(j) <=> job j has been handed to PushJob of some JobsOrderByQueues
// (i.e. is a candidate the action / the solver may pop; for a victims queue: a potential victim).
//@ ghost pushed(j *podgroup_info.PodGroupInfo) bool

// famJO(): some JobsOrderByQueues reference, used only to NAME whole heap families in `modifies family(...)`
// clauses of functions that create their JobsOrderByQueues themselves (no such object in the pre-state).
//@ declare famJO() *JobsOrderByQueues
// jo.ssn is written only by the struct literal of NewJobsOrderByQueues (requested by helper "exec2": the Execute loops
// need jo.ssn to survive their `modifies *` steps; opt in with `usestable JobsOrderByQueues.ssn`)
//@ stable JobsOrderByQueues.ssn

// PushJob (verified; was trusted). The ghost flag pushed(job) stays in the frame: it is the hook the C06 units use
// ("a job can only get into an order through PushJob"); the real-state counterpart proved here is [queued*].
// Q = job.Queue, N = jo.queueNodes[Q] (the leaf node of the job's queue).
//  [nonLeafQueueIgnored]   a job of a queue that has child queues is not queued at all
//  [queuedInExistingLeaf]  N existed and its queue is not over its depth: the job is an element of N's queue afterwards
//  [queuedInNewLeaf]       N did not exist and the depth admits a job: N is a new leaf for Queues[Q] holding exactly the job
//  [depthZeroLeavesNoLeaf] (/repo 728fd2f) N did not exist and the depth admits nothing: no node is registered
//  [leafMembers]           N's queue only ever gains the given job
//  [leafOrderKept] / [newLeafOrdered]   (C16) the heap invariants of N's queue survive / hold from the start
//  [keepsBestOld]          (C16, /repo 16edb70, jobs queue depth) a job that fell out of N's bounded queue is ordered before
//                          none of the jobs that stayed. (The same for the pushed job itself is proved one level down,
//                          scheduler_util.(*PriorityQueue).Push [keepsBestNew]; here it would need a spec term for the
//                          interface value boxing `job`, which the contract language does not have.)
//  [inv]                   the object invariant is kept
// Linking a NEW leaf into the tree is done by ensureAncestorChainForPush (below; one trusted clause); an existing leaf is not relinked.
//@ func (*JobsOrderByQueues).PushJob
//@   props C06 C16 C10 C03
//@   requires jo != nil && job != nil
//@   requires [sessionKnown] jo.ssn != nil && jo.ssn.ClusterInfo != nil
//@   requires [queueKnown] job.Queue in jo.ssn.ClusterInfo.Queues && jo.ssn.ClusterInfo.Queues[job.Queue] != nil
//@   assume [queuesNonNil] forall q in jo.ssn.ClusterInfo.Queues :: jo.ssn.ClusterInfo.Queues[q] != nil
//@   note assume [queuesNonNil]: snapshot construction never stores a nil *QueueInfo (needed for the ancestors of the job's queue; the job's own queue is a precondition)
//@   assume mapOK(jo) && parentsOK() && jo.queueNodes != nil
//@   note assume: object invariant (mapOK, parentsOK: proved at exit of PushJob and PopNextJob); NewJobsOrderByQueues always makes queueNodes
//@   modifies pushed(job), jo.queueNodes[*], jo.rootNodes, family(jo.rootNodes.queue), family(jo.rootNodes.maxQueueSize), family(jo.queueNodes[job.Queue].queue), family(jo.queueNodes[job.Queue].children), family(jo.queueNodes[job.Queue].needsReorder), family(jo.queueNodes[job.Queue].parent), family(jo.queueNodes[job.Queue].isLeaf), family(jo.rootNodes.queue.items[*])
//@   ensures [nonLeafQueueIgnored] len(jo.ssn.ClusterInfo.Queues[job.Queue].ChildQueues) != 0 ==> jo.rootNodes == old(jo.rootNodes) && (forall q common_info.QueueID :: (q in jo.queueNodes) == old(q in jo.queueNodes) && jo.queueNodes[q] == old(jo.queueNodes[q]))
//@   ensures [queuedInExistingLeaf] old(leafQ(jo, job) && job.Queue in jo.queueNodes && (jo.queueNodes[job.Queue].children.maxQueueSize == scheduler_util.QueueCapacityInfinite || len(jo.queueNodes[job.Queue].children.queue.items) + 1 <= jo.queueNodes[job.Queue].children.maxQueueSize)) ==> job.Queue in jo.queueNodes && jo.queueNodes[job.Queue] == old(jo.queueNodes[job.Queue]) && holdsJob(jo.queueNodes[job.Queue].children, job)
//@   ensures [queuedInNewLeaf] old(leafQ(jo, job) && !(job.Queue in jo.queueNodes)) && (jo.options.MaxJobsQueueDepth == scheduler_util.QueueCapacityInfinite || jo.options.MaxJobsQueueDepth >= 1) ==> job.Queue in jo.queueNodes && fresh(jo.queueNodes[job.Queue]) && jo.queueNodes[job.Queue].isLeaf && jo.queueNodes[job.Queue].queue == jo.ssn.ClusterInfo.Queues[job.Queue] && len(jo.queueNodes[job.Queue].children.queue.items) == 1 && holdsJob(jo.queueNodes[job.Queue].children, job)
//@   ensures [depthZeroLeavesNoLeaf] old(leafQ(jo, job) && !(job.Queue in jo.queueNodes)) && !(jo.options.MaxJobsQueueDepth == scheduler_util.QueueCapacityInfinite || jo.options.MaxJobsQueueDepth >= 1) ==> !(job.Queue in jo.queueNodes) && jo.rootNodes == old(jo.rootNodes)
//@   ensures [leafMembers] old(leafQ(jo, job) && job.Queue in jo.queueNodes) ==> (forall i int :: 0 <= i && i < len(old(jo.queueNodes[job.Queue]).children.queue.items) ==> (typeis(old(jo.queueNodes[job.Queue]).children.queue.items[i], "*podgroup_info.PodGroupInfo") && jobOf(old(jo.queueNodes[job.Queue]).children.queue.items[i]) == job) || (exists j int :: 0 <= j && j < old(len(jo.queueNodes[job.Queue].children.queue.items)) && old(jo.queueNodes[job.Queue]).children.queue.items[i] == old(jo.queueNodes[job.Queue].children.queue.items[j])))
//@   ensures [leafOrderKept] old(leafQ(jo, job) && job.Queue in jo.queueNodes && scheduler_util.pqOrdered(jo.queueNodes[job.Queue].children)) ==> scheduler_util.pqOrdered(old(jo.queueNodes[job.Queue]).children)
//@   ensures [newLeafOrdered] old(leafQ(jo, job) && !(job.Queue in jo.queueNodes)) && job.Queue in jo.queueNodes && scheduler_util.swo(jo.queueNodes[job.Queue].children.queue.lessFn) ==> scheduler_util.pqOrdered(jo.queueNodes[job.Queue].children)
//@   ensures [keepsBestOld] old(leafQ(jo, job) && job.Queue in jo.queueNodes && jo.queueNodes[job.Queue].children.queue.lessFn != nil) && scheduler_util.swo(old(jo.queueNodes[job.Queue].children.queue.lessFn)) ==> (forall j int, i int :: 0 <= j && j < old(len(jo.queueNodes[job.Queue].children.queue.items)) && 0 <= i && i < len(old(jo.queueNodes[job.Queue]).children.queue.items) && !scheduler_util.pqHas(old(jo.queueNodes[job.Queue]).children, old(jo.queueNodes[job.Queue].children.queue.items[j]), len(old(jo.queueNodes[job.Queue]).children.queue.items)) ==> !scheduler_util.lessV(old(jo.queueNodes[job.Queue].children.queue.lessFn), old(jo.queueNodes[job.Queue].children.queue.items[j]), old(jo.queueNodes[job.Queue]).children.queue.items[i]))
//@   ensures [inv] mapOK(jo) && parentsOK()
//@   trust [recorded] pushed(job)
//@   note trust [recorded]: ghost bookkeeping, not a claim about the code - pushed(j) is DEFINED as "j has been handed to PushJob" (the contract language has no ghost assignment inside a verified body)
//@ end
// the job's queue is a leaf queue (has no child queues)
//@ define leafQ(jo *JobsOrderByQueues, job *podgroup_info.PodGroupInfo) bool = len(jo.ssn.ClusterInfo.Queues[job.Queue].ChildQueues) == 0

// ensureAncestorChainForPush: links a new node under the node of its parent queue (created on demand, and then linked
// in turn) or, for a top-level queue, into rootNodes. Body verified: (C10) no panic, it only ADDS registrations, keeps
// the object invariant, and when the parent queue is unknown it links nothing ([orphanNotLinked]: the node stays
// registered but unreachable from rootNodes, so its jobs are never returned by PopNextJob). One TRUSTED clause:
// [childQueueUntouched] - it pushes into rootNodes / into the children queues of OTHER (inner) nodes only, the node's own
// children queue is left alone (needs "distinct priority queues own disjoint backing arrays" and "a queue is not its own
// ancestor", which the engine cannot carry). Partial correctness (termination: the queue hierarchy is acyclic).
//@ func (*JobsOrderByQueues).ensureAncestorChainForPush
//@   props C10 C16
//@   requires jo != nil && childNode != nil && childQueue != nil && jo.ssn != nil && jo.ssn.ClusterInfo != nil
//@   requires [queuesNonNil] forall q in jo.ssn.ClusterInfo.Queues :: jo.ssn.ClusterInfo.Queues[q] != nil
//@   requires [inv] mapOK(jo) && parentsOK() && jo.queueNodes != nil && childNode.children != nil && childNode.queue != nil
//@   modifies jo.queueNodes[*], jo.rootNodes, family(jo.rootNodes.queue), family(jo.rootNodes.maxQueueSize), family(childNode.parent), family(jo.rootNodes.queue.items[*])
//@   ensures [onlyAdds] forall q common_info.QueueID :: old(q in jo.queueNodes) ==> q in jo.queueNodes && jo.queueNodes[q] == old(jo.queueNodes[q])
//@   ensures [inv] mapOK(jo) && parentsOK()
//@   ensures [orphanNotLinked] old(childQueue.ParentQueue != "" && !(childQueue.ParentQueue in jo.ssn.ClusterInfo.Queues)) ==> jo.rootNodes == old(jo.rootNodes) && childNode.parent == old(childNode.parent) && (forall q common_info.QueueID :: (q in jo.queueNodes) == old(q in jo.queueNodes))
//@   trust [childQueueUntouched] childNode.children.maxQueueSize == old(childNode.children.maxQueueSize) && childNode.children.queue.lessFn == old(childNode.children.queue.lessFn) && len(childNode.children.queue.items) == old(len(childNode.children.queue.items)) && samearray(childNode.children.queue.items, old(childNode.children.queue.items)) && (forall i int :: 0 <= i && i < len(childNode.children.queue.items) ==> childNode.children.queue.items[i] == old(childNode.children.queue.items[i]))
//@ end

// C06: "Reclaim, preempt and consolidation never evict pods of non-preemptible workloads": a job is
// pushed only if it passes every filter flag that is switched on, its queue (and the queue's parent)
// exists and the queue is a leaf.
//@ define queueOK(jo *JobsOrderByQueues, j *podgroup_info.PodGroupInfo) bool = j.Queue in jo.ssn.ClusterInfo.Queues && (jo.ssn.ClusterInfo.Queues[j.Queue].ParentQueue != "" ==> jo.ssn.ClusterInfo.Queues[j.Queue].ParentQueue in jo.ssn.ClusterInfo.Queues) && len(jo.ssn.ClusterInfo.Queues[j.Queue].ChildQueues) == 0
// ready: every pod set has enough schedulable (alive, not gated) pods to reach its minimum
//@ define ready(j *podgroup_info.PodGroupInfo) bool = forall k in j.PodSets :: j.PodSets[k].numAliveTasks - len(j.PodSets[k].podStatusIndex[pod_status.Gated]) >= j.PodSets[k].minAvailable
//@ define flagsHold(jo *JobsOrderByQueues, j *podgroup_info.PodGroupInfo) bool = (jo.options.FilterNonPreemptible ==> j.Preemptibility == v2alpha2.Preemptible) && (jo.options.FilterUnready ==> ready(j)) && (jo.options.FilterNonPending ==> len(j.PodStatusIndex[pod_status.Pending]) > 0) && queueOK(jo, j)
//@ define memberOf(m map[common_info.PodGroupID]*podgroup_info.PodGroupInfo, j *podgroup_info.PodGroupInfo) bool = exists k in m :: m[k] == j

// C16 (added by helper "pq"; acceptance test seeded/C16d): "never places a lower-priority one while leaving a higher-priority
// one unplaced" needs every candidate to be OFFERED to its queue's bounded heap, which then keeps the best ones
// (scheduler_util.(*PriorityQueue).Push [keepsBestOld] [keepsBestNew]): [allEligiblePushed] every given job that passes the
// switched-on filters is handed to PushJob (stated for orders without the active-allocated filter, i.e. the pending-job
// orders of allocate / preempt / reclaim / consolidation; with that filter GetAllPodsMap's contract has no "nothing is
// missing" direction). C10 (seeded/C10d): PushJob is only called with a job whose queue is known (its precondition [queueKnown]).
//@ func (*JobsOrderByQueues).InitializeWithJobs
//@   props C06 C10 C16
//@   requires jobsOrder != nil && jobsOrder.ssn != nil && jobsOrder.ssn.ClusterInfo != nil
//@   requires forall k in jobsToOrder :: podgroup_info.allTasksOK(jobsToOrder[k]) && podgroup_info.setsOK(jobsToOrder[k])
//@   requires forall q in jobsOrder.ssn.ClusterInfo.Queues :: jobsOrder.ssn.ClusterInfo.Queues[q] != nil
//@   modifies family(pushed(jobsToOrder[""])), family(jobsOrder.queueNodes[*]), family(jobsOrder.rootNodes), family(jobsOrder.rootNodes.queue), family(jobsOrder.rootNodes.maxQueueSize), family(jobsOrder.queueNodes[""].queue), family(jobsOrder.queueNodes[""].children), family(jobsOrder.queueNodes[""].needsReorder), family(jobsOrder.queueNodes[""].parent), family(jobsOrder.queueNodes[""].isLeaf), family(jobsOrder.rootNodes.queue.items[*])
//@   loop 1
//@     invariant forall j *podgroup_info.PodGroupInfo :: pushed(j) && !old(pushed(j)) ==> old(flagsHold(jobsOrder, j)) && old(memberOf(jobsToOrder, j))
//@     invariant !jobsOrder.options.FilterNonActiveAllocated ==> (forall k in visited :: old(flagsHold(jobsOrder, jobsToOrder[k])) ==> pushed(jobsToOrder[k]))
//@   ensures [allEligiblePushed] !jobsOrder.options.FilterNonActiveAllocated ==> (forall k in jobsToOrder :: old(flagsHold(jobsOrder, jobsToOrder[k])) ==> pushed(jobsToOrder[k]))
//@   ensures [pushedOnlyFiltered] forall j *podgroup_info.PodGroupInfo :: pushed(j) && !old(pushed(j)) ==> old(flagsHold(jobsOrder, j))
//@   ensures [pushedOnlyGiven] forall j *podgroup_info.PodGroupInfo :: pushed(j) && !old(pushed(j)) ==> old(memberOf(jobsToOrder, j))
//@ end

// ---- GetVictimsQueue -----------------------------------------------------------------------------------
// filterHolds(f, j): victim filter f accepted job j. The filters passed by preempt and consolidation are the
// closures under contract in those packages (their posts say what acceptance implies); here the filter is an
// abstract parameter. Assumed frame of a filter call = the union of those two closures' frames.
//@ declare filterHolds(f ref, j ref) bool
//@ func param:GetVictimsQueue.filter
//@   props C06
//@   note assumed contract of the func-typed parameter: acceptance is recorded in the abstract predicate filterHolds; frame = the job's activeAllocatedCount cache cell pointer and int cells (the closures preempt.buildFilterFuncForPreempt$1 / consolidation.buildPreemptibleFilterFunc$1 write nothing else)
//@   modifies arg0.activeAllocatedCount, family(*arg0.activeAllocatedCount)
//@   ensures result ==> filterHolds(fn, arg0)
//@ end

// C06: the victims queue handed to the solver contains only session jobs that the action's filter accepted
// (DESIGN: "contents ⊆ {job | filter(job)}"), whose queue exists and is a leaf.
//@ func GetVictimsQueue
//@   props C06
//@   requires ssn != nil && ssn.ClusterInfo != nil
//@   requires forall k in ssn.ClusterInfo.PodGroupInfos :: podgroup_info.allTasksOK(ssn.ClusterInfo.PodGroupInfos[k]) && podgroup_info.setsOK(ssn.ClusterInfo.PodGroupInfos[k])
//@   requires forall q in ssn.ClusterInfo.Queues :: ssn.ClusterInfo.Queues[q] != nil
//@   modifies family(ssn.ClusterInfo.PodGroupInfos[""].activeAllocatedCount), family(*ssn.ClusterInfo.PodGroupInfos[""].activeAllocatedCount), family(pushed(ssn.ClusterInfo.PodGroupInfos[""])), family(famJO().queueNodes[*]), family(famJO().rootNodes), family(famJO().rootNodes.queue), family(famJO().rootNodes.maxQueueSize), family(famJO().queueNodes[""].queue), family(famJO().queueNodes[""].children), family(famJO().queueNodes[""].needsReorder), family(famJO().queueNodes[""].parent), family(famJO().queueNodes[""].isLeaf), family(famJO().rootNodes.queue.items[*])
//@   loop 1
//@     invariant forall k in preemptees :: podgroup_info.allTasksOK(preemptees[k]) && podgroup_info.setsOK(preemptees[k])
//@     invariant forall k in preemptees :: memberOf(ssn.ClusterInfo.PodGroupInfos, preemptees[k])
//@     invariant forall k in preemptees :: filter == nil || filterHolds(filter, preemptees[k])
//@   ensures [victimQueue] result != nil && result.options.VictimQueue
//@   ensures [onlyAccepted] forall j *podgroup_info.PodGroupInfo :: pushed(j) && !old(pushed(j)) ==> filter == nil || filterHolds(filter, j)
//@   ensures [onlySessionJobs] forall j *podgroup_info.PodGroupInfo :: pushed(j) && !old(pushed(j)) ==> memberOf(ssn.ClusterInfo.PodGroupInfos, j)
//@ end

// ---- pq: the order structure itself (helper "pq") ---------------------------------------------------------
// C16: "Priority, then FIFO, decides between equal workloads of a queue ... the allocate action never places a
// lower-priority one while leaving a higher-priority one unplaced". Every leaf queue keeps its jobs in a
// scheduler_util.PriorityQueue whose comparator is the closure createLeafNode$1: the session's JobOrderFn
// (priority plugins first, then creation time, then UID: contract framework.(*Session).JobOrderFn), negated for a
// victims queue (victims are taken in reverse order).
//@ define isJob(x interface{}) bool = typeis(x, "*podgroup_info.PodGroupInfo") && unbox(x, "*podgroup_info.PodGroupInfo") != nil
//@ define jobOf(x interface{}) *podgroup_info.PodGroupInfo = unbox(x, "*podgroup_info.PodGroupInfo")
//@ define isQN(x interface{}) bool = typeis(x, "*queueNode") && unbox(x, "*queueNode") != nil
//@ define qnOf(x interface{}) *queueNode = unbox(x, "*queueNode")
//@ define orderFnsOK(ssn *framework.Session) bool = ssn != nil && (forall i int :: 0 <= i && i < len(ssn.JobOrderFns) ==> ssn.JobOrderFns[i] != nil)

//@ func (*JobsOrderByQueues).createLeafNode$1
//@   props C16
//@   requires jo != nil && orderFnsOK(jo.ssn) && framework.isPG(l) && framework.isPG(r)
//@   note the requires are not checked at call sites: the closure is only called by container/heap (through priorityQueue.Less) on two elements of a leaf queue, which are non-nil jobs (getNextNode's trusted clause [leafHoldsJobs])
//@   pure
//@   ensures [fifoFallback] framework.jobNeutral(jo.ssn, l, r) ==> result == (jo.options.VictimQueue != framework.fifoLessJob(framework.pgOf(l), framework.pgOf(r)))
//@   ensures [firstPluginDecides] forall k int :: framework.jobDecider(jo.ssn, k, l, r) ==> result == (jo.options.VictimQueue != (framework.jobCmp(jo.ssn, k, l, r) < 0))
//@ end

//@ func (*JobsOrderByQueues).isRootQueue
//@   inline
//@ end

// -- data invariant of the order structure (the part the engine can carry) -----------------------------------
// A queueNode is only created by createLeafNode / createNonLeafNode, which give it a queue and a priority queue
// `children`; these two fields and isLeaf are never reassigned. Object invariant of a JobsOrderByQueues value jo,
// ASSUMED at entry of PushJob / PopNextJob / Len and PROVED at their exit (the fields are unexported and written
// only by functions of this file; NewJobsOrderByQueues creates an empty map):
//   mapOK(jo)    every registered node exists and has a queue and a children queue
//   parentsOK()  a parent pointer leads to a node with a queue and a children queue (stated for every node that has
//                a parent pointer; only ensureAncestorChainForPush assigns one, and nodes are unregistered, never destroyed)
// What is NOT carried (see the `trust` clauses of getNextNode / traverseToLeaf / ensureAncestorChainForPush and the
// assumption [rootHoldsNodes] of PopNextJob below): the contents of the priority queues of OTHER nodes while one
// queue is pushed to / popped from. That needs "distinct priority queues own disjoint backing arrays", which the
// engine cannot keep across an allocation (a zero-length backing array has no cell whose allocation could be named).
//@ define mapOK(jo *JobsOrderByQueues) bool = forall q in jo.queueNodes :: jo.queueNodes[q] != nil && jo.queueNodes[q].children != nil && jo.queueNodes[q].queue != nil
//@ define parentsOK() bool = forall n *queueNode :: n != nil && n.parent != nil ==> n.parent.children != nil && n.parent.queue != nil
// a priority queue of nodes (rootNodes or the children of an inner node) / of jobs (the children of a leaf)
//@ define nodeQueue(pq *scheduler_util.PriorityQueue) bool = pq != nil && (forall i int :: 0 <= i && i < len(pq.queue.items) ==> isQN(pq.queue.items[i]) && qnOf(pq.queue.items[i]).children != nil && qnOf(pq.queue.items[i]).queue != nil)
//@ define jobQueue(pq *scheduler_util.PriorityQueue) bool = pq != nil && (forall i int :: 0 <= i && i < len(pq.queue.items) ==> isJob(pq.queue.items[i]))
// job j is one of the elements of pq
//@ define holdsJob(pq *scheduler_util.PriorityQueue, j *podgroup_info.PodGroupInfo) bool = exists i int :: 0 <= i && i < len(pq.queue.items) && typeis(pq.queue.items[i], "*podgroup_info.PodGroupInfo") && jobOf(pq.queue.items[i]) == j

// constructors of nodes: a fresh node with an empty children queue ordered by the leaf / node comparator
//@ func (*JobsOrderByQueues).createLeafNode
//@   props C16 C10
//@   requires jo != nil
//@   fresh
//@   ensures [node] result.queue == queue && result.isLeaf && result.parent == nil && !result.needsReorder
//@   ensures [children] result.children != nil && fresh(result.children) && fresh(result.children.queue.items) && len(result.children.queue.items) == 0 && result.children.queue.lessFn != nil
//@   ensures [depthBound] result.children.maxQueueSize == jo.options.MaxJobsQueueDepth
//@   ensures [ordered] scheduler_util.swo(result.children.queue.lessFn) ==> scheduler_util.pqOrdered(result.children)
//@ end

//@ func (*JobsOrderByQueues).createNonLeafNode
//@   props C10
//@   requires jo != nil
//@   fresh
//@   ensures [node] result.queue == queue && !result.isLeaf && result.parent == nil && !result.needsReorder
//@   ensures [children] result.children != nil && fresh(result.children) && fresh(result.children.queue.items) && len(result.children.queue.items) == 0 && result.children.queue.lessFn != nil
//@   ensures [unbounded] result.children.maxQueueSize == scheduler_util.QueueCapacityInfinite
//@ end

//@ func (*JobsOrderByQueues).buildNodeOrderFn
//@   inline
//@ end

//@ func (*JobsOrderByQueues).ensureRootNodesInitialized
//@   props C10
//@   requires jo != nil
//@   modifies jo.rootNodes
//@   ensures [kept] old(jo.rootNodes) != nil ==> jo.rootNodes == old(jo.rootNodes)
//@   ensures [created] old(jo.rootNodes) == nil ==> jo.rootNodes != nil && fresh(jo.rootNodes) && fresh(jo.rootNodes.queue.items) && len(jo.rootNodes.queue.items) == 0 && jo.rootNodes.queue.lessFn != nil && jo.rootNodes.maxQueueSize == scheduler_util.QueueCapacityInfinite
//@ end

// flags the node and all its ancestors; writes nothing else. Termination (the parent chain is acyclic because it
// follows the queue hierarchy) is not claimed.
//@ func (*JobsOrderByQueues).markAncestorsForReorder
//@   props C10
//@   modifies family(node.needsReorder)
//@ end

// getNextNode: the node at the top of a node queue, after re-sifting the queue while its top is flagged. No claim
// about WHICH node that is (the node comparators look at the current best job below each node: no fixed order
// exists). C10: no panic on a queue of nodes. Partial correctness: termination of the recursion (one flag is
// cleared per call) is not claimed.
//@ func (*JobsOrderByQueues).getNextNode
//@   props C10
//@   requires nodeQueue(pq)
//@   modifies pq.queue.items[*], family(qnOf(pq.queue.items[0]).needsReorder)
//@   ensures [nodeQueue] nodeQueue(pq)
//@   ensures [top] result != nil ==> len(pq.queue.items) > 0 && qnOf(pq.queue.items[0]) == result && result.children != nil && result.queue != nil && len(result.children.queue.items) > 0
//@   ensures [foundUnlessAnEmptyNodeIsLinked] old(len(pq.queue.items) > 0 && (forall i int :: 0 <= i && i < len(pq.queue.items) ==> len(qnOf(pq.queue.items[i]).children.queue.items) > 0)) ==> result != nil
//@   trust [innerNodeHoldsNodes] result != nil && !result.isLeaf ==> nodeQueue(result.children)
//@   trust [leafHoldsJobs] result != nil && result.isLeaf ==> jobQueue(result.children)
//@   note trust [innerNodeHoldsNodes] [leafHoldsJobs]: the hereditary part of the data invariant (the children queue of a linked inner node holds nodes with queue and children, of a linked leaf non-nil jobs). Established by PushJob / ensureAncestorChainForPush (they push exactly such elements); carrying it for the queues of OTHER nodes across their allocations is what the engine cannot do (see the data invariant above).
//@ end

// traverseToLeaf: walks getNextNode down from a queue of nodes to a leaf. Body verified (C10: no panic on a queue of
// nodes, given getNextNode's clauses); three facts are TRUSTED clauses (`trust`), all of them consequences of the data
// invariant that cannot be carried (see above): [leafUntouched] re-sifting the queues of inner nodes does not touch
// the leaf's own queue (needs: distinct priority queues own disjoint backing arrays), [leafJobsQueueKnown] the jobs
// of a leaf have a known queue (PushJob's precondition, job.Queue and the Queues map unchanged since), and
// [linkedNodesNonEmpty] the pruning invariant of handlePopFromNode / PushJob: no empty node is linked, so a
// non-empty queue of nodes leads to a leaf. Partial correctness (termination: the tree is finite and acyclic).
//@ func (*JobsOrderByQueues).traverseToLeaf
//@   props C10 C16 C05
//@   requires nodeQueue(pq)
//@   modifies family(pq.queue.items[*]), family(qnOf(pq.queue.items[0]).needsReorder)
//@   ensures [leaf] result != nil ==> result.isLeaf && result.queue != nil && result.children != nil && len(result.children.queue.items) > 0 && jobQueue(result.children)
//@   trust [leafUntouched] result != nil ==> samearray(result.children.queue.items, old(result.children.queue.items)) && (forall i int :: 0 <= i && i < len(result.children.queue.items) ==> result.children.queue.items[i] == old(result.children.queue.items[i]))
//@   trust [leafJobsQueueKnown] result != nil && jo.ssn != nil && jo.ssn.ClusterInfo != nil ==> (forall i int :: 0 <= i && i < len(result.children.queue.items) ==> jobOf(result.children.queue.items[i]).Queue in jo.ssn.ClusterInfo.Queues && jo.ssn.ClusterInfo.Queues[jobOf(result.children.queue.items[i]).Queue] != nil)
//@   trust [linkedNodesNonEmpty] old(len(pq.queue.items)) > 0 ==> result != nil
//@ end

// handlePopFromNode: unregisters the node if it ran empty (and then its ancestors that ran empty), otherwise flags
// the ancestors. C10: no panic for a node whose parent chain satisfies parentsOK. Verified for: only registrations
// are removed (mapOK is kept), rootNodes stays. Not claimed: that the queue element removed from the parent is this
// node ("assumes the node requested for removal is at the top of its parent's priority queue": holds after
// traverseToLeaf, needs the chain of tops = an inductive predicate over the parent chain).
//@ func (*JobsOrderByQueues).handlePopFromNode
//@   props C10
//@   requires jo != nil && node != nil && node.children != nil && node.queue != nil && parentsOK()
//@   requires [rootExists] jo.rootNodes != nil
//@   modifies jo.queueNodes[*], family(node.needsReorder), family(jo.rootNodes.queue), family(jo.rootNodes.queue.items[*])
//@   ensures [onlyUnregisters] forall q in jo.queueNodes :: old(q in jo.queueNodes) && jo.queueNodes[q] == old(jo.queueNodes[q])
//@   ensures [parents] parentsOK()
//@ end

// ---- exec: the job order as used by the Execute loops of preempt / reclaim / consolidation (C05) ----------
// orderEmpty(jo): the answer of IsEmpty, now a function of the real state (no root queue, or an empty one).
//@ define orderEmpty(jo *JobsOrderByQueues) bool = jo.rootNodes == nil || len(jo.rootNodes.queue.items) == 0
//@ func (*JobsOrderByQueues).IsEmpty
//@   props C05 C10 C16
//@   assume jo != nil
//@   note assume jo != nil: the receiver; a nil *JobsOrderByQueues is the caller's no-panic matter (every caller uses the address of a value built by NewJobsOrderByQueues)
//@   pure
//@   ensures result == orderEmpty(jo)
//@ end

// PopNextJob. Verified against its body and the contracts of scheduler_util.PriorityQueue, handlePopFromNode and
// traverseToLeaf (verified bodies; the trusted CLAUSES of traverseToLeaf / getNextNode are listed there).
//  [emptyYieldsNil]      nothing comes out of an empty order
//  [nonEmptyYieldsJob]   (C05, as before) a non-empty order yields a job - rests on traverseToLeaf [linkedNodesNonEmpty]
//  [pushedNotPopped]     (C03/C06) the job returned was an element of the children queue of a leaf node: it was handed
//                        to PushJob (only PushJob adds to a leaf's queue) and not popped since
//  [bestOfLeaf]          (C16) it was the FIRST element of that leaf's queue, and if that queue satisfied the heap
//                        invariants under a strict-weak-order comparator, none of the leaf's jobs is ordered before it
//                        by the leaf's comparator (= createLeafNode$1 = the session's JobOrderFn: priority, then FIFO)
//  [poppedQueueKnown]    (requested by helper "exec2" for the re-push in allocate.Execute) the popped job's queue is in
//                        the session's queue map - rests on the trusted traverseToLeaf [leafJobsQueueKnown]
//  [victimRecorded]      a victims queue remembers the popped job under the leaf's queue
//  [inv]                 the object invariant is kept
//@ func (*JobsOrderByQueues).PopNextJob
//@   props C05 C16 C10 C03
//@   assume jo != nil && mapOK(jo) && parentsOK() && (jo.options.VictimQueue ==> jo.poppedJobsByQueue != nil)
//@   note assume: receiver non-nil (caller's matter) + object invariant (mapOK, parentsOK: proved at exit of PushJob and PopNextJob) + NewJobsOrderByQueues always makes poppedJobsByQueue
//@   assume [rootHoldsNodes] jo.rootNodes != nil ==> nodeQueue(jo.rootNodes)
//@   note assume [rootHoldsNodes]: same hereditary data invariant as getNextNode's trust clauses, for the root queue (only ensureAncestorChainForPush pushes into it, and only nodes); not re-proved at exit
//@   modifies jo.queueNodes[*], jo.poppedJobsByQueue[*], family(jo.rootNodes.queue), family(jo.queueNodes[""].needsReorder), family(jo.rootNodes.queue.items[*])
//@   ensures [emptyYieldsNil] old(orderEmpty(jo)) ==> result == nil
//@   ensures [nonEmptyYieldsJob] !old(orderEmpty(jo)) ==> result != nil
//@   ensures [pushedNotPopped] result != nil ==> (exists n *queueNode :: old(n != nil && n.isLeaf && n.children != nil && holdsJob(n.children, result)))
//@   ensures [bestOfLeaf] result != nil ==> (exists n *queueNode :: old(n != nil && n.isLeaf && n.children != nil && len(n.children.queue.items) > 0 && isJob(n.children.queue.items[0])) && result == old(jobOf(n.children.queue.items[0])) && (old(scheduler_util.pqOrdered(n.children)) ==> (forall j int :: 0 <= j && j < old(len(n.children.queue.items)) ==> !scheduler_util.lessV(old(n.children.queue.lessFn), old(n.children.queue.items[j]), old(n.children.queue.items[0])))))
//@   ensures [poppedQueueKnown] result != nil && jo.ssn != nil && jo.ssn.ClusterInfo != nil ==> result.Queue in jo.ssn.ClusterInfo.Queues && jo.ssn.ClusterInfo.Queues[result.Queue] != nil
//@   ensures [victimRecorded] result != nil && jo.options.VictimQueue ==> (exists k common_info.QueueID :: len(jo.poppedJobsByQueue[k]) == old(len(jo.poppedJobsByQueue[k])) + 1 && jo.poppedJobsByQueue[k][len(jo.poppedJobsByQueue[k]) - 1] == result)
//@   ensures [inv] mapOK(jo) && parentsOK()
//@ end

// Len: the number of queued jobs (sum over the registered leaves). C10 only: no panic under the object invariant, reads only.
//@ func (*JobsOrderByQueues).Len
//@   props C10
//@   assume jo != nil && mapOK(jo)
//@   note assume: receiver non-nil + object invariant mapOK
//@   pure
//@   loop 1
//@     invariant count >= 0
//@   ensures [nonNegative] result >= 0
//@ end
// ---- end exec ----

// ---- frame contracts requested by the solver/allocate units (actions/common) ------------------------------
// NewJobsOrderByQueues builds the order value (two fresh empty maps, the given session and options): executed in callers.
//@ func NewJobsOrderByQueues
//@   inline
//@ end

// A job is "pending" iff it has at least one Pending task; the result is a fresh map keyed by job UID.
//@ func GetAllPendingJobs
//@   props C05
//@   requires ssn != nil && ssn.ClusterInfo != nil
//@   requires forall k in ssn.ClusterInfo.PodGroupInfos :: ssn.ClusterInfo.PodGroupInfos[k] != nil
//@   requires allocated(ssn.ClusterInfo.PodGroupInfos)
//@   fresh
//@   loop 1
//@     invariant pendingJobs != ssn.ClusterInfo.PodGroupInfos && (forall k in ssn.ClusterInfo.PodGroupInfos :: ssn.ClusterInfo.PodGroupInfos[k] != nil)
//@     invariant forall u in pendingJobs :: memberOf(ssn.ClusterInfo.PodGroupInfos, pendingJobs[u]) && pendingJobs[u].UID == u && len(pendingJobs[u].PodStatusIndex[pod_status.Pending]) > 0
//@   ensures [onlyPendingSessionJobs] forall u in result :: memberOf(ssn.ClusterInfo.PodGroupInfos, result[u]) && result[u].UID == u && len(result[u].PodStatusIndex[pod_status.Pending]) > 0
//@ end

// Eviction message: string formatting plus the Session.Queue*Resources plugin callbacks (func-valued slices of
// plugin closures: outside the subset). Assumed: whatever it touches, it neither appends to nor rewrites any
// Statement log and no reverse operation fails inside it.
//@ func GetMessageOfEviction
//@   props C06 C13
//@   trusted
//@   note message formatting + calls through registered plugin callbacks (QueueAllocatedResources/QueueDeservedResources/QueueFairShare); assumed not to touch statement logs (framework.logsSame) nor the reverse-failure counter
//@   modifies *
//@   ensures framework.logsSame() && framework.reverseFailures() == old(framework.reverseFailures())
//@ end
