//go:build verif

// Contracts for govc (contract-based deductive verification); comments only.
package utils

//@ import v2alpha2 "github.com/NVIDIA/KAI-scheduler/pkg/apis/scheduling/v2alpha2"

// Ghost set: pushed(j) <=> job j has been handed to PushJob of some JobsOrderByQueues
// (i.e. is a candidate the action / the solver may pop; for a victims queue: a potential victim).
//@ ghost pushed(j *podgroup_info.PodGroupInfo) bool

// famJO(): some JobsOrderByQueues reference, used only to NAME whole heap families in `modifies family(...)`
// clauses of functions that create their JobsOrderByQueues themselves (no such object in the pre-state).
//@ declare famJO() *JobsOrderByQueues

// PushJob drives container/heap through scheduler_util.PriorityQueue with comparator closures and
// builds the queue-node tree recursively: outside the engine's subset. Assumed: it records at most
// the given job in `pushed` and otherwise writes only the order structure itself (queue nodes,
// priority queues, their item arrays) - never jobs, queues, options or the session.
//@ func (*JobsOrderByQueues).PushJob
//@   props C06 C16
//@   trusted
//@   note container/heap + comparator closures + recursive tree linking are outside the subset; assumed frame: only the order structure (queueNode / PriorityQueue objects, jo.queueNodes, jo.rootNodes) and the ghost flag of this job change
//@   requires jo != nil && job != nil
//@   modifies pushed(job), jo.queueNodes[*], jo.rootNodes, family(jo.rootNodes.queue), family(jo.rootNodes.maxQueueSize), family(jo.queueNodes[job.Queue].queue), family(jo.queueNodes[job.Queue].children), family(jo.queueNodes[job.Queue].needsReorder), family(jo.queueNodes[job.Queue].parent), family(jo.queueNodes[job.Queue].isLeaf), family(jo.rootNodes.queue.items[*])
//@ end

// C06: "Reclaim, preempt and consolidation never evict pods of non-preemptible workloads": a job is
// pushed only if it passes every filter flag that is switched on, its queue (and the queue's parent)
// exists and the queue is a leaf.
//@ define queueOK(jo *JobsOrderByQueues, j *podgroup_info.PodGroupInfo) bool = j.Queue in jo.ssn.ClusterInfo.Queues && (jo.ssn.ClusterInfo.Queues[j.Queue].ParentQueue != "" ==> jo.ssn.ClusterInfo.Queues[j.Queue].ParentQueue in jo.ssn.ClusterInfo.Queues) && len(jo.ssn.ClusterInfo.Queues[j.Queue].ChildQueues) == 0
// ready: every pod set has enough schedulable (alive, not gated) pods to reach its minimum
//@ define ready(j *podgroup_info.PodGroupInfo) bool = forall k in j.PodSets :: j.PodSets[k].numAliveTasks - len(j.PodSets[k].podStatusIndex[pod_status.Gated]) >= j.PodSets[k].minAvailable
//@ define flagsHold(jo *JobsOrderByQueues, j *podgroup_info.PodGroupInfo) bool = (jo.options.FilterNonPreemptible ==> j.Preemptibility == v2alpha2.Preemptible) && (jo.options.FilterUnready ==> ready(j)) && (jo.options.FilterNonPending ==> len(j.PodStatusIndex[pod_status.Pending]) > 0) && queueOK(jo, j)
//@ define memberOf(m map[common_info.PodGroupID]*podgroup_info.PodGroupInfo, j *podgroup_info.PodGroupInfo) bool = exists k in m :: m[k] == j

//@ func (*JobsOrderByQueues).InitializeWithJobs
//@   props C06
//@   requires jobsOrder != nil && jobsOrder.ssn != nil && jobsOrder.ssn.ClusterInfo != nil
//@   requires forall k in jobsToOrder :: podgroup_info.allTasksOK(jobsToOrder[k]) && podgroup_info.setsOK(jobsToOrder[k])
//@   requires forall q in jobsOrder.ssn.ClusterInfo.Queues :: jobsOrder.ssn.ClusterInfo.Queues[q] != nil
//@   modifies family(pushed(jobsToOrder[""])), family(jobsOrder.queueNodes[*]), family(jobsOrder.rootNodes), family(jobsOrder.rootNodes.queue), family(jobsOrder.rootNodes.maxQueueSize), family(jobsOrder.queueNodes[""].queue), family(jobsOrder.queueNodes[""].children), family(jobsOrder.queueNodes[""].needsReorder), family(jobsOrder.queueNodes[""].parent), family(jobsOrder.queueNodes[""].isLeaf), family(jobsOrder.rootNodes.queue.items[*])
//@   loop 1
//@     invariant forall j *podgroup_info.PodGroupInfo :: pushed(j) && !old(pushed(j)) ==> old(flagsHold(jobsOrder, j)) && old(memberOf(jobsToOrder, j))
//@   ensures [pushedOnlyFiltered] forall j *podgroup_info.PodGroupInfo :: pushed(j) && !old(pushed(j)) ==> old(flagsHold(jobsOrder, j))
//@   ensures [pushedOnlyGiven] forall j *podgroup_info.PodGroupInfo :: pushed(j) && !old(pushed(j)) ==> old(memberOf(jobsToOrder, j))
//@ end

// ---- GetVictimsQueue -----------------------------------------------------------------------------------
// filterHolds(f, j): victim filter f accepted job j. The filters passed by preempt and consolidation are the
// closures under contract in those packages (their posts say what acceptance implies); here the filter is an
// abstract parameter. Assumed frame of a filter call = the union of those two closures' frames.
//@ declare filterHolds(f ref, j ref) bool
//@ func param:GetVictimsQueue.filter
//@   props C06
//@   note assumed contract of the func-typed parameter: acceptance is recorded in the abstract predicate filterHolds; frame = the job's activeAllocatedCount cache cell pointer and int cells (the closures preempt.buildFilterFuncForPreempt$1 / consolidation.buildPreemptibleFilterFunc$1 write nothing else)
//@   modifies arg0.activeAllocatedCount, family(*arg0.activeAllocatedCount)
//@   ensures result ==> filterHolds(fn, arg0)
//@ end

// C06: the victims queue handed to the solver contains only session jobs that the action's filter accepted
// (DESIGN: "contents ⊆ {job | filter(job)}"), whose queue exists and is a leaf.
//@ func GetVictimsQueue
//@   props C06
//@   requires ssn != nil && ssn.ClusterInfo != nil
//@   requires forall k in ssn.ClusterInfo.PodGroupInfos :: podgroup_info.allTasksOK(ssn.ClusterInfo.PodGroupInfos[k]) && podgroup_info.setsOK(ssn.ClusterInfo.PodGroupInfos[k])
//@   requires forall q in ssn.ClusterInfo.Queues :: ssn.ClusterInfo.Queues[q] != nil
//@   modifies family(ssn.ClusterInfo.PodGroupInfos[""].activeAllocatedCount), family(*ssn.ClusterInfo.PodGroupInfos[""].activeAllocatedCount), family(pushed(ssn.ClusterInfo.PodGroupInfos[""])), family(famJO().queueNodes[*]), family(famJO().rootNodes), family(famJO().rootNodes.queue), family(famJO().rootNodes.maxQueueSize), family(famJO().queueNodes[""].queue), family(famJO().queueNodes[""].children), family(famJO().queueNodes[""].needsReorder), family(famJO().queueNodes[""].parent), family(famJO().queueNodes[""].isLeaf), family(famJO().rootNodes.queue.items[*])
//@   loop 1
//@     invariant forall k in preemptees :: podgroup_info.allTasksOK(preemptees[k]) && podgroup_info.setsOK(preemptees[k])
//@     invariant forall k in preemptees :: memberOf(ssn.ClusterInfo.PodGroupInfos, preemptees[k])
//@     invariant forall k in preemptees :: filter == nil || filterHolds(filter, preemptees[k])
//@   ensures [victimQueue] result != nil && result.options.VictimQueue
//@   ensures [onlyAccepted] forall j *podgroup_info.PodGroupInfo :: pushed(j) && !old(pushed(j)) ==> filter == nil || filterHolds(filter, j)
//@   ensures [onlySessionJobs] forall j *podgroup_info.PodGroupInfo :: pushed(j) && !old(pushed(j)) ==> memberOf(ssn.ClusterInfo.PodGroupInfos, j)
//@ end

// ---- pq: the order structure itself (helper "pq") ---------------------------------------------------------
// C16: "Priority, then FIFO, decides between equal workloads of a queue ... the allocate action never places a
// lower-priority one while leaving a higher-priority one unplaced". Every leaf queue keeps its jobs in a
// scheduler_util.PriorityQueue whose comparator is the closure createLeafNode$1: the session's JobOrderFn
// (priority plugins first, then creation time, then UID: contract framework.(*Session).JobOrderFn), negated for a
// victims queue (victims are taken in reverse order).
//@ define isJob(x interface{}) bool = typeis(x, "*podgroup_info.PodGroupInfo") && unbox(x, "*podgroup_info.PodGroupInfo") != nil
//@ define jobOf(x interface{}) *podgroup_info.PodGroupInfo = unbox(x, "*podgroup_info.PodGroupInfo")
//@ define isQN(x interface{}) bool = typeis(x, "*queueNode") && unbox(x, "*queueNode") != nil
//@ define qnOf(x interface{}) *queueNode = unbox(x, "*queueNode")
//@ define orderFnsOK(ssn *framework.Session) bool = ssn != nil && (forall i int :: 0 <= i && i < len(ssn.JobOrderFns) ==> ssn.JobOrderFns[i] != nil)

//@ func (*JobsOrderByQueues).createLeafNode$1
//@   props C16
//@   requires jo != nil && orderFnsOK(jo.ssn) && framework.isPG(l) && framework.isPG(r)
//@   note the requires are not checked at call sites: the closure is only called by container/heap (through priorityQueue.Less) on two elements of a leaf queue, which are non-nil jobs (invariant leafItemsOK below)
//@   pure
//@   ensures [fifoFallback] framework.jobNeutral(jo.ssn, l, r) ==> result == (jo.options.VictimQueue != framework.fifoLessJob(framework.pgOf(l), framework.pgOf(r)))
//@   ensures [firstPluginDecides] forall k int :: framework.jobDecider(jo.ssn, k, l, r) ==> result == (jo.options.VictimQueue != (framework.jobCmp(jo.ssn, k, l, r) < 0))
//@ end

//@ func (*JobsOrderByQueues).isRootQueue
//@   inline
//@ end

// -- data invariant of the order structure ---------------------------------------------------------------------
// A queueNode is only ever created by createLeafNode / createNonLeafNode, which give it a queue and a priority
// queue `children`; those two fields and isLeaf are never reassigned. The invariant is therefore stated for EVERY
// node that has a children queue ("alive"), not only for those currently registered in jo.queueNodes (nodes are
// unregistered when they run empty, but parent pointers to them may survive):
//   nodesOK   an alive node has a queue and a comparator; a parent pointer leads to an alive inner node (stated for
//             every node with a parent pointer: nothing but ensureAncestorChainForPush assigns one)
//   itemsOK   a leaf's children queue holds non-nil jobs, an inner node's holds alive nodes
//   sepOK     distinct alive nodes own distinct priority queues with distinct backing arrays
// and for one JobsOrderByQueues value jo:
//   rootOK    rootNodes, if present, holds alive nodes and shares nothing with a node's children queue
//   mapOK     every registered node is alive and registered under the UID of its queue
// Exported methods ASSUME the invariant at entry and PROVE it at exit (object invariant: the fields involved are
// unexported and written only by the functions of this file, all of which are under contract below; the
// constructor NewJobsOrderByQueues creates no node). Helpers require and ensure it.
//@ define alive(n *queueNode) bool = n != nil && n.children != nil
//@ define nodesOK() bool = (forall n *queueNode :: n != nil && n.children != nil ==> n.queue != nil && n.children.queue.lessFn != nil) && (forall n *queueNode :: n != nil && n.parent != nil ==> n.parent.children != nil && n.parent.queue != nil && !n.parent.isLeaf)
//@ define leafItemsOK() bool = forall n *queueNode, i int :: n != nil && n.children != nil && n.isLeaf && 0 <= i && i < len(n.children.queue.items) ==> isJob(n.children.queue.items[i])
//@ define innerItemsOK() bool = forall n *queueNode, i int :: n != nil && n.children != nil && !n.isLeaf && 0 <= i && i < len(n.children.queue.items) ==> isQN(n.children.queue.items[i]) && qnOf(n.children.queue.items[i]).children != nil
//@ define itemsOK() bool = leafItemsOK() && innerItemsOK()
//@ define sepOK() bool = forall n1 *queueNode, n2 *queueNode :: alive(n1) && alive(n2) && n1 != n2 ==> n1.children != n2.children && !samearray(n1.children.queue.items, n2.children.queue.items)
//@ define rootItemsOK(jo *JobsOrderByQueues) bool = jo.rootNodes != nil ==> jo.rootNodes.queue.lessFn != nil && (forall i int :: 0 <= i && i < len(jo.rootNodes.queue.items) ==> isQN(jo.rootNodes.queue.items[i]) && qnOf(jo.rootNodes.queue.items[i]).children != nil)
//@ define rootSepOK(jo *JobsOrderByQueues) bool = jo.rootNodes != nil ==> (forall n *queueNode :: alive(n) ==> n.children != jo.rootNodes && !samearray(n.children.queue.items, jo.rootNodes.queue.items))
//@ define mapOK(jo *JobsOrderByQueues) bool = forall q in jo.queueNodes :: alive(jo.queueNodes[q]) && jo.queueNodes[q].queue.UID == q
//@ define structOK() bool = nodesOK() && itemsOK() && sepOK()
//@ define joOK(jo *JobsOrderByQueues) bool = structOK() && rootItemsOK(jo) && rootSepOK(jo) && mapOK(jo)

// constructors of nodes: a fresh alive node with an empty children queue ordered by the leaf / node comparator
//@ func (*JobsOrderByQueues).createLeafNode
//@   props C16 C10
//@   requires jo != nil
//@   fresh
//@   ensures [node] result.queue == queue && result.isLeaf && result.parent == nil && !result.needsReorder
//@   ensures [children] result.children != nil && fresh(result.children) && fresh(result.children.queue.items) && len(result.children.queue.items) == 0 && result.children.queue.lessFn != nil
//@   ensures [depthBound] result.children.maxQueueSize == jo.options.MaxJobsQueueDepth
//@   ensures [ordered] scheduler_util.swo(result.children.queue.lessFn) ==> scheduler_util.pqOrdered(result.children)
//@ end

//@ func (*JobsOrderByQueues).createNonLeafNode
//@   props C10
//@   requires jo != nil
//@   fresh
//@   ensures [node] result.queue == queue && !result.isLeaf && result.parent == nil && !result.needsReorder
//@   ensures [children] result.children != nil && fresh(result.children) && fresh(result.children.queue.items) && len(result.children.queue.items) == 0 && result.children.queue.lessFn != nil
//@   ensures [unbounded] result.children.maxQueueSize == scheduler_util.QueueCapacityInfinite
//@ end

//@ func (*JobsOrderByQueues).buildNodeOrderFn
//@   inline
//@ end

// a priority queue of nodes (rootNodes or the children of an inner node): holds alive nodes only
//@ define nodeQueue(pq *scheduler_util.PriorityQueue) bool = pq != nil && (forall i int :: 0 <= i && i < len(pq.queue.items) ==> isQN(pq.queue.items[i]) && qnOf(pq.queue.items[i]).children != nil)
// its backing array is shared with no other node's children queue
//@ define sepFrom(pq *scheduler_util.PriorityQueue) bool = forall n *queueNode :: alive(n) && n.children != pq ==> !samearray(n.children.queue.items, pq.queue.items)
// the jobs of every leaf stay where they are (same queue object, same array, same cells)
//@ define leavesKept() bool = forall n *queueNode, i int :: old(alive(n)) && old(n.isLeaf) && 0 <= i && i < old(len(n.children.queue.items)) ==> n.children.queue.items[i] == old(n.children.queue.items[i])

// flags the node and all its ancestors; writes nothing else. Termination (the parent chain is acyclic because it
// follows the queue hierarchy) is not claimed.
//@ func (*JobsOrderByQueues).markAncestorsForReorder
//@   props C10
//@   modifies family(node.needsReorder)
//@ end

// getNextNode: the node at the top of a node queue, after re-sifting it while it is flagged. No claim about which
// node that is (the node comparators depend on the current best job below each node: no fixed order exists).
// Partial correctness: termination of the recursion (one flag is cleared per call) is not claimed.
//@ func (*JobsOrderByQueues).getNextNode
//@   props C10 C16
//@   requires structOK() && nodeQueue(pq) && sepFrom(pq)
//@   modifies pq.queue.items[*], family(qnOf(pq.queue.items[0]).needsReorder)
//@   ensures [nodes] nodesOK()
//@   ensures [leafItems] leafItemsOK()
//@   ensures [innerItems] innerItemsOK()
//@   ensures [sep] sepOK()
//@   ensures [nodeQueue] nodeQueue(pq)
//@   ensures [sepFrom] sepFrom(pq)
//@   ensures [top] result != nil ==> len(pq.queue.items) > 0 && qnOf(pq.queue.items[0]) == result && result.children != nil && len(result.children.queue.items) > 0
//@   ensures [foundUnlessPruningBroken] old(len(pq.queue.items) > 0 && (forall i int :: 0 <= i && i < len(pq.queue.items) ==> len(qnOf(pq.queue.items[i]).children.queue.items) > 0)) ==> result != nil
//@ end

//@ func (*JobsOrderByQueues).ensureRootNodesInitialized
//@   props C10
//@   requires jo != nil
//@   modifies jo.rootNodes
//@   ensures [kept] old(jo.rootNodes) != nil ==> jo.rootNodes == old(jo.rootNodes)
//@   ensures [created] old(jo.rootNodes) == nil ==> jo.rootNodes != nil && fresh(jo.rootNodes) && fresh(jo.rootNodes.queue.items) && len(jo.rootNodes.queue.items) == 0 && jo.rootNodes.queue.lessFn != nil && jo.rootNodes.maxQueueSize == scheduler_util.QueueCapacityInfinite
//@ end

// ---- exec: the job order as used by the Execute loops of preempt / reclaim / consolidation (C05) ----------
// The order structure is a tree of container/heap priority queues with comparator closures (outside the
// subset, like PushJob). orderEmpty(jo) is the abstract answer of IsEmpty. Assumed: IsEmpty reads only;
// PopNextJob writes only the order structure itself (queue nodes, priority queues and their item arrays,
// jo.queueNodes, jo.rootNodes, jo.poppedJobsByQueue) - never jobs, queues, the session or any other object -
// and, on a non-empty order, returns a job (the tree keeps no empty node linked: handlePopFromNode prunes
// them; getNextNode's "should never happen" branch). NB this holds only for orders built with
// MaxJobsQueueDepth != 0: with depth 0 PushJob links a leaf whose job queue immediately drops the job, the
// order is "not empty" and PopNextJob returns nil (reproduced on the real code, notes/exec_depth0_demo_test.go.txt);
// the Execute units that rely on [nonEmptyYieldsJob] therefore carry `requires [queueDepthNotZero]`.
//@ ghost orderEmpty(jo *JobsOrderByQueues) bool
//@ func (*JobsOrderByQueues).IsEmpty
//@   props C05
//@   trusted
//@   note container/heap priority queue (scheduler_util.PriorityQueue.Empty) is outside the subset; assumed read-only; the ghost orderEmpty names its answer
//@   pure
//@   ensures result == orderEmpty(jo)
//@ end
//@ func (*JobsOrderByQueues).PopNextJob
//@   props C05
//@   trusted
//@   note container/heap + comparator closures + recursive tree relinking are outside the subset; assumed frame: only the order structure (queueNode / PriorityQueue objects, jo.queueNodes, jo.rootNodes, jo.poppedJobsByQueue) changes; assumed: a non-empty order yields a job (pruning invariant of the tree)
//@   modifies orderEmpty(jo), jo.queueNodes[*], jo.rootNodes, jo.poppedJobsByQueue[*], family(jo.rootNodes.queue), family(jo.rootNodes.maxQueueSize), family(jo.queueNodes[""].queue), family(jo.queueNodes[""].children), family(jo.queueNodes[""].needsReorder), family(jo.queueNodes[""].parent), family(jo.queueNodes[""].isLeaf), family(jo.rootNodes.queue.items[*])
//@   ensures [nonEmptyYieldsJob] !old(orderEmpty(jo)) ==> result != nil
//@ end
// ---- end exec ----

// ---- frame contracts requested by the solver/allocate units (actions/common) ------------------------------
// NewJobsOrderByQueues builds the order value (two fresh empty maps, the given session and options): executed in callers.
//@ func NewJobsOrderByQueues
//@   inline
//@ end

// A job is "pending" iff it has at least one Pending task; the result is a fresh map keyed by job UID.
//@ func GetAllPendingJobs
//@   props C05
//@   requires ssn != nil && ssn.ClusterInfo != nil
//@   requires forall k in ssn.ClusterInfo.PodGroupInfos :: ssn.ClusterInfo.PodGroupInfos[k] != nil
//@   requires allocated(ssn.ClusterInfo.PodGroupInfos)
//@   fresh
//@   loop 1
//@     invariant pendingJobs != ssn.ClusterInfo.PodGroupInfos && (forall k in ssn.ClusterInfo.PodGroupInfos :: ssn.ClusterInfo.PodGroupInfos[k] != nil)
//@     invariant forall u in pendingJobs :: memberOf(ssn.ClusterInfo.PodGroupInfos, pendingJobs[u]) && pendingJobs[u].UID == u && len(pendingJobs[u].PodStatusIndex[pod_status.Pending]) > 0
//@   ensures [onlyPendingSessionJobs] forall u in result :: memberOf(ssn.ClusterInfo.PodGroupInfos, result[u]) && result[u].UID == u && len(result[u].PodStatusIndex[pod_status.Pending]) > 0
//@ end

// Eviction message: string formatting plus the Session.Queue*Resources plugin callbacks (func-valued slices of
// plugin closures: outside the subset). Assumed: whatever it touches, it neither appends to nor rewrites any
// Statement log and no reverse operation fails inside it.
//@ func GetMessageOfEviction
//@   props C06 C13
//@   trusted
//@   note message formatting + calls through registered plugin callbacks (QueueAllocatedResources/QueueDeservedResources/QueueFairShare); assumed not to touch statement logs (framework.logsSame) nor the reverse-failure counter
//@   modifies *
//@   ensures framework.logsSame() && framework.reverseFailures() == old(framework.reverseFailures())
//@ end
