//go:build verif

// Contracts for govc (contract-based deductive verification); comments only.
package consolidation

//@ import v2alpha2 "github.com/NVIDIA/KAI-scheduler/pkg/apis/scheduling/v2alpha2"

// C06: "Reclaim, preempt and consolidation never evict pods of non-preemptible workloads": the
// consolidation victim filter accepts only preemptible jobs other than the preemptor that have
// active allocated tasks (and only while the configured number of candidate jobs is not exceeded).
//@ define activeAlloc(j *podgroup_info.PodGroupInfo) int = *j.activeAllocatedCount
//@ define consolidationVictim(p *podgroup_info.PodGroupInfo, j *podgroup_info.PodGroupInfo, max int, counter int) bool = j.Preemptibility == v2alpha2.Preemptible && p.UID != j.UID && !(max != 0 - 1 && counter > max) && activeAlloc(j) > 0

//@ func buildPreemptibleFilterFunc$1
//@   props C06
//@   requires job != nil && preemptor != nil
//@   # data invariant of PodGroupInfo: the cached count exists and is a count
//@   requires job.activeAllocatedCount != nil && *job.activeAllocatedCount >= 0
//@   note frame: the captured counter cell cannot be named as a modifies target yet, so the whole family of int cells (family(*p)) is declared modified; the only int cell written is the captured counter
//@   modifies job.activeAllocatedCount, family(*job.activeAllocatedCount)
//@   ensures [eligibleVictim] result == old(consolidationVictim(preemptor, job, maxPreempteesToTest, preempteeJobsCounter))
//@   ensures [onlyPreemptible] result ==> job.Preemptibility == v2alpha2.Preemptible
//@   ensures [notSelf] result ==> job.UID != preemptor.UID
//@   ensures [hasActiveTasks] result ==> old(activeAlloc(job)) > 0
//@   ensures [counts] preempteeJobsCounter == old(preempteeJobsCounter) + ite(result, 1, 0)
//@ end

// ---- allPodsReallocated ------------------------------------------------------------------------------------
//@ import scn "github.com/NVIDIA/KAI-scheduler/pkg/scheduler/actions/common/solvers/scenario"
//@ import common_info "github.com/NVIDIA/KAI-scheduler/pkg/scheduler/api/common_info"
// The only caller (solvers.byPodSolver.handleScenarioSolution) passes a *scenario.ByNodeScenario, which embeds
// *BaseScenario; the contract is stated for that dynamic type (call-site fact, by_pod_solver.go:189).
//@ define baseOf(x api.ScenarioInfo) *scn.BaseScenario = unbox(x, "*scn.ByNodeScenario").BaseScenario
//@ define scenarioOK(x api.ScenarioInfo) bool = typeis(x, "*scn.ByNodeScenario") && unbox(x, "*scn.ByNodeScenario") != nil && baseOf(x) != nil && scn.sessionJobsOK(baseOf(x)) && scn.victimsSeparate(baseOf(x)) && (forall k in baseOf(x).victims :: baseOf(x).victims[k] != nil && scn.tasksKnown(baseOf(x), baseOf(x).victims[k]))
// C06: "consolidation evicts a pod only if the same decision re-places it on another node": the scenario
// validator accepts iff no victim task (as re-resolved to the session's current pod) is left Releasing,
// i.e. every evicted pod has been re-allocated/pipelined by the same statement.
//@ define noneReleasing(b *scn.BaseScenario) bool = forall k common_info.PodGroupID, i int :: k in b.victims && 0 <= i && i < len(b.victims[k].Tasks) ==> b.victims[k].Tasks[i].Status != pod_status.Releasing

// the same statement quantified over victim records instead of map keys (equivalent; easier for the solver in the converse direction)
//@ define isVictim(b *scn.BaseScenario, v *api.VictimInfo) bool = exists k in b.victims :: b.victims[k] == v
//@ define noneReleasingV(b *scn.BaseScenario) bool = forall v *api.VictimInfo, i int :: isVictim(b, v) && 0 <= i && i < len(v.Tasks) ==> v.Tasks[i].Status != pod_status.Releasing

//@ func allPodsReallocated
//@   props C06
//@   requires scenarioOK(scenario)
//@   nopanic off
//@   note nopanic off: a re-resolved victim task is nil when the pod is no longer listed in its job (GetVictims writes GetAllPodsMap()[uid]); excluding that needs the session-wide pod index invariant, not stated here
//@   modifies family(baseOf(scenario).victims[""].Tasks[*])
//@   loop 1
//@     invariant forall k common_info.PodGroupID, i int :: k in visited && k in baseOf(scenario).victims && 0 <= i && i < len(baseOf(scenario).victims[k].Tasks) ==> baseOf(scenario).victims[k].Tasks[i].Status != pod_status.Releasing
//@   loop 2
//@     invariant 0 - 1 <= rangeindex && rangeindex < len(victim.Tasks)
//@     invariant forall i int :: 0 <= i && i <= rangeindex ==> victim.Tasks[i].Status != pod_status.Releasing
//@     invariant isVictim(baseOf(scenario), victim)
//@     decreases len(victim.Tasks) - rangeindex
//@   ensures [acceptedOnlyIfAllReplaced] result ==> noneReleasing(baseOf(scenario))
//@   note the converse ("all replaced ==> accepted", formerly `ensures [allReplacedAccepted] noneReleasingV(baseOf(scenario)) ==> result`) is NOT claimed any more: C06 states only the direction above, and the converse was discharged for 3 of 8 solver seeds only (its proof has to instantiate the assumed quantifier at slice offset + (rangeindex + 1), which E-matching cannot find): a false alarm waiting to happen (DESIGN section 6)
//@ end

// ---- exec: the Execute loop (C05 / C06 / C03) -----------------------------------------------------------
//@ define sessionJobsOK(ssn *framework.Session) bool = (forall k in ssn.ClusterInfo.PodGroupInfos :: podgroup_info.allTasksOK(ssn.ClusterInfo.PodGroupInfos[k]) && podgroup_info.setsOK(ssn.ClusterInfo.PodGroupInfos[k])) && (forall q in ssn.ClusterInfo.Queues :: ssn.ClusterInfo.Queues[q] != nil)

//@ import solvers "github.com/NVIDIA/KAI-scheduler/pkg/scheduler/actions/common/solvers"
// One job: the body (GPU gate, then attemptToConsolidatePreemptor -> solvers.(*JobSolver).Solve) is verified; only the
// two facts named by `trust` are assumed (exec2; the whole function was `trusted` before).
// C03: a job is reported as served only if its gang is satisfied in the state the returned statement describes.
// C06: "Every such eviction is committed together with the bind or nomination of the workload it was made
// for": the statement handed back with success is the solver's statement and meets the preconditions of
// (*Statement).Commit. The ghost mark common.failedAttempt records the outcome for the caller's table.
//@ func attemptToConsolidateForPreemptor
//@   props C05 C06 C03 C10
//@   usestable Session.ClusterInfo
//@   requires ssn != nil && ssn.ClusterInfo != nil && job != nil
//@   modifies *
//@   ensures [failedHasNoStatement] !result0 ==> result1 == nil
//@   ensures [successMeansGangSatisfied] result0 ==> solvers.gangSat(job)
//@   trust [successIsCommittable] result0 ==> result1 != nil && framework.commitReady(result1) && framework.wfLog(result1) && framework.flatLog(result1)
//@   note trust [successIsCommittable]: not derivable from the contract of (*JobSolver).Solve (its result0 is computed from the job's counters after whole-heap havocs; "solved ==> the returned statement is the open, well-formed, flat log of the last prefix" needs the unmechanised exact-restoration argument of C13 - helper solver)
//@   trust [outcomeRecorded] common.failedAttempt(job) == !result0
//@   note trust [outcomeRecorded]: definition of the ghost mark (a ghost can only be written by an assumed clause); it carries "this job's attempt just failed" to the precondition [recordsOnlyFailedJobs] of UpdateRepresentative
//@ end

// C05: "scheduling-signature skipping must only prune hopeless scenarios". Consolidation victims are every
// preemptible job of the cluster, whatever the actor's queue (buildPreemptibleFilterFunc), so ONE action-wide
// table of failed jobs is intended: the table is declared cluster-wide (assume below; this is what exempts it
// from the one-queue discipline that preempt and reclaim must prove). A popped job is skipped only on the
// answer of that table (IsEasierToSchedule [falseNamesStoredRepresentative]: it lost against a stored failed
// job of its own signature), otherwise it is handed to attemptToConsolidateForPreemptor; stmt.Commit() is
// reached only with a statement a successful attempt returned (preconditions of Commit, proved at the call
// site); only a job whose attempt just failed is recorded (precondition [recordsOnlyFailedJobs] of
// UpdateRepresentative, proved at the call site). No panic on any path (a non-empty order yields a job).
// C05 "within one cycle": when consolidation is enabled the action ends only when the job order is empty - every candidate
// job was popped and either skipped for the reason above or attempted ([orderDrained]).
//@ func (*consolidationAction).Execute
//@   props C05 C06 C03
//@   usestable
//@   requires ssn != nil && ssn.ClusterInfo != nil && ssn.Config != nil && sessionJobsOK(ssn)
//@   requires [queueDepthNotZero] ssn.GetJobsDepth("consolidation") != 0
//@   assume forall r *common.MinimalJobRepresentatives :: common.clusterWide(r)
//@   note assume: design decision made explicit - consolidation's victims do not depend on the actor's queue, its table of failed jobs is shared by all queues
//@   modifies *
//@   loop 1
//@     modifies *
//@     invariant [tableWellFormed] common.repsWF(smallestFailedJobs)
//@   ensures [orderDrained] ssn.GetMaxNumberConsolidationPreemptees() != 0 ==> utils.orderEmpty(jobsOrderByQueues)
//@ end
// ---- end exec ----
