//go:build verif

// Contracts for govc (contract-based deductive verification); comments only.
package consolidation

//@ import v2alpha2 "github.com/NVIDIA/KAI-scheduler/pkg/apis/scheduling/v2alpha2"

// C06: "Reclaim, preempt and consolidation never evict pods of non-preemptible workloads": the
// consolidation victim filter accepts only preemptible jobs other than the preemptor that have
// active allocated tasks (and only while the configured number of candidate jobs is not exceeded).
//@ define activeAlloc(j *podgroup_info.PodGroupInfo) int = *j.activeAllocatedCount
//@ define consolidationVictim(p *podgroup_info.PodGroupInfo, j *podgroup_info.PodGroupInfo, max int, counter int) bool = j.Preemptibility == v2alpha2.Preemptible && p.UID != j.UID && !(max != 0 - 1 && counter > max) && activeAlloc(j) > 0

//@ func buildPreemptibleFilterFunc$1
//@   props C06
//@   requires job != nil && preemptor != nil
//@   # data invariant of PodGroupInfo: the cached count exists and is a count
//@   requires job.activeAllocatedCount != nil && *job.activeAllocatedCount >= 0
//@   note frame: the captured counter cell cannot be named as a modifies target yet, so the whole family of int cells (family(*p)) is declared modified; the only int cell written is the captured counter
//@   modifies job.activeAllocatedCount, family(*job.activeAllocatedCount)
//@   ensures [eligibleVictim] result == old(consolidationVictim(preemptor, job, maxPreempteesToTest, preempteeJobsCounter))
//@   ensures [onlyPreemptible] result ==> job.Preemptibility == v2alpha2.Preemptible
//@   ensures [notSelf] result ==> job.UID != preemptor.UID
//@   ensures [hasActiveTasks] result ==> old(activeAlloc(job)) > 0
//@   ensures [counts] preempteeJobsCounter == old(preempteeJobsCounter) + ite(result, 1, 0)
//@ end
