//go:build verif

// Contracts for govc (contract-based deductive verification); comments only.
package common

// C05 ("filters and shortcuts must only prune hopeless cases"): FeasibleNodesForJob drops a node
// only if the node has neither idle nor releasing GPU capacity (sumIdleGPUs / sumReleasingGPUs are
// node_info's ghost attributes = the values GetSumOfIdleGPUs / GetSumOfReleasingGPUs return).
//@ define hasGpuCapacity(n *node_info.NodeInfo) bool = node_info.sumIdleGPUs(n) > 0.0 || node_info.sumReleasingGPUs(n) > 0.0
// kept(n): ghost counter = number of nodes with GPU capacity among the first n nodes of the call's
// allNodes (recursive definition supplied by the `assume` clauses below; definitional extension).
// It gives the explicit position of a kept node in the filtered list, which avoids an existential.
//@ declare kept(n int) int

//@ func FeasibleNodesForJob
//@   props C05
//@   requires podgroup_info.allTasksOK(job) && podgroup_info.setsOK(job)
//@   requires forall i int :: 0 <= i && i < len(allNodes) ==> allNodes[i] != nil && allNodes[i].Idle != nil && allNodes[i].Releasing != nil
//@   requires forall k in job.PodSets :: forall id in job.PodSets[k].podInfos :: job.PodSets[k].podInfos[id].ResReq != nil
//@   assume kept(0) == 0
//@   assume forall n int :: 0 <= n && n < len(allNodes) ==> kept(n + 1) == kept(n) + ite(hasGpuCapacity(allNodes[n]), 1, 0)
//@   pure
//@   loop 2
//@     invariant 0 - 1 <= rangeindex && rangeindex < len(allNodes)
//@     invariant len(nodes) == kept(rangeindex + 1)
//@     invariant forall a int :: 0 <= a && a <= rangeindex + 1 ==> 0 <= kept(a) && kept(a) <= kept(rangeindex + 1)
//@     invariant forall i int :: 0 <= i && i <= rangeindex && hasGpuCapacity(allNodes[i]) ==> kept(i) < len(nodes) && nodes[kept(i)] == allNodes[i]
//@     decreases len(allNodes) - rangeindex
//@   # a node with idle or releasing GPU capacity is in the result: either the input list is returned as is
//@   # (position i), or the filtered list holds it at position kept(i)
//@   ensures [nodeWithGpuCapacityKept] forall i int :: 0 <= i && i < len(allNodes) && hasGpuCapacity(allNodes[i]) ==> (i < len(result) && result[i] == allNodes[i]) || (0 <= kept(i) && kept(i) < len(result) && result[kept(i)] == allNodes[i])
//@ end

// ================================================================================================
// The allocate path (allocate.go). C01 / C03 / C04.
// ================================================================================================
//@ import pod_status "github.com/NVIDIA/KAI-scheduler/pkg/scheduler/api/pod_status"

// C01: "Capacity held by pods that are only terminating ... is never handed to a bind": fitsIdle is the
// [top] post-predicate of node_info.(*NodeInfo).IsTaskAllocatable on the CURRENT heap - the request
// fits ni.Idle (not Idle+Releasing), or the task requests nothing.
//@ define fitsIdle(node *node_info.NodeInfo, task *pod_info.PodInfo) bool = node_info.bestEffort(task) || node_info.fitsAmount(node, task, node.Idle)
//@ define sharedReq(task *pod_info.PodInfo) bool = task.ResourceRequestType == "Fraction" || task.ResourceRequestType == "GpuMemory"
// what stmt.Allocate / stmt.Pipeline need (helper preconditions, from the framework contracts)
//@ define placeReady(ssn *framework.Session, stmt *framework.Statement, task *pod_info.PodInfo, node *node_info.NodeInfo) bool = ssn != nil && framework.stmtOK(stmt) && framework.wfLog(stmt) && task != nil && node != nil && (node.Name in stmt.ssn.ClusterInfo.Nodes ==> (forall k in stmt.ssn.ClusterInfo.Nodes[node.Name].PodInfos :: stmt.ssn.ClusterInfo.Nodes[node.Name].PodInfos[k] != nil))
// the log got exactly one new entry and it is an allocate (bind) entry / a pipeline (nominate) entry
//@ define boundNow(stmt *framework.Statement) bool = framework.appendedOne(stmt) && framework.isAllocateOp(framework.lastOp(stmt))
//@ define nominatedNow(stmt *framework.Statement) bool = framework.appendedOne(stmt) && framework.isPipelineOp(framework.lastOp(stmt))
//@ define logKept(stmt *framework.Statement) bool = len(stmt.operations) >= old(len(stmt.operations)) && (forall j int :: 0 <= j && j < old(len(stmt.operations)) ==> stmt.operations[j] == old(stmt.operations[j]))

// The only place of the allocate path that issues a real bind (stmt.Allocate). Its precondition IS the
// property: it is proved at every call site ("bind only what fits Idle").
//@ func bindTaskToNode
//@   props C01
//@   requires placeReady(ssn, stmt, task, node)
//@   requires fitsIdle(node, task)
//@   modifies *
//@   ensures [boundOnSuccess] result ==> boundNow(stmt) && task.Status == pod_status.Allocated && task.NodeName == old(node.Name)
//@   ensures [failureKeepsLog] !result ==> stmt.operations == old(stmt.operations)
//@ end

//@ func pipelineTaskToNode
//@   props C01
//@   requires placeReady(ssn, stmt, task, node)
//@   modifies *
//@   ensures [logKept] logKept(stmt)
//@   ensures [nominatedOnSuccess] updateTasksIfExistsOnNode && result ==> nominatedNow(stmt) && task.NodeName == old(node.Name)
//@ end

// STUB (weakest possible: anything may change, nothing is promised) so that the fractional branch is a call
// and not an inlined body; to be replaced by the gpu_sharing helper's own contract.
//@ func github.com/NVIDIA/KAI-scheduler/pkg/scheduler/gpu_sharing.AllocateFractionalGPUTaskToNode
//@   modifies *
//@   note stub in actions/common: the fractional decision (C02/C01) is under contract in gpu_sharing; here only "may change anything"
//@ end

//@ func allocateTaskToNode
//@   props C01
//@   requires placeReady(ssn, stmt, task, node)
//@   requires node_info.nodeReadable(node) && node_info.taskReadable(task)
//@   modifies *
//@   # C01 "IsTaskAllocatable (fits Idle) decides bind vs pipeline": a bind entry appears only if the request fitted Idle at entry
//@   ensures [bindOnlyIfFitsIdle] !old(sharedReq(task)) && !isPipelineOnly && result && boundNow(stmt) ==> old(fitsIdle(node, task))
//@   ensures [decisionIsIsTaskAllocatable] !old(sharedReq(task)) && !isPipelineOnly && result ==> (boundNow(stmt) <==> old(node.IsTaskAllocatable(task)))
//@   ensures [elseNominated] !old(sharedReq(task)) && !isPipelineOnly && result && !old(node.IsTaskAllocatable(task)) ==> nominatedNow(stmt)
//@   ensures [lenGrows] !old(sharedReq(task)) ==> len(stmt.operations) >= old(len(stmt.operations))
//@ end
