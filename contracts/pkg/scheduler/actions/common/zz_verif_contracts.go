//go:build verif

// Contracts for govc (contract-based deductive verification); comments only.
package common

// C05 ("filters and shortcuts must only prune hopeless cases"): FeasibleNodesForJob drops a node
// only if the node has neither idle nor releasing GPU capacity (sumIdleGPUs / sumReleasingGPUs are
// node_info's ghost attributes = the values GetSumOfIdleGPUs / GetSumOfReleasingGPUs return).
//@ define hasGpuCapacity(n *node_info.NodeInfo) bool = node_info.sumIdleGPUs(n) > 0.0 || node_info.sumReleasingGPUs(n) > 0.0
// kept(n): ghost counter = number of nodes with GPU capacity among the first n nodes of the call's
// allNodes (recursive definition supplied by the `assume` clauses below; definitional extension).
// It gives the explicit position of a kept node in the filtered list, which avoids an existential.
//@ declare kept(n int) int

//@ func FeasibleNodesForJob
//@   props C05
//@   requires podgroup_info.allTasksOK(job) && podgroup_info.setsOK(job)
//@   requires forall i int :: 0 <= i && i < len(allNodes) ==> allNodes[i] != nil && allNodes[i].Idle != nil && allNodes[i].Releasing != nil
//@   requires forall k in job.PodSets :: forall id in job.PodSets[k].podInfos :: job.PodSets[k].podInfos[id].ResReq != nil
//@   assume kept(0) == 0
//@   assume forall n int :: 0 <= n && n < len(allNodes) ==> kept(n + 1) == kept(n) + ite(hasGpuCapacity(allNodes[n]), 1, 0)
//@   pure
//@   loop 2
//@     invariant 0 - 1 <= rangeindex && rangeindex < len(allNodes)
//@     invariant len(nodes) == kept(rangeindex + 1)
//@     invariant forall a int :: 0 <= a && a <= rangeindex + 1 ==> 0 <= kept(a) && kept(a) <= kept(rangeindex + 1)
//@     invariant forall i int :: 0 <= i && i <= rangeindex && hasGpuCapacity(allNodes[i]) ==> kept(i) < len(nodes) && nodes[kept(i)] == allNodes[i]
//@     decreases len(allNodes) - rangeindex
//@   # a node with idle or releasing GPU capacity is in the result: either the input list is returned as is
//@   # (position i), or the filtered list holds it at position kept(i)
//@   ensures [nodeWithGpuCapacityKept] forall i int :: 0 <= i && i < len(allNodes) && hasGpuCapacity(allNodes[i]) ==> (i < len(result) && result[i] == allNodes[i]) || (0 <= kept(i) && kept(i) < len(result) && result[kept(i)] == allNodes[i])
//@ end
