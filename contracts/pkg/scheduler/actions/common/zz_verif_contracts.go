//go:build verif

// Contracts for govc (contract-based deductive verification); comments only.
package common

// C05 ("filters and shortcuts must only prune hopeless cases"): FeasibleNodesForJob drops a node
// only if the node has neither idle nor releasing GPU capacity (sumIdleGPUs / sumReleasingGPUs are
// node_info's ghost attributes = the values GetSumOfIdleGPUs / GetSumOfReleasingGPUs return).
//@ define hasGpuCapacity(n *node_info.NodeInfo) bool = node_info.sumIdleGPUs(n) > 0.0 || node_info.sumReleasingGPUs(n) > 0.0
// kept(n): ghost counter = number of nodes with GPU capacity among the first n nodes of the call's
// allNodes (recursive definition supplied by the `assume` clauses below; definitional extension).
// It gives the explicit position of a kept node in the filtered list, which avoids an existential.
//@ declare kept(n int) int

//@ func FeasibleNodesForJob
//@   props C05
//@   assume podgroup_info.allTasksOK(job) && podgroup_info.setsOK(job)
//@   assume forall i int :: 0 <= i && i < len(allNodes) ==> allNodes[i] != nil && allNodes[i].Idle != nil && allNodes[i].Releasing != nil
//@   assume forall k in job.PodSets :: forall id in job.PodSets[k].podInfos :: job.PodSets[k].podInfos[id].ResReq != nil
//@   note the three data-invariant assumes above were requires (exec2): the callers attemptTo* call this on maps.Values(ssn.ClusterInfo.Nodes) right after plugin hooks (`modifies *`), which re-establish neither the node nor the pod maps
//@   assume kept(0) == 0
//@   assume forall n int :: 0 <= n && n < len(allNodes) ==> kept(n + 1) == kept(n) + ite(hasGpuCapacity(allNodes[n]), 1, 0)
//@   pure
//@   loop 2
//@     invariant 0 - 1 <= rangeindex && rangeindex < len(allNodes)
//@     invariant len(nodes) == kept(rangeindex + 1)
//@     invariant forall a int :: 0 <= a && a <= rangeindex + 1 ==> 0 <= kept(a) && kept(a) <= kept(rangeindex + 1)
//@     invariant forall i int :: 0 <= i && i <= rangeindex && hasGpuCapacity(allNodes[i]) ==> kept(i) < len(nodes) && nodes[kept(i)] == allNodes[i]
//@     decreases len(allNodes) - rangeindex
//@   # a node with idle or releasing GPU capacity is in the result: either the input list is returned as is
//@   # (position i), or the filtered list holds it at position kept(i)
//@   ensures [nodeWithGpuCapacityKept] forall i int :: 0 <= i && i < len(allNodes) && hasGpuCapacity(allNodes[i]) ==> (i < len(result) && result[i] == allNodes[i]) || (0 <= kept(i) && kept(i) < len(result) && result[kept(i)] == allNodes[i])
//@ end

// ================================================================================================
// The allocate path (allocate.go). C01 / C03 / C04.
// ================================================================================================
//@ import pod_status "github.com/NVIDIA/KAI-scheduler/pkg/scheduler/api/pod_status"

// C01: "Capacity held by pods that are only terminating ... is never handed to a bind": fitsIdle is the
// [top] post-predicate of node_info.(*NodeInfo).IsTaskAllocatable on the CURRENT heap - the request
// fits ni.Idle (not Idle+Releasing), or the task requests nothing.
//@ define fitsIdle(node *node_info.NodeInfo, task *pod_info.PodInfo) bool = node_info.bestEffort(task) || node_info.fitsAmount(node, task, node.Idle)
//@ define sharedReq(task *pod_info.PodInfo) bool = task.ResourceRequestType == "Fraction" || task.ResourceRequestType == "GpuMemory"
// Environment of a statement operation. Like framework's Statement ops (which `assume` jobReady/nodeReady at
// entry), the units that call stmt.Allocate / stmt.Pipeline ASSUME at their own entry the session skeleton (stmtOK:
// session, cluster maps and handler list non-nil) and non-nil task / node, instead of making every caller carry
// them: callers read tasks and nodes from slices inside loops whose bodies call plugin callbacks and Rollback
// (`modifies *`), which re-establish neither (see report). The assumption is listed in the evidence.
//@ define envOK(stmt *framework.Statement, task *pod_info.PodInfo, node *node_info.NodeInfo) bool = framework.stmtOK(stmt) && task != nil && node != nil
// What callers DO carry (proved at every call site): session / statement pointers and the well-formed log.
//@ define placeReady(ssn *framework.Session, stmt *framework.Statement) bool = ssn != nil && stmt != nil && framework.wfLog(stmt)
// the log got exactly one new entry and it is an allocate (bind) entry / a pipeline (nominate) entry
//@ define boundNow(stmt *framework.Statement) bool = framework.appendedOne(stmt) && framework.isAllocateOp(framework.lastOp(stmt))
//@ define nominatedNow(stmt *framework.Statement) bool = framework.appendedOne(stmt) && framework.isPipelineOp(framework.lastOp(stmt))
//@ define prefixKept(stmt *framework.Statement) bool = forall j int :: 0 <= j && j < old(len(stmt.operations)) ==> stmt.operations[j] == old(stmt.operations[j])
//@ define lenGrows(stmt *framework.Statement) bool = len(stmt.operations) >= old(len(stmt.operations))
// some entry appended by this call is a bind (allocate) entry
//@ define bindAppended(stmt *framework.Statement) bool = exists j int :: old(len(stmt.operations)) <= j && j < len(stmt.operations) && framework.isAllocateOp(stmt.operations[j])
//@ define logKept(stmt *framework.Statement) bool = lenGrows(stmt) && prefixKept(stmt)

// The only place of the allocate path that issues a real bind (stmt.Allocate) for whole-GPU / CPU requests. Its
// precondition IS the property: it is proved at every call site ("bind only what fits Idle").
//@ func bindTaskToNode
//@   props C01 C03
//@   requires placeReady(ssn, stmt)
//@   requires fitsIdle(node, task)
//@   assume envOK(stmt, task, node)
//@   modifies *
//@   ensures [boundOnSuccess] result ==> boundNow(stmt) && task.Status == pod_status.Allocated && task.NodeName == old(node.Name)
//@   ensures [failureKeepsLen] !result ==> len(stmt.operations) == old(len(stmt.operations))
//@   ensures [lenGrows] lenGrows(stmt)
//@   ensures [prefixKept] prefixKept(stmt)
//@   ensures [wfKnownKept] framework.wfKnown(stmt)
//@   ensures [wfRevKept] framework.wfRev(stmt)
//@   ensures [wfBackKept] framework.wfBack(stmt)
//@   ensures [wfTaskKept] framework.wfTask(stmt)
//@   ensures [revFailMono] framework.revFailMono()
//@ end

//@ func pipelineTaskToNode
//@   props C01 C03
//@   requires placeReady(ssn, stmt)
//@   assume envOK(stmt, task, node)
//@   modifies *
//@   ensures [lenGrows] lenGrows(stmt)
//@   ensures [prefixKept] prefixKept(stmt)
//@   ensures [nominatedOnSuccess] updateTasksIfExistsOnNode && result ==> nominatedNow(stmt) && task.NodeName == old(node.Name)
//@   ensures [neverBinds] !bindAppended(stmt)
//@   ensures [wfKnownKept] framework.wfKnown(stmt)
//@   ensures [wfRevKept] framework.wfRev(stmt)
//@   ensures [wfBackKept] framework.wfBack(stmt)
//@   ensures [wfTaskKept] framework.wfTask(stmt)
//@   ensures [revFailMono] framework.revFailMono()
//@ end

//@ func allocateTaskToNode
//@   props C01 C03
//@   requires placeReady(ssn, stmt)
//@   assume envOK(stmt, task, node) && node_info.nodeReadable(node) && node_info.taskReadable(task)
//@   assume node.Name in stmt.ssn.ClusterInfo.Nodes ==> (forall k in stmt.ssn.ClusterInfo.Nodes[node.Name].PodInfos :: stmt.ssn.ClusterInfo.Nodes[node.Name].PodInfos[k] != nil)
//@   modifies *
//@   # (the three heavy clauses are `lemma`s: proved at exit like an ensures, but not copied into every caller's queries)
//@   # C01 "Capacity held by pods that are only terminating ... is never handed to a bind" / mechanism "IsTaskAllocatable (fits
//@   # Idle) decides bind vs pipeline in allocateTaskToNode": whatever the request type, a bind (allocate) entry is appended
//@   # only if the request fitted the node's Idle at entry, and never in a pipeline-only pass
//@   lemma [bindOnlyIfFitsIdle] bindAppended(stmt) ==> old(fitsIdle(node, task))
//@   ensures [pipelineOnlyNeverBinds] isPipelineOnly ==> !bindAppended(stmt)
//@   # whole-GPU / CPU-only requests: the decision IS IsTaskAllocatable evaluated on the entry state (both directions)
//@   lemma [decisionIsIsTaskAllocatable] !old(sharedReq(task)) && !isPipelineOnly && result ==> (boundNow(stmt) <==> old(node.IsTaskAllocatable(task)))
//@   lemma [elseNominated] !old(sharedReq(task)) && !isPipelineOnly && result && !old(node.IsTaskAllocatable(task)) ==> nominatedNow(stmt)
//@   ensures [oneEntryOnSuccess] !old(sharedReq(task)) && !isPipelineOnly && result ==> len(stmt.operations) == old(len(stmt.operations)) + 1
//@   ensures [lenGrows] lenGrows(stmt)
//@   ensures [prefixKept] prefixKept(stmt)
//@   ensures [wfKnownKept] framework.wfKnown(stmt)
//@   ensures [wfRevKept] framework.wfRev(stmt)
//@   ensures [wfBackKept] framework.wfBack(stmt)
//@   ensures [wfTaskKept] framework.wfTask(stmt)
//@   ensures [revFailMono] framework.revFailMono()
//@ end

// ---- (b) the gang protocol: allocateTask .. AllocateJob ------------------------------------------------------
// All units below are `nopanic off`: they read jobs, tasks, nodes and fit-error maps from the heap after plugin
// callbacks / Rollback (`modifies *`), whose non-nil-ness no contract carries; what IS proved is the log protocol.

// Error bookkeeping only (fit errors on the job); never touches a statement. (If the task's sub-group is not one of
// the job's pod sets, taskSubGroup is nil and GetNumActiveUsedTasks dereferences it: see report.)
//@ func handleFailedTaskAllocation
//@   props C03
//@   nopanic off
//@   modifies *
//@   ensures [logsSame] framework.logsSame()
//@   ensures [noReverse] framework.reverseFailures() == old(framework.reverseFailures())
//@ end

// One task: tries the candidate nodes in score order; FittingNode (plugin predicates, C04) gates every placement.
// The log only grows, earlier entries stay, and it stays well-formed (what Rollback needs).
//@ func allocateTask
//@   props C03 C04
//@   nopanic off
//@   usestable PodInfo.ResourceRequestType
//@   requires placeReady(ssn, stmt)
//@   modifies *
//@   loop 1
//@     modifies *
//@     invariant 0 - 1 <= rangeindex && rangeindex < len(orderedNodes)
//@     invariant !success
//@     invariant lenGrows(stmt)
//@     invariant prefixKept(stmt)
//@     invariant framework.wfKnown(stmt)
//@     invariant framework.wfRev(stmt)
//@     invariant framework.wfBack(stmt)
//@     invariant framework.wfTask(stmt)
//@     invariant framework.revFailMono()
//@     decreases len(orderedNodes) - rangeindex
//@   ensures [entryOnSuccess] success && !isPipelineOnly && !old(sharedReq(task)) ==> len(stmt.operations) >= old(len(stmt.operations)) + 1
//@   ensures [lenGrows] lenGrows(stmt)
//@   ensures [prefixKept] prefixKept(stmt)
//@   ensures [wfKnownKept] framework.wfKnown(stmt)
//@   ensures [wfRevKept] framework.wfRev(stmt)
//@   ensures [wfBackKept] framework.wfBack(stmt)
//@   ensures [wfTaskKept] framework.wfTask(stmt)
//@   ensures [revFailMono] framework.revFailMono()
//@ end

// C03: "the scheduler never binds fewer pods than needed to reach the minimum" / mechanism "Statement commit/discard
// per job": the tasks of one pod set on one node set - all or nothing. noShared: no fractional / GPU-memory request
// among the tasks (for those the number of log entries per placement is not pinned down by gpu_sharing's contract).
//@ define noShared(ts []*pod_info.PodInfo) bool = forall i int :: 0 <= i && i < len(ts) ==> !sharedReq(ts[i])
// hypothesis of the roll-back clauses: no stored ReverseOperation failed during the call (framework ghost counter);
// allocatePodSet / allocateSubGroupSet only LOG a failing Rollback, there is no program-visible trace of it.
//@ define noReverseFailure() bool = framework.reverseFailures() == old(framework.reverseFailures())

//@ func allocateTasksOnNodeSet
//@   props C03
//@   nopanic off
//@   usestable PodInfo.ResourceRequestType []*PodInfo
//@   requires placeReady(ssn, stmt)
//@   modifies *
//@   loop 1
//@     modifies *
//@     invariant 0 - 1 <= rangeindex && rangeindex < len(tasksToAllocate)
//@     invariant lenGrows(stmt)
//@     invariant prefixKept(stmt)
//@     invariant framework.wfKnown(stmt)
//@     invariant framework.wfRev(stmt)
//@     invariant framework.wfBack(stmt)
//@     invariant framework.wfTask(stmt)
//@     invariant framework.revFailMono()
//@     invariant !isPipelineOnly && old(noShared(tasksToAllocate)) ==> len(stmt.operations) >= old(len(stmt.operations)) + rangeindex + 1
//@     decreases len(tasksToAllocate) - rangeindex
//@   # "result == true ==> every task of tasksToAllocate was given to allocateTask successfully": one log entry per task at least
//@   ensures [allPlacedOnSuccess] result && !isPipelineOnly && old(noShared(tasksToAllocate)) ==> len(stmt.operations) >= old(len(stmt.operations)) + len(tasksToAllocate)
//@   ensures [lenGrows] lenGrows(stmt)
//@   ensures [prefixKept] prefixKept(stmt)
//@   ensures [wfKnownKept] framework.wfKnown(stmt)
//@   ensures [wfRevKept] framework.wfRev(stmt)
//@   ensures [wfBackKept] framework.wfBack(stmt)
//@   ensures [wfTaskKept] framework.wfTask(stmt)
//@   ensures [revFailMono] framework.revFailMono()
//@ end

// C03 / C04 mechanism "allocateSubGroupSet tries them with checkpoint/rollback": every node set the topology plugin
// offers is tried from the checkpoint taken right before; a failed attempt is rolled back before the next one.
// (c04c) C04 "all of its pods placed by a decision, together with its already active pods, lie in one domain": the
// topology plugin pins the domain of the ACTIVE pods of the pod sets it is handed, so the pod-set map given to
// ssn.SubsetNodesFn for a pod set must be exactly {its name: the pod set}. This is the pair of preconditions
// [podSetsCoverSubGroup] / [podSetsOnlyOfSubGroup] of (*Session).SubsetNodesFn (framework), proved here at the call
// (obligations allocatePodSet/pre#..): every pod set at or below the node named by &podSet.SubGroupInfo is in the map,
// and nothing else is.
//@ func allocatePodSet
//@   props C03 C04
//@   nopanic off
//@   usestable PodInfo.ResourceRequestType []*PodInfo
//@   requires placeReady(ssn, stmt)
//@   assume forall ps *subgroup_info.PodSet :: subgroup_info.belowSG(podSet.parent, podSet.name, ps) <==> ps == podSet
//@   note the assume is the leaf case of the definition of subgroup_info.belowSG (a pod-set node contains exactly itself); belowSG is constrained nowhere else in this unit
//@   modifies *
//@   loop 1
//@     modifies *
//@     invariant 0 - 1 <= rangeindex && rangeindex < len(nodeSets)
//@     invariant lenGrows(stmt)
//@     invariant prefixKept(stmt)
//@     invariant framework.wfKnown(stmt)
//@     invariant framework.wfRev(stmt)
//@     invariant framework.wfBack(stmt)
//@     invariant framework.wfTask(stmt)
//@     invariant framework.revFailMono()
//@     invariant noReverseFailure() ==> len(stmt.operations) == old(len(stmt.operations))
//@     decreases len(nodeSets) - rangeindex
//@   # "result == false ==> the statement is rolled back to the checkpoint taken at entry" (hypothesis: Rollback did not fail,
//@   # i.e. no reverse closure failed; a failing Rollback is only logged by the code)
//@   ensures [failedIsRolledBack] !result && noReverseFailure() ==> len(stmt.operations) == old(len(stmt.operations))
//@   ensures [allPlacedOnSuccess] result && !isPipelineOnly && old(noShared(tasksToAllocate)) ==> len(stmt.operations) >= old(len(stmt.operations)) + len(tasksToAllocate)
//@   ensures [lenGrows] lenGrows(stmt)
//@   ensures [prefixKept] prefixKept(stmt)
//@   ensures [wfKnownKept] framework.wfKnown(stmt)
//@   ensures [wfRevKept] framework.wfRev(stmt)
//@   ensures [wfBackKept] framework.wfBack(stmt)
//@   ensures [wfTaskKept] framework.wfTask(stmt)
//@   ensures [revFailMono] framework.revFailMono()
//@ end

// sort.Slice with a comparator closure over the session's plugin comparators: library call with a function value,
// outside the subset. Assumed: a copy of the input is returned in some order; nothing else changes.
//@ func orderedSubGroupSets
//@   props C03 C04
//@   trusted
//@   note sort.Slice + comparator closure (calls ssn.SubGroupSetOrderFn): outside the subset; assumed to return a permutation copy and to leave statements alone
//@   modifies *
//@   ensures [logsSame] framework.logsSame()
//@   ensures [noReverse] framework.reverseFailures() == old(framework.reverseFailures())
//@   ensures [sameLen] len(result) == len(subGroupSets)
//@   ensures [onlyInput] forall i int :: 0 <= i && i < len(result) ==> (exists j int :: 0 <= j && j < len(subGroupSets) && subGroupSets[j] == result[i])
//@ end
//@ func orderedPodSets
//@   props C03 C04
//@   trusted
//@   note sort.Slice + comparator closure (calls ssn.PodSetOrderFn): outside the subset; assumed to return a permutation copy and to leave statements alone
//@   modifies *
//@   ensures [logsSame] framework.logsSame()
//@   ensures [noReverse] framework.reverseFailures() == old(framework.reverseFailures())
//@   ensures [sameLen] len(result) == len(podSets)
//@   ensures [onlyInput] forall i int :: 0 <= i && i < len(result) ==> (exists j int :: 0 <= j && j < len(podSets) && podSets[j] == result[i])
//@ end

// the tasks of `tasks` whose sub-group is one of podSets, in order (C03: a pod set is handed exactly its own tasks)
//@ func filterTasksForPodSets
//@   props C03
//@   nopanic off
//@   loop 1
//@     invariant 0 - 1 <= rangeindex && rangeindex < len(tasks)
//@     invariant len(result) <= rangeindex + 1
//@     invariant forall i int :: 0 <= i && i < len(result) ==> (exists j int :: 0 <= j && j <= rangeindex && tasks[j] == result[i] && taskSG(tasks[j]) in podSets)
//@     decreases len(tasks) - rangeindex
//@   ensures [onlyOwnTasks] forall i int :: 0 <= i && i < len(result) ==> (exists j int :: 0 <= j && j < len(tasks) && tasks[j] == result[i] && taskSG(tasks[j]) in podSets)
//@   ensures [noMore] len(result) <= len(tasks)
//@ end
//@ func filterTasksForPodSet
//@   inline
//@ end
//@ define taskSG(t *pod_info.PodInfo) string = ite(len(t.SubGroupName) != 0, t.SubGroupName, "default")

// The children of a sub-group set on ONE node set: child sub-group sets first (recursively, each with its own
// checkpoint/rollback over the node sets of its own topology constraint: "constraints of nested sub-groups hold
// simultaneously with those of their parents" - a child only ever sees node sets derived from the parent's), then the
// pod sets. Any failure makes the whole attempt fail (the caller rolls back).
//@ func allocateSubGroupSetOnNodes
//@   props C03 C04
//@   nopanic off
//@   requires placeReady(ssn, stmt)
//@   modifies *
//@   loop 1
//@     modifies *
//@     invariant lenGrows(stmt)
//@     invariant prefixKept(stmt)
//@     invariant framework.wfKnown(stmt)
//@     invariant framework.wfRev(stmt)
//@     invariant framework.wfBack(stmt)
//@     invariant framework.wfTask(stmt)
//@     invariant framework.revFailMono()
//@   loop 2
//@     modifies *
//@     invariant lenGrows(stmt)
//@     invariant prefixKept(stmt)
//@     invariant framework.wfKnown(stmt)
//@     invariant framework.wfRev(stmt)
//@     invariant framework.wfBack(stmt)
//@     invariant framework.wfTask(stmt)
//@     invariant framework.revFailMono()
//@   ensures [lenGrows] lenGrows(stmt)
//@   ensures [prefixKept] prefixKept(stmt)
//@   ensures [wfKnownKept] framework.wfKnown(stmt)
//@   ensures [wfRevKept] framework.wfRev(stmt)
//@   ensures [wfBackKept] framework.wfBack(stmt)
//@   ensures [wfTaskKept] framework.wfTask(stmt)
//@   ensures [revFailMono] framework.revFailMono()
//@ end

// (c04c) C04 "When a workload or sub-group declares a required topology level, all of its pods placed by a decision,
// together with its already active pods, lie in one domain ... Constraints of nested sub-groups hold simultaneously with
// those of their parents": the pod-set map handed to ssn.SubsetNodesFn for a sub-group SET must name EVERY pod set at
// or below that set (also those with nothing to allocate in this decision: their active pods pin the domain) and
// nothing else - preconditions [podSetsCoverSubGroup] / [podSetsOnlyOfSubGroup] of (*Session).SubsetNodesFn, proved
// at the call (obligations allocateSubGroupSet/pre#..) from GetAllPodSets' [coversAllBelow] / [onlyBelow].
//@ func allocateSubGroupSet
//@   props C03 C04
//@   nopanic off
//@   requires placeReady(ssn, stmt)
//@   modifies *
//@   loop 1
//@     modifies *
//@     invariant 0 - 1 <= rangeindex && rangeindex < len(nodeSets)
//@     invariant lenGrows(stmt)
//@     invariant prefixKept(stmt)
//@     invariant framework.wfKnown(stmt)
//@     invariant framework.wfRev(stmt)
//@     invariant framework.wfBack(stmt)
//@     invariant framework.wfTask(stmt)
//@     invariant framework.revFailMono()
//@     invariant noReverseFailure() ==> len(stmt.operations) == old(len(stmt.operations))
//@     decreases len(nodeSets) - rangeindex
//@   # "a partially placed gang is never left in a statement that the action commits": a failed sub-group set leaves the
//@   # log as long as it was (hypothesis: no reverse closure failed, see noReverseFailure)
//@   ensures [failedIsRolledBack] !result && noReverseFailure() ==> len(stmt.operations) == old(len(stmt.operations))
//@   ensures [lenGrows] lenGrows(stmt)
//@   ensures [prefixKept] prefixKept(stmt)
//@   ensures [wfKnownKept] framework.wfKnown(stmt)
//@   ensures [wfRevKept] framework.wfRev(stmt)
//@   ensures [wfBackKept] framework.wfBack(stmt)
//@   ensures [wfTaskKept] framework.wfTask(stmt)
//@   ensures [revFailMono] framework.revFailMono()
//@ end

// C03 "Statement commit/discard per job" + C08 "no ancestor queue above its limit" (job-level capacity gate): the job is
// tried only if the queue-capacity callback accepts it - in EVERY mode, also in the pipeline-only simulations of
// reclaim / preempt / consolidation - and a failed attempt leaves the statement as it was.
//@ func AllocateJob
//@   props C03 C08
//@   nopanic off
//@   usestable PodGroupInfo.PodSets map[string]*subgroup_info.PodSet
//@   requires placeReady(ssn, stmt)
//@   assume podgroup_info.setsOK(job) && podgroup_info.allTasksOK(job)
//@   assume !fresh(stmt.operations)   // heap closedness: the log array reachable from the statement exists before the call
//@   modifies *
//@   ensures [capacityGateAlways] !framework.jobCapacityVerdict(ssn, job) ==> !result && len(stmt.operations) == old(len(stmt.operations))
//@   ensures [failedIsRolledBack] !result && noReverseFailure() ==> len(stmt.operations) == old(len(stmt.operations))
//@   ensures [lenGrows] lenGrows(stmt)
//@   ensures [prefixKept] prefixKept(stmt)
//@   ensures [wfKnownKept] framework.wfKnown(stmt)
//@   ensures [wfRevKept] framework.wfRev(stmt)
//@   ensures [wfBackKept] framework.wfBack(stmt)
//@   ensures [wfTaskKept] framework.wfTask(stmt)
//@   ensures [revFailMono] framework.revFailMono()
//@ end

// ---- solver ----
// (section owned by helper "solver" - it was lost once when this file was rewritten as a whole: please edit the
// file with Edit, not Write. alloc: when you put EvictAllPreemptees / GetJobsToAllocate /
// TryToVirtuallyAllocatePreemptorAndGetVictims under a VERIFIED contract, REPLACE the block here - a duplicate
// key is a parse error - and keep the clause tags, the solver layer is proved against them.)
// TRUSTED for now: EvictAllPreemptees calls Statement.Evict repeatedly (framework's statement operations are
// `modifies *` and do not re-establish stmtOK(s) for the next call); the other two sit above utils' queue code /
// AllocateJob. What is assumed is only how they treat the statement log they are given
// (C06 "evictions and preemptor pipeline share one Statement").
//@ func EvictAllPreemptees
//@   props C06
//@   trusted
//@   note trusted (to be replaced by a verified contract): the body calls stmt.Evict(task, ...) for the tasks of preempteeTasks in order and stops at the first error; Evict appends one evict entry for its task on success and leaves the log alone on error (framework [appendsOneEvict] [capturesTask] [errorKeepsLog])
//@   requires stmt != nil && framework.wfLog(stmt)
//@   modifies *
//@   ensures [wfKept] framework.wfLog(stmt)
//@   ensures [lenGrows] lenGrows(stmt)
//@   ensures [prefixKept] prefixKept(stmt)
//@   ensures [tasksKept] forall i int :: 0 <= i && i < len(preempteeTasks) ==> preempteeTasks[i] == old(preempteeTasks[i])
//@   ensures [onlyEvictsOfPreemptees] forall j int :: old(len(stmt.operations)) <= j && j < len(stmt.operations) ==> framework.isEvictOp(stmt.operations[j]) && (exists i int :: 0 <= i && i < len(preempteeTasks) && framework.opTask(stmt.operations[j]) == preempteeTasks[i])
//@   ensures [allEvictedOnSuccess] result == nil ==> len(stmt.operations) == old(len(stmt.operations)) + len(preempteeTasks)
//@ end
//@ func GetJobsToAllocate
//@   props C06
//@   trusted
//@   note trusted (to be replaced by a verified contract): builds a fresh JobsOrderByQueues from the pending jobs, the victims' jobs and the preemptor (utils.GetAllPendingJobs / NewJobsOrderByQueues / InitializeWithJobs); touches no statement
//@   # frame = the frame of utils.(*JobsOrderByQueues).InitializeWithJobs (the order structure and the ghost `pushed`): no statement log, no task list
//@   modifies family(utils.pushed(preemptor)), family(utils.famJO().queueNodes[*]), family(utils.famJO().rootNodes), family(utils.famJO().rootNodes.queue), family(utils.famJO().rootNodes.maxQueueSize), family(utils.famJO().queueNodes[""].queue), family(utils.famJO().queueNodes[""].children), family(utils.famJO().queueNodes[""].needsReorder), family(utils.famJO().queueNodes[""].parent), family(utils.famJO().queueNodes[""].isLeaf), family(utils.famJO().rootNodes.queue.items[*])
//@   ensures [resultNonNil] result != nil
//@ end
//@ func TryToVirtuallyAllocatePreemptorAndGetVictims
//@   props C06
//@   trusted
//@   note trusted (to be replaced by a verified contract): places jobs only through AllocateJob(ssn, stmt, ...), i.e. stmt.Allocate / stmt.Pipeline / stmt.Rollback of the statement it is given; these keep the log well-formed and its prefix (AllocateJob [lenGrows] [prefixKept] [wf*Kept]); no claim about WHICH entries are appended
//@   requires stmt != nil && framework.wfLog(stmt)
//@   modifies *
//@   ensures [wfKept] framework.wfLog(stmt)
//@   ensures [lenGrows] lenGrows(stmt)
//@   ensures [prefixKept] prefixKept(stmt)
//@   ensures [tasksKept] forall i int :: 0 <= i && i < len(preempteeTasks) ==> preempteeTasks[i] == old(preempteeTasks[i])
//@ end
// ---- end solver ----

// ---- exec: MinimalJobRepresentatives ----
// C05: "scenario filters and scheduling-signature skipping must only prune hopeless scenarios" / "a wrong
// job-signature shortcut ... silently starves workloads". A MinimalJobRepresentatives object is the table of
// jobs that already FAILED in the current action run, one (the smallest) per scheduling signature. A later
// job is skipped only if the table holds a representative under the job's own signature and the job is not
// easier to schedule than that representative.
//@ import common_info "github.com/NVIDIA/KAI-scheduler/pkg/scheduler/api/common_info"
// the representatives field is set by NewMinimalJobRepresentatives only; the tables' maps are written by
// UpdateRepresentative only (which only the Execute loops of the actions call)
//@ stable MinimalJobRepresentatives.representatives
//@ stable maptype map[common_info.SchedulingConstraintsSignature]*podgroup_info.PodGroupInfo
// sigOf(j): the job's cached scheduling signature (what GetSchedulingConstraintsSignature returns once filled)
//@ define sigOf(j *podgroup_info.PodGroupInfo) common_info.SchedulingConstraintsSignature = j.schedulingConstraintsSignature
// set view of the stored representatives
//@ define isRep(m *MinimalJobRepresentatives, j *podgroup_info.PodGroupInfo) bool = exists k in m.representatives :: m.representatives[k] == j
//@ define repsEmpty(m *MinimalJobRepresentatives) bool = forall k common_info.SchedulingConstraintsSignature :: !(k in m.representatives)
//@ define repsWF(m *MinimalJobRepresentatives) bool = m != nil && m.representatives != nil && (forall k in m.representatives :: m.representatives[k] != nil)
// every stored representative belongs to queue q
//@ define repsAllInQueue(m *MinimalJobRepresentatives, q common_info.QueueID) bool = forall k in m.representatives :: m.representatives[k].Queue == q
// Scope discipline of a table. The victims of preempt ("of its own queue") and reclaim ("of another queue")
// depend on the actor's queue, so a failure says something only about later jobs of the SAME queue: their
// tables hold jobs of one queue and are consulted / updated with jobs of that queue only. Consolidation's
// victims do not depend on the actor's queue: its single table is declared cluster-wide (assumption of
// consolidation.Execute). clusterWide is an uninterpreted marker; nothing is known about it unless assumed.
//@ declare clusterWide(m ref) bool
//@ define scopeOK(m *MinimalJobRepresentatives, j *podgroup_info.PodGroupInfo) bool = clusterWide(m) || repsAllInQueue(m, j.Queue)
// failedAttempt(j): the action's attempt for job j (attemptToPreemptForPreemptor / attemptToReclaimForSpecificJob /
// attemptToConsolidateForPreemptor) has just returned "not succeeded". Written only by the contracts of those
// three functions; a table accepts a job only with this mark ("representative of the jobs that FAILED").
//@ ghost failedAttempt(j *podgroup_info.PodGroupInfo) bool
// what the tables depend on and an attempt (solver run) leaves alone: the contents of every table that existed
// before, and the Queue of every job that existed before
//@ define tablesKept() bool = forall mm map[common_info.SchedulingConstraintsSignature]*podgroup_info.PodGroupInfo, k common_info.SchedulingConstraintsSignature :: old(allocated(mm)) ==> (k in mm) == old(k in mm) && mm[k] == old(mm[k])
//@ define jobsKept() bool = forall j *podgroup_info.PodGroupInfo :: old(allocated(j)) ==> j.Queue == old(j.Queue)

// sort.Slice with a comparator closure is outside the subset. Assumed: a new slice holding exactly the
// requests of the given tasks (same length, every entry is some task's ResReq); nothing else is written.
//@ func extractSortedResourceRequests
//@   props C05
//@   trusted
//@   note sort.Slice + comparator closure are outside the subset; assumed: result is a new slice, a permutation of the tasks' ResReq pointers
//@   pure
//@   ensures len(result) == len(tasks)
//@   ensures forall i int :: 0 <= i && i < len(result) ==> (exists j int :: 0 <= j && j < len(tasks) && result[i] == tasks[j].ResReq)
//@ end

// "podGroup1 is easier to schedule than podGroup2" (the answer that lets a job be tried although a job of its
// signature already failed): never without pending pods on both sides; always when podGroup1 has fewer pending
// pods. pendingTasks1/2 are the function's own locals (the slices GetPendingTasks returned), hence lemmas.
// Not decided here: the position-wise comparison of the sorted request lists (sort.Slice and the uncontracted
// ResourceRequirements.LessEqual are opaque to the engine).
//@ func jobEasierToScheduleComparison
//@   props C05
//@   requires podGroup1 != nil && podGroup2 != nil
//@   pure
//@   nopanic off
//@   note nopanic off: the pending pods' ResReq pointers are non-nil by the PodInfo data invariant, not restated here
//@   loop 1
//@     invariant 0 - 1 <= rangeindex && rangeindex < len(pg1TasksResources)
//@     decreases len(pg1TasksResources) - rangeindex
//@   lemma [neverEasierWithoutPendingPods] result ==> len(pendingTasks1) > 0 && len(pendingTasks2) > 0
//@   lemma [fewerPodsIsEasier] len(pendingTasks1) > 0 && len(pendingTasks2) > len(pendingTasks1) ==> result
//@ end

// "podGroup1 has the smaller footprint" (the answer that lets a newly failed job REPLACE the stored representative)
//@ func isPodGroupFootprintSmaller
//@   props C05
//@   requires podGroup1 != nil && podGroup2 != nil
//@   pure
//@   nopanic off
//@   note nopanic off: the pending pods' ResReq pointers are non-nil by the PodInfo data invariant, not restated here
//@   loop 1
//@     invariant 0 - 1 <= rangeindex && rangeindex < len(pg1TasksResources)
//@     decreases len(pg1TasksResources) - rangeindex
//@   lemma [neverSmallerWithoutPendingPods] result ==> len(pendingTasks1) > 0 && len(pendingTasks2) > 0
//@   lemma [morePodsIsNotSmaller] len(pendingTasks1) > len(pendingTasks2) ==> !result
//@ end

// "an empty object always answers true"
//@ func NewMinimalJobRepresentatives
//@   props C05
//@   fresh
//@   ensures [startsEmpty] result.representatives != nil && fresh(result.representatives) && repsEmpty(result)
//@ end

// "IsEasierToSchedule(job) returns (false, other) only if `other` is a representative stored in THIS object under
// job's scheduling signature" and the answer is the comparison of job against that representative.
//@ func (*MinimalJobRepresentatives).IsEasierToSchedule
//@   props C05
//@   requires repsWF(m) && otherJob != nil
//@   requires [ownQueueScope] scopeOK(m, otherJob)
//@   modifies otherJob.schedulingConstraintsSignature, family(otherJob.PodSets[""].schedulingConstraintsSignature), family(otherJob.PodSets[""].podInfos[""].schedulingConstraintsSignature), family(otherJob.PodSets[""].topologyConstraint.schedulingConstraintsSignature)
//@   ensures [emptyTableAnswersTrue] old(repsEmpty(m)) ==> result0 && result1 == nil
//@   ensures [unknownSignatureAnswersTrue] !(sigOf(otherJob) in m.representatives) ==> result0 && result1 == nil
//@   ensures [falseNamesStoredRepresentative] !result0 ==> sigOf(otherJob) in m.representatives && result1 == m.representatives[sigOf(otherJob)] && isRep(m, result1)
//@   lemma [answerIsTheComparison] found ==> result0 == jobEasierToScheduleComparison(otherJob, representative)
//@   ensures [skipOnlyWithinScope] !result0 && !clusterWide(m) ==> result1.Queue == otherJob.Queue
//@ end

// "UpdateRepresentative stores the job under its signature only" - and only a job whose attempt just failed.
//@ func (*MinimalJobRepresentatives).UpdateRepresentative
//@   props C05
//@   requires repsWF(m) && newJob != nil
//@   requires [ownQueueScope] scopeOK(m, newJob)
//@   requires [recordsOnlyFailedJobs] failedAttempt(newJob)
//@   modifies m.representatives[*], newJob.schedulingConstraintsSignature, family(newJob.PodSets[""].schedulingConstraintsSignature), family(newJob.PodSets[""].podInfos[""].schedulingConstraintsSignature), family(newJob.PodSets[""].topologyConstraint.schedulingConstraintsSignature)
//@   ensures [storesUnderOwnSignatureOnly] forall k common_info.SchedulingConstraintsSignature :: k != sigOf(newJob) ==> (k in m.representatives) == old(k in m.representatives) && m.representatives[k] == old(m.representatives[k])
//@   ensures [ownSlotFilled] sigOf(newJob) in m.representatives
//@   ensures [firstFailureRecorded] forall k common_info.SchedulingConstraintsSignature :: k == sigOf(newJob) && !old(k in m.representatives) ==> m.representatives[k] == newJob
//@   ensures [onlyThisJobAdded] forall k in m.representatives :: m.representatives[k] == newJob || (old(k in m.representatives) && m.representatives[k] == old(m.representatives[k]))
//@   ensures [scopeKept] old(repsAllInQueue(m, newJob.Queue)) ==> repsAllInQueue(m, newJob.Queue)
//@   ensures [wfKept] repsWF(m)
//@ end
// ---- end exec ----
