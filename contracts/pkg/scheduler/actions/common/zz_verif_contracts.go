//go:build verif

// Contracts for govc (contract-based deductive verification); comments only.
package common

// C05 ("filters and shortcuts must only prune hopeless cases"): FeasibleNodesForJob drops a node
// only if the node has neither idle nor releasing GPU capacity (sumIdleGPUs / sumReleasingGPUs are
// node_info's ghost attributes = the values GetSumOfIdleGPUs / GetSumOfReleasingGPUs return).
//@ define hasGpuCapacity(n *node_info.NodeInfo) bool = node_info.sumIdleGPUs(n) > 0.0 || node_info.sumReleasingGPUs(n) > 0.0
// kept(n): ghost counter = number of nodes with GPU capacity among the first n nodes of the call's
// allNodes (recursive definition supplied by the `assume` clauses below; definitional extension).
// It gives the explicit position of a kept node in the filtered list, which avoids an existential.
//@ declare kept(n int) int

//@ func FeasibleNodesForJob
//@   props C05
//@   requires podgroup_info.allTasksOK(job) && podgroup_info.setsOK(job)
//@   requires forall i int :: 0 <= i && i < len(allNodes) ==> allNodes[i] != nil && allNodes[i].Idle != nil && allNodes[i].Releasing != nil
//@   requires forall k in job.PodSets :: forall id in job.PodSets[k].podInfos :: job.PodSets[k].podInfos[id].ResReq != nil
//@   assume kept(0) == 0
//@   assume forall n int :: 0 <= n && n < len(allNodes) ==> kept(n + 1) == kept(n) + ite(hasGpuCapacity(allNodes[n]), 1, 0)
//@   pure
//@   loop 2
//@     invariant 0 - 1 <= rangeindex && rangeindex < len(allNodes)
//@     invariant len(nodes) == kept(rangeindex + 1)
//@     invariant forall a int :: 0 <= a && a <= rangeindex + 1 ==> 0 <= kept(a) && kept(a) <= kept(rangeindex + 1)
//@     invariant forall i int :: 0 <= i && i <= rangeindex && hasGpuCapacity(allNodes[i]) ==> kept(i) < len(nodes) && nodes[kept(i)] == allNodes[i]
//@     decreases len(allNodes) - rangeindex
//@   # a node with idle or releasing GPU capacity is in the result: either the input list is returned as is
//@   # (position i), or the filtered list holds it at position kept(i)
//@   ensures [nodeWithGpuCapacityKept] forall i int :: 0 <= i && i < len(allNodes) && hasGpuCapacity(allNodes[i]) ==> (i < len(result) && result[i] == allNodes[i]) || (0 <= kept(i) && kept(i) < len(result) && result[kept(i)] == allNodes[i])
//@ end

// ================================================================================================
// The allocate path (allocate.go). C01 / C03 / C04.
// ================================================================================================
//@ import pod_status "github.com/NVIDIA/KAI-scheduler/pkg/scheduler/api/pod_status"

// C01: "Capacity held by pods that are only terminating ... is never handed to a bind": fitsIdle is the
// [top] post-predicate of node_info.(*NodeInfo).IsTaskAllocatable on the CURRENT heap - the request
// fits ni.Idle (not Idle+Releasing), or the task requests nothing.
//@ define fitsIdle(node *node_info.NodeInfo, task *pod_info.PodInfo) bool = node_info.bestEffort(task) || node_info.fitsAmount(node, task, node.Idle)
//@ define sharedReq(task *pod_info.PodInfo) bool = task.ResourceRequestType == "Fraction" || task.ResourceRequestType == "GpuMemory"
// Environment of a statement operation. Like framework's Statement ops (which `assume` jobReady/nodeReady at
// entry), the units that call stmt.Allocate / stmt.Pipeline ASSUME the session skeleton (stmtOK: session,
// cluster maps and handler list are non-nil) at their own entry instead of making every caller carry it through
// plugin callbacks and Rollback (neither re-establishes it, see report); the assumption is listed in the evidence.
//@ define envOK(stmt *framework.Statement, node *node_info.NodeInfo) bool = framework.stmtOK(stmt) && (node != nil && node.Name in stmt.ssn.ClusterInfo.Nodes ==> (forall k in stmt.ssn.ClusterInfo.Nodes[node.Name].PodInfos :: stmt.ssn.ClusterInfo.Nodes[node.Name].PodInfos[k] != nil))
// What callers DO carry (proved at every call site): non-nil arguments and the well-formed log.
//@ define placeReady(ssn *framework.Session, stmt *framework.Statement, task *pod_info.PodInfo, node *node_info.NodeInfo) bool = ssn != nil && stmt != nil && framework.wfLog(stmt) && task != nil && node != nil
// the log got exactly one new entry and it is an allocate (bind) entry / a pipeline (nominate) entry
//@ define boundNow(stmt *framework.Statement) bool = framework.appendedOne(stmt) && framework.isAllocateOp(framework.lastOp(stmt))
//@ define nominatedNow(stmt *framework.Statement) bool = framework.appendedOne(stmt) && framework.isPipelineOp(framework.lastOp(stmt))
//@ define prefixKept(stmt *framework.Statement) bool = forall j int :: 0 <= j && j < old(len(stmt.operations)) ==> stmt.operations[j] == old(stmt.operations[j])
//@ define lenGrows(stmt *framework.Statement) bool = len(stmt.operations) >= old(len(stmt.operations))
//@ define logKept(stmt *framework.Statement) bool = lenGrows(stmt) && prefixKept(stmt)

// The only place of the allocate path that issues a real bind (stmt.Allocate). Its precondition IS the
// property: it is proved at every call site ("bind only what fits Idle").
//@ func bindTaskToNode
//@   props C01 C03
//@   requires placeReady(ssn, stmt, task, node)
//@   requires fitsIdle(node, task)
//@   assume envOK(stmt, node)
//@   modifies *
//@   ensures [boundOnSuccess] result ==> boundNow(stmt) && task.Status == pod_status.Allocated && task.NodeName == old(node.Name)
//@   ensures [failureKeepsLen] !result ==> len(stmt.operations) == old(len(stmt.operations))
//@   ensures [lenGrows] lenGrows(stmt)
//@   ensures [prefixKept] prefixKept(stmt)
//@   ensures [wfKnownKept] framework.wfKnown(stmt)
//@   ensures [wfRevKept] framework.wfRev(stmt)
//@   ensures [wfBackKept] framework.wfBack(stmt)
//@   ensures [wfTaskKept] framework.wfTask(stmt)
//@ end

//@ func pipelineTaskToNode
//@   props C01 C03
//@   requires placeReady(ssn, stmt, task, node)
//@   assume envOK(stmt, node)
//@   modifies *
//@   ensures [lenGrows] lenGrows(stmt)
//@   ensures [prefixKept] prefixKept(stmt)
//@   ensures [nominatedOnSuccess] updateTasksIfExistsOnNode && result ==> nominatedNow(stmt) && task.NodeName == old(node.Name)
//@   ensures [wfKnownKept] framework.wfKnown(stmt)
//@   ensures [wfRevKept] framework.wfRev(stmt)
//@   ensures [wfBackKept] framework.wfBack(stmt)
//@   ensures [wfTaskKept] framework.wfTask(stmt)
//@ end

//@ func allocateTaskToNode
//@   props XALLOC
//@   requires placeReady(ssn, stmt, task, node)
//@   assume envOK(stmt, node) && node_info.nodeReadable(node) && node_info.taskReadable(task)
//@   modifies *
//@   # C01 "IsTaskAllocatable (fits Idle) decides bind vs pipeline": a bind entry appears only if the request fitted Idle at entry
//@   ensures [bindOnlyIfFitsIdle] !old(sharedReq(task)) && !isPipelineOnly && result && boundNow(stmt) ==> old(fitsIdle(node, task))
//@   ensures [decisionIsIsTaskAllocatable] !old(sharedReq(task)) && !isPipelineOnly && result ==> (boundNow(stmt) <==> old(node.IsTaskAllocatable(task)))
//@   ensures [elseNominated] !old(sharedReq(task)) && !isPipelineOnly && result && !old(node.IsTaskAllocatable(task)) ==> nominatedNow(stmt)
//@   ensures [lenGrows] !old(sharedReq(task)) ==> lenGrows(stmt)
//@   ensures [prefixKept] !old(sharedReq(task)) ==> prefixKept(stmt)
//@   ensures [wfKnownKept] !old(sharedReq(task)) ==> framework.wfKnown(stmt)
//@   ensures [wfRevKept] !old(sharedReq(task)) ==> framework.wfRev(stmt)
//@   ensures [wfBackKept] !old(sharedReq(task)) ==> framework.wfBack(stmt)
//@   ensures [wfTaskKept] !old(sharedReq(task)) ==> framework.wfTask(stmt)
//@ end

// ---- solver ----
// (section owned by helper "solver"; alloc: when you put EvictAllPreemptees / GetJobsToAllocate /
// TryToVirtuallyAllocatePreemptorAndGetVictims under a VERIFIED contract, REPLACE the block here - a duplicate
// key is a parse error - and keep the clause tags, the solver layer is proved against them.)
// TRUSTED for now: the three functions call Statement.Evict / AllocateJob repeatedly; framework's statement
// operations are `modifies *` and do not re-establish stmtOK(s) for the next call, and AllocateJob has no
// contract yet, so their bodies cannot be verified today. What is assumed is only how they treat the
// statement log they are given (C06 "evictions and preemptor pipeline share one Statement").
//@ func EvictAllPreemptees
//@   props C06
//@   trusted
//@   note trusted (to be replaced by alloc's verified contract): the body calls stmt.Evict(task, ...) for the tasks of preempteeTasks in order and stops at the first error; Evict appends one evict entry for its task on success and leaves the log alone on error (framework [appendsOneEvict] [capturesTask] [errorKeepsLog])
//@   requires stmt != nil && framework.wfLog(stmt)
//@   modifies *
//@   ensures [wfKnownKept] framework.wfKnown(stmt)
//@   ensures [wfRevKept] framework.wfRev(stmt)
//@   ensures [wfBackKept] framework.wfBack(stmt)
//@   ensures [wfTaskKept] framework.wfTask(stmt)
//@   ensures [lenGrows] lenGrows(stmt)
//@   ensures [prefixKept] prefixKept(stmt)
//@   ensures [tasksKept] forall i int :: 0 <= i && i < len(preempteeTasks) ==> preempteeTasks[i] == old(preempteeTasks[i])
//@   ensures [onlyEvictsOfPreemptees] forall j int :: old(len(stmt.operations)) <= j && j < len(stmt.operations) ==> framework.isEvictOp(stmt.operations[j]) && (exists i int :: 0 <= i && i < len(preempteeTasks) && framework.opTask(stmt.operations[j]) == preempteeTasks[i])
//@   ensures [allEvictedOnSuccess] result == nil ==> len(stmt.operations) == old(len(stmt.operations)) + len(preempteeTasks)
//@ end
//@ func GetJobsToAllocate
//@   props C06
//@   trusted
//@   note trusted (to be replaced by alloc's verified contract): builds a fresh JobsOrderByQueues from the pending jobs, the victims' jobs and the preemptor (utils.GetAllPendingJobs / NewJobsOrderByQueues / InitializeWithJobs); touches no statement
//@   modifies *
//@   ensures [resultNonNil] result != nil
//@   ensures [logsSame] framework.logsSame()
//@   ensures [wfKept] forall st *framework.Statement :: old(allocated(st)) && old(framework.wfLog(st)) ==> framework.wfLog(st)
//@   ensures [lensKept] forall st *framework.Statement :: old(allocated(st)) ==> len(st.operations) == old(len(st.operations))
//@   ensures [entriesKept] forall st *framework.Statement, j int :: old(allocated(st)) && 0 <= j && j < old(len(st.operations)) ==> st.operations[j] == old(st.operations[j])
//@   ensures [tasksKept] forall i int :: 0 <= i && i < len(preempteeTasks) ==> preempteeTasks[i] == old(preempteeTasks[i])
//@ end
//@ func TryToVirtuallyAllocatePreemptorAndGetVictims
//@   props C06
//@   trusted
//@   note trusted (to be replaced by alloc's verified contract): places jobs only through AllocateJob(ssn, stmt, ...), i.e. stmt.Allocate / stmt.Pipeline / stmt.Rollback of the statement it is given; these keep the log well-formed and its prefix (framework [lenGrows] [prefixKept] [newEntriesOK]); no claim about WHICH entries are appended
//@   requires stmt != nil && framework.wfLog(stmt)
//@   modifies *
//@   ensures [wfKnownKept] framework.wfKnown(stmt)
//@   ensures [wfRevKept] framework.wfRev(stmt)
//@   ensures [wfBackKept] framework.wfBack(stmt)
//@   ensures [wfTaskKept] framework.wfTask(stmt)
//@   ensures [lenGrows] lenGrows(stmt)
//@   ensures [prefixKept] prefixKept(stmt)
//@   ensures [tasksKept] forall i int :: 0 <= i && i < len(preempteeTasks) ==> preempteeTasks[i] == old(preempteeTasks[i])
//@ end
// ---- end solver ----

// ---- (b) the gang protocol: allocateTask .. AllocateJob ------------------------------------------------------
// Error bookkeeping only (fit errors on the job); never touches a statement.
//@ func handleFailedTaskAllocation
//@   props XALLOC
//@   requires podgroup_info.setsOK(job) && unschedulableTask != nil && job.TasksFitErrors != nil
//@   requires podgroup_info.sgName(unschedulableTask) in job.PodSets
//@   modifies *
//@   loop 1
//@     invariant framework.logsSame()
//@   ensures [logsSame] framework.logsSame()
//@ end
