//go:build verif

// Contracts for govc (contract-based deductive verification); comments only.
package common

// C05 ("filters and shortcuts must only prune hopeless cases"): FeasibleNodesForJob drops a node
// only if the node has neither idle nor releasing GPU capacity (sumIdleGPUs / sumReleasingGPUs are
// node_info's ghost attributes = the values GetSumOfIdleGPUs / GetSumOfReleasingGPUs return), and
// it never invents nodes.
//@ define hasGpuCapacity(n *node_info.NodeInfo) bool = node_info.sumIdleGPUs(n) > 0.0 || node_info.sumReleasingGPUs(n) > 0.0
//@ define inList(l []*node_info.NodeInfo, n *node_info.NodeInfo) bool = exists j int :: 0 <= j && j < len(l) && l[j] == n

//@ func FeasibleNodesForJob
//@   props C05
//@   requires podgroup_info.allTasksOK(job) && podgroup_info.setsOK(job)
//@   requires forall i int :: 0 <= i && i < len(allNodes) ==> allNodes[i] != nil && allNodes[i].Idle != nil && allNodes[i].Releasing != nil
//@   requires forall k in job.PodSets :: forall id in job.PodSets[k].podInfos :: job.PodSets[k].podInfos[id].ResReq != nil
//@   pure
//@   loop 2
//@     invariant 0 - 1 <= rangeindex && rangeindex < len(allNodes)
//@     invariant forall i int :: 0 <= i && i <= rangeindex && hasGpuCapacity(allNodes[i]) ==> inList(nodes, allNodes[i])
//@     invariant forall j int :: 0 <= j && j < len(nodes) ==> inList(allNodes, nodes[j]) && hasGpuCapacity(nodes[j])
//@     decreases len(allNodes) - rangeindex
//@   ensures [droppedOnlyWithoutGpuCapacity] forall i int :: 0 <= i && i < len(allNodes) && !inList(result, allNodes[i]) ==> !hasGpuCapacity(allNodes[i])
//@   ensures [noInventedNodes] forall j int :: 0 <= j && j < len(result) ==> inList(allNodes, result[j])
//@ end
