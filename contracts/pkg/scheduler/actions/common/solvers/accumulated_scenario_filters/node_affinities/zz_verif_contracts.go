//go:build verif

// Contracts for govc (contract-based deductive verification); comments only.
package node_affinities

// C05: "scenario filters ... must only prune hopeless scenarios". The node-affinity filter may prune a
// scenario only because of a pending pod that HAS a required node affinity / node selector; the nodes of
// every victim it is shown become candidate nodes (and stay candidates).

// a pod with a node selector or a required node-affinity term
//@ define reqAff(t *pod_info.PodInfo) bool = t.Pod != nil && (t.Pod.Spec.NodeSelector != nil || (t.Pod.Spec.Affinity != nil && t.Pod.Spec.Affinity.NodeAffinity != nil && t.Pod.Spec.Affinity.NodeAffinity.RequiredDuringSchedulingIgnoredDuringExecution != nil))

//@ func hasRequiredNodeAffinity
//@   props C05 C10
//@   requires task != nil
//@   pure
//@   ensures [exact] result == reqAff(task)
//@ end

// The match itself is decided by the upstream NodeAffinity plugin (PreFilter / Filter through the
// k8s_internal interfaces): outside the subset. Assumed: it writes nothing the scheduler's model sees.
//@ func (*NodeAffinitiesFilter).hasNodeMatchingPodInSet
//@   props C05
//@   trusted
//@   note trusted frame: calls the vendored Kubernetes NodeAffinity plugin (type assertions to k8s_internal.NodePreFilter / NodeFilter, sets.Set, context) on a fresh CycleState; its verdict is not modelled, only that nothing visible is written
//@   requires naf != nil && task != nil
//@   pure
//@ end

//@ func (*NodeAffinitiesFilter).allPendingPodsHaveMatchingNodes
//@   props C05 C10
//@   requires naf != nil && scenario != nil && scenario.BaseScenario != nil
//@   requires forall i int :: 0 <= i && i < len(scenario.BaseScenario.pendingTasks) ==> scenario.BaseScenario.pendingTasks[i] != nil
//@   pure
//@   loop 1
//@     invariant 0 - 1 <= rangeindex && rangeindex < len(scenario.BaseScenario.pendingTasks)
//@     decreases len(scenario.BaseScenario.pendingTasks) - rangeindex
//@   # pods without a required node affinity never make this filter prune
//@   ensures [noRequiredAffinityNeverPruned] (forall i int :: 0 <= i && i < len(scenario.BaseScenario.pendingTasks) ==> !reqAff(scenario.BaseScenario.pendingTasks[i])) ==> result
//@ end

// A victim's node becomes a candidate node the first time the victim is seen; candidates are never dropped.
//@ func (*NodeAffinitiesFilter).updateVictimNodesFromTask
//@   props C05 C10
//@   requires naf != nil && task != nil && naf.processedVictims != nil && naf.feasibleNodes != nil
//@   modifies naf.processedVictims[*], naf.feasibleNodes[*]
//@   ensures [marksProcessed] task.UID in naf.processedVictims
//@   ensures [victimNodeBecomesCandidate] !old(task.UID in naf.processedVictims) && task.NodeName != "" ==> task.NodeName in naf.feasibleNodes
//@   ensures [candidatesOnlyGrow] forall k string :: old(k in naf.feasibleNodes) ==> k in naf.feasibleNodes
//@   ensures [processedOnlyGrow] forall u common_info.PodID :: old(u in naf.processedVictims) ==> u in naf.processedVictims
//@ end

// ---- C10: the constructor is total in its scenario argument (helper scb) -------------------------------------
// NewPodAccumulatedScenarioBuilder passes scenario == nil whenever the (partial) pending job has nothing to allocate;
// the constructor answers nil then. No precondition on a nil scenario: its no-panic obligations are checked for
// scenario == nil too. For a non-nil scenario the type invariant of ByNodeScenario (embedded *BaseScenario set by
// NewByNodeScenario, its only constructor) and "pending / victim tasks are pod-map values, never nil" are required.
//@ define tasksNonNil(ts []*pod_info.PodInfo) bool = forall i int :: 0 <= i && i < len(ts) ==> ts[i] != nil

//@ func preemptorHasPodsWithNodeAffinities
//@   props C10
//@   requires scenario != nil && scenario.BaseScenario != nil
//@   requires tasksNonNil(scenario.BaseScenario.pendingTasks)
//@   pure
//@   loop 1
//@     invariant 0 - 1 <= rangeindex && rangeindex < len(scenario.BaseScenario.pendingTasks)
//@     invariant forall i int :: 0 <= i && i <= rangeindex ==> !reqAff(scenario.BaseScenario.pendingTasks[i])
//@     decreases len(scenario.BaseScenario.pendingTasks) - rangeindex
//@   ensures [noAffinityFalse] (forall i int :: 0 <= i && i < len(scenario.BaseScenario.pendingTasks) ==> !reqAff(scenario.BaseScenario.pendingTasks[i])) ==> !result
//@ end

// k8sNodeInfoForNode (vendored k8sframework.NewNodeInfo / SetNode) is outside the subset: initNodeMaps is trusted with
// the preconditions its body needs (the four maps it writes exist, the session skeleton, no nil NodeInfo in either map).
//@ func (*NodeAffinitiesFilter).initNodeMaps
//@   props C10
//@   trusted
//@   note trusted: calls k8sframework.NewNodeInfo / (*NodeInfo).SetNode of the vendored kube-scheduler per cluster node (outside the subset); the preconditions are what the body dereferences and are checked at the call site in the constructor
//@   requires naf != nil && naf.feasibleNodes != nil && naf.allNodes != nil && naf.allNodeInfos != nil
//@   requires session != nil && session.ClusterInfo != nil
//@   requires forall k in feasibleNodeInfos :: feasibleNodeInfos[k] != nil
//@   requires forall k in session.ClusterInfo.Nodes :: session.ClusterInfo.Nodes[k] != nil
//@   modifies naf.feasibleNodes[*], naf.allNodes[*], naf.allNodeInfos[*]
//@ end

//@ func NewNodeAffinitiesFilter
//@   props C10
//@   requires scenario != nil ==> scenario.BaseScenario != nil
//@   requires scenario != nil ==> tasksNonNil(scenario.BaseScenario.pendingTasks) && tasksNonNil(scenario.BaseScenario.potentialVictimsTasks)
//@   requires scenario != nil ==> session != nil && session.ClusterInfo != nil && session.Cache != nil
//@   requires scenario != nil ==> (forall k in feasibleNodeInfos :: feasibleNodeInfos[k] != nil) && (forall k in session.ClusterInfo.Nodes :: session.ClusterInfo.Nodes[k] != nil)
//@   note the preconditions for a non-nil scenario are the type invariant of ByNodeScenario (NewByNodeScenario always sets the embedded *BaseScenario; pending / potential victim tasks are pod-map values), the session skeleton and "node maps hold no nil NodeInfo"; nothing is required of a nil scenario
//@   # frame: nothing that existed before the call is written (default `modifies` nothing; the filter and its maps are own allocations)
//@   ensures [nilScenarioNoFilter] scenario == nil ==> result == nil
//@   ensures [noAffinityNoFilter] scenario != nil && (forall i int :: 0 <= i && i < len(scenario.BaseScenario.pendingTasks) ==> !reqAff(scenario.BaseScenario.pendingTasks[i])) ==> result == nil
//@   ensures [filterHasMaps] result != nil ==> result.processedVictims != nil && result.feasibleNodes != nil
//@ end

//@ func (*NodeAffinitiesFilter).updateStateWithScenario
//@   props C05 C10
//@   requires naf != nil && naf.processedVictims != nil && naf.feasibleNodes != nil && scenario != nil && scenario.BaseScenario != nil
//@   requires forall i int :: 0 <= i && i < len(scenario.BaseScenario.potentialVictimsTasks) ==> scenario.BaseScenario.potentialVictimsTasks[i] != nil
//@   modifies naf.processedVictims[*], naf.feasibleNodes[*]
//@   loop 1
//@     invariant 0 - 1 <= rangeindex && rangeindex < len(scenario.BaseScenario.potentialVictimsTasks)
//@     invariant forall k string :: old(k in naf.feasibleNodes) ==> k in naf.feasibleNodes
//@     decreases len(scenario.BaseScenario.potentialVictimsTasks) - rangeindex
//@   loop 2
//@     invariant 0 - 1 <= rangeindex
//@     invariant forall k string :: old(k in naf.feasibleNodes) ==> k in naf.feasibleNodes
//@   ensures [candidatesOnlyGrow] forall k string :: old(k in naf.feasibleNodes) ==> k in naf.feasibleNodes
//@ end

// C05: the filter as a whole: it never reports an error, and it cannot prune a scenario whose pending pods
// have no required node affinity.
//@ func (*NodeAffinitiesFilter).Filter
//@   props C05 C10
//@   requires naf != nil && naf.processedVictims != nil && naf.feasibleNodes != nil && scenario != nil && scenario.BaseScenario != nil
//@   requires forall i int :: 0 <= i && i < len(scenario.BaseScenario.potentialVictimsTasks) ==> scenario.BaseScenario.potentialVictimsTasks[i] != nil
//@   requires forall i int :: 0 <= i && i < len(scenario.BaseScenario.pendingTasks) ==> scenario.BaseScenario.pendingTasks[i] != nil
//@   modifies naf.processedVictims[*], naf.feasibleNodes[*]
//@   ensures [neverErrs] result1 == nil
//@   ensures [noRequiredAffinityNeverPruned] (forall i int :: 0 <= i && i < len(scenario.BaseScenario.pendingTasks) ==> !reqAff(scenario.BaseScenario.pendingTasks[i])) ==> result0
//@   ensures [candidatesOnlyGrow] forall k string :: old(k in naf.feasibleNodes) ==> k in naf.feasibleNodes
//@ end
