//go:build verif

// Contracts for govc (contract-based deductive verification); comments only.
package node_affinities

// C05: "scenario filters ... must only prune hopeless scenarios". The node-affinity filter may prune a
// scenario only because of a pending pod that HAS a required node affinity / node selector; the nodes of
// every victim it is shown become candidate nodes (and stay candidates).

// a pod with a node selector or a required node-affinity term
//@ define reqAff(t *pod_info.PodInfo) bool = t.Pod != nil && (t.Pod.Spec.NodeSelector != nil || (t.Pod.Spec.Affinity != nil && t.Pod.Spec.Affinity.NodeAffinity != nil && t.Pod.Spec.Affinity.NodeAffinity.RequiredDuringSchedulingIgnoredDuringExecution != nil))

//@ func hasRequiredNodeAffinity
//@   props C05 C10
//@   requires task != nil
//@   pure
//@   ensures [exact] result == reqAff(task)
//@ end

// The match itself is decided by the upstream NodeAffinity plugin (PreFilter / Filter through the
// k8s_internal interfaces): outside the subset. Assumed: it writes nothing the scheduler's model sees.
//@ func (*NodeAffinitiesFilter).hasNodeMatchingPodInSet
//@   props C05
//@   trusted
//@   note trusted frame: calls the vendored Kubernetes NodeAffinity plugin (type assertions to k8s_internal.NodePreFilter / NodeFilter, sets.Set, context) on a fresh CycleState; its verdict is not modelled, only that nothing visible is written
//@   requires naf != nil && task != nil
//@   pure
//@ end

//@ func (*NodeAffinitiesFilter).allPendingPodsHaveMatchingNodes
//@   props C05 C10
//@   requires naf != nil && scenario != nil && scenario.BaseScenario != nil
//@   requires forall i int :: 0 <= i && i < len(scenario.BaseScenario.pendingTasks) ==> scenario.BaseScenario.pendingTasks[i] != nil
//@   pure
//@   loop 1
//@     invariant 0 - 1 <= rangeindex && rangeindex < len(scenario.BaseScenario.pendingTasks)
//@     decreases len(scenario.BaseScenario.pendingTasks) - rangeindex
//@   # pods without a required node affinity never make this filter prune
//@   ensures [noRequiredAffinityNeverPruned] (forall i int :: 0 <= i && i < len(scenario.BaseScenario.pendingTasks) ==> !reqAff(scenario.BaseScenario.pendingTasks[i])) ==> result
//@ end

// A victim's node becomes a candidate node the first time the victim is seen; candidates are never dropped.
//@ func (*NodeAffinitiesFilter).updateVictimNodesFromTask
//@   props C05 C10
//@   requires naf != nil && task != nil && naf.processedVictims != nil && naf.feasibleNodes != nil
//@   modifies naf.processedVictims[*], naf.feasibleNodes[*]
//@   ensures [marksProcessed] task.UID in naf.processedVictims
//@   ensures [victimNodeBecomesCandidate] !old(task.UID in naf.processedVictims) && task.NodeName != "" ==> task.NodeName in naf.feasibleNodes
//@   ensures [candidatesOnlyGrow] forall k string :: old(k in naf.feasibleNodes) ==> k in naf.feasibleNodes
//@   ensures [processedOnlyGrow] forall u common_info.PodID :: old(u in naf.processedVictims) ==> u in naf.processedVictims
//@ end

//@ func (*NodeAffinitiesFilter).updateStateWithScenario
//@   props C05 C10
//@   requires naf != nil && naf.processedVictims != nil && naf.feasibleNodes != nil && scenario != nil && scenario.BaseScenario != nil
//@   requires forall i int :: 0 <= i && i < len(scenario.BaseScenario.potentialVictimsTasks) ==> scenario.BaseScenario.potentialVictimsTasks[i] != nil
//@   modifies naf.processedVictims[*], naf.feasibleNodes[*]
//@   loop 1
//@     invariant 0 - 1 <= rangeindex && rangeindex < len(scenario.BaseScenario.potentialVictimsTasks)
//@     invariant forall k string :: old(k in naf.feasibleNodes) ==> k in naf.feasibleNodes
//@     decreases len(scenario.BaseScenario.potentialVictimsTasks) - rangeindex
//@   loop 2
//@     invariant 0 - 1 <= rangeindex
//@     invariant forall k string :: old(k in naf.feasibleNodes) ==> k in naf.feasibleNodes
//@   ensures [candidatesOnlyGrow] forall k string :: old(k in naf.feasibleNodes) ==> k in naf.feasibleNodes
//@ end

// C05: the filter as a whole: it never reports an error, and it cannot prune a scenario whose pending pods
// have no required node affinity.
//@ func (*NodeAffinitiesFilter).Filter
//@   props C05 C10
//@   requires naf != nil && naf.processedVictims != nil && naf.feasibleNodes != nil && scenario != nil && scenario.BaseScenario != nil
//@   requires forall i int :: 0 <= i && i < len(scenario.BaseScenario.potentialVictimsTasks) ==> scenario.BaseScenario.potentialVictimsTasks[i] != nil
//@   requires forall i int :: 0 <= i && i < len(scenario.BaseScenario.pendingTasks) ==> scenario.BaseScenario.pendingTasks[i] != nil
//@   modifies naf.processedVictims[*], naf.feasibleNodes[*]
//@   ensures [neverErrs] result1 == nil
//@   ensures [noRequiredAffinityNeverPruned] (forall i int :: 0 <= i && i < len(scenario.BaseScenario.pendingTasks) ==> !reqAff(scenario.BaseScenario.pendingTasks[i])) ==> result0
//@   ensures [candidatesOnlyGrow] forall k string :: old(k in naf.feasibleNodes) ==> k in naf.feasibleNodes
//@ end
