//go:build verif

// Contracts for govc (contract-based deductive verification); comments only.
package accumulated_scenario_filters

// C10 (index bounds of the ordered-insert helpers). The precondition 0 <= i < len(ts) is what the
// body needs; in particular the helper must never be reached with an EMPTY list (ts[0] = t panics).

// Overwrites slot i, shifting ts[i..len-2] one place right (the last element drops out).
//@ func insertWithoutIncreasingListSize
//@   props C10
//@   requires 0 <= i && i < len(ts)
//@   modifies ts[*]
//@   loop 1
//@     invariant i <= j && j <= len(ts) - 1
//@     invariant forall k int :: 0 <= k && k <= j ==> ts[k] == old(ts[k])
//@     invariant forall k int :: j < k && k < len(ts) ==> ts[k] == old(ts[k - 1])
//@     decreases j - i
//@   ensures [sameSlice] result == ts
//@   ensures [inserted] result[i] == t
//@   ensures [prefixKept] forall k int :: 0 <= k && k < i ==> result[k] == old(ts[k])
//@   ensures [suffixShifted] forall k int :: i < k && k < len(ts) ==> result[k] == old(ts[k - 1])
//@ end

// Moves slice[currentPos] to newPos (< currentPos), shifting the elements in between one place right.
//@ func shiftElementLeft
//@   props C10
//@   requires newPos < currentPos ==> 0 <= newPos && currentPos < len(slice)
//@   modifies slice[*]
//@   loop 1
//@     invariant newPos <= k && k <= currentPos
//@     decreases k - newPos
//@ end

// If t is already in ts it is moved to slot i (when i is left of it); an empty list never "contains" t.
//@ func updateLocationIfTAlreadyExists
//@   props C10
//@   requires 0 <= i
//@   modifies ts[*]
//@   loop 1
//@     invariant 0 <= rangeint_iter && rangeint_iter < len(ts)
//@     decreases len(ts) - rangeint_iter
//@   ensures [foundMeansNonEmpty] result1 ==> len(ts) > 0 && result0 == ts
//@   ensures [emptyNeverFound] len(ts) == 0 ==> !result1
//@ end

// orderedInsert is NOT under contract: slices.BinarySearchFunc / slices.Insert (generic library code
// calling back the cmp closure) are outside the subset; its safety condition "replace ==> the slot
// found is < len(ts)" (in particular len(ts) > 0) is exactly insertWithoutIncreasingListSize's
// precondition and is NOT guaranteed by orderedInsert itself (replayed: orderedInsert([]string{}, "x",
// true, cmp) panics with index out of range [0] with length 0).
