//go:build verif

// Contracts for govc (contract-based deductive verification); comments only.
package accumulated_scenario_filters

// C10 (index bounds of the ordered-insert helpers). The precondition 0 <= i < len(ts) is what the
// body needs; in particular the helper must never be reached with an EMPTY list (ts[0] = t panics).

// Overwrites slot i, shifting ts[i..len-2] one place right (the last element drops out).
//@ func insertWithoutIncreasingListSize
//@   props C10
//@   requires 0 <= i && i < len(ts)
//@   modifies ts[*]
//@   loop 1
//@     invariant i <= j && j <= len(ts) - 1
//@     invariant forall k int :: 0 <= k && k <= j ==> ts[k] == old(ts[k])
//@     invariant forall k int :: j < k && k < len(ts) ==> ts[k] == old(ts[k - 1])
//@     decreases j - i
//@   ensures [sameSlice] result == ts
//@   ensures [inserted] result[i] == t
//@   ensures [prefixKept] forall k int :: 0 <= k && k < i ==> result[k] == old(ts[k])
//@   ensures [suffixShifted] forall k int :: i < k && k < len(ts) ==> result[k] == old(ts[k - 1])
//@ end

// Moves slice[currentPos] to newPos (< currentPos), shifting the elements in between one place right.
//@ func shiftElementLeft
//@   props C10
//@   requires newPos < currentPos ==> 0 <= newPos && currentPos < len(slice)
//@   modifies slice[*]
//@   loop 1
//@     invariant newPos <= k && k <= currentPos
//@     decreases k - newPos
//@ end

// If t is already in ts it is moved to slot i (when i is left of it); an empty list never "contains" t.
//@ func updateLocationIfTAlreadyExists
//@   props C10
//@   requires 0 <= i
//@   modifies ts[*]
//@   loop 1
//@     invariant 0 <= rangeint_iter && rangeint_iter < len(ts)
//@     decreases len(ts) - rangeint_iter
//@   ensures [foundMeansNonEmpty] result1 ==> len(ts) > 0 && result0 == ts
//@   ensures [emptyNeverFound] len(ts) == 0 ==> !result1
//@ end

// orderedInsert is NOT under contract: slices.BinarySearchFunc / slices.Insert (generic library code
// calling back the cmp closure) are outside the subset; its safety condition "replace ==> the slot
// found is < len(ts)" (in particular len(ts) > 0) is exactly insertWithoutIncreasingListSize's
// precondition and is NOT guaranteed by orderedInsert itself (replayed: orderedInsert([]string{}, "x",
// true, cmp) panics with index out of range [0] with length 0).

// ---- greedyMatchRequirements (C05) ----------------------------------------------------------------
// C05: "scenario filters ... must only prune hopeless scenarios". The GPU filters answer through this
// greedy matcher. capv(f, k): the (assumed pure) answer of the capacity callback f for holder k.
//@ declare capv(f ref, k ref) real
//@ func param:greedyMatchRequirements.capacity
//@   pure
//@   ensures [assumed] result == capv(fn, arg0)
//@   note assumed: both call sites pass a closure that only reads a map (idle_gpus.go Filter$1, topology_aware_idle_gpus.go)
//@ end

// holders sorted descending by capacity (what the early `break` relies on)
//@ define sortedDesc(holders []K, capacity func(K) float64) bool = forall a int, b int :: 0 <= a && a <= b && b < len(holders) ==> capv(capacity, holders[a]) >= capv(capacity, holders[b])
//@ define someHolderFits(holders []K, capacity func(K) float64, r real) bool = exists i int :: 0 <= i && i < len(holders) && capv(capacity, holders[i]) >= r

//@ func greedyMatchRequirements
//@   props C05 C10
//@   requires capacity != nil
//@   pure
//@   loop 1
//@     invariant 0 - 1 <= rangeindex && rangeindex < len(requirements)
//@     invariant rangeindex == 0 - 1 ==> (forall k in virtuallyAllocated :: false)
//@     invariant forall i int :: 0 <= i && i <= rangeindex ==> requirements[i] != 0.0
//@     invariant rangeindex >= 0 && len(requirements) == 1 ==> someHolderFits(holders, capacity, requirements[0])
//@     decreases len(requirements) - rangeindex
//@   loop 2
//@     invariant 0 - 1 <= rangeindex && rangeindex < len(holders)
//@     invariant forall i int :: 0 <= i && i <= rangeindex ==> capv(capacity, holders[i]) >= required && capv(capacity, holders[i]) - virtuallyAllocated[holders[i]] < required
//@     decreases len(holders) - rangeindex
//@   # nothing to place: never pruned
//@   ensures [nothingRequiredNeverPruned] len(requirements) == 0 || requirements[0] == 0.0 ==> result
//@   # single pending pod (the class C05 speaks about): pruned iff no holder has the capacity
//@   ensures [singleTaskExact] len(requirements) == 1 && sortedDesc(holders, capacity) ==> (result <==> requirements[0] == 0.0 || someHolderFits(holders, capacity, requirements[0]))
//@ end

// ---- C10: the constructor is total in its scenario argument ------------------------------------------------
// NewPodAccumulatedScenarioBuilder passes scenario == nil whenever the (partial) pending job has nothing to allocate
// (its own `if len(tasksToAllocate) != 0 { scenario = ... }`); the two sibling constructors (NewNodeAffinitiesFilter,
// NewTopologyAwareIdleGpusFilter) answer nil for a nil scenario and the builder skips nil filters. So the contract of
// this constructor has NO precondition on scenario, and its no-panic obligations are checked for scenario == nil too.
//@ func createGpuMap
//@   props C10
//@   trusted
//@   note trusted: ordered insertion through generic helpers with a closure comparator; only "returns, writes nothing of the caller" is used by the constructor (the helpers' index bounds are checked above)
//@ end
//@ func (*AccumulatedIdleGpus).updateStateWithScenario
//@   props C10
//@   requires ig != nil
//@   requires scenario != nil
//@   trusted
//@   note trusted: body not checked here; the precondition is what its first statement needs (updateRequiredResources reads scenario.PendingTasks()); checked at every call site
//@   modifies *
//@ end
//@ func NewIdleGpusFilter
//@   props C10
//@   requires scenario != nil ==> scenario.BaseScenario != nil
//@   note the precondition is the type invariant of ByNodeScenario (NewByNodeScenario, its only constructor, always sets the embedded *BaseScenario); nothing is required of a nil scenario
//@   modifies *
//@   ensures [nilScenarioNoFilter] scenario == nil ==> result == nil
//@ end

// ---- C10: the topology-aware constructor is total in its scenario argument too (helper scb) -----------------
//@ define groupsNonNil(gs []*subgroup_info.SubGroupSet) bool = forall i int :: 0 <= i && i < len(gs) ==> gs[i] != nil
//@ define nodesOK(m map[string]*node_info.NodeInfo) bool = forall k in m :: m[k] != nil && m[k].Node != nil

//@ func getSubgroupsWithRequiredConstraints
//@   props C10
//@   trusted
//@   note trusted: recursion over the sub-group tree with an accumulator slice; the body checks jobSubGroup == nil first and only reads it afterwards (nil children are skipped the same way), so nothing is required; assumed: nothing of the caller is written (append on the accumulator) and only the non-nil jobSubGroup is ever appended
//@   ensures [assumed] groupsNonNil(out) ==> groupsNonNil(result)
//@ end

//@ func buildDomainCapacity
//@   props C10
//@   trusted
//@   note trusted: sort.Slice with a closure over two maps, struct-keyed maps of slices; the preconditions are what the body dereferences (subgroup.GetTopologyConstraint(), nodeInfo.GetSumOfIdleGPUs(), nodeInfo.Node.Labels) and are checked at the call site in the constructor
//@   requires groupsNonNil(subgroupsWithRequired)
//@   requires nodesOK(nodeInfosMap)
//@ end

//@ func extractRequiredTopologyConstraints
//@   props C10
//@   requires scenario != nil ==> scenario.BaseScenario != nil
//@   ensures [nilScenarioNothing] scenario == nil ==> len(result) == 0
//@   ensures [groupsNonNil] groupsNonNil(result)
//@ end

//@ func NewTopologyAwareIdleGpusFilter
//@   props C10
//@   requires scenario != nil ==> scenario.BaseScenario != nil
//@   requires scenario != nil ==> nodesOK(nodeInfosMap)
//@   note the preconditions for a non-nil scenario are the type invariant of ByNodeScenario (NewByNodeScenario always sets the embedded *BaseScenario) and "the cluster's node map holds no nil NodeInfo / NodeInfo without Node"; nothing is required of a nil scenario
//@   # frame: nothing that existed before the call is written (default `modifies` nothing; the filter and its maps are own allocations)
//@   ensures [nilScenarioNoFilter] scenario == nil ==> result == nil
//@   ensures [filterHasVictimSet] result != nil ==> result.processedVictims != nil
//@ end
