//go:build verif

// Contracts for govc (contract-based deductive verification); comments only.
package accumulated_scenario_filters

// The scenario-filter interface (implementations: idle_gpus.AccumulatedIdleGpus, idle_gpus.TopologyAwareIdleGpus,
// node_affinities.NodeAffinitiesFilter). A filter updates its own caches; its answer to the n-th filter call of
// the run is named filterOK(n) / filterErr(n) (names for the two results, nothing more).
//@ ghost filterCalls() int
//@ declare filterOK(n int) bool
//@ declare filterErr(n int) bool

//@ func Interface.Filter
//@   modifies *
//@   ensures [assumed] filterCalls() == old(filterCalls()) + 1
//@   ensures [assumed] result0 == filterOK(filterCalls())
//@   ensures [assumed] (result1 != nil) == filterErr(filterCalls())
//@   note assumed at invoke sites: the three implementations only update their own caches; the ghost counter and filterOK / filterErr only name the call and its two results
//@ end
//@ func Interface.Name
//@   pure
//@   note assumed: the implementations return a constant
//@ end
