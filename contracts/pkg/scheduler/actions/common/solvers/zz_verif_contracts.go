//go:build verif

// Contracts for govc (contract-based deductive verification); comments only.
package solvers

//@ import scn "github.com/NVIDIA/KAI-scheduler/pkg/scheduler/actions/common/solvers/scenario"

// ---- the scenario validator (function-typed field of byPodSolver / JobSolver) -------------------
// C06: "minruntime victim filters and scenario validators", "allPodsReallocated validator for
// consolidation": the verdict of the validator that the action handed to the solver decides whether a
// simulated scenario may be returned as solved. The three validators in use are
// (*Session).ReclaimScenarioValidatorFn, (*Session).PreemptScenarioValidator (pure, contracts in
// framework) and consolidation.allPodsReallocated (re-resolves the victims' Tasks cells, contract in
// consolidation). Their verdict depends on the CURRENT task states, so it is not modelled as a function
// of the references: a ghost counts the validator calls and verdictAt names the answer of each call.
//@ ghost validatorCalls() int
// verdictAt(n): the answer of the n-th validator call of the run (a name for that answer, nothing more)
//@ declare verdictAt(n int) bool

//@ func type:SolutionValidator
//@   modifies validatorCalls(), family(unbox(arg0, "*scn.ByNodeScenario").victims[""].Tasks[*])
//@   ensures [assumed] validatorCalls() == old(validatorCalls()) + 1
//@   ensures [assumed] result == verdictAt(validatorCalls())
//@   note assumed: every SolutionValidator value handed to NewJobsSolver is one of ReclaimScenarioValidatorFn / PreemptScenarioValidator (pure) or consolidation.allPodsReallocated (writes only Tasks cells of the scenario's victims); the ghosts only record the call and its answer
//@ end

// C06 (DESIGN round 0): "byPodSolver.handleScenarioSolution - post solved ==> validator(scenario),
// !valid ==> Discard"; "evictions and preemptor pipeline share one Statement": the statement handed
// back with a solved result is the one the simulation ran on.
//@ func (*byPodSolver).handleScenarioSolution
//@   props C06 C03
//@   requires s != nil && scenario != nil && solutionVictims != nil
//@   requires statement != nil && framework.wfLog(statement)
//@   modifies *
//@   loop 1
//@     invariant 0 <= i && i <= len(solutionVictims.preemptedVictims)
//@     invariant len(victimsTasks) == len(solutionVictims.preemptedVictims)
//@     decreases len(solutionVictims.preemptedVictims) - i
//@   ensures [resultNonNil] result != nil
//@   ensures [solvedIffValid] old(s.solutionValidator) != nil ==> result.solved == verdictAt(old(validatorCalls()) + 1)
//@   ensures [validatorConsultedOnce] result.solved && old(s.solutionValidator) != nil ==> validatorCalls() == old(validatorCalls()) + 1
//@   ensures [noValidatorMeansSolved] old(s.solutionValidator) == nil ==> result.solved && validatorCalls() == old(validatorCalls())
//@   ensures [solvedMeansLastVerdictTrue] result.solved && s.solutionValidator != nil ==> verdictAt(validatorCalls())
//@   ensures [solvedKeepsStatement] result.solved ==> result.statement == statement
//@   ensures [statementStaysWellFormed] framework.wfLog(statement)
//@   ensures [rejectedIsDiscarded] !result.solved ==> result.statement == nil && len(statement.operations) == 0
//@ end

// ---- stable families (ENGINE_NEWS batch 7): the solver objects are written by their constructors only
//@ stable byPodSolver.solutionValidator
//@ stable byPodSolver.allowVictimConsolidation
//@ stable byPodSolver.actionType
//@ stable byPodSolver.feasibleNodes
//@ stable solutionResult.solved
//@ stable solutionResult.statement
//@ stable solutionResult.victimsTasks
//@ stable solutionResult.victimJobs
//@ stable JobSolver.feasibleNodes
// a *framework.Checkpoint cell (evictPotentialVictimsFromNode returns the address of a local) is never written through
//@ stable slicetype []framework.Checkpoint
//@ stable JobSolver.solutionValidator
//@ stable JobSolver.generateVictimsQueue
//@ stable JobSolver.actionType

// ---- shared predicates ------------------------------------------------------------------------------
// what Rollback / Discard / the trusted actions/common contracts need of the statement
//@ define stOpen(st *framework.Statement) bool = st != nil && framework.wfLog(st)
//@ define logKept(st *framework.Statement) bool = len(st.operations) >= old(len(st.operations)) && (forall j int :: 0 <= j && j < old(len(st.operations)) ==> st.operations[j] == old(st.operations[j]))
// every log entry from index `from` on is an eviction of one of `ts`
//@ define evictsOf(st *framework.Statement, from int, ts []*pod_info.PodInfo) bool = forall j int :: from <= j && j < len(st.operations) ==> framework.isEvictOp(st.operations[j]) && (exists i int :: 0 <= i && i < len(ts) && framework.opTask(st.operations[j]) == ts[i])
//@ define tasksOK(ts []*pod_info.PodInfo) bool = forall i int :: 0 <= i && i < len(ts) ==> ts[i] != nil
//@ define cellsKept(ts []*pod_info.PodInfo) bool = forall i int :: 0 <= i && i < len(ts) ==> ts[i] == old(ts[i])
// the scenario skeleton the solver reads (fields are `stable`, see package scenario)
//@ define scnOK(sc *scn.ByNodeScenario) bool = sc != nil && sc.BaseScenario != nil && sc.BaseScenario.preemptor != nil && len(sc.BaseScenario.pendingTasks) > 0

// library model (assumed): the values / keys of a map as a new slice
//@ func golang.org/x/exp/maps.Values
//@   fresh
//@   ensures [assumed] len(result) == len(m)
//@   note assumed library model of golang.org/x/exp/maps.Values (reads the map, returns a new slice)
//@ end
//@ func golang.org/x/exp/maps.Keys
//@   fresh
//@   ensures [assumed] len(result) == len(m)
//@   note assumed library model of golang.org/x/exp/maps.Keys (reads the map, returns a new slice)
//@ end

// ---- byPodSolver: the protocol around ONE statement (C06) ----------------------------------------------
// C06: "Every such eviction is committed together with the bind or nomination of the workload it was
// made for" / mechanism "evictions and preemptor pipeline share one Statement": every path that gives
// up has discarded the statement it worked on.
//@ func handleSolveError
//@   props C06
//@   requires pendingJob != nil && stOpen(statement)
//@   modifies *
//@   ensures [failedIsDiscarded] result != nil && !result.solved && result.statement == nil && len(statement.operations) == 0
//@   ensures [statementStaysWellFormed] framework.wfLog(statement)
//@ end

// The simulation places the preemptor on the SAME statement that holds the evictions.
//@ func (*byPodSolver).tryScenarioWithEvictedVictims
//@   props C06
//@   requires s != nil && scnOK(scenario) && stOpen(statement) && tasksOK(victimTasks)
//@   modifies *
//@   loop 1
//@     invariant 0 - 1 <= rangeindex && rangeindex < len(victimTasks)
//@     invariant actualVictims != nil && fresh(actualVictims)
//@     decreases len(victimTasks) - rangeindex
//@   ensures [neverErrs] result2 == nil
//@   ensures [successHasVictims] result0 ==> result1 != nil
//@   ensures [statementStaysOpen] stOpen(statement) && logKept(statement)
//@   ensures [tasksKept] cellsKept(victimTasks)
//@ end

//@ func (*byPodSolver).runSimulation
//@   props C06
//@   requires s != nil
//@   requires scnOK(scenario)
//@   requires stOpen(statement)
//@   requires tasksOK(victimTasks)
//@   modifies *
//@   ensures [solvedOnGivenStatement] result != nil && result.solved ==> result.statement == statement
//@   ensures [statementStaysWellFormed] stOpen(statement)
//@   ensures [solvedWasValidated] result != nil && result.solved && s.solutionValidator != nil ==> verdictAt(validatorCalls())
//@   ensures [failedIsDiscarded] result != nil && !result.solved ==> result.statement == nil && len(statement.operations) == 0
//@   ensures [undecidedKeepsLog] result == nil ==> logKept(statement) && cellsKept(victimTasks)
//@ end

// Victim subset chain: what is evicted for a node are tasks the scenario lists for that node, and the
// checkpoint handed back is the log position before those evictions.
//@ func (*byPodSolver).evictPotentialVictimsFromNode
//@   props C06
//@   usestable Checkpoint
//@   requires s != nil && session != nil && scnOK(scenario) && stOpen(statement)
//@   modifies *
//@   ensures [checkpointBeforeEvictions] result2 == nil ==> result0 != nil && *result0 == old(len(statement.operations))
//@   ensures [onlyScenarioVictimsEvicted] result2 == nil ==> evictsOf(statement, old(len(statement.operations)), result1) && len(statement.operations) == old(len(statement.operations)) + len(result1)
//@   ensures [onlyEvictionsAdded] forall j int :: old(len(statement.operations)) <= j && j < len(statement.operations) ==> framework.isEvictOp(statement.operations[j])
//@   ensures [statementStaysOpen] stOpen(statement) && logKept(statement)
//@   ensures [victimsNonNil] result2 == nil ==> tasksOK(result1)
//@ end

//@ func (*byPodSolver).updateFeasibleNodes
//@   props C06
//@   requires s != nil && s.feasibleNodes != nil && ssn != nil
//@   requires tasksOK(victimTasks)
//@   assume ssn.ClusterInfo != nil
//@   note assume ssn.ClusterInfo != nil: the session skeleton (framework.sessOK) is not re-established by Statement.Rollback / Discard (`modifies *`) and `stable Session.ClusterInfo` is not usable yet (it slows down framework's Commit proof); same convention as the `assume envOK` of actions/common
//@   modifies s.feasibleNodes[*]
//@   fresh
//@   loop 1
//@     invariant 0 - 1 <= rangeindex && rangeindex < len(victimTasks)
//@     invariant newFeasibleNodes != nil && fresh(newFeasibleNodes)
//@     invariant forall k in newFeasibleNodes :: !old(k in s.feasibleNodes)
//@     invariant forall k string :: old(k in s.feasibleNodes) ==> k in s.feasibleNodes
//@     decreases len(victimTasks) - rangeindex
//@   ensures [onlyNewNodesRecorded] forall k in result :: !old(k in s.feasibleNodes)
//@   ensures [oldNodesKept] forall k string :: old(k in s.feasibleNodes) ==> k in s.feasibleNodes
//@ end

//@ func (*byPodSolver).feasibleNodesRollback
//@   props C06
//@   requires s != nil
//@   modifies s.feasibleNodes[*]
//@   loop 1
//@     invariant forall k string :: (old(k in s.feasibleNodes) && !(k in newFeasibleNodes) ==> k in s.feasibleNodes) && (k in s.feasibleNodes ==> old(k in s.feasibleNodes))
//@     invariant forall k in visited :: !(k in s.feasibleNodes)
//@   ensures [addedNodesRemoved] forall k in newFeasibleNodes :: !(k in s.feasibleNodes)
//@   ensures [otherNodesKept] forall k string :: (old(k in s.feasibleNodes) && !(k in newFeasibleNodes) ==> k in s.feasibleNodes) && (k in s.feasibleNodes ==> old(k in s.feasibleNodes))
//@ end

//@ func getVictimTasks
//@   props C06
//@   fresh
//@   ensures [concat] len(result) == len(recordedVictimsTasks) + len(potentialVictimsTasks)
//@   ensures [recordedFirst] forall i int :: 0 <= i && i < len(recordedVictimsTasks) ==> result[i] == recordedVictimsTasks[i]
//@   ensures [potentialAfter] forall i int :: 0 <= i && i < len(potentialVictimsTasks) ==> result[len(recordedVictimsTasks) + i] == potentialVictimsTasks[i]
//@   ensures [nonNilKept] tasksOK(recordedVictimsTasks) && tasksOK(potentialVictimsTasks) ==> tasksOK(result)
//@ end

//@ func getNodesOfJob
//@   props C06
//@   requires pj != nil ==> podgroup_info.setsOK(pj)
//@   nopanic off
//@   note nopanic off: the values of the victim job's pod maps are dereferenced (task.NodeName); that they are never nil (podgroup_info.allTasksOK, kept by the C14 contracts of the job mutators) cannot be carried through the caller's `modifies *` statement operations
//@   fresh
//@   loop 1
//@     invariant pjNodeNames != nil && fresh(pjNodeNames)
//@ end

// One node at a time: evict the scenario's victims of that node, simulate; if the simulation does not place
// the preemptor the evictions are rolled back to the checkpoint before the next node is tried.
//@ func (*byPodSolver).solveOnPotentialNodes
//@   props C06
//@   usestable byPodSolver.feasibleNodes ByNodeScenario.BaseScenario BaseScenario.preemptor BaseScenario.pendingTasks Checkpoint
//@   requires s != nil && s.feasibleNodes != nil && ssn != nil
//@   requires scnOK(scenario)
//@   requires stOpen(statement)
//@   modifies *
//@   loop 1
//@     modifies *
//@     invariant 0 - 1 <= rangeindex && rangeindex < len(potentialVictimNodeNames)
//@     invariant stOpen(statement)
//@     invariant len(statement.operations) == old(len(statement.operations))
//@     decreases len(potentialVictimNodeNames) - rangeindex
//@   ensures [resultXorError] result1 != nil ==> result0 == nil
//@   ensures [solvedOnGivenStatement] result0 != nil && result0.solved ==> result0.statement == statement
//@   ensures [solvedWasValidated] result0 != nil && result0.solved && s.solutionValidator != nil ==> verdictAt(validatorCalls())
//@   ensures [failedIsDiscarded] result0 != nil && !result0.solved ==> result0.statement == nil && len(statement.operations) == 0
//@   ensures [statementStaysWellFormed] stOpen(statement)
//@   ensures [unsolvedNodesRolledBack] result0 == nil && result1 == nil ==> len(statement.operations) == old(len(statement.operations))
//@ end

// One scenario, one statement: created here, holds the evictions of the recorded victims, then those of the
// potential victims node by node, and the placement of the preemptor. Returned only with a solved result;
// every other path discards it.
//@ func (*byPodSolver).solve
//@   props C06
//@   usestable byPodSolver.feasibleNodes ByNodeScenario.BaseScenario BaseScenario.preemptor BaseScenario.pendingTasks PodGroupInfo.PodSets map[string]*subgroup_info.PodSet
//@   requires s != nil && s.feasibleNodes != nil && session != nil
//@   # shape of the scenarios the builder hands over (NewByNodeScenario: skeleton non-nil, at least one pending task;
//@   # potential victims are pod-map values; the session's jobs have no nil pod set): assumed, listed in the evidence
//@   assume scnOK(scenario)
//@   assume scenario.BaseScenario.session != nil && scenario.BaseScenario.session.ClusterInfo != nil
//@   assume len(scenario.BaseScenario.potentialVictimsTasks) > 0 ==> scenario.BaseScenario.potentialVictimsTasks[len(scenario.BaseScenario.potentialVictimsTasks) - 1] != nil
//@   assume forall k in scenario.BaseScenario.session.ClusterInfo.PodGroupInfos :: scenario.BaseScenario.session.ClusterInfo.PodGroupInfos[k] == nil || podgroup_info.setsOK(scenario.BaseScenario.session.ClusterInfo.PodGroupInfos[k])
//@   note the scenario builder (NewPodAccumulatedScenarioBuilder / GetValidScenario / GetNextScenario: mutual recursion through the filter interface and the heap-based victims queue) is not under contract; what solve needs of its scenarios is assumed at entry
//@   modifies *
//@   ensures [resultNonNil] result != nil
//@   ensures [solvedHasOwnStatement] result.solved ==> result.statement != nil && fresh(result.statement)
//@   ensures [solvedStatementKnown] result.solved ==> framework.wfKnown(result.statement)
//@   ensures [solvedStatementRev] result.solved ==> framework.wfRev(result.statement)
//@   ensures [solvedStatementBack] result.solved ==> framework.wfBack(result.statement)
//@   ensures [solvedStatementTask] result.solved ==> framework.wfTask(result.statement)
//@   ensures [solvedWasValidated] result.solved && s.solutionValidator != nil ==> verdictAt(validatorCalls())
//@   ensures [failedHasNoStatement] !result.solved ==> result.statement == nil
//@   lemma [solvedOnTheStatementOfTheEvictions] result.solved ==> result.statement == statement
//@   lemma [failedIsDiscarded] !result.solved ==> len(statement.operations) == 0
//@ end

// ---- JobSolver (C03 / C06) ------------------------------------------------------------------------------
//@ define gangSat(j *podgroup_info.PodGroupInfo) bool = forall k in j.PodSets :: j.PodSets[k].numActiveUsedTasks >= j.PodSets[k].minAvailable

// ---- scenario builder (frame only) -----------------------------------------------------------------------
// Nothing is claimed about WHICH scenarios the builder produces (C05's completeness of the search is not decided);
// these contracts only keep the builder's bodies out of the solver units. The constructor runs the filter
// constructors (k8s scheduler plugin interfaces, topology trees): outside the subset.
// only non-nil filters are appended by the constructor (each `if f != nil { append }`)
//@ define filtersOK(asb *PodAccumulatedScenarioBuilder) bool = forall i int :: 0 <= i && i < len(asb.scenarioFilters) ==> asb.scenarioFilters[i] != nil
// C10 (helper scb): the constructor's body IS verified now (it was `trusted`, which is how the nil-scenario panic of
// NewIdleGpusFilter escaped): every filter constructor is called with scenario == nil when the partial pending job has
// nothing to allocate, and their contracts require nothing of a nil scenario. What the body needs of its inputs and the
// callers' loops cannot carry through their `modifies *` statement operations is assumed at entry (listed in the evidence).
//@ define nodeMapOK(m map[string]*node_info.NodeInfo) bool = forall k in m :: m[k] != nil && m[k].Node != nil
//@ func NewPodAccumulatedScenarioBuilder
//@   props C06 C10
//@   requires session != nil
//@   assume session.ClusterInfo != nil && session.Cache != nil
//@   assume podgroup_info.setsOK(pendingJob) && podgroup_info.allTasksOK(pendingJob)
//@   usestable []accumulated_scenario_filters.Interface
//@   assume forall i int :: 0 <= i && i < len(recordedVictimsJobs) ==> podgroup_info.setsOK(recordedVictimsJobs[i])
//@   assume forall i int :: 0 <= i && i < len(recordedVictimsJobs) ==> podgroup_info.allTasksOK(recordedVictimsJobs[i])
//@   assume forall i int :: 0 <= i && i < len(recordedVictimsJobs) ==> scn.hasPod(recordedVictimsJobs[i])
//@   assume forall i int :: 0 <= i && i < len(recordedVictimsJobs) ==> scn.podsKnown(session, recordedVictimsJobs[i])
//@   assume forall i int, k string :: 0 <= i && i < len(recordedVictimsJobs) && k in recordedVictimsJobs[i].PodSets ==> allocated(recordedVictimsJobs[i].PodSets[k].podInfos)   // heap closedness: the pod maps of existing jobs exist before the call (else the constructor's own make(map[PodID]*PodInfo) could alias one of them)
//@   assume nodeMapOK(session.ClusterInfo.Nodes)
//@   assume [feasibleNodesNonNil] forall k in feasibleNodes :: feasibleNodes[k] != nil
//@   note assume session skeleton / pod maps of the pending job / recorded victim jobs (non-empty, tasks known to the session: NewBaseScenario.appendTasksAsVictimJob reads tasks[0] and clones the session's job of that task) / no nil NodeInfo in the cluster's node map: data invariants of the snapshot and of the solver state that solvePartialJob's caller cannot carry through `modifies *` statement operations
//@   note assume [feasibleNodesNonNil] "feasibleNodes holds no nil NodeInfo" is NOT established locally by the only caller: solvePartialJob stores ssn.ClusterInfo.Nodes[task.NodeName] for every recorded victim task without a presence check; a nil value would be dereferenced by NewNodeAffinitiesFilter.initNodeMaps (ni.Node) when the pending job has a pod with a required node affinity. It holds by a cross-function argument the contracts do not carry: the recorded victims are the victimsTasks of a SOLVED result, every one of which went through Statement.Evict, which returns an error (so the scenario is not solved) when the task's node is not in ssn.ClusterInfo.Nodes
//@   modifies *
//@   loop 1
//@     invariant 0 - 1 <= rangeindex && rangeindex < len(recordedVictimsJobs)
//@     invariant recordedVictimsTasks != nil && fresh(recordedVictimsTasks)
//@     decreases len(recordedVictimsJobs) - rangeindex
//@   loop 2
//@     invariant recordedVictimsTasks != nil && fresh(recordedVictimsTasks)
//@   ensures [builderNonNil] result != nil
//@   ensures [filtersNonNil] filtersOK(result)
//@   ensures [nothingToAllocateNoScenario] result.lastScenario == nil ==> len(result.scenarioFilters) == 0
//@ end
//@ func (*PodAccumulatedScenarioBuilder).GetValidScenario
//@   props C06
//@   requires asb != nil
//@   assume filtersOK(asb)
//@   note assume filtersOK: the constructor appends only non-nil filters (now PROVED: NewPodAccumulatedScenarioBuilder ensures [filtersNonNil]) and scenarioFilters is never reassigned; kept as an assume because GetNextScenario / the solvePartialJob loop would have to carry it through their `modifies *` havocs
//@   nopanic off
//@   note nopanic off: no claim; the unit exists so that callers see a call with frame `modifies *` instead of the inlined body
//@   modifies *
//@ end
//@ func (*PodAccumulatedScenarioBuilder).GetNextScenario
//@   props C06
//@   requires asb != nil
//@   nopanic off
//@   note nopanic off: no claim; the unit exists so that callers see a call with frame `modifies *` instead of the inlined body
//@   modifies *
//@ end

// C05: "scenario filters ... must only prune hopeless scenarios" - at the builder: a scenario is dropped only
// because the filter consulted last answered "not valid" WITHOUT an error (a failing filter never prunes), and
// without filters nothing is pruned.
//@ import asf "github.com/NVIDIA/KAI-scheduler/pkg/scheduler/actions/common/solvers/accumulated_scenario_filters"
//@ stable PodAccumulatedScenarioBuilder.scenarioFilters
//@ stable PodAccumulatedScenarioBuilder.lastScenario
//@ stable slicetype []accumulated_scenario_filters.Interface
//@ func (*PodAccumulatedScenarioBuilder).isScenarioValid
//@   props C05
//@   usestable PodAccumulatedScenarioBuilder.scenarioFilters PodAccumulatedScenarioBuilder.lastScenario []accumulated_scenario_filters.Interface
//@   requires asb != nil
//@   requires filtersOK(asb)
//@   modifies *
//@   loop 1
//@     modifies *
//@     invariant 0 - 1 <= rangeindex && rangeindex < len(asb.scenarioFilters)
//@     invariant asf.filterCalls() >= old(asf.filterCalls())
//@     decreases len(asb.scenarioFilters) - rangeindex
//@   ensures [prunedOnlyByAFilterVerdict] !result0 ==> asf.filterCalls() > old(asf.filterCalls()) && !asf.filterOK(asf.filterCalls()) && !asf.filterErr(asf.filterCalls())
//@   ensures [noFilterNoPrune] len(old(asb.scenarioFilters)) == 0 ==> result0
//@ end

// The victims-queue generator handed to NewJobsSolver (reclaim.getOrderedVictimsQueue$1, and the closures of
// preempt / consolidation around utils.GetVictimsQueue): builds a new JobsOrderByQueues.
//@ func type:GenerateVictimsQueue
//@   modifies *
//@   ensures [assumed] framework.logsSame()
//@   note assumed: the generators build a fresh utils.JobsOrderByQueues from the session's jobs (contracts reclaim.getOrderedVictimsQueue$1, utils.GetVictimsQueue); they touch no statement
//@ end

// One pending-task prefix: scenarios are tried until one is solved; only a solved result is returned, and it was
// validated by the validator the ACTION configured (the JobSolver's, handed to every by-pod solver).
//@ func (*JobSolver).solvePartialJob
//@   props C03 C06
//@   usestable JobSolver.solutionValidator byPodSolver.solutionValidator
//@   requires s != nil && ssn != nil && state != nil
//@   requires s.generateVictimsQueue != nil
//@   assume ssn.ClusterInfo != nil
//@   assume forall i int :: 0 <= i && i < len(s.feasibleNodes) ==> s.feasibleNodes[i] != nil
//@   assume tasksOK(state.recordedVictimsTasks)
//@   note assumed at entry (session skeleton, non-nil nodes of the feasible list, non-nil recorded victim tasks): data invariants of the snapshot / of pod maps that the caller's loop cannot carry through the `modifies *` statement operations
//@   modifies *
//@   loop 1
//@     invariant 0 - 1 <= rangeindex && rangeindex < len(s.feasibleNodes)
//@     invariant feasibleNodeMap != nil && fresh(feasibleNodeMap)
//@     decreases len(s.feasibleNodes) - rangeindex
//@   loop 2
//@     invariant 0 - 1 <= rangeindex && rangeindex < len(state.recordedVictimsTasks)
//@     invariant feasibleNodeMap != nil && fresh(feasibleNodeMap)
//@     decreases len(state.recordedVictimsTasks) - rangeindex
//@   loop 3
//@     modifies *
//@     invariant feasibleNodeMap != nil
//@   ensures [onlySolvedReturned] result != nil ==> result.solved
//@   ensures [solvedHasStatement] result != nil ==> result.statement != nil
//@   ensures [solvedStatementKnown] result != nil ==> framework.wfKnown(result.statement)
//@   ensures [solvedStatementRev] result != nil ==> framework.wfRev(result.statement)
//@   ensures [solvedStatementBack] result != nil ==> framework.wfBack(result.statement)
//@   ensures [solvedStatementTask] result != nil ==> framework.wfTask(result.statement)
//@   ensures [solvedStatementIsNew] result != nil ==> fresh(result.statement)
//@   ensures [solvedWasValidated] result != nil && s.solutionValidator != nil ==> verdictAt(validatorCalls())
//@ end

// C03: "the scheduler never binds fewer pods than needed to reach the minimum" - mechanism "JobSolver.Solve
// requires IsGangSatisfied": a job is reported solved only if, in the state the returned statement
// describes, every pod set of the pending job has reached its minimum.
// C06: "Every such eviction is committed together with the bind or nomination of the workload it was made
// for": the statement of a solution for a proper prefix of the tasks is discarded before the next prefix is tried.
//@ func (*JobSolver).Solve
//@   props C03 C06
//@   usestable PodGroupInfo.PodSets map[string]*subgroup_info.PodSet solutionResult.statement JobSolver.generateVictimsQueue
//@   requires s != nil && ssn != nil
//@   assume podgroup_info.setsOK(pendingJob) && podgroup_info.allTasksOK(pendingJob)
//@   note assume setsOK/allTasksOK (was a requires; exec2): the callers attemptTo* call Solve right after plugin hooks / `modifies *` callees (OnJobSolutionStart, IsNonPreemptibleJobOverQueueQuotaFn), which do not re-establish the job's pod maps - same convention as AllocateJob's `assume`
//@   requires s.generateVictimsQueue != nil
//@   # C07 (exec2): the reclaim scenario validator reads the snapshot the job-solution-start hooks take (proportion: copy of the
//@   # live queue usage); a reclaim solver run must start from a snapshot taken after the last emitted decision
//@   requires [validationSnapshotFresh] s.actionType == framework.Reclaim ==> framework.snapshotFresh(ssn)
//@   modifies *
//@   loop 1
//@     modifies *
//@     invariant 0 - 1 <= rangeindex && rangeindex < len(tasksToAllocate)
//@     invariant len(pendingTasks) == rangeindex + 1
//@     invariant podgroup_info.setsOK(pendingJob)
//@     invariant [partialSolutionDiscarded] 0 <= rangeindex && rangeindex < len(tasksToAllocate) - 1 && statement != nil ==> len(statement.operations) == 0
//@     decreases len(tasksToAllocate) - rangeindex
//@   ensures [solvedMeansGangSatisfied] result0 ==> gangSat(pendingJob)
//@ end
