//go:build verif

// Contracts for govc (contract-based deductive verification); comments only.
package solvers

//@ import scn "github.com/NVIDIA/KAI-scheduler/pkg/scheduler/actions/common/solvers/scenario"

// ---- the scenario validator (function-typed field of byPodSolver / JobSolver) -------------------
// C06: "minruntime victim filters and scenario validators", "allPodsReallocated validator for
// consolidation": the verdict of the validator that the action handed to the solver decides whether a
// simulated scenario may be returned as solved. The three validators in use are
// (*Session).ReclaimScenarioValidatorFn, (*Session).PreemptScenarioValidator (pure, contracts in
// framework) and consolidation.allPodsReallocated (re-resolves the victims' Tasks cells, contract in
// consolidation). Their verdict depends on the CURRENT task states, so it is not modelled as a function
// of the references: a ghost counts the validator calls and verdictAt names the answer of each call.
//@ ghost validatorCalls() int
// verdictAt(n): the answer of the n-th validator call of the run (a name for that answer, nothing more)
//@ declare verdictAt(n int) bool

//@ func type:SolutionValidator
//@   modifies validatorCalls(), family(unbox(arg0, "*scn.ByNodeScenario").victims[""].Tasks[*])
//@   ensures [assumed] validatorCalls() == old(validatorCalls()) + 1
//@   ensures [assumed] result == verdictAt(validatorCalls())
//@   note assumed: every SolutionValidator value handed to NewJobsSolver is one of ReclaimScenarioValidatorFn / PreemptScenarioValidator (pure) or consolidation.allPodsReallocated (writes only Tasks cells of the scenario's victims); the ghosts only record the call and its answer
//@ end

// C06 (DESIGN round 0): "byPodSolver.handleScenarioSolution - post solved ==> validator(scenario),
// !valid ==> Discard"; "evictions and preemptor pipeline share one Statement": the statement handed
// back with a solved result is the one the simulation ran on.
//@ func (*byPodSolver).handleScenarioSolution
//@   props C06 C03
//@   requires s != nil && scenario != nil && solutionVictims != nil
//@   requires statement != nil && framework.wfLog(statement)
//@   modifies *
//@   loop 1
//@     invariant 0 <= i && i <= len(solutionVictims.preemptedVictims)
//@     invariant len(victimsTasks) == len(solutionVictims.preemptedVictims)
//@     decreases len(solutionVictims.preemptedVictims) - i
//@   ensures [resultNonNil] result != nil
//@   ensures [solvedIffValid] old(s.solutionValidator) != nil ==> result.solved == verdictAt(old(validatorCalls()) + 1)
//@   ensures [validatorConsultedOnce] result.solved && old(s.solutionValidator) != nil ==> validatorCalls() == old(validatorCalls()) + 1
//@   ensures [noValidatorMeansSolved] old(s.solutionValidator) == nil ==> result.solved && validatorCalls() == old(validatorCalls())
//@   ensures [solvedMeansLastVerdictTrue] result.solved && s.solutionValidator != nil ==> verdictAt(validatorCalls())
//@   ensures [solvedKeepsStatement] result.solved ==> result.statement == statement && framework.wfLog(statement)
//@   ensures [rejectedIsDiscarded] !result.solved ==> result.statement == nil && len(statement.operations) == 0
//@ end

// ---- stable families (ENGINE_NEWS batch 7): the solver objects are written by their constructors only
//@ stable byPodSolver.solutionValidator
//@ stable byPodSolver.allowVictimConsolidation
//@ stable byPodSolver.actionType
//@ stable byPodSolver.feasibleNodes
//@ stable solutionResult.solved
//@ stable solutionResult.statement
//@ stable solutionResult.victimsTasks
//@ stable solutionResult.victimJobs
//@ stable JobSolver.feasibleNodes
// a *framework.Checkpoint cell (evictPotentialVictimsFromNode returns the address of a local) is never written through
//@ stable slicetype []framework.Checkpoint
//@ stable JobSolver.solutionValidator
//@ stable JobSolver.generateVictimsQueue
//@ stable JobSolver.actionType

// ---- shared predicates ------------------------------------------------------------------------------
// what Rollback / Discard / the trusted actions/common contracts need of the statement
//@ define stOpen(st *framework.Statement) bool = st != nil && framework.wfLog(st)
//@ define logKept(st *framework.Statement) bool = len(st.operations) >= old(len(st.operations)) && (forall j int :: 0 <= j && j < old(len(st.operations)) ==> st.operations[j] == old(st.operations[j]))
// every log entry from index `from` on is an eviction of one of `ts`
//@ define evictsOf(st *framework.Statement, from int, ts []*pod_info.PodInfo) bool = forall j int :: from <= j && j < len(st.operations) ==> framework.isEvictOp(st.operations[j]) && (exists i int :: 0 <= i && i < len(ts) && framework.opTask(st.operations[j]) == ts[i])
//@ define tasksOK(ts []*pod_info.PodInfo) bool = forall i int :: 0 <= i && i < len(ts) ==> ts[i] != nil
//@ define cellsKept(ts []*pod_info.PodInfo) bool = forall i int :: 0 <= i && i < len(ts) ==> ts[i] == old(ts[i])
// the scenario skeleton the solver reads (fields are `stable`, see package scenario)
//@ define scnOK(sc *scn.ByNodeScenario) bool = sc != nil && sc.BaseScenario != nil && sc.BaseScenario.preemptor != nil && len(sc.BaseScenario.pendingTasks) > 0

// library model (assumed): the values / keys of a map as a new slice
//@ func golang.org/x/exp/maps.Values
//@   pure
//@   ensures [assumed] len(result) == len(m)
//@   note assumed library model of golang.org/x/exp/maps.Values (reads the map, returns a new slice)
//@ end
//@ func golang.org/x/exp/maps.Keys
//@   pure
//@   ensures [assumed] len(result) == len(m)
//@   note assumed library model of golang.org/x/exp/maps.Keys (reads the map, returns a new slice)
//@ end

// ---- byPodSolver: the protocol around ONE statement (C06) ----------------------------------------------
// C06: "Every such eviction is committed together with the bind or nomination of the workload it was
// made for" / mechanism "evictions and preemptor pipeline share one Statement": every path that gives
// up has discarded the statement it worked on.
//@ func handleSolveError
//@   props C06
//@   requires pendingJob != nil && stOpen(statement)
//@   modifies *
//@   ensures [failedIsDiscarded] result != nil && !result.solved && result.statement == nil && len(statement.operations) == 0
//@ end

// The simulation places the preemptor on the SAME statement that holds the evictions.
//@ func (*byPodSolver).tryScenarioWithEvictedVictims
//@   props C06
//@   requires s != nil && scnOK(scenario) && stOpen(statement) && tasksOK(victimTasks)
//@   modifies *
//@   loop 1
//@     invariant 0 - 1 <= rangeindex && rangeindex < len(victimTasks)
//@     invariant actualVictims != nil && fresh(actualVictims)
//@     decreases len(victimTasks) - rangeindex
//@   ensures [neverErrs] result2 == nil
//@   ensures [successHasVictims] result0 ==> result1 != nil
//@   ensures [statementStaysOpen] stOpen(statement) && logKept(statement)
//@   ensures [tasksKept] cellsKept(victimTasks)
//@ end

//@ func (*byPodSolver).runSimulation
//@   props C06
//@   requires s != nil && scnOK(scenario) && stOpen(statement) && tasksOK(victimTasks)
//@   modifies *
//@   ensures [solvedOnGivenStatement] result != nil && result.solved ==> result.statement == statement && stOpen(statement)
//@   ensures [solvedWasValidated] result != nil && result.solved && s.solutionValidator != nil ==> verdictAt(validatorCalls())
//@   ensures [failedIsDiscarded] result != nil && !result.solved ==> result.statement == nil && len(statement.operations) == 0
//@   ensures [undecidedStaysOpen] result == nil ==> stOpen(statement) && logKept(statement) && cellsKept(victimTasks)
//@ end

// Victim subset chain: what is evicted for a node are tasks the scenario lists for that node, and the
// checkpoint handed back is the log position before those evictions.
//@ func (*byPodSolver).evictPotentialVictimsFromNode
//@   props C06
//@   requires s != nil && scnOK(scenario) && stOpen(statement)
//@   modifies *
//@   ensures [checkpointBeforeEvictions] result2 == nil ==> result0 != nil && *result0 == old(len(statement.operations))
//@   ensures [onlyScenarioVictimsEvicted] result2 == nil ==> evictsOf(statement, old(len(statement.operations)), result1) && len(statement.operations) == old(len(statement.operations)) + len(result1)
//@   ensures [onlyEvictionsAdded] forall j int :: old(len(statement.operations)) <= j && j < len(statement.operations) ==> framework.isEvictOp(statement.operations[j])
//@   ensures [statementStaysOpen] stOpen(statement) && logKept(statement)
//@ end

// ---- JobSolver (C03 / C06) ------------------------------------------------------------------------------
//@ define gangSat(j *podgroup_info.PodGroupInfo) bool = forall k in j.PodSets :: j.PodSets[k].numActiveUsedTasks >= j.PodSets[k].minAvailable

// One pending-task prefix: scenarios are tried until one is solved; only a solved result is returned.
//@ func (*JobSolver).solvePartialJob
//@   props C03 C06
//@   requires s != nil && ssn != nil && state != nil
//@   modifies *
//@   ensures [onlySolvedReturned] result != nil ==> result.solved
//@   ensures [solvedHasOpenStatement] result != nil ==> result.statement != nil && framework.wfLog(result.statement)
//@   ensures [solvedWasValidated] result != nil && s.solutionValidator != nil ==> verdictAt(validatorCalls())
//@ end

// C03: "the scheduler never binds fewer pods than needed to reach the minimum" - mechanism "JobSolver.Solve
// requires IsGangSatisfied": a job is reported solved only if, in the state the returned statement
// describes, every pod set of the pending job has reached its minimum.
// C06: "Every such eviction is committed together with the bind or nomination of the workload it was made
// for": the statement of a solution for a proper prefix of the tasks is discarded before the next prefix is tried.
//@ func (*JobSolver).Solve
//@   props C03 C06
//@   requires s != nil && ssn != nil && podgroup_info.setsOK(pendingJob) && podgroup_info.allTasksOK(pendingJob)
//@   modifies *
//@   loop 1
//@     modifies *
//@     invariant 0 - 1 <= rangeindex && rangeindex < len(tasksToAllocate)
//@     invariant len(pendingTasks) == rangeindex + 1
//@     invariant podgroup_info.setsOK(pendingJob)
//@     invariant [partialSolutionDiscarded] 0 <= rangeindex && rangeindex < len(tasksToAllocate) - 1 && statement != nil ==> len(statement.operations) == 0
//@     decreases len(tasksToAllocate) - rangeindex
//@   ensures [solvedMeansGangSatisfied] result0 ==> gangSat(pendingJob)
//@ end
