//go:build verif

// Contracts for govc (contract-based deductive verification); comments only.
package scenario

// GetVictims re-resolves every recorded victim task to the session's current PodInfo of the same pod
// (so that validators such as consolidation.allPodsReallocated see the task's CURRENT status) and
// returns the scenario's own victims map. Only cells of the victims' Tasks slices are written.
//@ define pgis(s *BaseScenario) map[common_info.PodGroupID]*podgroup_info.PodGroupInfo = s.session.ClusterInfo.PodGroupInfos
//@ define sessionJobsOK(s *BaseScenario) bool = s.session != nil && s.session.ClusterInfo != nil && (forall k in pgis(s) :: podgroup_info.allTasksOK(pgis(s)[k]) && podgroup_info.setsOK(pgis(s)[k]))
// every recorded victim task belongs to a job of the session (else getJobForTask returns nil)
//@ define tasksKnown(s *BaseScenario, v *api.VictimInfo) bool = forall i int :: 0 <= i && i < len(v.Tasks) ==> v.Tasks[i] != nil && v.Tasks[i].Job in pgis(s)
// distinct victims own distinct VictimInfo objects whose Tasks slices (each built by append) share no cells
//@ define victimsSeparate(s *BaseScenario) bool = forall k1 in s.victims :: forall k2 in s.victims :: k1 != k2 ==> s.victims[k1] != s.victims[k2] && disjoint(s.victims[k1].Tasks, s.victims[k2].Tasks)

//@ func (*BaseScenario).getJobForTask
//@   props C06
//@   requires s != nil && s.session != nil && s.session.ClusterInfo != nil && task != nil
//@   inline
//@ end

//@ func (*BaseScenario).GetVictims
//@   props C06
//@   requires s != nil && sessionJobsOK(s) && victimsSeparate(s)
//@   requires forall k in s.victims :: s.victims[k] != nil && tasksKnown(s, s.victims[k])
//@   modifies family(s.victims[""].Tasks[*])
//@   loop 1
//@     invariant s.victims == old(s.victims)
//@     invariant forall k common_info.PodGroupID, i int :: k in s.victims && !(k in visited) && 0 <= i && i < len(s.victims[k].Tasks) ==> s.victims[k].Tasks[i] == old(s.victims[k].Tasks[i])
//@   loop 2
//@     invariant 0 - 1 <= rangeindex && rangeindex < len(victim.Tasks)
//@     invariant forall k common_info.PodGroupID, i int :: k in s.victims && s.victims[k] == victim && rangeindex < i && i < len(victim.Tasks) ==> victim.Tasks[i] == old(s.victims[k].Tasks[i])
//@     invariant exists k in s.victims :: s.victims[k] == victim
//@     invariant forall k in s.victims :: s.victims[k] != victim ==> disjoint(s.victims[k].Tasks, victim.Tasks)
//@     invariant forall k common_info.PodGroupID, i int :: k in s.victims && s.victims[k] != victim && !(k in visited) && 0 <= i && i < len(s.victims[k].Tasks) ==> s.victims[k].Tasks[i] == old(s.victims[k].Tasks[i])
//@     decreases len(victim.Tasks) - rangeindex
//@   ensures [sameMap] result == s.victims && s.victims == old(s.victims)
//@ end

// ---- added by helper "solver" -----------------------------------------------------------------------------
// The scenario skeleton is written by NewBaseScenario / NewByNodeScenario only (constructors); the lists of
// potential victims grow through AddPotentialVictimsTasks (scenario builder), which the by-pod solver never calls.
//@ stable ByNodeScenario.BaseScenario
//@ stable BaseScenario.session
//@ stable BaseScenario.preemptor
//@ stable BaseScenario.pendingTasks
//@ stable BaseScenario.recordedVictimsJobs
//@ stable BaseScenario.recordedVictimsTasks
//@ stable BaseScenario.potentialVictimsTasks

// Read-only accessor: collects the tasks of the victim task groups recorded for the given nodes into a new
// slice. Trusted frame (nothing is written): the body ranges over victimsJobsTaskGroups (a map of slices of
// cloned jobs) and calls GetAllPodsMap on every clone, whose precondition (no nil pod set) is a property of
// CloneWithTasks that cannot be carried through the `modifies *` statement operations of the callers.
//@ func (*ByNodeScenario).VictimsTasksFromNodes
//@   props C06
//@   trusted
//@   note trusted read-only frame: VictimsTasksFromNodes only reads the scenario (maps.Keys / maps.Values / GetAllPodsMap of the victim task groups) and returns a new slice of pod-map values (never nil: podgroup_info.allTasksOK)
//@   requires bns != nil && bns.BaseScenario != nil
//@   pure
//@   ensures [tasksNonNil] forall i int :: 0 <= i && i < len(result) ==> result[i] != nil
//@ end

// Same for the recorded victims: the cached list built by NewBaseScenario, or the values of the recorded jobs' pod maps.
//@ func (*BaseScenario).RecordedVictimsTasks
//@   props C06
//@   trusted
//@   note trusted read-only frame: returns the cached slice or collects the values of the recorded victim jobs' pod maps (never nil: podgroup_info.allTasksOK); GetAllPodsMap's precondition on those jobs cannot be carried through the `modifies *` statement operations of the callers
//@   requires s != nil
//@   pure
//@   ensures [tasksNonNil] forall i int :: 0 <= i && i < len(result) ==> result[i] != nil
//@ end

// ---- C10 (helper scb): the scenario constructor as seen by NewPodAccumulatedScenarioBuilder -----------------------
// Trusted: NewBaseScenario clones every recorded victim job (CloneWithTasks: sub-group tree clone, DeepCopyInto) and
// re-reads pod maps - outside the subset. The preconditions are what the bodies of NewByNodeScenario / NewBaseScenario /
// appendTasksAsVictimJob dereference and are CHECKED at the call site:
//  * pendingTasksAsJob.GetAllPodsMap(): no nil pod set;
//  * per recorded victim job: GetAllPodsMap (no nil pod set), then appendTasksAsVictimJob(tasks) reads tasks[0] - so the
//    job must hold AT LEAST ONE pod (a recorded victim job without pods makes tasks[0] panic: index out of range) -,
//    looks the task's job up in session.ClusterInfo.PodGroupInfos and calls CloneWithTasks on it (must be present);
//  * per potential victim task: the same lookup, plus task.NodeName / task.Job.
// "the job holds at least one pod"
//@ define hasPod(j *podgroup_info.PodGroupInfo) bool = exists k string, u common_info.PodID :: k in j.PodSets && u in j.PodSets[k].podInfos
//@ define podsKnown(ss *framework.Session, j *podgroup_info.PodGroupInfo) bool = forall k in j.PodSets :: forall u in j.PodSets[k].podInfos :: ss.ClusterInfo.PodGroupInfos[j.PodSets[k].podInfos[u].Job] != nil
//@ define victimJobOK(ss *framework.Session, j *podgroup_info.PodGroupInfo) bool = podgroup_info.setsOK(j) && podgroup_info.allTasksOK(j) && hasPod(j) && podsKnown(ss, j)
//@ func NewByNodeScenario
//@   props C10
//@   trusted
//@   note trusted: clones the recorded victim jobs (CloneWithTasks: sub-group tree clone, metav1.Time.DeepCopyInto) - outside the subset; only "a new scenario with its embedded BaseScenario, the given preemptor and session" is assumed
//@   requires podgroup_info.setsOK(pendingTasksAsJob)
//@   requires len(recordedVictimsJobs) > 0 || len(potentialVictimsTasks) > 0 ==> session != nil && session.ClusterInfo != nil
//@   # victimJobOK of every recorded victim job, one fact per clause
//@   requires [victimJobSets] forall i int :: 0 <= i && i < len(recordedVictimsJobs) ==> podgroup_info.setsOK(recordedVictimsJobs[i])
//@   requires [victimJobTasks] forall i int :: 0 <= i && i < len(recordedVictimsJobs) ==> podgroup_info.allTasksOK(recordedVictimsJobs[i])
//@   requires [victimJobNotEmpty] forall i int :: 0 <= i && i < len(recordedVictimsJobs) ==> hasPod(recordedVictimsJobs[i])
//@   requires [victimJobKnown] forall i int :: 0 <= i && i < len(recordedVictimsJobs) ==> podsKnown(session, recordedVictimsJobs[i])
//@   requires forall i int :: 0 <= i && i < len(potentialVictimsTasks) ==> potentialVictimsTasks[i] != nil && session.ClusterInfo.PodGroupInfos[potentialVictimsTasks[i].Job] != nil
//@   note frame (assumed): nothing that existed before the call is written - the scenario, its maps / slices and the job clones (CloneWithTasks adds CLONES of the tasks to the new job) are all allocated by the constructor
//@   fresh
//@   ensures [assumed] result != nil && result.BaseScenario != nil && fresh(result.BaseScenario)
//@   ensures [assumed] result.BaseScenario.preemptor == originalJob && result.BaseScenario.session == session
//@   ensures [assumed] podgroup_info.allTasksOK(pendingTasksAsJob) ==> (forall i int :: 0 <= i && i < len(result.BaseScenario.pendingTasks) ==> result.BaseScenario.pendingTasks[i] != nil)
//@   ensures [assumed] forall i int :: 0 <= i && i < len(result.BaseScenario.potentialVictimsTasks) ==> result.BaseScenario.potentialVictimsTasks[i] != nil
//@ end
