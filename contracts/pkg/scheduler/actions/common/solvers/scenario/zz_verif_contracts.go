//go:build verif

// Contracts for govc (contract-based deductive verification); comments only.
package scenario

// GetVictims re-resolves every recorded victim task to the session's current PodInfo of the same pod
// (so that validators such as consolidation.allPodsReallocated see the task's CURRENT status) and
// returns the scenario's own victims map. Only cells of the victims' Tasks slices are written.
//@ define sessionJobsOK(s *BaseScenario) bool = s.session != nil && s.session.ClusterInfo != nil && (forall k in s.session.ClusterInfo.PodGroupInfos :: podgroup_info.allTasksOK(s.session.ClusterInfo.PodGroupInfos[k]) && podgroup_info.setsOK(s.session.ClusterInfo.PodGroupInfos[k]))
//@ define victimTasksKnown(s *BaseScenario) bool = forall k in s.victims :: s.victims[k] != nil && (forall i int :: 0 <= i && i < len(s.victims[k].Tasks) ==> s.victims[k].Tasks[i] != nil && s.victims[k].Tasks[i].Job in s.session.ClusterInfo.PodGroupInfos)

//@ func (*BaseScenario).getJobForTask
//@   props C06
//@   requires s != nil && s.session != nil && s.session.ClusterInfo != nil && task != nil
//@   inline
//@ end

//@ func (*BaseScenario).GetVictims
//@   props C06
//@   requires s != nil && sessionJobsOK(s)
//@   # every recorded victim task belongs to a job of the session (else getJobForTask returns nil and GetAllPodsMap dereferences it)
//@   requires victimTasksKnown(s)
//@   modifies family(s.victims[""].Tasks[*])
//@   loop 1
//@     invariant s.victims == old(s.victims)
//@     invariant forall k in s.victims :: !(k in visited) ==> (forall i int :: 0 <= i && i < len(s.victims[k].Tasks) ==> s.victims[k].Tasks[i] != nil && s.victims[k].Tasks[i].Job in s.session.ClusterInfo.PodGroupInfos)
//@   loop 2
//@     invariant 0 - 1 <= rangeindex && rangeindex < len(victim.Tasks)
//@     invariant forall i int :: rangeindex < i && i < len(victim.Tasks) ==> victim.Tasks[i] != nil && victim.Tasks[i].Job in s.session.ClusterInfo.PodGroupInfos
//@     decreases len(victim.Tasks) - rangeindex
//@   ensures [sameMap] result == s.victims && s.victims == old(s.victims)
//@ end
