//go:build verif

// Contracts for govc (contract-based deductive verification); comments only.
package preempt

//@ import v2alpha2 "github.com/NVIDIA/KAI-scheduler/pkg/apis/scheduling/v2alpha2"

// C06: "never evict pods of non-preemptible workloads ...; preempt victims belong to the preemptor's
// queue and have strictly lower priority" (+ DESIGN: UID differs, has active allocated tasks, and the
// registered plugin filters - min-runtime - accept it).
// C05 (converse): "a pending workload obtains capacity by preempting a strictly lower-priority
// preemptible workload of its own queue": every such victim IS accepted.
// activeAlloc: the job's count of active allocated tasks (cache cell, always non-nil: set by
// NewPodGroupInfo/CloneWithTasks and maintained by add/deleteTaskIndex).
//@ define activeAlloc(j *podgroup_info.PodGroupInfo) int = *j.activeAllocatedCount
//@ define preemptVictim(ssn *framework.Session, p *podgroup_info.PodGroupInfo, j *podgroup_info.PodGroupInfo) bool = j.Preemptibility == v2alpha2.Preemptible && j.Priority < p.Priority && j.Queue == p.Queue && j.UID != p.UID && activeAlloc(j) > 0 && framework.preemptVictimOK(ssn, p, j)

//@ func buildFilterFuncForPreempt$1
//@   props C06 C05
//@   requires job != nil && preemptor != nil && ssn != nil
//@   # registered plugin filters are real functions (AddPreemptVictimFilterFn appends plugin methods only)
//@   requires forall i int :: 0 <= i && i < len(ssn.PreemptVictimFilterFns) ==> ssn.PreemptVictimFilterFns[i] != nil
//@   # data invariant of PodGroupInfo: the cached count exists and is a count
//@   requires job.activeAllocatedCount != nil && *job.activeAllocatedCount >= 0
//@   modifies job.activeAllocatedCount
//@   ensures [eligibleVictim] result == old(preemptVictim(ssn, preemptor, job))
//@   ensures [eligibleAccepted] old(preemptVictim(ssn, preemptor, job)) ==> result
//@   ensures [onlyPreemptible] result ==> job.Preemptibility == v2alpha2.Preemptible
//@   ensures [strictlyLowerPriority] result ==> job.Priority < preemptor.Priority
//@   ensures [sameQueue] result ==> job.Queue == preemptor.Queue
//@   ensures [notSelf] result ==> job.UID != preemptor.UID
//@   ensures [minRuntimeFilter] result ==> framework.preemptVictimOK(ssn, preemptor, job)
//@ end
