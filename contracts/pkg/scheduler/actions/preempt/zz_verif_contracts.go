//go:build verif

// Contracts for govc (contract-based deductive verification); comments only.
package preempt

//@ import v2alpha2 "github.com/NVIDIA/KAI-scheduler/pkg/apis/scheduling/v2alpha2"

// C06: "never evict pods of non-preemptible workloads ...; preempt victims belong to the preemptor's
// queue and have strictly lower priority" (+ DESIGN: UID differs, has active allocated tasks, and the
// registered plugin filters - min-runtime - accept it).
// C05 (converse): "a pending workload obtains capacity by preempting a strictly lower-priority
// preemptible workload of its own queue": every such victim IS accepted.
// activeAlloc: the job's count of active allocated tasks (cache cell, always non-nil: set by
// NewPodGroupInfo/CloneWithTasks and maintained by add/deleteTaskIndex).
//@ define activeAlloc(j *podgroup_info.PodGroupInfo) int = *j.activeAllocatedCount
//@ define preemptVictim(ssn *framework.Session, p *podgroup_info.PodGroupInfo, j *podgroup_info.PodGroupInfo) bool = j.Preemptibility == v2alpha2.Preemptible && j.Priority < p.Priority && j.Queue == p.Queue && j.UID != p.UID && activeAlloc(j) > 0 && framework.preemptVictimOK(ssn, p, j)

//@ func buildFilterFuncForPreempt$1
//@   props C06 C05
//@   requires job != nil && preemptor != nil && ssn != nil
//@   # registered plugin filters are real functions (AddPreemptVictimFilterFn appends plugin methods only)
//@   requires forall i int :: 0 <= i && i < len(ssn.PreemptVictimFilterFns) ==> ssn.PreemptVictimFilterFns[i] != nil
//@   # data invariant of PodGroupInfo: the cached count exists and is a count
//@   requires job.activeAllocatedCount != nil && *job.activeAllocatedCount >= 0
//@   modifies job.activeAllocatedCount
//@   ensures [eligibleVictim] result == old(preemptVictim(ssn, preemptor, job))
//@   ensures [eligibleAccepted] old(preemptVictim(ssn, preemptor, job)) ==> result
//@   ensures [onlyPreemptible] result ==> job.Preemptibility == v2alpha2.Preemptible
//@   ensures [strictlyLowerPriority] result ==> job.Priority < preemptor.Priority
//@   ensures [sameQueue] result ==> job.Queue == preemptor.Queue
//@   ensures [notSelf] result ==> job.UID != preemptor.UID
//@   ensures [minRuntimeFilter] result ==> framework.preemptVictimOK(ssn, preemptor, job)
//@ end

// ---- exec2: the per-preemptor attempt and the Execute loop (C05 / C06 / C03 / C10) ------------------------
//@ import common_info "github.com/NVIDIA/KAI-scheduler/pkg/scheduler/api/common_info"
//@ define sessionJobsOK(ssn *framework.Session) bool = (forall k in ssn.ClusterInfo.PodGroupInfos :: podgroup_info.allTasksOK(ssn.ClusterInfo.PodGroupInfos[k]) && podgroup_info.setsOK(ssn.ClusterInfo.PodGroupInfos[k])) && (forall q in ssn.ClusterInfo.Queues :: ssn.ClusterInfo.Queues[q] != nil)

//@ import solvers "github.com/NVIDIA/KAI-scheduler/pkg/scheduler/actions/common/solvers"
// One preemptor: the body is verified; only the two facts named by `trust` are assumed (see the notes).
// C08/C07: "a non-preemptible ... keeps its queue's non-preemptible allocation within deserved quota": a preemptor that the
// non-preemptible-over-quota callback rejects is not served and no statement is handed back.
// C03: a preemptor is reported as served only if its gang is satisfied in the state the returned statement describes.
// C06: "Every such eviction is committed together with the bind or nomination of the workload it was made for": the
// statement handed back with success is the solver's statement and meets the preconditions of (*Statement).Commit.
// The ghost mark common.failedAttempt records the outcome for the caller's table of failed jobs.
//@ func attemptToPreemptForPreemptor
//@   props C05 C06 C03 C08 C10
//@   usestable Session.ClusterInfo
//@   requires ssn != nil && ssn.ClusterInfo != nil && preemptor != nil
//@   assume podgroup_info.setsOK(preemptor) && podgroup_info.allTasksOK(preemptor)
//@   note assume setsOK/allTasksOK: data invariant of the snapshot's jobs; the caller's loop cannot carry it through its `modifies *` steps (attempt, Commit) - same convention as AllocateJob
//@   modifies *
//@   ensures [quotaGate] !old(framework.firstQuotaOK(ssn, preemptor)) ==> !result0 && result1 == nil
//@   ensures [successMeansGangSatisfied] result0 ==> solvers.gangSat(preemptor)
//@   trust [successIsCommittable] result0 ==> result1 != nil && framework.commitReady(result1) && framework.wfLog(result1) && framework.flatLog(result1)
//@   note trust [successIsCommittable]: not derivable from the contract of (*JobSolver).Solve (its result0 is computed from the job's counters after whole-heap havocs; "solved ==> the returned statement is the open, well-formed, flat log of the last prefix" needs the unmechanised exact-restoration argument of C13)
//@   trust [outcomeRecorded] common.failedAttempt(preemptor) == !result0
//@   note trust [outcomeRecorded]: definition of the ghost mark (a ghost can only be written by an assumed clause); it carries "this job's attempt just failed" to the precondition [recordsOnlyFailedJobs] of UpdateRepresentative
//@ end

// C05: "a pending workload obtains capacity by preempting a strictly lower-priority preemptible workload of its
// own queue, within one cycle" / "a wrong job-signature shortcut ... silently starves workloads". Preempt victims
// are jobs of the PREEMPTOR'S OWN QUEUE (buildFilterFuncForPreempt [sameQueue]), so that a job failed says
// something only about later jobs of the SAME queue: a popped job is skipped without an attempt only on the answer
// of a table of failed jobs that holds jobs of ITS OWN queue only - precondition [ownQueueScope] of
// common.(*MinimalJobRepresentatives).IsEasierToSchedule / UpdateRepresentative (no table of this action is
// declared cluster-wide), proved at both call sites from the loop invariants below over the per-queue directory of
// tables (the local map smallestFailedJobsByQueue; an engine limit: heap objects carry no type, so the invariant cannot
// be quantified over "every directory created by this run" instead of naming the local):
//   [tablesExist] [storedJobsExist] every table registered under a queue is well-formed (no nil table, map or stored job;
//                      the allocated(..) conjuncts are heap-closedness facts the stable-field reasoning needs),
//   [perQueueScope]    and holds only jobs of that queue,
//   [tablesSeparate]   tables of different queues share nothing (recording a failure in one leaves the others alone).
// A skipped job lost against a stored failed job of its own signature AND its own queue (IsEasierToSchedule
// [falseNamesStoredRepresentative] [skipOnlyWithinScope]); every other popped job is handed to
// attemptToPreemptForPreemptor.
// C06: "Every such eviction is committed together with the bind or nomination of the workload it was made for":
// statement.Commit() is reached only with the statement a successful attempt returned (preconditions of Commit,
// proved at the call site); after a failed attempt nothing is committed and only then is the job recorded
// (precondition [recordsOnlyFailedJobs] of UpdateRepresentative).
// C05 "within one cycle": the action ends only when the job order is empty - every candidate job was popped and either
// skipped for the reason above or attempted ([orderDrained]; a failed attempt does not stop the loop).
// C10: no panic on any path (a non-empty order yields a job; the statement is dereferenced only after success).
//@ func (*preemptAction).Execute
//@   props C05 C06 C03 C10
//@   usestable MinimalJobRepresentatives.representatives map[common_info.SchedulingConstraintsSignature]*podgroup_info.PodGroupInfo PodGroupInfo.Queue Session.ClusterInfo
//@   requires ssn != nil && ssn.ClusterInfo != nil && ssn.Config != nil && sessionJobsOK(ssn)
//@   requires [queueDepthNotZero] ssn.GetJobsDepth("preempt") != 0
//@   modifies *
//@   loop 1
//@     modifies *
//@     invariant [tablesExist] forall q in smallestFailedJobsByQueue :: smallestFailedJobsByQueue[q] != nil && allocated(smallestFailedJobsByQueue[q]) && smallestFailedJobsByQueue[q].representatives != nil && allocated(smallestFailedJobsByQueue[q].representatives)
//@     invariant [tablesSeparate] forall q1 in smallestFailedJobsByQueue :: forall q2 in smallestFailedJobsByQueue :: q1 != q2 ==> smallestFailedJobsByQueue[q1].representatives != smallestFailedJobsByQueue[q2].representatives
//@     invariant [storedJobsExist] forall q in smallestFailedJobsByQueue :: forall k in smallestFailedJobsByQueue[q].representatives :: smallestFailedJobsByQueue[q].representatives[k] != nil && allocated(smallestFailedJobsByQueue[q].representatives[k])
//@     invariant [perQueueScope] forall q in smallestFailedJobsByQueue :: forall k in smallestFailedJobsByQueue[q].representatives :: smallestFailedJobsByQueue[q].representatives[k].Queue == q
//@   ensures [orderDrained] utils.orderEmpty(jobsOrderByQueues)
//@ end
// ---- end exec2 ----
