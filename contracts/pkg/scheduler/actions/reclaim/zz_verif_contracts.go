//go:build verif

// Contracts for govc (contract-based deductive verification); comments only.
package reclaim

//@ import v2alpha2 "github.com/NVIDIA/KAI-scheduler/pkg/apis/scheduling/v2alpha2"

// C06: "reclaim ... never evict pods of non-preemptible workloads ...; reclaim victims belong to another
// queue" (+ the registered plugin filters - min-runtime - accept them). Every job the closure hands to
// the victims queue (ghost set utils.pushed) is a session job of ANOTHER queue that is preemptible and
// passed ReclaimVictimFilter; the queue is built with FilterNonPreemptible and FilterNonActiveAllocated.
//@ define reclaimVictim(ssn *framework.Session, r *podgroup_info.PodGroupInfo, j *podgroup_info.PodGroupInfo) bool = j.Queue != r.Queue && j.Preemptibility == v2alpha2.Preemptible && framework.reclaimVictimOK(ssn, r, j)

//@ func getOrderedVictimsQueue$1
//@   props C06
//@   requires ssn != nil && ssn.ClusterInfo != nil && reclaimer != nil
//@   # registered plugin filters are real functions (AddReclaimVictimFilterFn appends plugin methods only)
//@   requires forall i int :: 0 <= i && i < len(ssn.ReclaimVictimFilterFns) ==> ssn.ReclaimVictimFilterFns[i] != nil
//@   requires forall k in ssn.ClusterInfo.PodGroupInfos :: podgroup_info.allTasksOK(ssn.ClusterInfo.PodGroupInfos[k]) && podgroup_info.setsOK(ssn.ClusterInfo.PodGroupInfos[k])
//@   requires forall q in ssn.ClusterInfo.Queues :: ssn.ClusterInfo.Queues[q] != nil
//@   modifies family(utils.pushed(reclaimer)), family(utils.famJO().queueNodes[*]), family(utils.famJO().rootNodes), family(utils.famJO().rootNodes.queue), family(utils.famJO().rootNodes.maxQueueSize), family(utils.famJO().queueNodes[""].queue), family(utils.famJO().queueNodes[""].children), family(utils.famJO().queueNodes[""].needsReorder), family(utils.famJO().queueNodes[""].parent), family(utils.famJO().queueNodes[""].isLeaf), family(utils.famJO().rootNodes.queue.items[*])
//@   loop 1
//@     invariant forall k in jobs :: podgroup_info.allTasksOK(jobs[k]) && podgroup_info.setsOK(jobs[k])
//@     invariant forall k in jobs :: utils.memberOf(ssn.ClusterInfo.PodGroupInfos, jobs[k])
//@     invariant forall k in jobs :: jobs[k].Queue != reclaimer.Queue && framework.reclaimVictimOK(ssn, reclaimer, jobs[k])
//@   ensures [flags] result != nil && result.options.FilterNonPreemptible && result.options.FilterNonActiveAllocated && result.options.VictimQueue
//@   ensures [onlyEligibleVictims] forall j *podgroup_info.PodGroupInfo :: utils.pushed(j) && !old(utils.pushed(j)) ==> reclaimVictim(ssn, reclaimer, j)
//@   ensures [onlySessionJobs] forall j *podgroup_info.PodGroupInfo :: utils.pushed(j) && !old(utils.pushed(j)) ==> utils.memberOf(ssn.ClusterInfo.PodGroupInfos, j)
//@ end
