//go:build verif

// Contracts for govc (contract-based deductive verification); comments only.
package reclaim

//@ import v2alpha2 "github.com/NVIDIA/KAI-scheduler/pkg/apis/scheduling/v2alpha2"

// C06: "reclaim ... never evict pods of non-preemptible workloads ...; reclaim victims belong to another
// queue" (+ the registered plugin filters - min-runtime - accept them). Every job the closure hands to
// the victims queue (ghost set utils.pushed) is a session job of ANOTHER queue that is preemptible and
// passed ReclaimVictimFilter; the queue is built with FilterNonPreemptible and FilterNonActiveAllocated.
//@ define reclaimVictim(ssn *framework.Session, r *podgroup_info.PodGroupInfo, j *podgroup_info.PodGroupInfo) bool = j.Queue != r.Queue && j.Preemptibility == v2alpha2.Preemptible && framework.reclaimVictimOK(ssn, r, j)

//@ func getOrderedVictimsQueue$1
//@   props C06
//@   requires ssn != nil && ssn.ClusterInfo != nil && reclaimer != nil
//@   # registered plugin filters are real functions (AddReclaimVictimFilterFn appends plugin methods only)
//@   requires forall i int :: 0 <= i && i < len(ssn.ReclaimVictimFilterFns) ==> ssn.ReclaimVictimFilterFns[i] != nil
//@   requires forall k in ssn.ClusterInfo.PodGroupInfos :: podgroup_info.allTasksOK(ssn.ClusterInfo.PodGroupInfos[k]) && podgroup_info.setsOK(ssn.ClusterInfo.PodGroupInfos[k])
//@   requires forall q in ssn.ClusterInfo.Queues :: ssn.ClusterInfo.Queues[q] != nil
//@   modifies family(utils.pushed(reclaimer)), family(utils.famJO().queueNodes[*]), family(utils.famJO().rootNodes), family(utils.famJO().rootNodes.queue), family(utils.famJO().rootNodes.maxQueueSize), family(utils.famJO().queueNodes[""].queue), family(utils.famJO().queueNodes[""].children), family(utils.famJO().queueNodes[""].needsReorder), family(utils.famJO().queueNodes[""].parent), family(utils.famJO().queueNodes[""].isLeaf), family(utils.famJO().rootNodes.queue.items[*])
//@   loop 1
//@     invariant forall k in jobs :: podgroup_info.allTasksOK(jobs[k]) && podgroup_info.setsOK(jobs[k])
//@     invariant forall k in jobs :: utils.memberOf(ssn.ClusterInfo.PodGroupInfos, jobs[k])
//@     invariant forall k in jobs :: jobs[k].Queue != reclaimer.Queue && framework.reclaimVictimOK(ssn, reclaimer, jobs[k])
//@   ensures [flags] result != nil && result.options.FilterNonPreemptible && result.options.FilterNonActiveAllocated && result.options.VictimQueue
//@   ensures [onlyEligibleVictims] forall j *podgroup_info.PodGroupInfo :: utils.pushed(j) && !old(utils.pushed(j)) ==> reclaimVictim(ssn, reclaimer, j)
//@   ensures [onlySessionJobs] forall j *podgroup_info.PodGroupInfo :: utils.pushed(j) && !old(utils.pushed(j)) ==> utils.memberOf(ssn.ClusterInfo.PodGroupInfos, j)
//@ end

// ---- exec2: the per-reclaimer attempt and the Execute loop (C07 / C05 / C06 / C03 / C10) ------------------
//@ import solvers "github.com/NVIDIA/KAI-scheduler/pkg/scheduler/actions/common/solvers"

// C07: "Reclaim never reduces the allocation of a queue ... that is within its deserved quota in every resource:
// resources are taken only from queues above their deserved quota or above their fair share" - "must hold for the
// victims finally committed". The reclaim scenario validator (ssn.ReclaimScenarioValidatorFn -> proportion's
// reclaimable strategies) does not read the live queue usage but the copy that the job-solution-start hooks
// take (proportion.OnJobSolutionStartFn: jobSimulationQueues := clone of the live queues, under contract in
// plugins/proportion). The copy must therefore be taken for EVERY reclaimer, after the previous reclaimer's
// commit: the solver run of a reclaimer starts from a FRESH snapshot - precondition [validationSnapshotFresh] of
// solvers.(*JobSolver).Solve for the reclaim action (framework.snapshotFresh: the hooks ran after the last
// decision was emitted to the cache), proved HERE at the call `solver.Solve(ssn, reclaimer)`. Nothing can be
// assumed about the snapshot at entry: the previous iteration of Execute may have committed.
// C03: a reclaimer is reported as served only if its gang is satisfied in the state the returned statement describes.
//@ func (*reclaimAction).attemptToReclaimForSpecificJob
//@   props C07 C05 C06 C03 C10
//@   usestable Session.ClusterInfo
//@   requires ssn != nil && ssn.ClusterInfo != nil && reclaimer != nil
//@   requires [queueKnown] ssn.ClusterInfo.Queues[reclaimer.Queue] != nil
//@   modifies *
//@   ensures [successMeansGangSatisfied] result0 ==> solvers.gangSat(reclaimer)
//@ end
// ---- end exec2 ----
