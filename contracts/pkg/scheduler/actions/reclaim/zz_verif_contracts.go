//go:build verif

// Contracts for govc (contract-based deductive verification); comments only.
package reclaim

//@ import v2alpha2 "github.com/NVIDIA/KAI-scheduler/pkg/apis/scheduling/v2alpha2"

// C06: "reclaim ... never evict pods of non-preemptible workloads ...; reclaim victims belong to another
// queue" (+ the registered plugin filters - min-runtime - accept them). Every job the closure hands to
// the victims queue (ghost set utils.pushed) is a session job of ANOTHER queue that is preemptible and
// passed ReclaimVictimFilter; the queue is built with FilterNonPreemptible and FilterNonActiveAllocated.
//@ define reclaimVictim(ssn *framework.Session, r *podgroup_info.PodGroupInfo, j *podgroup_info.PodGroupInfo) bool = j.Queue != r.Queue && j.Preemptibility == v2alpha2.Preemptible && framework.reclaimVictimOK(ssn, r, j)

//@ func getOrderedVictimsQueue$1
//@   props C06
//@   requires ssn != nil && ssn.ClusterInfo != nil && reclaimer != nil
//@   # registered plugin filters are real functions (AddReclaimVictimFilterFn appends plugin methods only)
//@   requires forall i int :: 0 <= i && i < len(ssn.ReclaimVictimFilterFns) ==> ssn.ReclaimVictimFilterFns[i] != nil
//@   requires forall k in ssn.ClusterInfo.PodGroupInfos :: podgroup_info.allTasksOK(ssn.ClusterInfo.PodGroupInfos[k]) && podgroup_info.setsOK(ssn.ClusterInfo.PodGroupInfos[k])
//@   requires forall q in ssn.ClusterInfo.Queues :: ssn.ClusterInfo.Queues[q] != nil
//@   modifies family(utils.pushed(reclaimer)), family(utils.famJO().queueNodes[*]), family(utils.famJO().rootNodes), family(utils.famJO().rootNodes.queue), family(utils.famJO().rootNodes.maxQueueSize), family(utils.famJO().queueNodes[""].queue), family(utils.famJO().queueNodes[""].children), family(utils.famJO().queueNodes[""].needsReorder), family(utils.famJO().queueNodes[""].parent), family(utils.famJO().queueNodes[""].isLeaf), family(utils.famJO().rootNodes.queue.items[*])
//@   loop 1
//@     invariant forall k in jobs :: podgroup_info.allTasksOK(jobs[k]) && podgroup_info.setsOK(jobs[k])
//@     invariant forall k in jobs :: utils.memberOf(ssn.ClusterInfo.PodGroupInfos, jobs[k])
//@     invariant forall k in jobs :: jobs[k].Queue != reclaimer.Queue && framework.reclaimVictimOK(ssn, reclaimer, jobs[k])
//@   ensures [flags] result != nil && result.options.FilterNonPreemptible && result.options.FilterNonActiveAllocated && result.options.VictimQueue
//@   ensures [onlyEligibleVictims] forall j *podgroup_info.PodGroupInfo :: utils.pushed(j) && !old(utils.pushed(j)) ==> reclaimVictim(ssn, reclaimer, j)
//@   ensures [onlySessionJobs] forall j *podgroup_info.PodGroupInfo :: utils.pushed(j) && !old(utils.pushed(j)) ==> utils.memberOf(ssn.ClusterInfo.PodGroupInfos, j)
//@ end

// ---- exec2: the per-reclaimer attempt and the Execute loop (C07 / C05 / C06 / C03 / C10) ------------------
//@ import solvers "github.com/NVIDIA/KAI-scheduler/pkg/scheduler/actions/common/solvers"

// C07: "Reclaim never reduces the allocation of a queue ... that is within its deserved quota in every resource:
// resources are taken only from queues above their deserved quota or above their fair share" - "must hold for the
// victims finally committed". The reclaim scenario validator (ssn.ReclaimScenarioValidatorFn -> proportion's
// reclaimable strategies) does not read the live queue usage but the copy that the job-solution-start hooks
// take (proportion.OnJobSolutionStartFn: jobSimulationQueues := clone of the live queues, under contract in
// plugins/proportion). The copy must therefore be taken for EVERY reclaimer, after the previous reclaimer's
// commit: the solver run of a reclaimer starts from a FRESH snapshot - precondition [validationSnapshotFresh] of
// solvers.(*JobSolver).Solve for the reclaim action (framework.snapshotFresh: the hooks ran after the last
// decision was emitted to the cache), proved HERE at the call `solver.Solve(ssn, reclaimer)`. Nothing can be
// assumed about the snapshot at entry: the previous iteration of Execute may have committed.
// C03: a reclaimer is reported as served only if its gang is satisfied in the state the returned statement describes.
//@ func (*reclaimAction).attemptToReclaimForSpecificJob
//@   props C07 C05 C06 C03 C10
//@   usestable Session.ClusterInfo ClusterInfo.Queues map[common_info.QueueID]*queue_info.QueueInfo PodGroupInfo.Queue
//@   requires ssn != nil && ssn.ClusterInfo != nil && reclaimer != nil
//@   requires [queueKnown] ssn.ClusterInfo.Queues[reclaimer.Queue] != nil
//@   modifies *
//@   ensures [successMeansGangSatisfied] result0 ==> solvers.gangSat(reclaimer)
//@   trust [successIsCommittable] result0 ==> result1 != nil && framework.commitReady(result1) && framework.wfLog(result1) && framework.flatLog(result1)
//@   note trust [successIsCommittable]: not derivable from the contract of (*JobSolver).Solve (its result0 is computed from the job's counters after whole-heap havocs; "solved ==> the returned statement is the open, well-formed, flat log of the last prefix" needs the unmechanised exact-restoration argument of C13)
//@   trust [outcomeRecorded] common.failedAttempt(reclaimer) == !result0
//@   note trust [outcomeRecorded]: definition of the ghost mark (a ghost can only be written by an assumed clause); it carries "this job's attempt just failed" to the precondition [recordsOnlyFailedJobs] of UpdateRepresentative
//@ end

//@ import common_info "github.com/NVIDIA/KAI-scheduler/pkg/scheduler/api/common_info"
//@ define sessionJobsOK(ssn *framework.Session) bool = (forall k in ssn.ClusterInfo.PodGroupInfos :: podgroup_info.allTasksOK(ssn.ClusterInfo.PodGroupInfos[k]) && podgroup_info.setsOK(ssn.ClusterInfo.PodGroupInfos[k])) && (forall q in ssn.ClusterInfo.Queues :: ssn.ClusterInfo.Queues[q] != nil)

// C05: "a pending workload that keeps its queue within deserved quota obtains capacity by reclaiming from preemptible pods
// of over-quota queues ... within one cycle" / "a wrong job-signature shortcut ... silently starves workloads". Reclaim
// victims are jobs of OTHER queues than the reclaimer's (getOrderedVictimsQueue$1 [onlyEligibleVictims]) and the
// strategies compare the reclaimer's queue with the victims' queues, so that a job failed says something only about
// later jobs of the SAME queue: a popped job is skipped without an attempt only because
//   - the can-reclaim gate rejects it (framework.(*Session).CanReclaimResources [firstDecides]; proportion's gate is decided
//     under C07: within fair share <==> can reclaim), or
//   - a table of failed jobs that holds jobs of ITS OWN queue only answers "not easier" - precondition [ownQueueScope] of
//     common.(*MinimalJobRepresentatives).IsEasierToSchedule / UpdateRepresentative (no table of this action is declared
//     cluster-wide), proved at both call sites from the loop invariants:
//       [tablesExist] [storedJobsExist] every table registered under a queue is well-formed (no nil table, map or stored
//                          job; the allocated(..) conjuncts are heap-closedness facts the stable-field reasoning needs),
//       [perQueueScope]    and holds only jobs of that queue,
//       [tablesSeparate]   tables of different queues share nothing (recording a failure in one leaves the others alone);
//       [orderSession]     the job order belongs to this session (links PopNextJob [poppedQueueKnown] to the attempt's [queueKnown]).
// Every other popped job is handed to attemptToReclaimForSpecificJob (which takes the validation snapshot, C07).
// C06: "Every such eviction is committed together with the bind or nomination of the workload it was made for":
// statement.Commit() is reached only with the statement a successful attempt returned (preconditions of Commit, proved at
// the call site); after a failed attempt nothing is committed and only then is the job recorded ([recordsOnlyFailedJobs]).
// C10: no panic on any path (a non-empty order yields a job; the statement is dereferenced only after success).
// C05 "within one cycle": the action ends only when the job order is empty - every candidate job was popped and either
// skipped for one of the two reasons above or attempted ([orderDrained]; a failed attempt does not stop the loop).
//@ func (*reclaimAction).Execute
//@   props C05 C06 C03 C10
//@   usestable MinimalJobRepresentatives.representatives map[common_info.SchedulingConstraintsSignature]*podgroup_info.PodGroupInfo PodGroupInfo.Queue Session.ClusterInfo JobsOrderByQueues.ssn ClusterInfo.Queues map[common_info.QueueID]*queue_info.QueueInfo
//@   requires ssn != nil && ssn.ClusterInfo != nil && ssn.Config != nil && sessionJobsOK(ssn)
//@   requires [queueDepthNotZero] ssn.GetJobsDepth("reclaim") != 0
//@   modifies *
//@   loop 1
//@     modifies *
//@     invariant [orderSession] jobsOrderByQueues.ssn == ssn
//@     invariant [tablesExist] forall q in smallestFailedJobsByQueue :: smallestFailedJobsByQueue[q] != nil && allocated(smallestFailedJobsByQueue[q]) && smallestFailedJobsByQueue[q].representatives != nil && allocated(smallestFailedJobsByQueue[q].representatives)
//@     invariant [tablesSeparate] forall q1 in smallestFailedJobsByQueue :: forall q2 in smallestFailedJobsByQueue :: q1 != q2 ==> smallestFailedJobsByQueue[q1].representatives != smallestFailedJobsByQueue[q2].representatives
//@     invariant [storedJobsExist] forall q in smallestFailedJobsByQueue :: forall k in smallestFailedJobsByQueue[q].representatives :: smallestFailedJobsByQueue[q].representatives[k] != nil && allocated(smallestFailedJobsByQueue[q].representatives[k])
//@     invariant [perQueueScope] forall q in smallestFailedJobsByQueue :: forall k in smallestFailedJobsByQueue[q].representatives :: smallestFailedJobsByQueue[q].representatives[k].Queue == q
//@   ensures [orderDrained] utils.orderEmpty(jobsOrderByQueues)
//@ end
// ---- end exec2 ----
