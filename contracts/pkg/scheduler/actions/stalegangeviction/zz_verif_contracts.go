//go:build verif

// Contracts for govc (contract-based deductive verification); comments only.
package stalegangeviction

// ---- exec2: stale gang eviction (C03 / C10) ----------------------------------------------------------------
// C03: "when it evicts pods of a workload it either keeps every pod set at or above its minimum (elastic shrink) or
// evicts all of the workload's active pods". A gang that fell below its minimum ("stale") is evicted as a whole, and
// only after the configured grace period; a gang that is not stale (any more) loses its staleness mark.

// The job is not stale: the mark is cleared (both fields), nothing else is written.
//@ func handleNonStaleJob
//@   props C03 C10
//@   requires job != nil
//@   modifies job.StalenessInfo.TimeStamp, job.StalenessInfo.Stale
//@   ensures [markCleared] job.StalenessInfo.TimeStamp == nil
//@   ensures [staleFlagCleared] old(job.StalenessInfo.TimeStamp) != nil ==> !job.StalenessInfo.Stale
//@   ensures [untouchedIfUnmarked] old(job.StalenessInfo.TimeStamp) == nil ==> job.StalenessInfo.Stale == old(job.StalenessInfo.Stale)
//@ end
// The job is stale. The first time this is seen the job is stamped with the current time; nothing is evicted while
// the grace period is negative ("no eviction") or has not elapsed since the stamp; after that the job is marked Stale
// and ALL its active allocated pods (and only those) are handed to ssn.Evict - the whole gang, never a part of it.
// tasksToEvict is the function's own list: it holds only pods with an active allocated status (loop 1). That it holds ALL of
// them is not stated: the ranged map (result of job.GetAllPodsMap()) is an unnamed temporary, and GetAllPodsMap's contract
// exports only result <= pod sets, not the converse.
//@ import cache "github.com/NVIDIA/KAI-scheduler/pkg/scheduler/cache"
//@ define grace(ssn *framework.Session) int = ssn.SchedulerParams.GlobalDefaultStalenessGracePeriod
//@ func handleStaleJob
//@   props C03 C10
//@   usestable []*PodInfo PodGroupInfo.PodSets map[string]*subgroup_info.PodSet
//@   requires ssn != nil && job != nil
//@   assume podgroup_info.setsOK(job) && podgroup_info.allTasksOK(job)
//@   note assume setsOK/allTasksOK: data invariant of the snapshot's jobs; the caller's loop cannot carry it through the `modifies *` eviction of the previous job - same convention as AllocateJob
//@   modifies *
//@   loop 1
//@     invariant forall i int :: 0 <= i && i < len(tasksToEvict) ==> tasksToEvict[i] != nil && pod_status.IsActiveAllocatedStatus(tasksToEvict[i].Status)
//@   loop 2
//@     modifies *
//@     invariant 0 - 1 <= rangeindex && rangeindex < len(tasksToEvict)
//@     invariant forall i int :: 0 <= i && i < len(tasksToEvict) ==> tasksToEvict[i] != nil
//@     invariant podgroup_info.setsOK(job)
//@     decreases len(tasksToEvict) - rangeindex
//@   ensures [stampedWhenFirstSeen] old(job.StalenessInfo.TimeStamp) == nil && old(grace(ssn)) < 0 ==> job.StalenessInfo.TimeStamp != nil && *job.StalenessInfo.TimeStamp == now()
//@   ensures [stampKept] old(job.StalenessInfo.TimeStamp) != nil && old(grace(ssn)) < 0 ==> job.StalenessInfo.TimeStamp == old(job.StalenessInfo.TimeStamp)
//@   lemma [insideGraceNeverEvicts] old(grace(ssn)) >= 0 && timeInStaleStatus < old(grace(ssn)) ==> cache.evictCalls() == old(cache.evictCalls()) && job.StalenessInfo.Stale == old(job.StalenessInfo.Stale)
//@   ensures [negativeGraceNeverEvicts] old(grace(ssn)) < 0 ==> cache.evictCalls() == old(cache.evictCalls()) && job.StalenessInfo.Stale == old(job.StalenessInfo.Stale)
//@ end
// Every job of the snapshot is visited once; stale jobs go to handleStaleJob, all others lose their mark.
// C10: no panic on any path (the snapshot's job table holds no nil job, before and after the evictions).
//@ func (*staleGangEviction).Execute
//@   props C03 C10
//@   usestable Session.ClusterInfo ClusterInfo.PodGroupInfos map[common_info.PodGroupID]*podgroup_info.PodGroupInfo
//@   requires ssn != nil && ssn.ClusterInfo != nil
//@   requires forall k in ssn.ClusterInfo.PodGroupInfos :: ssn.ClusterInfo.PodGroupInfos[k] != nil && allocated(ssn.ClusterInfo.PodGroupInfos[k])
//@   modifies *
//@   loop 1
//@     modifies *
//@     invariant ssn.ClusterInfo == old(ssn.ClusterInfo) && ssn.ClusterInfo.PodGroupInfos == old(ssn.ClusterInfo.PodGroupInfos)
//@     invariant forall k in ssn.ClusterInfo.PodGroupInfos :: ssn.ClusterInfo.PodGroupInfos[k] != nil && allocated(ssn.ClusterInfo.PodGroupInfos[k])
//@ end
// ---- end exec2 ----
