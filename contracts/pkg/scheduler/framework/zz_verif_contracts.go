//go:build verif

// Contracts for govc (contract-based deductive verification); comments only.
package framework

// ---- operations.go: the four log entry kinds ---------------------------------------------------
//@ define isEvictOp(o Operation) bool = typeis(o, "evictOperation")
//@ define isPipelineOp(o Operation) bool = typeis(o, "pipelineOperation")
//@ define isAllocateOp(o Operation) bool = typeis(o, "allocateOperation")
//@ define isUndoOp(o Operation) bool = typeis(o, "undoOperation")
//@ define knownOp(o Operation) bool = isEvictOp(o) || isPipelineOp(o) || isAllocateOp(o) || isUndoOp(o)

//@ func (evictOperation).Name
//@   props C13
//@   pure
//@   ensures result == "evict"
//@ end
//@ func (pipelineOperation).Name
//@   props C13
//@   pure
//@   ensures result == "pipeline"
//@ end
//@ func (allocateOperation).Name
//@   props C13
//@   pure
//@   ensures result == "allocate"
//@ end
//@ func (undoOperation).Name
//@   props C13
//@   pure
//@   ensures result == "undo"
//@ end

//@ func Operation.Name
//@   pure
//@   ensures isEvictOp(recv) ==> result == "evict"
//@   ensures isPipelineOp(recv) ==> result == "pipeline"
//@   ensures isAllocateOp(recv) ==> result == "allocate"
//@   ensures isUndoOp(recv) ==> result == "undo"
//@ end

//@ func (*Statement).Checkpoint
//@   props C13
//@   requires s != nil
//@   pure
//@   ensures result == len(s.operations)
//@ end

//@ func (*Statement).clearOperations
//@   props C13
//@   requires s != nil
//@   modifies s.operations
//@   ensures len(s.operations) == 0
//@ end

//@ func (*Statement).operationValid
//@   props C13
//@   requires s != nil
//@   requires forall j int :: 0 <= j && j < len(s.operations) ==> knownOp(s.operations[j])
//@   pure
//@   loop 1
//@     invariant 0 - 1 <= rangeindex && rangeindex < len(s.operations)
//@     decreases len(s.operations) - rangeindex
//@   ensures (forall j int :: 0 <= j && j < len(s.operations) ==> !isUndoOp(s.operations[j])) ==> result
//@ end

// ---- session_plugins.go: victim filters / scenario validators (C06) ----------------------------
// C06: "never evict pods of non-preemptible workloads, nor of workloads still inside the minimum
// runtime ...": the session-level filter accepts a victim iff EVERY registered plugin filter accepts it.
// victimFilterHolds(f, actor, victim): the verdict of the registered plugin function f (abstract here;
// the plugin's own contract - e.g. minruntime.reclaimFilterFn - characterises it).
//@ declare victimFilterHolds(f ref, actor ref, victim ref) bool
//@ define reclaimVictimOK(ssn *Session, actor *podgroup_info.PodGroupInfo, victim *podgroup_info.PodGroupInfo) bool = forall i int :: 0 <= i && i < len(ssn.ReclaimVictimFilterFns) ==> victimFilterHolds(ssn.ReclaimVictimFilterFns[i], actor, victim)
//@ define preemptVictimOK(ssn *Session, actor *podgroup_info.PodGroupInfo, victim *podgroup_info.PodGroupInfo) bool = forall i int :: 0 <= i && i < len(ssn.PreemptVictimFilterFns) ==> victimFilterHolds(ssn.PreemptVictimFilterFns[i], actor, victim)

//@ func (*Session).ReclaimVictimFilter
//@   props C06 C05
//@   requires ssn != nil
//@   pure
//@   loop 1
//@     invariant 0 - 1 <= rangeindex && rangeindex < len(ssn.ReclaimVictimFilterFns)
//@     invariant forall i int :: 0 <= i && i <= rangeindex ==> victimFilterHolds(ssn.ReclaimVictimFilterFns[i], reclaimer, victim)
//@     decreases len(ssn.ReclaimVictimFilterFns) - rangeindex
//@   ensures result == reclaimVictimOK(ssn, reclaimer, victim)
//@   ensures [noFilters] len(ssn.ReclaimVictimFilterFns) == 0 ==> result
//@ end

//@ func (*Session).PreemptVictimFilter
//@   props C06 C05
//@   requires ssn != nil
//@   pure
//@   loop 1
//@     invariant 0 - 1 <= rangeindex && rangeindex < len(ssn.PreemptVictimFilterFns)
//@     invariant forall i int :: 0 <= i && i <= rangeindex ==> victimFilterHolds(ssn.PreemptVictimFilterFns[i], preemptor, victim)
//@     decreases len(ssn.PreemptVictimFilterFns) - rangeindex
//@   ensures result == preemptVictimOK(ssn, preemptor, victim)
//@   ensures [noFilters] len(ssn.PreemptVictimFilterFns) == 0 ==> result
//@ end

// ---- session.go ----------------------------------------------------------------------------------
// C13: every what-if simulation starts from an empty log bound to the session.
//@ func (*Session).Statement
//@   props C13
//@   requires ssn != nil
//@   fresh
//@   ensures result.ssn == ssn && len(result.operations) == 0 && result.sessionID == ssn.ID
//@ end

// ---- statement.go: the undo log ------------------------------------------------------------------
// Frame facts about ALL statements' logs, used by callees that may run arbitrary plugin code.
// logsKept: no statement's log slice is re-assigned; opsKept: no existing log entry is overwritten;
// logsGrow: logs only grow and keep their old entries (append-only).
//@ define wfLog(s *Statement) bool = forall j int :: 0 <= j && j < len(s.operations) ==> knownOp(s.operations[j])
//@ define logsKept() bool = forall st *Statement :: st.operations == old(st.operations)
//@ define opsKept() bool = forall st *Statement, j int :: 0 <= j && j < old(len(st.operations)) ==> old(st.operations)[j] == old(st.operations[j])
//@ define logGrows(s *Statement) bool = len(s.operations) >= old(len(s.operations)) && (forall j int :: 0 <= j && j < old(len(s.operations)) ==> s.operations[j] == old(s.operations[j]))

//@ func Operation.Reverse
//@   modifies *
//@   ensures forall st *Statement :: len(st.operations) >= old(len(st.operations))
//@   ensures forall st *Statement, j int :: 0 <= j && j < old(len(st.operations)) ==> st.operations[j] == old(st.operations[j])
//@   ensures forall st *Statement :: old(wfLog(st)) ==> wfLog(st)
//@   ensures forall p **Statement :: *p == old(*p)
//@   ensures forall p *Operation :: old(allocated(p)) ==> *p == old(*p)
//@ end

//@ func (*Statement).undoOperation
//@   props C13
//@   requires s != nil && wfLog(s) && 0 <= index && index < len(s.operations)
//@   modifies *
//@   ensures [lenGrows] len(s.operations) >= old(len(s.operations))
//@   ensures [prefixKept] forall j int :: 0 <= j && j < old(len(s.operations)) ==> s.operations[j] == old(s.operations[j])
//@   ensures [wf] wfLog(s)
//@ end
