//go:build verif

// Contracts for govc (contract-based deductive verification); comments only.
package framework

// ---- operations.go: the four log entry kinds ---------------------------------------------------
//@ define isEvictOp(o Operation) bool = typeis(o, "evictOperation")
//@ define isPipelineOp(o Operation) bool = typeis(o, "pipelineOperation")
//@ define isAllocateOp(o Operation) bool = typeis(o, "allocateOperation")
//@ define isUndoOp(o Operation) bool = typeis(o, "undoOperation")
//@ define knownOp(o Operation) bool = isEvictOp(o) || isPipelineOp(o) || isAllocateOp(o) || isUndoOp(o)
// index of the log entry an undo entry reverses
//@ define undoTarget(o Operation) int = unbox(o, "undoOperation").operationIndex

//@ func (evictOperation).Name
//@   props C13
//@   pure
//@   ensures result == "evict"
//@ end
//@ func (pipelineOperation).Name
//@   props C13
//@   pure
//@   ensures result == "pipeline"
//@ end
//@ func (allocateOperation).Name
//@   props C13
//@   pure
//@   ensures result == "allocate"
//@ end
//@ func (undoOperation).Name
//@   props C13
//@   pure
//@   ensures result == "undo"
//@ end

// ---- statement.go: the undo log ------------------------------------------------------------------
// Well-formed log: only the four in-repo entry kinds, and an undo entry points strictly backwards
// (DESIGN C13: "log invariant undo@j => target < j"; it is what makes operationValid terminate).
//@ define wfLog(s *Statement) bool = (len(s.operations) > 0 ==> knownOp(s.operations[0])) && forall j int :: 0 <= j && j < len(s.operations) ==> knownOp(s.operations[j]) && (isUndoOp(s.operations[j]) ==> 0 <= undoTarget(s.operations[j]) && undoTarget(s.operations[j]) < j)
// entry j is an undo entry for entry i
//@ define targets(s *Statement, j int, i int) bool = isUndoOp(s.operations[j]) && undoTarget(s.operations[j]) == i
//@ define noUndoFor(s *Statement, i int) bool = forall j int :: 0 <= j && j < len(s.operations) ==> !targets(s, j, i)
//@ define firstUndoFor(s *Statement, i int, j int) bool = 0 <= j && j < len(s.operations) && targets(s, j, i) && (forall k int :: 0 <= k && k < j ==> !targets(s, k, i))
// Flat log (the shape at every quiescent point, i.e. outside Rollback/Discard): undo entries are
// themselves never undone and no entry is undone twice. On a flat log the number of live undo
// entries targeting i is 0 or 1, so "even number of live undo entries" <==> "no undo entry".
//@ define flatLog(s *Statement) bool = (forall j int :: 0 <= j && j < len(s.operations) && isUndoOp(s.operations[j]) ==> noUndoFor(s, j)) && (forall j int, k int :: 0 <= j && j < k && k < len(s.operations) && isUndoOp(s.operations[j]) && isUndoOp(s.operations[k]) ==> undoTarget(s.operations[j]) != undoTarget(s.operations[k]))

// C13: "nothing is emitted for undone steps" rests on operationValid. DESIGN: valid(i) <==> an even
// number of live undo entries target i. The code decides by the FIRST undo entry targeting i
// (valid(i) = !valid(first undo of i)); stated here as the unfolding of that recursion to depth 3
// (the deepest nesting Rollback/Discard can create) plus the parity form on flat logs.
//@ func (*Statement).operationValid
//@   props C13
//@   requires s != nil && wfLog(s)
//@   pure
//@   decreases len(s.operations) - i
//@   loop 1
//@     invariant 0 - 1 <= rangeindex && rangeindex < len(s.operations)
//@     invariant forall j int :: 0 <= j && j <= rangeindex ==> !targets(s, j, i)
//@     decreases len(s.operations) - rangeindex
//@   ensures [noUndo] noUndoFor(s, i) ==> result
//@   ensures [undone] forall j int :: firstUndoFor(s, i, j) && noUndoFor(s, j) ==> !result
//@   ensures [redone] forall j int, k int :: firstUndoFor(s, i, j) && firstUndoFor(s, j, k) && noUndoFor(s, k) ==> result
//@   ensures [parityOnFlat] flatLog(s) ==> (result <==> noUndoFor(s, i))
//@ end
