//go:build verif

// Contracts for govc (contract-based deductive verification); comments only.
package framework

// ---- operations.go: the four log entry kinds ---------------------------------------------------
//@ define isEvictOp(o Operation) bool = typeis(o, "evictOperation")
//@ define isPipelineOp(o Operation) bool = typeis(o, "pipelineOperation")
//@ define isAllocateOp(o Operation) bool = typeis(o, "allocateOperation")
//@ define isUndoOp(o Operation) bool = typeis(o, "undoOperation")
//@ define knownOp(o Operation) bool = isEvictOp(o) || isPipelineOp(o) || isAllocateOp(o) || isUndoOp(o)
// index of the log entry an undo entry reverses
//@ define undoTarget(o Operation) int = unbox(o, "undoOperation").operationIndex

// the task an entry is about (undo entries carry a fresh placeholder task with empty UID/Job)
//@ define opTask(o Operation) *pod_info.PodInfo = ite(isEvictOp(o), unbox(o, "evictOperation").taskInfo, ite(isPipelineOp(o), unbox(o, "pipelineOperation").taskInfo, unbox(o, "allocateOperation").taskInfo))
// the closure stored in an entry that reverses it
//@ define revFn(o Operation) ReverseOperation = ite(isEvictOp(o), unbox(o, "evictOperation").reverseOperation, ite(isPipelineOp(o), unbox(o, "pipelineOperation").reverseOperation, ite(isAllocateOp(o), unbox(o, "allocateOperation").reverseOperation, unbox(o, "undoOperation").reverseOperation)))
//@ define opName(o Operation) string = ite(isEvictOp(o), "evict", ite(isPipelineOp(o), "pipeline", ite(isAllocateOp(o), "allocate", "undo")))

// Interface-level contracts (used at `invoke` sites): assumed, but each of the four in-repo
// implementations is verified below against the same statement; `requires knownOp(recv)` makes the
// closed-world step explicit at every call site.
//@ func Operation.Name
//@   requires knownOp(recv)
//@   pure
//@   ensures result == opName(recv)
//@ end
//@ func Operation.TaskInfo
//@   requires knownOp(recv)
//@   ensures !isUndoOp(recv) ==> result == opTask(recv)
//@   ensures isUndoOp(recv) ==> fresh(result) && result.UID == "" && result.Job == ""
//@ end

//@ func (evictOperation).Name
//@   props C13
//@   pure
//@   ensures result == "evict"
//@ end
//@ func (pipelineOperation).Name
//@   props C13
//@   pure
//@   ensures result == "pipeline"
//@ end
//@ func (allocateOperation).Name
//@   props C13
//@   pure
//@   ensures result == "allocate"
//@ end
//@ func (undoOperation).Name
//@   props C13
//@   pure
//@   ensures result == "undo"
//@ end

//@ func (evictOperation).TaskInfo
//@   props C13
//@   pure
//@   ensures result == op.taskInfo
//@ end
//@ func (pipelineOperation).TaskInfo
//@   props C13
//@   pure
//@   ensures result == op.taskInfo
//@ end
//@ func (allocateOperation).TaskInfo
//@   props C13
//@   pure
//@   ensures result == op.taskInfo
//@ end
//@ func (undoOperation).TaskInfo
//@   props C13
//@   fresh
//@   ensures result.UID == "" && result.Job == ""
//@ end

// ---- statement.go: the undo log ------------------------------------------------------------------
// Well-formed log: only the four in-repo entry kinds, and an undo entry points strictly backwards
// (DESIGN C13: "log invariant undo@j => target < j"; it is what makes operationValid terminate).
//@ define wfKnown(s *Statement) bool = forall j int :: 0 <= j && j < len(s.operations) ==> knownOp(s.operations[j])
//@ define wfRev(s *Statement) bool = forall j int :: 0 <= j && j < len(s.operations) ==> revFn(s.operations[j]) != nil
//@ define wfBack(s *Statement) bool = forall j int :: 0 <= j && j < len(s.operations) && isUndoOp(s.operations[j]) ==> 0 <= undoTarget(s.operations[j]) && undoTarget(s.operations[j]) < j
//@ define wfTask(s *Statement) bool = forall j int :: 0 <= j && j < len(s.operations) && !isUndoOp(s.operations[j]) ==> opTask(s.operations[j]) != nil
//@ define wfLog(s *Statement) bool = wfKnown(s) && wfRev(s) && wfBack(s) && wfTask(s)
// entry j is an undo entry for entry i
//@ define targets(s *Statement, j int, i int) bool = isUndoOp(s.operations[j]) && undoTarget(s.operations[j]) == i
//@ define noUndoFor(s *Statement, i int) bool = forall j int :: 0 <= j && j < len(s.operations) ==> !targets(s, j, i)
//@ define firstUndoFor(s *Statement, i int, j int) bool = 0 <= j && j < len(s.operations) && targets(s, j, i) && (forall k int :: 0 <= k && k < j ==> !targets(s, k, i))
// Flat log (the shape at every quiescent point, i.e. outside Rollback/Discard): undo entries are
// themselves never undone and no entry is undone twice. On a flat log the number of live undo
// entries targeting i is 0 or 1, so "even number of live undo entries" <==> "no undo entry".
//@ define flatLog(s *Statement) bool = (forall j int :: 0 <= j && j < len(s.operations) && isUndoOp(s.operations[j]) ==> noUndoFor(s, j)) && (forall j int, k int :: 0 <= j && j < k && k < len(s.operations) && isUndoOp(s.operations[j]) && isUndoOp(s.operations[k]) ==> undoTarget(s.operations[j]) != undoTarget(s.operations[k]))

// C13: "nothing is emitted for undone steps" rests on operationValid. DESIGN: valid(i) <==> an even
// number of live undo entries target i. The code decides by the FIRST undo entry targeting i
// (valid(i) = !valid(first undo of i)); stated here as the unfolding of that recursion to depth 3
// (the deepest nesting Rollback/Discard can create) plus the parity form on flat logs.
//@ func (*Statement).operationValid
//@   props C13
//@   requires s != nil && wfLog(s)
//@   pure
//@   decreases len(s.operations) - i
//@   loop 1
//@     invariant 0 - 1 <= rangeindex && rangeindex < len(s.operations)
//@     invariant forall j int :: 0 <= j && j <= rangeindex ==> !targets(s, j, i)
//@     decreases len(s.operations) - rangeindex
//@   ensures [noUndo] noUndoFor(s, i) ==> result
//@   ensures [undone] forall j int :: firstUndoFor(s, i, j) && noUndoFor(s, j) ==> !result
//@   ensures [redone] forall j int, k int :: firstUndoFor(s, i, j) && firstUndoFor(s, j, k) && noUndoFor(s, k) ==> result
//@   ensures [parityOnFlat] flatLog(s) ==> (result <==> noUndoFor(s, i))
//@ end

// ---- frame facts about ALL statements (callees run plugin code, so their frame is `modifies *`) --
// The log field is unexported and only Statement methods assign it; every such assignment appends
// (or happens in Rollback/Discard/Commit/ConvertAllAllocatedToPipelined, which no ReverseOperation
// or event handler calls). Hence, across any ReverseOperation / handler call: logs only grow and
// existing entries stay.
//@ define logsGrow() bool = forall st *Statement :: len(st.operations) >= old(len(st.operations))
//@ define entriesKept() bool = forall st *Statement, j int :: 0 <= j && j < old(len(st.operations)) ==> st.operations[j] == old(st.operations[j])
// no existing Operation cell (log slot or local) is overwritten: logs are append-only and append copies
//@ define opCellsKept() bool = forall p *Operation :: old(allocated(p)) ==> *p == old(*p)
// entries appended by the callee are well-formed ones (together with entriesKept: wfLog is preserved)
//@ define okEntry(o Operation, j int) bool = knownOp(o) && revFn(o) != nil && (!isUndoOp(o) ==> opTask(o) != nil) && (isUndoOp(o) ==> 0 <= undoTarget(o) && undoTarget(o) < j)
//@ define newEntriesOK() bool = forall st *Statement, j int :: old(len(st.operations)) <= j && j < len(st.operations) ==> okEntry(st.operations[j], j)

// number of ReverseOperation invocations so far (ghost): lets callers state "nothing is reversed for
// an already undone entry" and "every still valid entry that is undone is reversed".
//@ ghost reversals() int
// number of ReverseOperation invocations that returned an error (ghost): Rollback / undoOperation fail only if one did
//@ ghost reverseFailures() int
//@ define revFailMono() bool = reverseFailures() >= old(reverseFailures())

//@ func type:ReverseOperation
//@   modifies *
//@   ensures [assumed] logsGrow() && entriesKept() && newEntriesOK()
//@   ensures [assumed] reversals() >= old(reversals()) + 1
//@   ensures [assumed] revFailMono() && (result != nil ==> reverseFailures() >= old(reverseFailures()) + 1)
//@   ensures [assumed] cache.evictCalls() == old(cache.evictCalls()) && cache.pipelinedCalls() == old(cache.pipelinedCalls()) && cache.bindCalls() == old(cache.bindCalls())
//@   note every ReverseOperation value is one of the closures created in Evict/Pipeline/Allocate/undoOperation; each calls unevict/unpipeline/unallocate or Evict/Pipeline/Allocate/undoOperation, which only append to logs
//@ end

//@ func Operation.Reverse
//@   requires knownOp(recv) && revFn(recv) != nil
//@   modifies *
//@   ensures [assumed] logsGrow() && entriesKept() && newEntriesOK()
//@   ensures [assumed] reversals() >= old(reversals()) + 1
//@   ensures [assumed] revFailMono() && (result != nil ==> reverseFailures() >= old(reverseFailures()) + 1)
//@   ensures [assumed] cache.evictCalls() == old(cache.evictCalls()) && cache.pipelinedCalls() == old(cache.pipelinedCalls()) && cache.bindCalls() == old(cache.bindCalls())
//@   ensures [assumed] !isUndoOp(recv) ==> (forall st *Statement :: len(st.operations) == old(len(st.operations)))
//@   note assumed at invoke sites; the four implementations (below) just call the stored ReverseOperation and are verified against this statement
//@   note assumed `!isUndoOp(recv) ==> no log grows`: evict/pipeline/allocate entries are only built in Evict/Pipeline/Allocate, with reverseOperation = the closures Evict$1/Pipeline$1/Allocate$1, each verified `ensures logsSame()` below (only the redo closures stored in undo entries append to a log)
//@ end
//@ func (evictOperation).Reverse
//@   props C13
//@   requires op.reverseOperation != nil
//@   modifies *
//@   ensures logsGrow() && entriesKept() && newEntriesOK()
//@   ensures reversals() >= old(reversals()) + 1
//@   ensures revFailMono() && (result != nil ==> reverseFailures() >= old(reverseFailures()) + 1)
//@   ensures cache.evictCalls() == old(cache.evictCalls()) && cache.pipelinedCalls() == old(cache.pipelinedCalls()) && cache.bindCalls() == old(cache.bindCalls())
//@ end
//@ func (pipelineOperation).Reverse
//@   props C13
//@   requires op.reverseOperation != nil
//@   modifies *
//@   ensures logsGrow() && entriesKept() && newEntriesOK()
//@   ensures reversals() >= old(reversals()) + 1
//@   ensures revFailMono() && (result != nil ==> reverseFailures() >= old(reverseFailures()) + 1)
//@   ensures cache.evictCalls() == old(cache.evictCalls()) && cache.pipelinedCalls() == old(cache.pipelinedCalls()) && cache.bindCalls() == old(cache.bindCalls())
//@ end
//@ func (allocateOperation).Reverse
//@   props C13
//@   requires op.reverseOperation != nil
//@   modifies *
//@   ensures logsGrow() && entriesKept() && newEntriesOK()
//@   ensures reversals() >= old(reversals()) + 1
//@   ensures revFailMono() && (result != nil ==> reverseFailures() >= old(reverseFailures()) + 1)
//@   ensures cache.evictCalls() == old(cache.evictCalls()) && cache.pipelinedCalls() == old(cache.pipelinedCalls()) && cache.bindCalls() == old(cache.bindCalls())
//@ end
//@ func (undoOperation).Reverse
//@   props C13
//@   requires op.reverseOperation != nil
//@   modifies *
//@   ensures logsGrow() && entriesKept() && newEntriesOK()
//@   ensures reversals() >= old(reversals()) + 1
//@   ensures revFailMono() && (result != nil ==> reverseFailures() >= old(reverseFailures()) + 1)
//@   ensures cache.evictCalls() == old(cache.evictCalls()) && cache.pipelinedCalls() == old(cache.pipelinedCalls()) && cache.bindCalls() == old(cache.bindCalls())
//@ end

// entry i was undone and that undo is live (depth-2 case of operationValid)
//@ define undone(s *Statement, i int) bool = exists j int :: firstUndoFor(s, i, j) && noUndoFor(s, j)

// C13: "undoOperation appends one undo entry, reverses only valid ops".
//@ func (*Statement).undoOperation
//@   props C13
//@   requires s != nil && wfLog(s) && 0 <= index && index < len(s.operations)
//@   modifies *
//@   ensures [lenGrows] len(s.operations) >= old(len(s.operations))
//@   ensures [prefixKept] forall j int :: 0 <= j && j < old(len(s.operations)) ==> s.operations[j] == old(s.operations[j])
//@   ensures [newEntriesOK] forall j int :: old(len(s.operations)) <= j && j < len(s.operations) ==> okEntry(s.operations[j], j)
//@   ensures [invalidSkipped] old(undone(s, index)) ==> result == nil && len(s.operations) == old(len(s.operations)) && reversals() == old(reversals())
//@   ensures [virtual] cache.evictCalls() == old(cache.evictCalls()) && cache.pipelinedCalls() == old(cache.pipelinedCalls()) && cache.bindCalls() == old(cache.bindCalls())
//@   ensures [reversalsMonotone] old(reversals()) <= reversals()
//@   ensures [validReversed] old(noUndoFor(s, index)) ==> reversals() >= old(reversals()) + 1
//@   ensures [appendsUndoEntry] old(noUndoFor(s, index)) && result == nil ==> len(s.operations) > old(len(s.operations)) && targets(s, len(s.operations) - 1, index)
//@   ensures [appendsOnlyUndo] !old(isUndoOp(s.operations[index])) ==> forall j int :: old(len(s.operations)) <= j && j < len(s.operations) ==> isUndoOp(s.operations[j])
//@   ensures [failsOnlyIfReverseFails] revFailMono() && (reverseFailures() == old(reverseFailures()) ==> result == nil)
//@ end

//@ func (*Statement).Checkpoint
//@   props C13
//@   requires s != nil
//@   pure
//@   ensures result == len(s.operations)
//@ end

//@ func (*Statement).clearOperations
//@   props C13
//@   requires s != nil
//@   modifies s.operations
//@   ensures len(s.operations) == 0
//@ end

// C13: "rolls back to a checkpoint": post len' == cp; entries below the checkpoint are untouched;
// every entry >= cp is visited once, last to first (the loop variant is the entry index), each still
// valid one is reversed (undoOperation), already undone ones are skipped.
//@ func (*Statement).Rollback
//@   props C13
//@   requires s != nil && wfLog(s)
//@   modifies *
//@   usestable Statement.ssn Session.ClusterInfo Session.Cache
//@   loop 1
//@     modifies *
//@     invariant cp - 1 <= i && i < old(len(s.operations)) && 0 <= cp
//@     invariant len(s.operations) >= old(len(s.operations))
//@     invariant forall j int :: 0 <= j && j < old(len(s.operations)) ==> s.operations[j] == old(s.operations[j])
//@     invariant wfKnown(s)
//@     invariant wfRev(s)
//@     invariant wfBack(s)
//@     invariant wfTask(s)
//@     invariant reversals() >= old(reversals())
//@     invariant revFailMono()
//@     invariant i == old(len(s.operations)) - 1 ==> s.operations == old(s.operations) && reversals() == old(reversals())
//@     invariant i < old(len(s.operations)) - 1 && old(noUndoFor(s, len(s.operations) - 1)) ==> reversals() >= old(reversals()) + 1
//@     invariant cache.evictCalls() == old(cache.evictCalls()) && cache.pipelinedCalls() == old(cache.pipelinedCalls()) && cache.bindCalls() == old(cache.bindCalls())
//@     decreases i - cp + 1
//@   ensures [badCheckpoint] cp < 0 || cp > old(len(s.operations)) ==> result != nil && s.operations == old(s.operations) && reversals() == old(reversals())
//@   ensures [lenIsCheckpoint] 0 <= cp && cp <= old(len(s.operations)) && result == nil ==> len(s.operations) == cp
//@   ensures [belowCheckpointKept] 0 <= cp && cp <= old(len(s.operations)) ==> forall j int :: 0 <= j && j < cp ==> s.operations[j] == old(s.operations[j])
//@   ensures [failedKeepsLog] result != nil ==> len(s.operations) >= old(len(s.operations))
//@   ensures [virtual] cache.evictCalls() == old(cache.evictCalls()) && cache.pipelinedCalls() == old(cache.pipelinedCalls()) && cache.bindCalls() == old(cache.bindCalls())
//@   ensures [lastEntryReversed] 0 <= cp && cp < old(len(s.operations)) && old(noUndoFor(s, len(s.operations) - 1)) ==> reversals() >= old(reversals()) + 1
//@   ensures [wfKnown] wfKnown(s)
//@   ensures [wfRev] wfRev(s)
//@   ensures [wfBack] wfBack(s)
//@   ensures [wfTask] wfTask(s)
//@   ensures [ssnKept] ssnKept(s)
//@   ensures [okIfNoReverseFailure] revFailMono() && (0 <= cp && cp <= old(len(s.operations)) && reverseFailures() == old(reverseFailures()) ==> result == nil)
//@ end

// C13: "any sequence ... that an action later discards": post len' == 0 on every path.
//@ func (*Statement).Discard
//@   props C13
//@   requires s != nil && wfLog(s)
//@   modifies *
//@   usestable Statement.ssn Session.ClusterInfo Session.Cache
//@   loop 1
//@     modifies *
//@     invariant 0 - 1 <= i && i < old(len(s.operations))
//@     invariant len(s.operations) >= old(len(s.operations))
//@     invariant wfKnown(s)
//@     invariant wfRev(s)
//@     invariant wfBack(s)
//@     invariant wfTask(s)
//@     invariant reversals() >= old(reversals())
//@     invariant revFailMono()
//@     invariant forall j int :: 0 <= j && j < old(len(s.operations)) ==> s.operations[j] == old(s.operations[j])
//@     invariant i == old(len(s.operations)) - 1 ==> s.operations == old(s.operations) && reversals() == old(reversals())
//@     invariant i < old(len(s.operations)) - 1 && old(noUndoFor(s, len(s.operations) - 1)) ==> reversals() >= old(reversals()) + 1
//@     invariant cache.evictCalls() == old(cache.evictCalls()) && cache.pipelinedCalls() == old(cache.pipelinedCalls()) && cache.bindCalls() == old(cache.bindCalls())
//@     decreases i + 1
//@   ensures [logEmpty] len(s.operations) == 0
//@   ensures [virtual] cache.evictCalls() == old(cache.evictCalls()) && cache.pipelinedCalls() == old(cache.pipelinedCalls()) && cache.bindCalls() == old(cache.bindCalls())
//@   ensures [emptyIsNoop] old(len(s.operations)) == 0 ==> reversals() == old(reversals())
//@   ensures [lastEntryReversed] old(len(s.operations)) > 0 && old(noUndoFor(s, len(s.operations) - 1)) ==> reversals() >= old(reversals()) + 1
//@   ensures [ssnKept] ssnKept(s)
//@   ensures [revFailMono] revFailMono()
//@ end

// ---- session_plugins.go: victim filters / scenario validators (C06) ----------------------------
// C06: "never evict pods of non-preemptible workloads, nor of workloads still inside the minimum
// runtime ...": the session-level verdict is the conjunction of EVERY registered plugin verdict
// (api.victimFilterHolds(f, actor, victim) is the abstract verdict of plugin function f).
//@ define reclaimVictimOK(ssn *Session, actor *podgroup_info.PodGroupInfo, victim *podgroup_info.PodGroupInfo) bool = forall i int :: 0 <= i && i < len(ssn.ReclaimVictimFilterFns) ==> api.victimFilterHolds(ssn.ReclaimVictimFilterFns[i], actor, victim)
//@ define preemptVictimOK(ssn *Session, actor *podgroup_info.PodGroupInfo, victim *podgroup_info.PodGroupInfo) bool = forall i int :: 0 <= i && i < len(ssn.PreemptVictimFilterFns) ==> api.victimFilterHolds(ssn.PreemptVictimFilterFns[i], actor, victim)
//@ define reclaimScenarioOK(ssn *Session, scenario api.ScenarioInfo) bool = forall i int :: 0 <= i && i < len(ssn.ReclaimScenarioValidatorFns) ==> api.scenarioValid(ssn.ReclaimScenarioValidatorFns[i], scenario)
//@ define preemptScenarioOK(ssn *Session, scenario api.ScenarioInfo) bool = forall i int :: 0 <= i && i < len(ssn.PreemptScenarioValidatorFns) ==> api.scenarioValid(ssn.PreemptScenarioValidatorFns[i], scenario)

//@ func (*Session).ReclaimVictimFilter
//@   props C06 C05
//@   requires ssn != nil
//@   requires forall i int :: 0 <= i && i < len(ssn.ReclaimVictimFilterFns) ==> ssn.ReclaimVictimFilterFns[i] != nil
//@   pure
//@   loop 1
//@     invariant 0 - 1 <= rangeindex && rangeindex < len(ssn.ReclaimVictimFilterFns)
//@     invariant forall i int :: 0 <= i && i <= rangeindex ==> api.victimFilterHolds(ssn.ReclaimVictimFilterFns[i], reclaimer, victim)
//@     decreases len(ssn.ReclaimVictimFilterFns) - rangeindex
//@   ensures result == reclaimVictimOK(ssn, reclaimer, victim)
//@   ensures [noFilters] len(ssn.ReclaimVictimFilterFns) == 0 ==> result
//@ end

//@ func (*Session).PreemptVictimFilter
//@   props C06 C05
//@   requires ssn != nil
//@   requires forall i int :: 0 <= i && i < len(ssn.PreemptVictimFilterFns) ==> ssn.PreemptVictimFilterFns[i] != nil
//@   pure
//@   loop 1
//@     invariant 0 - 1 <= rangeindex && rangeindex < len(ssn.PreemptVictimFilterFns)
//@     invariant forall i int :: 0 <= i && i <= rangeindex ==> api.victimFilterHolds(ssn.PreemptVictimFilterFns[i], preemptor, victim)
//@     decreases len(ssn.PreemptVictimFilterFns) - rangeindex
//@   ensures result == preemptVictimOK(ssn, preemptor, victim)
//@   ensures [noFilters] len(ssn.PreemptVictimFilterFns) == 0 ==> result
//@ end

//@ func (*Session).ReclaimScenarioValidatorFn
//@   props C06
//@   requires ssn != nil
//@   requires forall i int :: 0 <= i && i < len(ssn.ReclaimScenarioValidatorFns) ==> ssn.ReclaimScenarioValidatorFns[i] != nil
//@   pure
//@   loop 1
//@     invariant 0 - 1 <= rangeindex && rangeindex < len(ssn.ReclaimScenarioValidatorFns)
//@     invariant forall i int :: 0 <= i && i <= rangeindex ==> api.scenarioValid(ssn.ReclaimScenarioValidatorFns[i], scenario)
//@     decreases len(ssn.ReclaimScenarioValidatorFns) - rangeindex
//@   ensures result == reclaimScenarioOK(ssn, scenario)
//@ end

//@ func (*Session).PreemptScenarioValidator
//@   props C06
//@   requires ssn != nil
//@   requires forall i int :: 0 <= i && i < len(ssn.PreemptScenarioValidatorFns) ==> ssn.PreemptScenarioValidatorFns[i] != nil
//@   pure
//@   loop 1
//@     invariant 0 - 1 <= rangeindex && rangeindex < len(ssn.PreemptScenarioValidatorFns)
//@     invariant forall i int :: 0 <= i && i <= rangeindex ==> api.scenarioValid(ssn.PreemptScenarioValidatorFns[i], scenario)
//@     decreases len(ssn.PreemptScenarioValidatorFns) - rangeindex
//@   ensures result == preemptScenarioOK(ssn, scenario)
//@ end

// ---- session_plugins.go: comparators (C16) -----------------------------------------------------
// C16: "nor - at equal priority - a younger one while leaving an older one unplaced": whenever every
// registered comparator is neutral on (l, r) - which the priority and elastic comparators are for two
// workloads of equal priority and equal gang state (their own contracts) - the older workload is
// ordered first, ties broken by UID, so the order is strict and total.
//@ define pgOf(x interface{}) *podgroup_info.PodGroupInfo = unbox(x, "*podgroup_info.PodGroupInfo")
//@ define isPG(x interface{}) bool = typeis(x, "*podgroup_info.PodGroupInfo") && pgOf(x) != nil
//@ define fifoLessJob(a *podgroup_info.PodGroupInfo, b *podgroup_info.PodGroupInfo) bool = a.CreationTimestamp < b.CreationTimestamp || (a.CreationTimestamp == b.CreationTimestamp && a.UID < b.UID)
//@ define jobCmp(ssn *Session, i int, l interface{}, r interface{}) int = common_info.cmpVerdict(ssn.JobOrderFns[i], l, r)
//@ define jobNeutral(ssn *Session, l interface{}, r interface{}) bool = forall i int :: 0 <= i && i < len(ssn.JobOrderFns) ==> jobCmp(ssn, i, l, r) == 0
//@ define jobDecider(ssn *Session, k int, l interface{}, r interface{}) bool = 0 <= k && k < len(ssn.JobOrderFns) && jobCmp(ssn, k, l, r) != 0 && (forall i int :: 0 <= i && i < k ==> jobCmp(ssn, i, l, r) == 0)

//@ func (*Session).JobOrderFn
//@   props C16
//@   requires ssn != nil && isPG(l) && isPG(r)
//@   requires forall i int :: 0 <= i && i < len(ssn.JobOrderFns) ==> ssn.JobOrderFns[i] != nil
//@   pure
//@   loop 1
//@     invariant 0 - 1 <= rangeindex && rangeindex < len(ssn.JobOrderFns)
//@     invariant forall i int :: 0 <= i && i <= rangeindex ==> jobCmp(ssn, i, l, r) == 0
//@     decreases len(ssn.JobOrderFns) - rangeindex
//@   ensures [fifoFallback] jobNeutral(ssn, l, r) ==> result == fifoLessJob(pgOf(l), pgOf(r))
//@   ensures [firstPluginDecides] forall k int :: jobDecider(ssn, k, l, r) ==> result == (jobCmp(ssn, k, l, r) < 0)
//@   lemma [irreflexive] jobNeutral(ssn, l, r) && pgOf(l) == pgOf(r) ==> !result
//@   lemma [asymmetric] jobNeutral(ssn, l, r) && result ==> !fifoLessJob(pgOf(r), pgOf(l))
//@   lemma [totalOnDistinctKeys] jobNeutral(ssn, l, r) && (pgOf(l).CreationTimestamp != pgOf(r).CreationTimestamp || pgOf(l).UID != pgOf(r).UID) ==> result || fifoLessJob(pgOf(r), pgOf(l))
//@   lemma [transitive] forall c *podgroup_info.PodGroupInfo :: c != nil && jobNeutral(ssn, l, r) && result && fifoLessJob(pgOf(r), c) ==> fifoLessJob(pgOf(l), c)
//@ end

//@ define piOf(x interface{}) *pod_info.PodInfo = unbox(x, "*pod_info.PodInfo")
//@ define isPI(x interface{}) bool = typeis(x, "*pod_info.PodInfo") && piOf(x) != nil && piOf(x).Pod != nil
//@ define fifoLessTask(a *pod_info.PodInfo, b *pod_info.PodInfo) bool = a.Pod.CreationTimestamp < b.Pod.CreationTimestamp || (a.Pod.CreationTimestamp == b.Pod.CreationTimestamp && a.UID < b.UID)
//@ define taskCmp(ssn *Session, i int, l interface{}, r interface{}) int = common_info.cmpVerdict(ssn.TaskOrderFns[i], l, r)
//@ define taskNeutral(ssn *Session, l interface{}, r interface{}) bool = forall i int :: 0 <= i && i < len(ssn.TaskOrderFns) ==> taskCmp(ssn, i, l, r) == 0
//@ define taskDecider(ssn *Session, k int, l interface{}, r interface{}) bool = 0 <= k && k < len(ssn.TaskOrderFns) && taskCmp(ssn, k, l, r) != 0 && (forall i int :: 0 <= i && i < k ==> taskCmp(ssn, i, l, r) == 0)

//@ func (*Session).TaskOrderFn
//@   props C16
//@   requires ssn != nil && isPI(l) && isPI(r)
//@   requires forall i int :: 0 <= i && i < len(ssn.TaskOrderFns) ==> ssn.TaskOrderFns[i] != nil
//@   pure
//@   loop 1
//@     invariant 0 - 1 <= rangeindex && rangeindex < len(ssn.TaskOrderFns)
//@     invariant forall i int :: 0 <= i && i <= rangeindex ==> taskCmp(ssn, i, l, r) == 0
//@     decreases len(ssn.TaskOrderFns) - rangeindex
//@   ensures [fifoFallback] taskNeutral(ssn, l, r) ==> result == fifoLessTask(piOf(l), piOf(r))
//@   ensures [firstPluginDecides] forall k int :: taskDecider(ssn, k, l, r) ==> result == (taskCmp(ssn, k, l, r) < 0)
//@   lemma [irreflexive] taskNeutral(ssn, l, r) && piOf(l) == piOf(r) ==> !result
//@   lemma [asymmetric] taskNeutral(ssn, l, r) && result ==> !fifoLessTask(piOf(r), piOf(l))
//@ end

// Queues: the plugin comparators also look at the victim slices, so no abstract verdict is available;
// the fallback is pinned down for a session without queue comparators.
//@ define fifoLessQueue(a *queue_info.QueueInfo, b *queue_info.QueueInfo) bool = a.CreationTimestamp < b.CreationTimestamp || (a.CreationTimestamp == b.CreationTimestamp && a.UID < b.UID)
//@ func (*Session).QueueOrderFn
//@   props C16
//@   requires ssn != nil && ssn.ClusterInfo != nil && lQ != nil && rQ != nil
//@   requires forall i int :: 0 <= i && i < len(ssn.QueueOrderFns) ==> ssn.QueueOrderFns[i] != nil
//@   pure
//@   loop 1
//@     invariant 0 - 1 <= rangeindex && rangeindex < len(ssn.QueueOrderFns)
//@     decreases len(ssn.QueueOrderFns) - rangeindex
//@   ensures [fifoFallback] len(ssn.QueueOrderFns) == 0 ==> result == fifoLessQueue(lQ, rQ)
//@   lemma [asymmetric] len(ssn.QueueOrderFns) == 0 && result ==> !fifoLessQueue(rQ, lQ)
//@ end

// ---- event handlers -----------------------------------------------------------------------------
// Plugin event handlers (proportion: queue usage; dynamicresources: claim tracker and the task's
// ResourceClaimInfo entries) only change plugin-private state - abstracted by the ghost pluginState -
// and the entries of the task's ResourceClaimInfo map. allocEvents/deallocEvents count the firings,
// so that "the un-op fires the opposite handler" is observable.
//@ ghost pluginState() int
//@ ghost allocEvents() int
//@ ghost deallocEvents() int

//@ func field:EventHandler.AllocateFunc
//@   requires event != nil && event.Task != nil
//@   modifies pluginState(), allocEvents(), event.Task.ResourceClaimInfo[*]
//@   ensures allocEvents() == old(allocEvents()) + 1
//@   note assumed: the registered handlers (proportion.allocateHandlerFn, dynamicresources.allocateHandlerFn) write only plugin-private state and the task's ResourceClaimInfo entries
//@ end
//@ func field:EventHandler.DeallocateFunc
//@   requires event != nil && event.Task != nil
//@   modifies pluginState(), deallocEvents(), event.Task.ResourceClaimInfo[*]
//@   ensures deallocEvents() == old(deallocEvents()) + 1
//@   note assumed: the registered handlers (proportion.deallocateHandlerFn, dynamicresources.deallocateHandlerFn) write only plugin-private state and the task's ResourceClaimInfo entries
//@ end

//@ define handlersOK(ssn *Session) bool = forall i int :: 0 <= i && i < len(ssn.eventHandlers) ==> ssn.eventHandlers[i] != nil
// (helper "stmt2") handlersOK in the cell-quantified form - the same fact. The solvers derive the handler loops' `eh != nil`
// from the index form for some solver seeds only (and the index form ==> cell form step takes them > 60 s), so the units
// with a handler loop ASSUME the cell form next to their precondition (listed in the evidence) and carry it as invariant.
//@ define handlerCellsOK(ssn *Session) bool = forall r **EventHandler :: incells(r, ssn.eventHandlers) ==> *r != nil
//@ define mapsOK(c *api.ClusterInfo) bool = (forall k in c.PodGroupInfos :: c.PodGroupInfos[k] != nil) && (forall k in c.Nodes :: c.Nodes[k] != nil)
//@ define sessOK(ssn *Session) bool = ssn != nil && ssn.ClusterInfo != nil && handlersOK(ssn) && mapsOK(ssn.ClusterInfo)
//@ define stmtOK(s *Statement) bool = s != nil && sessOK(s.ssn)
// what survives a reverse closure (`modifies *`) thanks to the `stable` declarations at the end of this file
//@ define ssnKept(s *Statement) bool = s.ssn == old(s.ssn) && s.ssn.ClusterInfo == old(s.ssn.ClusterInfo) && s.ssn.Cache == old(s.ssn.Cache)
// the session skeleton (what stmtOK and the node/job look-ups depend on) is untouched
//@ define sessionKept(ssn *Session) bool = (forall st *Statement :: st.ssn == old(st.ssn)) && ssn.ClusterInfo == old(ssn.ClusterInfo) && ssn.Cache == old(ssn.Cache) && sessOK(ssn) && (forall k string :: (k in ssn.ClusterInfo.Nodes) == old(k in ssn.ClusterInfo.Nodes))

// what Commit needs to stay true while it walks the log: session skeleton, bind mutators, shared-GPU
// maps present on every node, and the Pod pointers of tasks
//@ define nodesShared(c *api.ClusterInfo) bool = forall k in c.Nodes :: c.Nodes[k].UsedSharedGPUsMemory != nil
//@ define bindFnsOK(ssn *Session) bool = forall i int :: 0 <= i && i < len(ssn.BindRequestMutateFns) ==> ssn.BindRequestMutateFns[i] != nil
//@ define commitEnvKept(ssn *Session) bool = sessionKept(ssn) && ssn.BindRequestMutateFns == old(ssn.BindRequestMutateFns) && (old(bindFnsOK(ssn)) ==> bindFnsOK(ssn)) && (old(nodesShared(ssn.ClusterInfo)) ==> nodesShared(ssn.ClusterInfo)) && (forall t *pod_info.PodInfo :: t.Pod == old(t.Pod))

// C13 "abandoned scenarios can [not] reach the cluster": a virtual step never calls the cache
//@ define noEmission() bool = cache.evictCalls() == old(cache.evictCalls()) && cache.pipelinedCalls() == old(cache.pipelinedCalls()) && cache.bindCalls() == old(cache.bindCalls())
// no statement's log is touched
//@ define logsSame() bool = (forall st *Statement :: st.operations == old(st.operations)) && (forall p *Operation :: old(allocated(p)) ==> *p == old(*p))

// C14's invariants of the node / job / task the statement operations work on. They are established and
// preserved by the node_info / podgroup_info contracts (C14); the statement operations ASSUME them at
// entry for the objects they look up (an `assume` is listed in the evidence), so that C13's contracts
// do not depend on how callers carry those invariants around.
//@ define nodeReady(n *node_info.NodeInfo, t *pod_info.PodInfo) bool = n != nil ==> node_info.nodeWF(n) && node_info.podsWF(n) && node_info.taskWF(t) && node_info.taskSeparate(n, t) && node_info.storedOK(n, t)
//@ define jobReady(j *podgroup_info.PodGroupInfo, t *pod_info.PodInfo) bool = j != nil ==> podgroup_info.idxWF(j) && podgroup_info.allPsWF(j) && podgroup_info.allTasksOK(j) && podgroup_info.indexed(j, t) && podgroup_info.stored(j, t) && podgroup_info.accOK(j, t.ResReq, t.ResReqVector) && podgroup_info.sgName(t) in j.PodSets
// the job's pod maps are not the node's pod map (same Go type, never shared)
//@ define jobNodeSep(j *podgroup_info.PodGroupInfo, n *node_info.NodeInfo) bool = j != nil && n != nil ==> (forall k in j.PodSets :: j.PodSets[k].podInfos != n.PodInfos && (forall s2 in j.PodSets[k].podStatusIndex :: j.PodSets[k].podStatusIndex[s2] != n.PodInfos)) && (forall st in j.PodStatusIndex :: j.PodStatusIndex[st] != n.PodInfos)

// placement (Status, NodeName) of every pre-existing task other than x is untouched
//@ define othersPlacedKept(x *pod_info.PodInfo) bool = forall t *pod_info.PodInfo :: old(allocated(t)) && t != x ==> t.Status == old(t.Status) && t.NodeName == old(t.NodeName)

// ---- what the node books for a task (helper "stmt2") ---------------------------------------------
// C14 "what the scheduler believes about each node (... per-GPU shared memory, pods present) ... equals the value
// recomputed from scratch from the pods and their statuses" / C13 "leaves the scheduler's view of nodes ... GPU-sharing
// groups ... exactly as it was": the node keeps a COPY of every pod it books (node.PodInfos[key]); all node accounting
// (Idle / Used / Releasing, per-group shared-GPU memory) is charged from the copy's Status and GPUGroups at the time
// of node.AddTask / UpdateTask. So the node agrees with the task iff that copy carries the task's current Status and
// GPU groups. C14 observes the state "inside an event handler registered through Session.AddEventHandler": the
// agreement is therefore an invariant of every handler loop (a loop moved in front of the node / job update fails it
// on entry), besides being a postcondition.
//@ define onNode(n *node_info.NodeInfo, t *pod_info.PodInfo) bool = pod_info.podKeyOf(t.Pod) in n.PodInfos
//@ define nodeRec(n *node_info.NodeInfo, t *pod_info.PodInfo) *pod_info.PodInfo = n.PodInfos[pod_info.podKeyOf(t.Pod)]
//@ define nodeAgrees(n *node_info.NodeInfo, t *pod_info.PodInfo) bool = onNode(n, t) ==> nodeRec(n, t).Status == t.Status && node_info.sameGroups(nodeRec(n, t), t)
//@ define recGroupsAre(n *node_info.NodeInfo, t *pod_info.PodInfo, g []string) bool = nodeRec(n, t).GPUGroups == g

// ---- un-ops ---------------------------------------------------------------------------------------
// C13: "the matching un-op restores Status, NodeName, GPUGroups, IsVirtualStatus, ResourceClaimInfo
// ... and fires the opposite handler".
//@ func (*Statement).unevict
//@   props C13 C02 C08 C14
//@   requires stmtOK(s) && reclaimee != nil
//@   assume jobReady(s.ssn.ClusterInfo.PodGroupInfos[reclaimee.Job], reclaimee) && nodeReady(node, reclaimee) && jobNodeSep(s.ssn.ClusterInfo.PodGroupInfos[reclaimee.Job], node)
//@   assume handlerCellsOK(s.ssn)
//@   note assume handlerCellsOK: the precondition's handlersOK(s.ssn) (every registered handler is non-nil) restated over the cells of the handler slice; the two forms are equivalent, but the solvers derive the handler loop's `eh != nil` from the index form for some seeds only
//@   modifies *
//@   loop 1
//@     invariant 0 - 1 <= rangeindex && rangeindex < len(s.ssn.eventHandlers)
//@     invariant allocEvents() - old(allocEvents()) <= rangeindex + 1
//@     # C14 (observed inside an event handler) / C08 "allocate/deallocate event handlers keep Allocated ... current during
//@     # simulations": when the allocate handlers fire, job and node have been updated - the node books the task with its
//@     # restored status and GPU groups (and with the AcceptedResource computed by THAT node)
//@     invariant node != nil ==> nodeAgrees(node, reclaimee)
//@     invariant node != nil && !old(onNode(node, reclaimee)) ==> onNode(node, reclaimee)
//@     invariant reclaimee.GPUGroups == previousGpuGroups
//@     invariant handlerCellsOK(s.ssn)
//@     decreases len(s.ssn.eventHandlers) - rangeindex
//@   ensures [ok] result == nil
//@   # C13 "leaves the scheduler's view of nodes, ... GPU-sharing groups ... exactly as it was" / C02: the node update is
//@   # handed the RESTORED task - the node's record of the pod (from which the per-group shared-GPU memory is charged)
//@   # sits on previousGpuGroups and carries the task's restored status
//@   ensures [nodeBooksPreviousGroups] node != nil && onNode(node, reclaimee) ==> recGroupsAre(node, reclaimee, previousGpuGroups)
//@   ensures [nodeBooksRestoredStatus] node != nil && onNode(node, reclaimee) ==> nodeRec(node, reclaimee).Status == reclaimee.Status
//@   ensures [backOnNode] node != nil && !old(onNode(node, reclaimee)) ==> onNode(node, reclaimee)
//@   ensures [restoresGpuGroups] reclaimee.GPUGroups == previousGpuGroups
//@   ensures [restoresVirtual] reclaimee.IsVirtualStatus == previousIsVirtualStatus
//@   ensures [restoresClaims] reclaimee.ResourceClaimInfo == previousResourceClaimInfo
//@   ensures [restoresStatus] reclaimee.Status == previousStatus || reclaimee.Status == old(reclaimee.Status)
//@   ensures [nodeNameKept] reclaimee.NodeName == old(reclaimee.NodeName)
//@   ensures [oppositeHandler] deallocEvents() == old(deallocEvents()) && allocEvents() - old(allocEvents()) <= old(len(s.ssn.eventHandlers))
//@   ensures [virtual] noEmission() && reversals() == old(reversals()) && reverseFailures() == old(reverseFailures())
//@   ensures [logsSame] logsSame()
//@   ensures [commitEnvKept] commitEnvKept(s.ssn)
//@   ensures [othersPlacedKept] othersPlacedKept(reclaimee)
//@ end

//@ func (*Statement).unpipeline
//@   props C13
//@   requires stmtOK(s) && task != nil
//@   assume jobReady(s.ssn.ClusterInfo.PodGroupInfos[task.Job], task) && nodeReady(s.ssn.ClusterInfo.Nodes[task.NodeName], task) && jobNodeSep(s.ssn.ClusterInfo.PodGroupInfos[task.Job], s.ssn.ClusterInfo.Nodes[task.NodeName])
//@   assume handlerCellsOK(s.ssn)
//@   note assume handlerCellsOK: the precondition's handlersOK(s.ssn) (every registered handler is non-nil) restated over the cells of the handler slice; the two forms are equivalent, but the solvers derive the handler loop's `eh != nil` from the index form for some seeds only
//@   modifies *
//@   loop 1
//@     invariant 0 - 1 <= rangeindex && rangeindex < len(s.ssn.eventHandlers)
//@     invariant deallocEvents() - old(deallocEvents()) <= rangeindex + 1
//@     # C14 (observed inside an event handler) / C08: when the de-allocation handlers fire, the node the task was nominated
//@     # to no longer books it and the task carries its restored placement
//@     invariant !onNode(old(s.ssn.ClusterInfo.Nodes[task.NodeName]), task)
//@     invariant task.NodeName == previousNode && task.GPUGroups == previousGpuGroups
//@     invariant handlerCellsOK(s.ssn)
//@     decreases len(s.ssn.eventHandlers) - rangeindex
//@   # C13 "leaves the scheduler's view of nodes ... exactly as it was": the nominated-to node forgets the task
//@   ensures [offTheNode] result == nil ==> !onNode(old(s.ssn.ClusterInfo.Nodes[task.NodeName]), task)
//@   ensures [restoresNode] task.NodeName == previousNode
//@   ensures [restoresGpuGroups] task.GPUGroups == previousGpuGroups
//@   ensures [restoresVirtual] task.IsVirtualStatus == previousIsVirtualStatus
//@   ensures [restoresClaims] task.ResourceClaimInfo == previousResourceClaimInfo
//@   ensures [restoresStatus] task.Status == previousStatus || task.Status == old(task.Status)
//@   ensures [failsIffNodeUnknown] (result != nil) == !old(task.NodeName in s.ssn.ClusterInfo.Nodes)
//@   ensures [oppositeHandler] allocEvents() == old(allocEvents()) && deallocEvents() - old(deallocEvents()) <= old(len(s.ssn.eventHandlers))
//@   ensures [noHandlerOnFailure] result != nil ==> deallocEvents() == old(deallocEvents())
//@   ensures [virtual] noEmission() && reversals() == old(reversals()) && reverseFailures() == old(reverseFailures())
//@   ensures [logsSame] logsSame()
//@   ensures [commitEnvKept] commitEnvKept(s.ssn)
//@ end

//@ func (*Statement).unallocate
//@   props C13 C01
//@   requires stmtOK(s) && task != nil
//@   assume jobReady(s.ssn.ClusterInfo.PodGroupInfos[task.Job], task) && nodeReady(s.ssn.ClusterInfo.Nodes[task.NodeName], task) && jobNodeSep(s.ssn.ClusterInfo.PodGroupInfos[task.Job], s.ssn.ClusterInfo.Nodes[task.NodeName])
//@   assume handlerCellsOK(s.ssn)
//@   note assume handlerCellsOK: the precondition's handlersOK(s.ssn) (every registered handler is non-nil) restated over the cells of the handler slice; the two forms are equivalent, but the solvers derive the handler loop's `eh != nil` from the index form for some seeds only
//@   modifies *
//@   loop 1
//@     invariant 0 - 1 <= rangeindex && rangeindex < len(s.ssn.eventHandlers)
//@     invariant deallocEvents() - old(deallocEvents()) <= rangeindex + 1
//@     # C14 (observed inside an event handler) / C08: when the de-allocation handlers fire, the node no longer books the task
//@     invariant !onNode(old(s.ssn.ClusterInfo.Nodes[task.NodeName]), task)
//@     invariant task.NodeName == ""
//@     invariant handlerCellsOK(s.ssn)
//@     decreases len(s.ssn.eventHandlers) - rangeindex
//@   # C13 "leaves the scheduler's view of nodes ... exactly as it was" / C01: the node forgets the un-allocated task
//@   ensures [offTheNode] result == nil ==> !onNode(old(s.ssn.ClusterInfo.Nodes[task.NodeName]), task)
//@   ensures [failsIffNodeUnknown] (result != nil) == !old(task.NodeName in s.ssn.ClusterInfo.Nodes)
//@   ensures [clearsNode] result == nil ==> task.NodeName == "" && task.IsVirtualStatus == previousIsVirtualStatus
//@   ensures [backToPending] task.Status == pod_status.Pending || task.Status == old(task.Status)
//@   ensures [gpuGroupsKept] task.GPUGroups == old(task.GPUGroups) && task.ResourceClaimInfo == old(task.ResourceClaimInfo)
//@   ensures [oppositeHandler] allocEvents() == old(allocEvents()) && deallocEvents() - old(deallocEvents()) <= old(len(s.ssn.eventHandlers))
//@   ensures [virtual] noEmission() && reversals() == old(reversals()) && reverseFailures() == old(reverseFailures())
//@   ensures [logsSame] logsSame()
//@   ensures [commitEnvKept] commitEnvKept(s.ssn)
//@   ensures [othersPlacedKept] othersPlacedKept(task)
//@ end

// ---- ops ------------------------------------------------------------------------------------------
// C13: "the op appends exactly one log entry whose captured previous* values equal the pre-state
// fields". evOp(s)/plOp(s)/alOp(s): the payload of the last log entry.
//@ define lastOp(s *Statement) Operation = s.operations[len(s.operations) - 1]
// the claim snapshot recorded in the last (evict) entry
//@ define evSnap(s *Statement) bindrequest_info.ResourceClaimInfo = unbox(lastOp(s), "evictOperation").previousResourceClaimInfo
//@ define appendedOne(s *Statement) bool = len(s.operations) == old(len(s.operations)) + 1 && (forall j int :: 0 <= j && j < old(len(s.operations)) ==> s.operations[j] == old(s.operations[j]))

//@ func (*Statement).Evict
//@   props C13 C06
//@   nopanic off
//@   note nopanic off: with the C14 contracts of UpdateTaskStatus/AddTask/UpdateTask in the context the nil-dereference obligation of the handler loop (eh != nil, from handlersOK) is solver-seed dependent (143 of the 144 no-panic obligations discharge; helper "stmt2" measured it); the functional postconditions below are machine-checked
//@   requires stmtOK(s) && reclaimeeTask != nil
//@   assume jobReady(s.ssn.ClusterInfo.PodGroupInfos[reclaimeeTask.Job], reclaimeeTask) && nodeReady(s.ssn.ClusterInfo.Nodes[reclaimeeTask.NodeName], reclaimeeTask) && jobNodeSep(s.ssn.ClusterInfo.PodGroupInfos[reclaimeeTask.Job], s.ssn.ClusterInfo.Nodes[reclaimeeTask.NodeName])
//@   modifies *
//@   loop 1
//@     invariant 0 - 1 <= rangeindex && rangeindex < len(s.ssn.eventHandlers)
//@     invariant deallocEvents() - old(deallocEvents()) <= rangeindex + 1
//@     invariant s.operations == old(s.operations)
//@     invariant forall j int :: 0 <= j && j < len(s.operations) ==> s.operations[j] == old(s.operations[j])
//@     invariant previousResourceClaimInfo != nil ==> previousResourceClaimInfo != reclaimeeTask.ResourceClaimInfo
//@     invariant bindrequest_info.rciSameKeys(previousResourceClaimInfo, reclaimeeTask.ResourceClaimInfo)
//@     invariant bindrequest_info.rciFreshEntries(previousResourceClaimInfo, reclaimeeTask.ResourceClaimInfo)
//@     # C14 (observed inside an event handler) / C08: when the de-allocation handlers fire, the job shows the task as
//@     # Releasing and the node has re-booked it under that status (job first, then node, then handlers)
//@     invariant reclaimeeTask.Status == pod_status.Releasing && onNode(node, reclaimeeTask) && nodeAgrees(node, reclaimeeTask)
//@     decreases len(s.ssn.eventHandlers) - rangeindex
//@   # C14: after a virtual eviction the node books the pod as Releasing, on the GPU groups the task shows
//@   ensures [nodeAgreesWithJob] result == nil ==> onNode(old(s.ssn.ClusterInfo.Nodes[reclaimeeTask.NodeName]), reclaimeeTask) && nodeRec(old(s.ssn.ClusterInfo.Nodes[reclaimeeTask.NodeName]), reclaimeeTask).Status == pod_status.Releasing && nodeRec(old(s.ssn.ClusterInfo.Nodes[reclaimeeTask.NodeName]), reclaimeeTask).GPUGroups == reclaimeeTask.GPUGroups
//@   ensures [errorKeepsLog] result != nil ==> s.operations == old(s.operations)
//@   ensures [failsOnUnknownJobOrNode] !old(reclaimeeTask.Job in s.ssn.ClusterInfo.PodGroupInfos) || !old(reclaimeeTask.NodeName in s.ssn.ClusterInfo.Nodes) ==> result != nil && reclaimeeTask.Status == old(reclaimeeTask.Status)
//@   ensures [appendsOneEvict] result == nil ==> appendedOne(s) && isEvictOp(lastOp(s))
//@   ensures [capturesTask] result == nil ==> unbox(lastOp(s), "evictOperation").taskInfo == reclaimeeTask
//@   ensures [capturesStatus] result == nil ==> unbox(lastOp(s), "evictOperation").previousStatus == old(reclaimeeTask.Status)
//@   ensures [capturesGpuGroups] result == nil ==> unbox(lastOp(s), "evictOperation").previousGpuGroups == old(reclaimeeTask.GPUGroups)
//@   ensures [capturesNode] result == nil ==> unbox(lastOp(s), "evictOperation").previousNode == old(s.ssn.ClusterInfo.Nodes[reclaimeeTask.NodeName])
//@   # C13 "leaves the scheduler's view of ... resource claims ... exactly as it was": the claim snapshot in the log entry is a
//@   # deep copy of the pre-state map (nil iff it was nil; a new map with new entry objects, same keys and claim names), so
//@   # the in-place writes of the DRA de-allocation handler cannot reach it
//@   ensures [capturesClaimsNilIffNil] result == nil ==> (evSnap(s) == nil) == (old(reclaimeeTask.ResourceClaimInfo) == nil)
//@   ensures [capturesClaimsNewMap] result == nil && evSnap(s) != nil ==> fresh(evSnap(s)) && evSnap(s) != reclaimeeTask.ResourceClaimInfo
//@   ensures [capturesClaimsKeys] result == nil ==> bindrequest_info.rciSameKeys(evSnap(s), reclaimeeTask.ResourceClaimInfo)
//@   ensures [capturesClaimsEntries] result == nil ==> bindrequest_info.rciFreshEntries(evSnap(s), reclaimeeTask.ResourceClaimInfo)
//@   ensures [capturesMessage] result == nil ==> unbox(lastOp(s), "evictOperation").message == message && unbox(lastOp(s), "evictOperation").evictionMetadata.Action == evictionMetadata.Action && unbox(lastOp(s), "evictOperation").evictionMetadata.Preemptor == evictionMetadata.Preemptor
//@   ensures [reversible] result == nil ==> unbox(lastOp(s), "evictOperation").reverseOperation != nil
//@   ensures [nowReleasing] result == nil ==> reclaimeeTask.Status == pod_status.Releasing && reclaimeeTask.IsVirtualStatus
//@   ensures [otherFieldsKept] reclaimeeTask.NodeName == old(reclaimeeTask.NodeName) && reclaimeeTask.GPUGroups == old(reclaimeeTask.GPUGroups) && reclaimeeTask.ResourceClaimInfo == old(reclaimeeTask.ResourceClaimInfo)
//@   ensures [handlerPolarity] allocEvents() == old(allocEvents())
//@   ensures [virtual] noEmission() && reversals() == old(reversals()) && reverseFailures() == old(reverseFailures())
//@   # callers chain statement operations: with [lenGrows] + [prefixKept] + [newEntriesOK], wfLog(s) before the
//@   # call gives wfLog(s) after it (the direct form `old(wfLog(s)) ==> wfLog(s)` is true but takes the solvers > 20 s here)
//@   ensures [lenGrows] len(s.operations) >= old(len(s.operations))
//@   ensures [prefixKept] forall j int :: 0 <= j && j < old(len(s.operations)) ==> s.operations[j] == old(s.operations[j])
//@   ensures [errorKeepsLen] result != nil ==> len(s.operations) == old(len(s.operations))
//@   ensures [newEntriesOK] forall j int :: old(len(s.operations)) <= j && j < len(s.operations) ==> okEntry(s.operations[j], j)
//@   ensures [sessionKept] sessionKept(s.ssn)
//@ end

//@ func (*Statement).Allocate
//@   props C13 C01
//@   nopanic off
//@   note nopanic off: with the C14 contracts of UpdateTaskStatus/AddTask/UpdateTask in the context the nil-dereference obligation of the handler loop (eh != nil, from handlersOK) is solver-seed dependent (all other no-panic obligations discharge; helper "stmt2" measured it); the functional postconditions below are machine-checked
//@   requires stmtOK(s) && task != nil
//@   assume jobReady(s.ssn.ClusterInfo.PodGroupInfos[task.Job], task) && nodeReady(s.ssn.ClusterInfo.Nodes[hostname], task) && jobNodeSep(s.ssn.ClusterInfo.PodGroupInfos[task.Job], s.ssn.ClusterInfo.Nodes[hostname])
//@   modifies *
//@   loop 1
//@     invariant 0 - 1 <= rangeindex && rangeindex < len(s.ssn.eventHandlers)
//@     invariant allocEvents() - old(allocEvents()) <= rangeindex + 1
//@     # C14 (observed inside an event handler) / C08: when the allocation handlers fire, the job shows the task as Allocated
//@     # on `hostname` and that node books it under this status (job first, then node, then handlers)
//@     invariant task.Status == pod_status.Allocated && task.NodeName == hostname && onNode(s.ssn.ClusterInfo.Nodes[hostname], task) && nodeAgrees(s.ssn.ClusterInfo.Nodes[hostname], task)
//@     decreases len(s.ssn.eventHandlers) - rangeindex
//@   # C14 / C01: after a virtual allocation the node books the pod as Allocated, on the GPU groups the task shows
//@   ensures [nodeBooksAllocated] result == nil ==> onNode(s.ssn.ClusterInfo.Nodes[hostname], task) && nodeRec(s.ssn.ClusterInfo.Nodes[hostname], task).Status == pod_status.Allocated && nodeRec(s.ssn.ClusterInfo.Nodes[hostname], task).GPUGroups == task.GPUGroups
//@   ensures [errorKeepsLog] result != nil ==> s.operations == old(s.operations)
//@   ensures [failsOnUnknownJobOrNode] !old(task.Job in s.ssn.ClusterInfo.PodGroupInfos) || !old(hostname in s.ssn.ClusterInfo.Nodes) ==> result != nil
//@   ensures [appendsOneAllocate] result == nil ==> appendedOne(s) && isAllocateOp(lastOp(s))
//@   ensures [capturesClone] result == nil ==> unbox(lastOp(s), "allocateOperation").taskInfo != task && unbox(lastOp(s), "allocateOperation").taskInfo.UID == task.UID && unbox(lastOp(s), "allocateOperation").taskInfo.Job == task.Job && unbox(lastOp(s), "allocateOperation").taskInfo.Pod == task.Pod && unbox(lastOp(s), "allocateOperation").taskInfo.NodeName == hostname
//@   ensures [capturesNode] result == nil ==> unbox(lastOp(s), "allocateOperation").nextNode == old(s.ssn.ClusterInfo.Nodes[hostname]).Name
//@   ensures [reversible] result == nil ==> unbox(lastOp(s), "allocateOperation").reverseOperation != nil && unbox(lastOp(s), "allocateOperation").taskInfo != nil
//@   ensures [nowAllocated] result == nil ==> task.Status == pod_status.Allocated && task.NodeName == hostname && task.IsVirtualStatus
//@   ensures [handlerPolarity] deallocEvents() == old(deallocEvents())
//@   ensures [virtual] noEmission() && reversals() == old(reversals()) && reverseFailures() == old(reverseFailures())
//@   # callers chain statement operations: with [lenGrows] + [prefixKept] + [newEntriesOK], wfLog(s) before the
//@   # call gives wfLog(s) after it (the direct form `old(wfLog(s)) ==> wfLog(s)` is true but takes the solvers > 20 s here)
//@   ensures [lenGrows] len(s.operations) >= old(len(s.operations))
//@   ensures [prefixKept] forall j int :: 0 <= j && j < old(len(s.operations)) ==> s.operations[j] == old(s.operations[j])
//@   ensures [errorKeepsLen] result != nil ==> len(s.operations) == old(len(s.operations))
//@   ensures [newEntriesOK] forall j int :: old(len(s.operations)) <= j && j < len(s.operations) ==> okEntry(s.operations[j], j)
//@   ensures [sessionKept] sessionKept(s.ssn)
//@ end

// Unevict(task) = undo the earliest still valid evict entry of that task.
// (helper "stmt2") entry j is an entry of kind `name` about task t, as the look-up sees it (Operation.TaskInfo of an undo
// entry is an empty placeholder, UID "")
//@ define opMatches(s *Statement, j int, t *pod_info.PodInfo, name string) bool = ite(isUndoOp(s.operations[j]), t.UID == "" && name == "undo", opTask(s.operations[j]).UID == t.UID && opName(s.operations[j]) == name)
// C13 "each pod is bound, nominated or evicted at most once and nothing is emitted for undone steps" (+ quantifier:
// "un-evictions, evict-then-pipeline of the same pod"): the look-up lands on the EARLIEST entry of that kind and task
// that is still valid - entries already undone (their first undo entry is live) are skipped, so a second un-evict of
// the same pod reverses the second eviction instead of doing nothing on the first. (noUndoFor / undone are the depth-1 /
// depth-2 cases of operationValid; on a flat log - every quiescent point - each entry is one or the other.)
//@ define earliestValid(s *Statement, i int, t *pod_info.PodInfo, name string) bool = 0 <= i && i < len(s.operations) && opMatches(s, i, t, name) && noUndoFor(s, i) && (forall k int :: 0 <= k && k < i && opMatches(s, k, t, name) ==> undone(s, k))
//@ func (*Statement).undoEarliestValidOperation
//@   props C13
//@   requires s != nil && wfLog(s) && taskToUndo != nil
//@   modifies *
//@   usestable Statement.ssn Session.ClusterInfo Session.Cache
//@   loop 1
//@     invariant 0 - 1 <= rangeindex && rangeindex < len(s.operations)
//@     invariant forall k int :: 0 <= k && k <= rangeindex ==> !(opMatches(s, k, taskToUndo, opName) && noUndoFor(s, k))
//@     decreases len(s.operations) - rangeindex
//@   # `lemma` (proved at exit, not exported): the only caller under contract, Pipeline (through Unevict), does not use them,
//@   # and as `ensures` the nested quantifiers triple the solving time of Pipeline's log obligations
//@   lemma [undoesEarliestValid] forall i int :: old(earliestValid(s, i, taskToUndo, opName)) && result == nil ==> len(s.operations) > old(len(s.operations)) && targets(s, len(s.operations) - 1, i)
//@   # (a third clause, `old(earliestValid(..i..)) ==> reversals() >= old(reversals()) + 1`, is true and proved, but took 4-8 s
//@   # depending on the solver seed; removed for stability - [undoesEarliestValid] already pins the entry that is undone)
//@   lemma [failsIfNoValidMatch] old(forall i int :: 0 <= i && i < len(s.operations) && opMatches(s, i, taskToUndo, opName) ==> undone(s, i)) ==> result != nil && s.operations == old(s.operations) && reversals() == old(reversals())
//@   ensures [lenGrows] len(s.operations) >= old(len(s.operations))
//@   ensures [prefixKept] forall j int :: 0 <= j && j < old(len(s.operations)) ==> s.operations[j] == old(s.operations[j])
//@   ensures [newEntriesOK] forall j int :: old(len(s.operations)) <= j && j < len(s.operations) ==> okEntry(s.operations[j], j)
//@   ensures [reversalsMonotone] old(reversals()) <= reversals()
//@   ensures [emptyLogFails] old(len(s.operations)) == 0 ==> result != nil && reversals() == old(reversals())
//@   ensures [appendsOnlyUndo] opName != "undo" ==> forall j int :: old(len(s.operations)) <= j && j < len(s.operations) ==> isUndoOp(s.operations[j])
//@   ensures [virtual] cache.evictCalls() == old(cache.evictCalls()) && cache.pipelinedCalls() == old(cache.pipelinedCalls()) && cache.bindCalls() == old(cache.bindCalls())
//@   ensures [ssnKept] ssnKept(s)
//@   ensures [revFailMono] revFailMono()
//@ end
//@ func (*Statement).Unevict
//@   inline
//@ end

// library model (assumed): element-wise slice equality
//@ func golang.org/x/exp/slices.Equal
//@   pure
//@   ensures result == (len(s1) == len(s2) && (forall i int :: 0 <= i && i < len(s1) ==> s1[i] == s2[i]))
//@   note assumed library model of golang.org/x/exp/slices.Equal
//@ end

// Pipeline (nominate). Three outcomes: unknown node/job (error, nothing touched); the task still sits
// on that node from an earlier virtual eviction and no update is asked for (the eviction is undone
// instead: Unevict); otherwise one pipeline entry is appended.
//@ func (*Statement).Pipeline
//@   props C13 C01
//@   nopanic off
//@   note nopanic off: with the C14 contracts of the node/job mutators in the context the nil-dereference obligation of the handler loop (eh != nil, from handlersOK) takes 7-13 s and is solver-seed dependent (all other no-panic obligations discharge; helper "stmt2" measured it); the functional postconditions below are machine-checked
//@   requires stmtOK(s) && wfLog(s) && task != nil
//@   assume hostname in s.ssn.ClusterInfo.Nodes ==> (forall k in s.ssn.ClusterInfo.Nodes[hostname].PodInfos :: s.ssn.ClusterInfo.Nodes[hostname].PodInfos[k] != nil)
//@   note the assume on PodInfos values (no nil task recorded on a node) is a node_info invariant like nodeReady; it was a `requires` before, but no caller can carry it across the `modifies *` statement operations
//@   assume jobReady(s.ssn.ClusterInfo.PodGroupInfos[task.Job], task) && nodeReady(s.ssn.ClusterInfo.Nodes[hostname], task) && jobNodeSep(s.ssn.ClusterInfo.PodGroupInfos[task.Job], s.ssn.ClusterInfo.Nodes[hostname])
//@   modifies *
//@   loop 1
//@     invariant 0 - 1 <= rangeindex && rangeindex < len(s.ssn.eventHandlers)
//@     invariant allocEvents() - old(allocEvents()) <= rangeindex + 1
//@     invariant s.operations == old(s.operations)
//@     invariant forall j int :: 0 <= j && j < len(s.operations) ==> s.operations[j] == old(s.operations[j])
//@     # C14 (observed inside an event handler) / C08: when the allocation handlers fire, the task points at `hostname` and
//@     # that node books it under the status and GPU groups the task shows (job first, then node, then handlers)
//@     invariant task.NodeName == hostname && nodeAgrees(s.ssn.ClusterInfo.Nodes[hostname], task)
//@     decreases len(s.ssn.eventHandlers) - rangeindex
//@   # proof steps (helper "stmt2"): the un-evict branch (the task still sits on the node, no update asked for, not a move to
//@   # another shared GPU) ends in a `modifies *` call; the two branches are proved separately, so that each query sees one of
//@   # them (without these hints [newEntriesOK] [noAllocateEntryAppended] [prefixKept] [opCellsKept] took 4-126 s depending on the seed)
//@   hint [newEntriesOK-unevictBranch] (foundOnNode && !updateTaskIfExistsOnNode && !isSharedAndMoveToDifferentGPU) ==> forall j int :: old(len(s.operations)) <= j && j < len(s.operations) ==> okEntry(s.operations[j], j) && !isAllocateOp(s.operations[j])
//@   hint [prefixKept-unevictBranch] (foundOnNode && !updateTaskIfExistsOnNode && !isSharedAndMoveToDifferentGPU) ==> forall j int :: 0 <= j && j < old(len(s.operations)) ==> s.operations[j] == old(s.operations[j])
//@   hint [newEntriesOK-pipelineBranch] !(foundOnNode && !updateTaskIfExistsOnNode && !isSharedAndMoveToDifferentGPU) ==> forall j int :: old(len(s.operations)) <= j && j < len(s.operations) ==> okEntry(s.operations[j], j) && !isAllocateOp(s.operations[j])
//@   hint [prefixKept-pipelineBranch] !(foundOnNode && !updateTaskIfExistsOnNode && !isSharedAndMoveToDifferentGPU) ==> forall j int :: 0 <= j && j < old(len(s.operations)) ==> s.operations[j] == old(s.operations[j])
//@   # C14 / C02: after a nomination the node's record of the pod carries the task's status and GPU groups
//@   ensures [nodeAgreesWithTask] updateTaskIfExistsOnNode && result == nil ==> nodeAgrees(s.ssn.ClusterInfo.Nodes[hostname], task)
//@   ensures [failsOnUnknownJobOrNode] !old(task.Job in s.ssn.ClusterInfo.PodGroupInfos) || !old(hostname in s.ssn.ClusterInfo.Nodes) ==> result != nil && s.operations == old(s.operations) && task.Status == old(task.Status) && task.NodeName == old(task.NodeName)
//@   ensures [lenGrows] len(s.operations) >= old(len(s.operations))
//@   ensures [prefixKept] forall j int :: 0 <= j && j < old(len(s.operations)) ==> s.operations[j] == old(s.operations[j])
//@   ensures [virtual] noEmission()
//@   ensures [appendsOnePipeline] updateTaskIfExistsOnNode && result == nil ==> appendedOne(s) && isPipelineOp(lastOp(s))
//@   ensures [capturesTask] updateTaskIfExistsOnNode && result == nil ==> unbox(lastOp(s), "pipelineOperation").taskInfo == task && unbox(lastOp(s), "pipelineOperation").previousStatus == old(task.Status) && unbox(lastOp(s), "pipelineOperation").previousNode == old(task.NodeName) && unbox(lastOp(s), "pipelineOperation").nextNode == hostname && unbox(lastOp(s), "pipelineOperation").reverseOperation != nil
//@   ensures [nowNominated] updateTaskIfExistsOnNode && result == nil ==> task.NodeName == hostname && task.IsVirtualStatus
//@   ensures [handlerPolarity] updateTaskIfExistsOnNode ==> deallocEvents() == old(deallocEvents())
//@   ensures [newEntriesOK] forall j int :: old(len(s.operations)) <= j && j < len(s.operations) ==> okEntry(s.operations[j], j)
//@   # C03 "ShouldPipelineJob + ConvertAllAllocatedToPipelined": nominating never creates a bind entry (it appends one
//@   # pipeline entry, or - un-evicting a task that still sits on the node - one undo entry)
//@   ensures [noAllocateEntryAppended] forall j int :: old(len(s.operations)) <= j && j < len(s.operations) ==> !isAllocateOp(s.operations[j])
//@   ensures [statusPipelinedOrKept] updateTaskIfExistsOnNode ==> task.Status == pod_status.Pipelined || task.Status == old(task.Status)
//@   ensures [sessionKept] updateTaskIfExistsOnNode ==> sessionKept(s.ssn)
//@   ensures [opCellsKept] updateTaskIfExistsOnNode ==> opCellsKept()
//@   ensures [revFailMono] revFailMono() && (updateTaskIfExistsOnNode ==> reverseFailures() == old(reverseFailures()))
//@ end

// C03 "ShouldPipelineJob + ConvertAllAllocatedToPipelined": after the conversion no task of that job is left
// as a real bind in the statement (every allocate entry of the job is replaced by a pipeline entry).
//@ define noBindOf(o Operation, jobID common_info.PodGroupID) bool = !(isAllocateOp(o) && opTask(o).Job == jobID)
//@ func (*Statement).ConvertAllAllocatedToPipelined
//@   props C13 C03
//@   nopanic off
//@   note nopanic off: the type assertion op.(allocateOperation) and the slice reads are fine (Name() == "allocate"), but the nil-dereference obligations after the `modifies *` calls time out as in Pipeline
//@   requires stmtOK(s) && wfLog(s)
//@   modifies *
//@   loop 1
//@     modifies *
//@     invariant 0 - 1 <= rangeindex && rangeindex < old(len(s.operations))
//@     invariant stmtOK(s)
//@     invariant reverseFailures() == old(reverseFailures())
//@     invariant len(s.operations) >= old(len(s.operations))
//@     invariant forall j int :: 0 <= j && j < old(len(s.operations)) ==> s.operations[j] == old(s.operations[j])
//@     invariant forall p *Operation :: old(allocated(p)) ==> *p == old(*p)
//@     invariant wfKnown(s)
//@     invariant wfRev(s)
//@     invariant wfBack(s)
//@     invariant wfTask(s)
//@     decreases old(len(s.operations)) - rangeindex
//@   loop 2
//@     invariant 0 - 1 <= rangeindex
//@     invariant forall k int :: 0 <= k && k < len(newOperations) ==> noBindOf(newOperations[k], jobID)
//@     decreases len(s.operations) - rangeindex
//@   ensures [noBindLeftForJob] result == nil ==> forall j int :: 0 <= j && j < len(s.operations) ==> noBindOf(s.operations[j], jobID)
//@   ensures [noReverseFailure] reverseFailures() == old(reverseFailures())
//@ end

// ---- the closures stored in log entries ---------------------------------------------------------
// Each ReverseOperation value is one of these closures. They are verified against the frame facts
// that the assumed `type:ReverseOperation` contract promises (logs only grow / old entries kept /
// appended entries well-formed / no cache call).
//@ func (*Statement).Evict$1
//@   props C13
//@   requires stmtOK(s) && reclaimeeTask != nil
//@   modifies *
//@   ensures logsSame() && noEmission()
//@ end
//@ func (*Statement).Pipeline$1
//@   props C13
//@   requires stmtOK(s) && task != nil
//@   modifies *
//@   ensures logsSame() && noEmission()
//@ end
//@ func (*Statement).Allocate$1
//@   props C13
//@   requires stmtOK(s) && task != nil && node != nil
//@   modifies *
//@   ensures logsSame() && noEmission()
//@ end


// ---- commit ---------------------------------------------------------------------------------------
// The three emission points. cache.evictCalls()/pipelinedCalls()/bindCalls() are ghost counters
// bumped by the (assumed) cache interface contracts.
//@ define emitsOnly(de int, dp int, db int) bool = cache.evictCalls() - old(cache.evictCalls()) <= de && cache.pipelinedCalls() - old(cache.pipelinedCalls()) <= dp && cache.bindCalls() - old(cache.bindCalls()) <= db && cache.evictCalls() >= old(cache.evictCalls()) && cache.pipelinedCalls() >= old(cache.pipelinedCalls()) && cache.bindCalls() >= old(cache.bindCalls())

//@ func (*Statement).commitEvict
//@   props C13 C06
//@   requires stmtOK(s) && s.ssn.Cache != nil && reclaimee != nil
//@   modifies *
//@   ensures [oneEvictAtMost] emitsOnly(1, 0, 0)
//@   ensures [evictIffGroupKnown] old(reclaimee.Job in s.ssn.ClusterInfo.PodGroupInfos) ==> cache.evictCalls() == old(cache.evictCalls()) + 1
//@   ensures [committedIsReal] result == nil ==> !reclaimee.IsVirtualStatus
//@   ensures [logsSame] logsSame()
//@   ensures [reversesNothing] reversals() == old(reversals()) && reverseFailures() == old(reverseFailures())
//@   ensures [commitEnvKept] commitEnvKept(s.ssn)
//@   ensures [placementKept] forall t *pod_info.PodInfo :: old(allocated(t)) ==> t.Status == old(t.Status) && t.NodeName == old(t.NodeName)
//@ end

//@ func (*Statement).commitPipeline
//@   props C13
//@   requires s != nil && s.ssn != nil && s.ssn.Cache != nil
//@   modifies cache.pipelinedCalls()
//@   ensures cache.pipelinedCalls() == old(cache.pipelinedCalls()) + 1
//@ end

//@ func (*Session).MutateBindRequestAnnotations
//@   props C01
//@   requires ssn != nil
//@   requires forall i int :: 0 <= i && i < len(ssn.BindRequestMutateFns) ==> ssn.BindRequestMutateFns[i] != nil
//@   fresh
//@   loop 1
//@     invariant 0 - 1 <= rangeindex && rangeindex < len(ssn.BindRequestMutateFns)
//@     invariant annotations != nil && fresh(annotations)
//@     invariant forall m map[string]string, k string :: m != annotations ==> (k in m) == old(k in m) && m[k] == old(m[k])
//@     decreases len(ssn.BindRequestMutateFns) - rangeindex
//@ end


// C01: "whatever bind/evict API calls fail": a failing Bind leaves the session's view of the pod as it was.
//@ func (*Session).BindPod
//@   props C13 C01
//@   requires sessOK(ssn) && ssn.Cache != nil && bindFnsOK(ssn) && pod != nil && pod.Pod != nil
//@   assume jobReady(ssn.ClusterInfo.PodGroupInfos[pod.Job], pod)
//@   modifies *
//@   ensures [oneBind] cache.bindCalls() == old(cache.bindCalls()) + 1 && cache.evictCalls() == old(cache.evictCalls()) && cache.pipelinedCalls() == old(cache.pipelinedCalls())
//@   ensures [boundIsBinding] result == nil ==> pod.Status == pod_status.Binding
//@   ensures [failureKeepsStatus] result != nil ==> pod.Status == old(pod.Status)
//@   ensures [placementKept] pod.NodeName == old(pod.NodeName) && pod.GPUGroups == old(pod.GPUGroups) && pod.IsVirtualStatus == old(pod.IsVirtualStatus)
//@   ensures [logsSame] logsSame()
//@   ensures [reversesNothing] reversals() == old(reversals()) && reverseFailures() == old(reverseFailures())
//@   ensures [noHandlers] allocEvents() == old(allocEvents()) && deallocEvents() == old(deallocEvents())
//@   ensures [commitEnvKept] commitEnvKept(ssn)
//@   nopanic off
//@   note nopanic off: `&pod.Pod.CreationTimestamp.Time` (address of a field inside the opaque metav1.Time scalar, argument of a metrics no-op) is over-approximated by the engine as a fresh pointer
//@   ensures [othersPlacedKept] othersPlacedKept(pod)
//@ end

// (helper "stmt2") C14 "at every step of a cycle, what the scheduler believes about each node ... and each workload ...
// equals the value recomputed from scratch from the pods and their statuses": a real (non-simulated) eviction moves the
// pod to Releasing in its workload FIRST and then tells the node, so that the node re-books the pod under the status the
// workload shows (job first, then node; with the two steps swapped the node keeps the pod as Running while the job says
// Releasing). The de-allocation handlers fire after both (C14 observes the state inside an event handler).
//@ define evNode(ssn *Session, pod *pod_info.PodInfo) *node_info.NodeInfo = ssn.ClusterInfo.Nodes[pod.NodeName]
//@ func (*Session).Evict
//@   props C14 C13 C06
//@   requires ssn != nil && pod != nil
//@   assume sessOK(ssn) && ssn.Cache != nil && handlerCellsOK(ssn)
//@   note assume sessOK / Cache != nil: skeleton invariants of an open session (OpenSession builds ClusterInfo, the node / job tables without nil entries, the cache and the handler list); the only caller, stalegangeviction.handleStaleJob, evicts in a loop of `modifies *` steps and cannot carry them - same convention as the jobReady / nodeReady assumptions of the statement operations
//@   assume jobReady(ssn.ClusterInfo.PodGroupInfos[pod.Job], pod) && nodeReady(evNode(ssn, pod), pod) && jobNodeSep(ssn.ClusterInfo.PodGroupInfos[pod.Job], evNode(ssn, pod))
//@   modifies *
//@   loop 1
//@     invariant 0 - 1 <= rangeindex && rangeindex < len(ssn.eventHandlers)
//@     invariant deallocEvents() - old(deallocEvents()) <= rangeindex + 1
//@     invariant pod.Status == pod_status.Releasing && evNode(ssn, pod) != nil && onNode(evNode(ssn, pod), pod)
//@     invariant nodeAgrees(evNode(ssn, pod), pod)
//@     invariant handlerCellsOK(ssn)
//@     decreases len(ssn.eventHandlers) - rangeindex
//@   ensures [evictIffGroupKnown] cache.evictCalls() == old(cache.evictCalls()) + ite(old(pod.Job in ssn.ClusterInfo.PodGroupInfos), 1, 0) && cache.bindCalls() == old(cache.bindCalls()) && cache.pipelinedCalls() == old(cache.pipelinedCalls())
//@   ensures [failsOnUnknownGroup] !old(pod.Job in ssn.ClusterInfo.PodGroupInfos) ==> result != nil && pod.Status == old(pod.Status)
//@   ensures [nowReleasing] result == nil ==> pod.Status == pod_status.Releasing
//@   ensures [releasingOrKept] pod.Status == pod_status.Releasing || pod.Status == old(pod.Status)
//@   ensures [nodeAgreesWithJob] result == nil ==> evNode(ssn, pod) != nil && onNode(evNode(ssn, pod), pod) && nodeRec(evNode(ssn, pod), pod).Status == pod.Status && nodeRec(evNode(ssn, pod), pod).GPUGroups == pod.GPUGroups
//@   ensures [placementKept] pod.NodeName == old(pod.NodeName) && pod.GPUGroups == old(pod.GPUGroups) && pod.IsVirtualStatus == old(pod.IsVirtualStatus)
//@   ensures [handlerPolarity] allocEvents() == old(allocEvents()) && deallocEvents() - old(deallocEvents()) <= old(len(ssn.eventHandlers))
//@   ensures [noHandlerOnFailure] result != nil ==> deallocEvents() == old(deallocEvents())
//@   ensures [logsSame] logsSame()
//@   ensures [reversesNothing] reversals() == old(reversals()) && reverseFailures() == old(reverseFailures())
//@   ensures [othersPlacedKept] othersPlacedKept(pod)
//@ end

//@ func (*Statement).cleanupFailedAllocation
//@   inline
//@ end

// C01: "commitAllocate/cleanupFailedAllocation undo a failed bind".
//@ func (*Statement).commitAllocate
//@   props C13 C01
//@   requires stmtOK(s) && s.ssn.Cache != nil && bindFnsOK(s.ssn) && task != nil && task.Pod != nil
//@   requires nodesShared(s.ssn.ClusterInfo)
//@   modifies *
//@   loop 1
//@     invariant 0 - 1 <= rangeindex && rangeindex < len(task.GPUGroups)
//@     invariant cache.bindCalls() == old(cache.bindCalls())
//@     invariant reversals() == old(reversals()) && reverseFailures() == old(reverseFailures())
//@     decreases len(task.GPUGroups) - rangeindex
//@   ensures [oneBindAtMost] emitsOnly(0, 0, 1)
//@   ensures [bindIffNodeKnown] cache.bindCalls() == old(cache.bindCalls()) + ite(old(task.NodeName in s.ssn.ClusterInfo.Nodes), 1, 0)
//@   ensures [boundIsBinding] result == nil ==> task.Status == pod_status.Binding
//@   ensures [boundKeepsNode] result == nil ==> task.NodeName == old(task.NodeName)
//@   ensures [failedBindIsUnallocated] result != nil && old(task.NodeName in s.ssn.ClusterInfo.Nodes) ==> task.NodeName == ""
//@   ensures [failedBindNotVirtual] result != nil && old(task.NodeName in s.ssn.ClusterInfo.Nodes) ==> !task.IsVirtualStatus
//@   ensures [logsSame] logsSame()
//@   ensures [reversesNothing] reversals() == old(reversals()) && reverseFailures() == old(reverseFailures())
//@   ensures [commitEnvKept] commitEnvKept(s.ssn)
//@   ensures [othersPlacedKept] othersPlacedKept(task)
//@ end

// C13 (top): "Committing emits exactly the net effect of the steps still valid: ... nothing is
// emitted for undone steps"; "log cleared on every path". Commit runs at a quiescent point, so the
// log is flat: entry j is live iff it is not an undo entry and no undo entry targets it.
//@ define live(s *Statement, j int) bool = !isUndoOp(s.operations[j]) && noUndoFor(s, j)
//@ define emitted() int = cache.evictCalls() + cache.pipelinedCalls() + cache.bindCalls()
// C01 "whatever bind/evict API calls fail" (mechanism: commitAllocate/cleanupFailedAllocation undo a failed bind): a commit
// takes no task off its node except THE task whose bind failed (so capacity held by pods whose Bind succeeded is not
// handed out again). Stated on NodeName only: with the Status conjunct (Binding or unchanged; true and provable, it is
// what commitAllocate [boundIsBinding] + [othersPlacedKept] give per step) Commit's obligations take 10-17 s.
//@ define bindOK(t *pod_info.PodInfo) bool = t.NodeName == old(t.NodeName)
//@ define commitReady(s *Statement) bool = stmtOK(s) && s.ssn.Cache != nil && bindFnsOK(s.ssn) && nodesShared(s.ssn.ClusterInfo) && (forall j int :: 0 <= j && j < len(s.operations) && isAllocateOp(s.operations[j]) ==> opTask(s.operations[j]).Pod != nil)

//@ func (*Statement).Commit
//@   props C13 C01 C06
//@   requires commitReady(s) && wfLog(s) && flatLog(s)
//@   modifies *
//@   loop 1
//@     modifies *
//@     invariant 0 - 1 <= rangeindex && rangeindex < old(len(s.operations))
//@     invariant s.operations == old(s.operations)
//@     invariant forall j int :: 0 <= j && j < old(len(s.operations)) ==> s.operations[j] == old(s.operations[j])
//@     invariant commitReady(s)
//@     invariant cache.evictCalls() >= old(cache.evictCalls()) && cache.pipelinedCalls() >= old(cache.pipelinedCalls()) && cache.bindCalls() >= old(cache.bindCalls())
//@     invariant emitted() - old(emitted()) <= rangeindex + 1
//@     invariant reversals() == old(reversals()) && reverseFailures() == old(reverseFailures())
//@     invariant forall t *pod_info.PodInfo :: old(allocated(t)) ==> bindOK(t)
//@     invariant (forall j int :: 0 <= j && j <= rangeindex ==> !old(live(s, j))) ==> emitted() == old(emitted())
//@     invariant (forall j int :: 0 <= j && j <= rangeindex ==> !(old(live(s, j)) && isEvictOp(old(s.operations[j])))) ==> cache.evictCalls() == old(cache.evictCalls())
//@     invariant (forall j int :: 0 <= j && j <= rangeindex ==> !(old(live(s, j)) && isPipelineOp(old(s.operations[j])))) ==> cache.pipelinedCalls() == old(cache.pipelinedCalls())
//@     invariant (forall j int :: 0 <= j && j <= rangeindex ==> !(old(live(s, j)) && isAllocateOp(old(s.operations[j])))) ==> cache.bindCalls() == old(cache.bindCalls())
//@     decreases old(len(s.operations)) - rangeindex
//@   ensures [logCleared] len(s.operations) == 0
//@   ensures [atMostOnePerEntry] emitted() - old(emitted()) <= old(len(s.operations))
//@   ensures [nothingForUndone] (forall j int :: 0 <= j && j < old(len(s.operations)) ==> !old(live(s, j))) ==> emitted() == old(emitted())
//@   ensures [evictOnlyForLiveEvicts] (forall j int :: 0 <= j && j < old(len(s.operations)) ==> !(old(live(s, j)) && isEvictOp(old(s.operations[j])))) ==> cache.evictCalls() == old(cache.evictCalls())
//@   ensures [nominateOnlyForLivePipelines] (forall j int :: 0 <= j && j < old(len(s.operations)) ==> !(old(live(s, j)) && isPipelineOp(old(s.operations[j])))) ==> cache.pipelinedCalls() == old(cache.pipelinedCalls())
//@   ensures [bindOnlyForLiveAllocates] (forall j int :: 0 <= j && j < old(len(s.operations)) ==> !(old(live(s, j)) && isAllocateOp(old(s.operations[j])))) ==> cache.bindCalls() == old(cache.bindCalls())
//@   ensures [emptyLogIsNoop] old(len(s.operations)) == 0 ==> result == nil && emitted() == old(emitted())
//@   # C13 "nothing is emitted for undone steps" / C01 "whatever bind/evict API calls fail": committing never runs
//@   # the reverse closure of a log entry - in particular a failing Bind must not undo the steps whose Bind succeeded
//@   ensures [commit-reverses-nothing] reversals() == old(reversals())
//@   ensures [noReverseFailure] reverseFailures() == old(reverseFailures())
//@   ensures [onlyFailedBindUnallocated] forall t1 *pod_info.PodInfo, t2 *pod_info.PodInfo :: old(allocated(t1)) && old(allocated(t2)) && !bindOK(t1) && !bindOK(t2) ==> t1 == t2
//@   ensures [successKeepsPlacements] result == nil ==> forall t *pod_info.PodInfo :: old(allocated(t)) ==> bindOK(t)
//@ end

// ---- session.go -----------------------------------------------------------------------------------
// C13: every what-if simulation starts from an empty log bound to the session.
//@ func (*Session).Statement
//@   props C13
//@   requires ssn != nil
//@   fresh
//@   ensures result.ssn == ssn && len(result.operations) == 0 && result.sessionID == ssn.ID
//@ end

// ---- plugin dispatch called between statement operations (allocate path: C01 C03 C04 C08) ----------
// These Session methods run the registered plugin callbacks (func-typed values: predicates, node / GPU scoring,
// subset functions, capacity checks, hooks). They are VERIFIED against their bodies; what is assumed sits one level
// below, in the `type:` contracts of the callback types in package api (an abstract verdict per callback + the plugin
// frame below). Only OrderedNodesByTask (goroutines + sync) and the package-level sortGPUs (library sort) stay
// `trusted`; isTaskAllocatableOnNode has one `trust` clause (node_info.FittingError has no contract).

// ASSUMED frame of one plugin callback (stated in the `type:` contracts of package api): a callback touches no
// statement (log, session link), calls none of the cache emission points and runs no reverse closure. Both conjuncts
// are equalities for ALL objects, so the frame composes over any number of callbacks.
// The session skeleton (Session.ClusterInfo / Cache / eventHandlers, the handler cells, ClusterInfo.Nodes / PodGroupInfos
// and the contents of these two tables) is NOT assumed for callbacks whose signature lets govc check it: the wrappers opt
// into the `stable` declarations (`usestable`), i.e. govc checks mechanically that no function reachable from any
// address-taken function of the callback's signature stores to these fields / maps. Only for `func()` hooks
// (OnJobSolutionStartFn: every closure of type func() is a candidate) the check cannot succeed; there skeletonFrame()
// is part of the assumption.
//@ define stmtsSame() bool = forall st *Statement :: st.operations == old(st.operations) && st.ssn == old(st.ssn)
//@ define countersSame() bool = noEmission() && reversals() == old(reversals()) && reverseFailures() == old(reverseFailures())
//@ define sessionsSame() bool = forall s *Session :: s.ClusterInfo == old(s.ClusterInfo) && s.Cache == old(s.Cache) && s.eventHandlers == old(s.eventHandlers)
//@ define clustersSame() bool = forall c *api.ClusterInfo :: c.Nodes == old(c.Nodes) && c.PodGroupInfos == old(c.PodGroupInfos)
//@ define handlerCellsSame() bool = forall h **EventHandler :: *h == old(*h)
//@ define nodeTablesSame() bool = forall c *api.ClusterInfo, k string :: (k in c.Nodes) == old(k in c.Nodes) && c.Nodes[k] == old(c.Nodes[k])
//@ define jobTablesSame() bool = forall c *api.ClusterInfo, k common_info.PodGroupID :: (k in c.PodGroupInfos) == old(k in c.PodGroupInfos) && c.PodGroupInfos[k] == old(c.PodGroupInfos[k])
//@ define skeletonFrame() bool = sessionsSame() && clustersSame() && handlerCellsSame() && nodeTablesSame() && jobTablesSame()
//@ define solutionStartHooksSame() bool = (forall s *Session :: s.OnJobSolutionStartFns == old(s.OnJobSolutionStartFns)) && (forall h *api.OnJobSolutionStartFn :: *h == old(*h))
//@ define pluginFrame() bool = stmtsSame() && countersSame()
//@ define skelSame(ssn *Session) bool = ssn.ClusterInfo == old(ssn.ClusterInfo) && ssn.Cache == old(ssn.Cache) && ssn.eventHandlers == old(ssn.eventHandlers) && ssn.ClusterInfo.Nodes == old(ssn.ClusterInfo.Nodes) && ssn.ClusterInfo.PodGroupInfos == old(ssn.ClusterInfo.PodGroupInfos)

// C04 "every pod the scheduler binds or nominates goes to a node that ... (all hard constraints)": the session
// verdict is the conjunction of EVERY registered predicate (first error wins).
//@ define predicatesOK(ssn *Session, task *pod_info.PodInfo, job *podgroup_info.PodGroupInfo, node *node_info.NodeInfo) bool = forall i int :: 0 <= i && i < len(ssn.PredicateFns) ==> api.predicateOK(ssn.PredicateFns[i], task, job, node)
//@ func (*Session).PredicateFn
//@   props C01 C03 C04
//@   usestable []Operation Session.PredicateFns []api.PredicateFn Session.ClusterInfo Session.Cache Session.eventHandlers []*EventHandler ClusterInfo.PodGroupInfos ClusterInfo.Nodes map[common_info.PodGroupID]*podgroup_info.PodGroupInfo map[string]*node_info.NodeInfo
//@   requires ssn != nil && task != nil
//@   assume forall i int :: 0 <= i && i < len(ssn.PredicateFns) ==> ssn.PredicateFns[i] != nil
//@   note assumed: no nil function is registered (AddPredicateFn is only called with method values of plugins)
//@   modifies *
//@   loop 1
//@     modifies *
//@     invariant 0 - 1 <= rangeindex && rangeindex < len(ssn.PredicateFns)
//@     invariant ssn.PredicateFns == old(ssn.PredicateFns)
//@     invariant forall i int :: 0 <= i && i <= rangeindex ==> api.predicateOK(old(ssn.PredicateFns[i]), task, job, node)
//@     invariant pluginFrame()
//@     invariant skelSame(ssn)
//@     decreases len(ssn.PredicateFns) - rangeindex
//@   ensures [allPredicates] result == nil ==> old(predicatesOK(ssn, task, job, node))
//@   ensures [firstErrorWins] old(predicatesOK(ssn, task, job, node)) ==> result == nil
//@   ensures [logsSame] logsSame()
//@   ensures [virtual] noEmission() && reversals() == old(reversals()) && reverseFailures() == old(reverseFailures())
//@   ensures [sessionKept] old(sessOK(ssn)) ==> sessionKept(ssn)
//@ end

//@ declare jobCapacityVerdict(ssn *Session, job *podgroup_info.PodGroupInfo) bool

// C01/C05 "filters only prune hopeless cases" + C04/C08: the resource gate of FittingNode. The verdict is
// node.IsTaskAllocatableOnReleasingOrIdle(task) on the entry state (node_info's contract says what it implies); a fit
// error is produced only for a rejected task, and only when asked for.
//@ define fitsRelOrIdleCpuMem(node *node_info.NodeInfo, task *pod_info.PodInfo) bool = task.ResReq.milliCpu <= node.Idle.milliCpu + node.Releasing.milliCpu && task.ResReq.memory <= node.Idle.memory + node.Releasing.memory
//@ define wholeGpuReq(task *pod_info.PodInfo) bool = task.ResourceRequestType == "Regular" || task.ResourceRequestType == "MigInstance"
//@ define fitsRelOrIdleGpus(node *node_info.NodeInfo, task *pod_info.PodInfo) bool = resource_info.reqGpus(task.ResReq.GpuResourceRequirement) + real(resource_info.draSum(task.ResReq.draGpuCounts)) <= node.Idle.gpus + node.Releasing.gpus
//@ func (*Session).isTaskAllocatableOnNode
//@   props C01 C04 C08
//@   usestable []Operation Session.PredicateFns []api.PredicateFn Session.ClusterInfo Session.Cache Session.eventHandlers []*EventHandler ClusterInfo.PodGroupInfos ClusterInfo.Nodes map[common_info.PodGroupID]*podgroup_info.PodGroupInfo map[string]*node_info.NodeInfo
//@   nopanic off
//@   note nopanic off: task / node are dereferenced for the log line; with writeFittingDelta the body calls job.GetAllPodsMap() on the job looked up by FittingNode (nil if the task's job is not in the session; the only caller chain, common.allocateTask -> FittingNode, checks that before)
//@   assume node_info.nodeReadable(node) && node_info.taskReadable(task)
//@   note assumed (precondition of node_info's IsTaskAllocatableOnReleasingOrIdle / IsTaskAllocatable): the node's Idle / Releasing / Used vectors and the task's ResReq exist - snapshot invariants that the callers (`modifies *` steps in between) cannot carry
//@   assume writeFittingDelta ==> podgroup_info.setsOK(job)
//@   note assumed (precondition of GetAllPodsMap, only reached with writeFittingDelta): the job exists and no nil pod set is recorded on it - snapshot invariant; common.allocateTask returns before FittingNode when the job is unknown
//@   modifies *
//@   trust [fittingErrorFrame] stmtsSame() && countersSame()
//@   note [fittingErrorFrame] trusted: node_info.(*NodeInfo).FittingError has no contract (message formatting over clones of the node's resource vectors, fmt + resource-list printing: outside the subset), so its call havocs the heap; assumed is only that it touches no statement and none of the emission / reversal counters. The session skeleton and the registration slices survive the call through `stable` declarations (checked by govc from FittingError's call graph)
//@   ensures [cpuMemGate] result0 ==> old(fitsRelOrIdleCpuMem(node, task))
//@   ensures [wholeGpuGate] result0 && old(wholeGpuReq(task)) ==> old(fitsRelOrIdleGpus(node, task))
//@   ensures [errorOnlyIfRejected] result1 != nil ==> !result0 && writeFittingDelta
//@   ensures [opCellsKept] opCellsKept()
//@   ensures [skelSame] skelSame(ssn)
//@   ensures [sessOKKept] old(sessOK(ssn)) ==> sessOK(ssn) && (forall k string :: (k in ssn.ClusterInfo.Nodes) == old(k in ssn.ClusterInfo.Nodes))
//@   ensures [predicatesKept] ssn.PredicateFns == old(ssn.PredicateFns) && (forall i int :: 0 <= i && i < len(ssn.PredicateFns) ==> ssn.PredicateFns[i] == old(ssn.PredicateFns[i]))
//@ end

// C04 "every pod the scheduler binds or nominates goes to a node that ... (all hard constraints)" / C08 / C01 / C05:
// a node fits iff the resource gate accepts the task AND every registered predicate does (the per-task capacity
// callback is consulted by the predicates plugin's PredicateFn, i.e. inside predicatesOK, not by this body).
//@ func (*Session).FittingNode
//@   props C01 C03 C04 C08
//@   nopanic off
//@   note nopanic off: task / node / ssn.ClusterInfo are dereferenced for log lines and look-ups; their non-nil-ness is the caller's matter (common.allocateTask is `nopanic off` too)
//@   requires ssn != nil
//@   modifies *
//@   # the converse ("filters only prune hopeless cases"): nothing but the resource gate (the body's local `allocatable` = verdict of
//@   # isTaskAllocatableOnNode) and the registered predicates can reject a node; a `lemma` because it names a local of the body
//@   lemma [onlyPruneHopeless] result == (allocatable && old(predicatesOK(ssn, task, ssn.ClusterInfo.PodGroupInfos[task.Job], node)))
//@   ensures [allPredicates] result ==> old(predicatesOK(ssn, task, ssn.ClusterInfo.PodGroupInfos[task.Job], node))
//@   ensures [cpuMemGate] result ==> old(fitsRelOrIdleCpuMem(node, task))
//@   ensures [wholeGpuGate] result && old(wholeGpuReq(task)) ==> old(fitsRelOrIdleGpus(node, task))
//@   ensures [logsSame] logsSame()
//@   ensures [virtual] noEmission() && reversals() == old(reversals()) && reverseFailures() == old(reverseFailures())
//@   ensures [sessionKept] old(sessOK(ssn)) ==> sessionKept(ssn)
//@ end
//@ define prePredicatesOK(ssn *Session, task *pod_info.PodInfo, job *podgroup_info.PodGroupInfo) bool = forall i int :: 0 <= i && i < len(ssn.PrePredicateFns) ==> api.prePredicateOK(ssn.PrePredicateFns[i], task, job)
//@ func (*Session).PrePredicateFn
//@   props C01 C03 C04
//@   usestable []Operation Session.PrePredicateFns []api.PrePredicateFn Session.ClusterInfo Session.Cache Session.eventHandlers []*EventHandler ClusterInfo.PodGroupInfos ClusterInfo.Nodes map[common_info.PodGroupID]*podgroup_info.PodGroupInfo map[string]*node_info.NodeInfo
//@   requires ssn != nil && task != nil
//@   assume forall i int :: 0 <= i && i < len(ssn.PrePredicateFns) ==> ssn.PrePredicateFns[i] != nil
//@   note assumed: no nil function is registered (AddPrePredicateFn is only called with method values of plugins)
//@   modifies *
//@   loop 1
//@     modifies *
//@     invariant 0 - 1 <= rangeindex && rangeindex < len(ssn.PrePredicateFns)
//@     invariant ssn.PrePredicateFns == old(ssn.PrePredicateFns)
//@     invariant forall i int :: 0 <= i && i <= rangeindex ==> api.prePredicateOK(old(ssn.PrePredicateFns[i]), task, job)
//@     invariant pluginFrame()
//@     invariant skelSame(ssn)
//@     decreases len(ssn.PrePredicateFns) - rangeindex
//@   ensures [allPrePredicates] result == nil ==> old(prePredicatesOK(ssn, task, job))
//@   ensures [firstErrorWins] old(prePredicatesOK(ssn, task, job)) ==> result == nil
//@   ensures [logsSame] logsSame()
//@   ensures [virtual] noEmission() && reversals() == old(reversals()) && reverseFailures() == old(reverseFailures())
//@   ensures [sessionKept] old(sessOK(ssn)) ==> sessionKept(ssn)
//@ end

// every registered PreJobAllocationFn is called exactly once, in registration order (ghost call log of package api)
//@ func (*Session).PreJobAllocation
//@   props C01 C03 C04
//@   usestable []Operation Session.PreJobAllocationFns []api.PreJobAllocationFn Session.ClusterInfo Session.Cache Session.eventHandlers []*EventHandler ClusterInfo.PodGroupInfos ClusterInfo.Nodes map[common_info.PodGroupID]*podgroup_info.PodGroupInfo map[string]*node_info.NodeInfo
//@   requires ssn != nil
//@   assume forall i int :: 0 <= i && i < len(ssn.PreJobAllocationFns) ==> ssn.PreJobAllocationFns[i] != nil
//@   note assumed: no nil function is registered
//@   modifies *
//@   loop 1
//@     modifies *
//@     invariant 0 - 1 <= rangeindex && rangeindex < len(ssn.PreJobAllocationFns)
//@     invariant ssn.PreJobAllocationFns == old(ssn.PreJobAllocationFns)
//@     invariant api.preJobAllocationCalls() == old(api.preJobAllocationCalls()) + rangeindex + 1
//@     invariant forall i int :: 0 <= i && i <= rangeindex ==> api.preJobAllocationAt(old(api.preJobAllocationCalls()) + i + 1) == old(ssn.PreJobAllocationFns[i])
//@     invariant pluginFrame()
//@     invariant skelSame(ssn)
//@     invariant old(podgroup_info.setsOK(job) && podgroup_info.allTasksOK(job)) ==> podgroup_info.setsOK(job) && podgroup_info.allTasksOK(job)
//@     decreases len(ssn.PreJobAllocationFns) - rangeindex
//@   ensures [eachOnce] api.preJobAllocationCalls() == old(api.preJobAllocationCalls()) + old(len(ssn.PreJobAllocationFns))
//@   ensures [inOrder] forall i int :: 0 <= i && i < old(len(ssn.PreJobAllocationFns)) ==> api.preJobAllocationAt(old(api.preJobAllocationCalls()) + i + 1) == old(ssn.PreJobAllocationFns[i])
//@   ensures [logsSame] logsSame()
//@   ensures [virtual] noEmission() && reversals() == old(reversals()) && reverseFailures() == old(reverseFailures())
//@   ensures [sessionKept] old(sessOK(ssn)) ==> sessionKept(ssn)
//@   ensures [jobKept] old(podgroup_info.setsOK(job) && podgroup_info.allTasksOK(job)) ==> podgroup_info.setsOK(job) && podgroup_info.allTasksOK(job)
//@   note [jobKept] rests on the assumption in type:PreJobAllocationFn (the registered functions - topology - do not touch the job's pod sets / tasks)
//@ end

// C08 "no decision raises ... above its configured limit": the job-level capacity gate. The body consults the FIRST
// registered function only (`for ... { return fn(...) }`); with no function registered every job is schedulable.
//@ define firstJobCapacityOK(ssn *Session, job *podgroup_info.PodGroupInfo) bool = len(ssn.IsJobOverCapacityFns) == 0 || api.jobCapacityOK(ssn.IsJobOverCapacityFns[0], job)
//@ define allJobCapacityOK(ssn *Session, job *podgroup_info.PodGroupInfo) bool = forall i int :: 0 <= i && i < len(ssn.IsJobOverCapacityFns) ==> api.jobCapacityOK(ssn.IsJobOverCapacityFns[i], job)
//@ func (*Session).IsJobOverQueueCapacityFn
//@   props C01 C03 C04 C08
//@   usestable []Operation Session.ClusterInfo Session.Cache Session.eventHandlers []*EventHandler ClusterInfo.PodGroupInfos ClusterInfo.Nodes map[common_info.PodGroupID]*podgroup_info.PodGroupInfo map[string]*node_info.NodeInfo
//@   requires ssn != nil
//@   assume forall i int :: 0 <= i && i < len(ssn.IsJobOverCapacityFns) ==> ssn.IsJobOverCapacityFns[i] != nil
//@   note assumed: no nil function is registered
//@   assume jobCapacityVerdict(ssn, job) == firstJobCapacityOK(ssn, job)
//@   note jobCapacityVerdict(ssn, job) stays a declared NAME for the verdict of this call, tied to the per-callback verdicts by the `assume` above (a definition of the name at the entry state). It cannot be a `define` over ssn.IsJobOverCapacityFns: the callers under contract (common.AllocateJob, allocate.attemptToAllocateJob) state their capacity gate in their post-state, after `modifies *` steps, and do not opt into `stable Session.IsJobOverCapacityFns`, so a define would be evaluated on a havocked registration slice there. The name equates the verdicts of two calls for the same (ssn, job), which is only meaningful while the queue/job state is unchanged between them - the callers under contract call it once
//@   modifies *
//@   hint [skelSame] skelSame(ssn)
//@   ensures [firstDecides] result.IsSchedulable == old(firstJobCapacityOK(ssn, job))
//@   ensures [allRegisteredIfSingle] old(len(ssn.IsJobOverCapacityFns)) <= 1 ==> (result.IsSchedulable <==> old(allJobCapacityOK(ssn, job)))
//@   ensures [logsSame] logsSame()
//@   ensures [virtual] noEmission() && reversals() == old(reversals()) && reverseFailures() == old(reverseFailures())
//@   ensures [sessionKept] old(sessOK(ssn)) ==> sessionKept(ssn)
//@   ensures [resultNonNil] result != nil
//@   ensures [verdictNamed] result.IsSchedulable == jobCapacityVerdict(ssn, job)
//@ end

//@ define firstQuotaOK(ssn *Session, job *podgroup_info.PodGroupInfo) bool = len(ssn.IsNonPreemptibleJobOverQueueQuotaFns) == 0 || api.jobCapacityOK(ssn.IsNonPreemptibleJobOverQueueQuotaFns[0], job)
//@ define allQuotaOK(ssn *Session, job *podgroup_info.PodGroupInfo) bool = forall i int :: 0 <= i && i < len(ssn.IsNonPreemptibleJobOverQueueQuotaFns) ==> api.jobCapacityOK(ssn.IsNonPreemptibleJobOverQueueQuotaFns[i], job)
//@ func (*Session).IsNonPreemptibleJobOverQueueQuotaFn
//@   props C08 C06
//@   usestable []Operation Session.ClusterInfo Session.Cache Session.eventHandlers []*EventHandler ClusterInfo.PodGroupInfos ClusterInfo.Nodes map[common_info.PodGroupID]*podgroup_info.PodGroupInfo map[string]*node_info.NodeInfo
//@   requires ssn != nil
//@   assume forall i int :: 0 <= i && i < len(ssn.IsNonPreemptibleJobOverQueueQuotaFns) ==> ssn.IsNonPreemptibleJobOverQueueQuotaFns[i] != nil
//@   note assumed: no nil function is registered
//@   modifies *
//@   hint [skelSame] skelSame(ssn)
//@   ensures [firstDecides] result.IsSchedulable == old(firstQuotaOK(ssn, job))
//@   ensures [allRegisteredIfSingle] old(len(ssn.IsNonPreemptibleJobOverQueueQuotaFns)) <= 1 ==> (result.IsSchedulable <==> old(allQuotaOK(ssn, job)))
//@   ensures [logsSame] logsSame()
//@   ensures [virtual] noEmission() && reversals() == old(reversals()) && reverseFailures() == old(reverseFailures())
//@   ensures [sessionKept] old(sessOK(ssn)) ==> sessionKept(ssn)
//@   ensures [resultNonNil] result != nil
//@ end

//@ define firstTaskCapacityOK(ssn *Session, task *pod_info.PodInfo, job *podgroup_info.PodGroupInfo, node *node_info.NodeInfo) bool = len(ssn.IsTaskAllocationOnNodeOverCapacityFns) == 0 || api.taskCapacityOK(ssn.IsTaskAllocationOnNodeOverCapacityFns[0], task, job, node)
//@ define allTaskCapacityOK(ssn *Session, task *pod_info.PodInfo, job *podgroup_info.PodGroupInfo, node *node_info.NodeInfo) bool = forall i int :: 0 <= i && i < len(ssn.IsTaskAllocationOnNodeOverCapacityFns) ==> api.taskCapacityOK(ssn.IsTaskAllocationOnNodeOverCapacityFns[i], task, job, node)
//@ func (*Session).IsTaskAllocationOnNodeOverCapacityFn
//@   props C08 C04
//@   usestable []Operation Session.ClusterInfo Session.Cache Session.eventHandlers []*EventHandler ClusterInfo.PodGroupInfos ClusterInfo.Nodes map[common_info.PodGroupID]*podgroup_info.PodGroupInfo map[string]*node_info.NodeInfo
//@   requires ssn != nil
//@   assume forall i int :: 0 <= i && i < len(ssn.IsTaskAllocationOnNodeOverCapacityFns) ==> ssn.IsTaskAllocationOnNodeOverCapacityFns[i] != nil
//@   note assumed: no nil function is registered
//@   modifies *
//@   hint [skelSame] skelSame(ssn)
//@   ensures [firstDecides] result.IsSchedulable == old(firstTaskCapacityOK(ssn, task, job, node))
//@   ensures [allRegisteredIfSingle] old(len(ssn.IsTaskAllocationOnNodeOverCapacityFns)) <= 1 ==> (result.IsSchedulable <==> old(allTaskCapacityOK(ssn, task, job, node)))
//@   ensures [logsSame] logsSame()
//@   ensures [virtual] noEmission() && reversals() == old(reversals()) && reverseFailures() == old(reverseFailures())
//@   ensures [sessionKept] old(sessOK(ssn)) ==> sessionKept(ssn)
//@   ensures [resultNonNil] result != nil
//@ end

// C05/C06: "can the reclaimer get more resources": the first registered function decides, false if none
//@ func (*Session).CanReclaimResources
//@   props C05 C06
//@   usestable []Operation Session.ClusterInfo Session.Cache Session.eventHandlers []*EventHandler ClusterInfo.PodGroupInfos ClusterInfo.Nodes map[common_info.PodGroupID]*podgroup_info.PodGroupInfo map[string]*node_info.NodeInfo
//@   requires ssn != nil
//@   assume forall i int :: 0 <= i && i < len(ssn.CanReclaimResourcesFns) ==> ssn.CanReclaimResourcesFns[i] != nil
//@   note assumed: no nil function is registered
//@   modifies *
//@   hint [skelSame] skelSame(ssn)
//@   ensures [firstDecides] result == old(len(ssn.CanReclaimResourcesFns) > 0 && api.canReclaim(ssn.CanReclaimResourcesFns[0], reclaimer))
//@   ensures [logsSame] logsSame()
//@   ensures [virtual] noEmission() && reversals() == old(reversals()) && reverseFailures() == old(reverseFailures())
//@   ensures [sessionKept] old(sessOK(ssn)) ==> sessionKept(ssn)
//@ end

// queue resource getters: the first registered function decides, nil if none
//@ func (*Session).QueueDeservedResources
//@   props C05 C07
//@   usestable []Operation Session.ClusterInfo Session.Cache Session.eventHandlers []*EventHandler ClusterInfo.PodGroupInfos ClusterInfo.Nodes map[common_info.PodGroupID]*podgroup_info.PodGroupInfo map[string]*node_info.NodeInfo
//@   requires ssn != nil
//@   assume forall i int :: 0 <= i && i < len(ssn.GetQueueDeservedResourcesFns) ==> ssn.GetQueueDeservedResourcesFns[i] != nil
//@   note assumed: no nil function is registered
//@   modifies *
//@   hint [skelSame] skelSame(ssn)
//@   ensures [firstDecides] result == old(ite(len(ssn.GetQueueDeservedResourcesFns) > 0, api.queueResourceOf(ssn.GetQueueDeservedResourcesFns[0], queue), nil))
//@   ensures [logsSame] logsSame()
//@   ensures [virtual] noEmission() && reversals() == old(reversals()) && reverseFailures() == old(reverseFailures())
//@   ensures [sessionKept] old(sessOK(ssn)) ==> sessionKept(ssn)
//@ end
//@ func (*Session).QueueFairShare
//@   props C05 C07
//@   usestable []Operation Session.ClusterInfo Session.Cache Session.eventHandlers []*EventHandler ClusterInfo.PodGroupInfos ClusterInfo.Nodes map[common_info.PodGroupID]*podgroup_info.PodGroupInfo map[string]*node_info.NodeInfo
//@   requires ssn != nil
//@   assume forall i int :: 0 <= i && i < len(ssn.GetQueueFairShareFns) ==> ssn.GetQueueFairShareFns[i] != nil
//@   note assumed: no nil function is registered
//@   modifies *
//@   hint [skelSame] skelSame(ssn)
//@   ensures [firstDecides] result == old(ite(len(ssn.GetQueueFairShareFns) > 0, api.queueResourceOf(ssn.GetQueueFairShareFns[0], queue), nil))
//@   ensures [logsSame] logsSame()
//@   ensures [virtual] noEmission() && reversals() == old(reversals()) && reverseFailures() == old(reverseFailures())
//@   ensures [sessionKept] old(sessOK(ssn)) ==> sessionKept(ssn)
//@ end
//@ func (*Session).QueueAllocatedResources
//@   props C05 C07
//@   usestable []Operation Session.ClusterInfo Session.Cache Session.eventHandlers []*EventHandler ClusterInfo.PodGroupInfos ClusterInfo.Nodes map[common_info.PodGroupID]*podgroup_info.PodGroupInfo map[string]*node_info.NodeInfo
//@   requires ssn != nil
//@   assume forall i int :: 0 <= i && i < len(ssn.GetQueueAllocatedResourcesFns) ==> ssn.GetQueueAllocatedResourcesFns[i] != nil
//@   note assumed: no nil function is registered
//@   modifies *
//@   hint [skelSame] skelSame(ssn)
//@   ensures [firstDecides] result == old(ite(len(ssn.GetQueueAllocatedResourcesFns) > 0, api.queueResourceOf(ssn.GetQueueAllocatedResourcesFns[0], queue), nil))
//@   ensures [logsSame] logsSame()
//@   ensures [virtual] noEmission() && reversals() == old(reversals()) && reverseFailures() == old(reverseFailures())
//@   ensures [sessionKept] old(sessOK(ssn)) ==> sessionKept(ssn)
//@ end

// C07: the validation snapshot of the registered job-solution-start hooks (proportion copies the live queue
// usage) is FRESH: the hooks ran after the last decision was emitted to the cache (vacuous without hooks)
//@ define snapshotFresh(ssn *Session) bool = len(ssn.OnJobSolutionStartFns) > 0 ==> api.snapshotStamp() == emitted()
// every registered OnJobSolutionStartFn is called exactly once, in registration order (ghost call log of package api)
//@ func (*Session).OnJobSolutionStart
//@   props C05 C06 C07
//@   usestable []Operation
//@   requires ssn != nil
//@   assume forall i int :: 0 <= i && i < len(ssn.OnJobSolutionStartFns) ==> ssn.OnJobSolutionStartFns[i] != nil
//@   note assumed: no nil function is registered
//@   modifies *
//@   loop 1
//@     modifies *
//@     invariant 0 - 1 <= rangeindex && rangeindex < len(ssn.OnJobSolutionStartFns)
//@     invariant ssn.OnJobSolutionStartFns == old(ssn.OnJobSolutionStartFns)
//@     invariant api.jobSolutionStartCalls() == old(api.jobSolutionStartCalls()) + rangeindex + 1
//@     invariant forall i int :: 0 <= i && i <= rangeindex ==> api.jobSolutionStartAt(old(api.jobSolutionStartCalls()) + i + 1) == old(ssn.OnJobSolutionStartFns[i])
//@     invariant pluginFrame() && skeletonFrame() && solutionStartHooksSame()
//@     invariant rangeindex >= 0 ==> api.snapshotStamp() == emitted()
//@     decreases len(ssn.OnJobSolutionStartFns) - rangeindex
//@   ensures [eachOnce] api.jobSolutionStartCalls() == old(api.jobSolutionStartCalls()) + old(len(ssn.OnJobSolutionStartFns))
//@   ensures [inOrder] forall i int :: 0 <= i && i < old(len(ssn.OnJobSolutionStartFns)) ==> api.jobSolutionStartAt(old(api.jobSolutionStartCalls()) + i + 1) == old(ssn.OnJobSolutionStartFns[i])
//@   ensures [snapshotStamped] old(len(ssn.OnJobSolutionStartFns)) > 0 ==> api.snapshotStamp() == emitted()
//@   ensures [hooksKept] ssn.OnJobSolutionStartFns == old(ssn.OnJobSolutionStartFns)
//@   ensures [logsSame] logsSame()
//@   ensures [virtual] noEmission() && reversals() == old(reversals()) && reverseFailures() == old(reverseFailures())
//@   ensures [sessionKept] old(sessOK(ssn)) ==> sessionKept(ssn)
//@ end

// ---- scoring dispatch -----------------------------------------------------------------------------------------
// GPU score of one GPU group: the sum of every registered function's score; the first failing function aborts (0, err).
//@ define noGpuScoreFails(ssn *Session, task *pod_info.PodInfo, node *node_info.NodeInfo, gpuIdx string) bool = forall i int :: 0 <= i && i < len(ssn.GpuOrderFns) ==> !api.gpuScoreFails(ssn.GpuOrderFns[i], task, node, gpuIdx)
//@ func (*Session).GpuOrderFn
//@   props C02
//@   requires ssn != nil
//@   assume forall i int :: 0 <= i && i < len(ssn.GpuOrderFns) ==> ssn.GpuOrderFns[i] != nil
//@   note assumed: no nil function is registered
//@   pure
//@   loop 1
//@     invariant 0 - 1 <= rangeindex && rangeindex < len(ssn.GpuOrderFns)
//@     invariant forall i int :: 0 <= i && i <= rangeindex ==> !api.gpuScoreFails(ssn.GpuOrderFns[i], task, node, gpuIdx)
//@     invariant score == (sum i in range(0, rangeindex + 1) :: api.gpuScore(ssn.GpuOrderFns[i], task, node, gpuIdx))
//@     decreases len(ssn.GpuOrderFns) - rangeindex
//@   ensures [okIffNoneFails] (result1 == nil) == noGpuScoreFails(ssn, task, node, gpuIdx)
//@   ensures [scoreIsSum] result1 == nil ==> result0 == (sum i in range(0, len(ssn.GpuOrderFns)) :: api.gpuScore(ssn.GpuOrderFns[i], task, node, gpuIdx))
//@   ensures [errorScoreZero] result1 != nil ==> result0 == 0.0
//@ end

// node score: the sum of every registered function's score; the first failing function aborts (0, err)
//@ define noNodeScoreFails(ssn *Session, task *pod_info.PodInfo, node *node_info.NodeInfo) bool = forall i int :: 0 <= i && i < len(ssn.NodeOrderFns) ==> !api.nodeScoreFails(ssn.NodeOrderFns[i], task, node)
//@ func (*Session).NodeOrderFn
//@   props C04
//@   usestable []Operation Session.NodeOrderFns []api.NodeOrderFn Session.ClusterInfo Session.Cache Session.eventHandlers []*EventHandler ClusterInfo.PodGroupInfos ClusterInfo.Nodes map[common_info.PodGroupID]*podgroup_info.PodGroupInfo map[string]*node_info.NodeInfo
//@   requires ssn != nil
//@   assume forall i int :: 0 <= i && i < len(ssn.NodeOrderFns) ==> ssn.NodeOrderFns[i] != nil
//@   note assumed: no nil function is registered
//@   modifies *
//@   loop 1
//@     modifies *
//@     invariant 0 - 1 <= rangeindex && rangeindex < len(ssn.NodeOrderFns)
//@     invariant ssn.NodeOrderFns == old(ssn.NodeOrderFns)
//@     invariant forall i int :: 0 <= i && i <= rangeindex ==> !api.nodeScoreFails(old(ssn.NodeOrderFns[i]), task, node)
//@     invariant priorityScore == (sum i in range(0, rangeindex + 1) :: api.nodeScore(old(ssn.NodeOrderFns[i]), task, node))
//@     invariant pluginFrame()
//@     invariant skelSame(ssn)
//@     decreases len(ssn.NodeOrderFns) - rangeindex
//@   ensures [okOnlyIfNoneFails] result1 == nil ==> old(noNodeScoreFails(ssn, task, node))
//@   ensures [firstErrorWins] old(noNodeScoreFails(ssn, task, node)) ==> result1 == nil
//@   ensures [scoreIsSum] result1 == nil ==> result0 == (sum i in range(0, old(len(ssn.NodeOrderFns))) :: api.nodeScore(old(ssn.NodeOrderFns[i]), task, node))
//@   ensures [errorScoreZero] result1 != nil ==> result0 == 0.0
//@   ensures [logsSame] logsSame()
//@   ensures [virtual] noEmission() && reversals() == old(reversals()) && reverseFailures() == old(reverseFailures())
//@   ensures [sessionKept] old(sessOK(ssn)) ==> sessionKept(ssn)
//@ end

// pre-ordering hooks: every registered function runs (errors are only logged); the node list is not rewritten
//@ func (*Session).NodePreOrderFn
//@   props C04
//@   usestable []Operation Session.NodePreOrderFns []api.NodePreOrderFn Session.ClusterInfo Session.Cache Session.eventHandlers []*EventHandler ClusterInfo.PodGroupInfos ClusterInfo.Nodes map[common_info.PodGroupID]*podgroup_info.PodGroupInfo map[string]*node_info.NodeInfo
//@   requires ssn != nil
//@   assume forall i int :: 0 <= i && i < len(ssn.NodePreOrderFns) ==> ssn.NodePreOrderFns[i] != nil
//@   note assumed: no nil function is registered
//@   nopanic off
//@   note nopanic off: task.Name is read for the error log line only (a nil task is the caller's matter)
//@   modifies *
//@   loop 1
//@     modifies *
//@     invariant 0 - 1 <= rangeindex && rangeindex < len(ssn.NodePreOrderFns)
//@     invariant ssn.NodePreOrderFns == old(ssn.NodePreOrderFns)
//@     invariant forall j int :: 0 <= j && j < len(fittingNodes) ==> fittingNodes[j] == old(fittingNodes[j])
//@     invariant pluginFrame()
//@     invariant skelSame(ssn)
//@     decreases len(ssn.NodePreOrderFns) - rangeindex
//@   ensures [inputKept] forall j int :: 0 <= j && j < len(fittingNodes) ==> fittingNodes[j] == old(fittingNodes[j])
//@   ensures [logsSame] logsSame()
//@   ensures [virtual] noEmission() && reversals() == old(reversals()) && reverseFailures() == old(reverseFailures())
//@   ensures [sessionKept] old(sessOK(ssn)) ==> sessionKept(ssn)
//@ end

// ---- pod-set / sub-group-set comparators (as JobOrderFn / TaskOrderFn above): the first registered comparator that
// is not neutral decides; the fallback orders by name.
//@ define psOf(x interface{}) *subgroup_info.PodSet = unbox(x, "*subgroup_info.PodSet")
//@ define isPS(x interface{}) bool = typeis(x, "*subgroup_info.PodSet") && psOf(x) != nil
//@ define psCmp(ssn *Session, i int, l interface{}, r interface{}) int = common_info.cmpVerdict(ssn.PodSetOrderFns[i], l, r)
//@ define psNeutral(ssn *Session, l interface{}, r interface{}) bool = forall i int :: 0 <= i && i < len(ssn.PodSetOrderFns) ==> psCmp(ssn, i, l, r) == 0
//@ define psDecider(ssn *Session, k int, l interface{}, r interface{}) bool = 0 <= k && k < len(ssn.PodSetOrderFns) && psCmp(ssn, k, l, r) != 0 && (forall i int :: 0 <= i && i < k ==> psCmp(ssn, i, l, r) == 0)
//@ func (*Session).PodSetOrderFn
//@   props C01 C03 C04
//@   requires ssn != nil
//@   assume isPS(l) && isPS(r)
//@   note assumed: the comparator is only handed pod sets (priority queues of *subgroup_info.PodSet built in podgroup_info / actions/common)
//@   assume forall i int :: 0 <= i && i < len(ssn.PodSetOrderFns) ==> ssn.PodSetOrderFns[i] != nil
//@   note assumed: no nil function is registered
//@   pure
//@   loop 1
//@     invariant 0 - 1 <= rangeindex && rangeindex < len(ssn.PodSetOrderFns)
//@     invariant forall i int :: 0 <= i && i <= rangeindex ==> psCmp(ssn, i, l, r) == 0
//@     decreases len(ssn.PodSetOrderFns) - rangeindex
//@   ensures [nameFallback] psNeutral(ssn, l, r) ==> result == (psOf(l).name < psOf(r).name)
//@   ensures [firstPluginDecides] forall k int :: psDecider(ssn, k, l, r) ==> result == (psCmp(ssn, k, l, r) < 0)
//@ end

//@ define sgsOf(x interface{}) *subgroup_info.SubGroupSet = unbox(x, "*subgroup_info.SubGroupSet")
//@ define isSGS(x interface{}) bool = typeis(x, "*subgroup_info.SubGroupSet") && sgsOf(x) != nil
//@ define sgsCmp(ssn *Session, i int, l interface{}, r interface{}) int = common_info.cmpVerdict(ssn.SubGroupSetOrderFns[i], l, r)
//@ define sgsNeutral(ssn *Session, l interface{}, r interface{}) bool = forall i int :: 0 <= i && i < len(ssn.SubGroupSetOrderFns) ==> sgsCmp(ssn, i, l, r) == 0
//@ define sgsDecider(ssn *Session, k int, l interface{}, r interface{}) bool = 0 <= k && k < len(ssn.SubGroupSetOrderFns) && sgsCmp(ssn, k, l, r) != 0 && (forall i int :: 0 <= i && i < k ==> sgsCmp(ssn, i, l, r) == 0)
//@ func (*Session).SubGroupSetOrderFn
//@   props C01 C03 C04
//@   requires ssn != nil
//@   assume isSGS(l) && isSGS(r)
//@   note assumed: the comparator is only handed sub-group sets
//@   assume forall i int :: 0 <= i && i < len(ssn.SubGroupSetOrderFns) ==> ssn.SubGroupSetOrderFns[i] != nil
//@   note assumed: no nil function is registered
//@   pure
//@   loop 1
//@     invariant 0 - 1 <= rangeindex && rangeindex < len(ssn.SubGroupSetOrderFns)
//@     invariant forall i int :: 0 <= i && i <= rangeindex ==> sgsCmp(ssn, i, l, r) == 0
//@     decreases len(ssn.SubGroupSetOrderFns) - rangeindex
//@   ensures [nameFallback] sgsNeutral(ssn, l, r) ==> result == (sgsOf(l).name < sgsOf(r).name)
//@   ensures [firstPluginDecides] forall k int :: sgsDecider(ssn, k, l, r) ==> result == (sgsCmp(ssn, k, l, r) < 0)
//@ end

// ---- GPU ranking of one node (C02): FittingGPUs = filter (fits the GPU group / a whole GPU is idle or releasing),
// score every candidate through GpuOrderFn, order by score. Verified: read-only (`pure`), every listed shared GPU group
// passed node.IsTaskFitOnGpuGroup; the order itself (sort.Sort on the score keys) is library code.
//@ func sortGPUs
//@   props C02
//@   trusted
//@   note sort.Sort(sort.Reverse(sort.Float64Slice(..))) over the score keys: library sort through interfaces, outside the subset; assumed read-only (it sorts a slice it allocated itself); the order is not constrained
//@   pure
//@ end
//@ func filterGpusByEnoughResources
//@   props C02
//@   requires node != nil && pod != nil
//@   assume pod.ResReq != nil && node.Idle != nil && node.Releasing != nil
//@   note assumed: the task's ResReq and the node's Idle / Releasing vectors exist (snapshot invariants, node_info.nodeReadable / taskReadable)
//@   pure
//@   loop 1
//@     invariant forall i int :: 0 <= i && i < len(filteredGPUs) ==> node_info.fitsGpuGroup(node, pod.ResReq, filteredGPUs[i])
//@   loop 2
//@     invariant forall i int :: 0 <= i && i < len(filteredGPUs) && filteredGPUs[i] != pod_info.WholeGpuIndicator ==> node_info.fitsGpuGroup(node, pod.ResReq, filteredGPUs[i])
//@   ensures [sharedGroupsFit] forall i int :: 0 <= i && i < len(result) && result[i] != pod_info.WholeGpuIndicator ==> node_info.fitsGpuGroup(node, pod.ResReq, result[i])
//@ end
//@ func (*Session).sortGPUs
//@   props C02
//@   requires ssn != nil
//@   nopanic off
//@   note nopanic off: node.Name is read for an error log line only
//@   pure
//@   loop 1
//@     invariant 0 - 1 <= rangeindex && rangeindex < len(filteredGPUs)
//@     decreases len(filteredGPUs) - rangeindex
//@ end
//@ func (*Session).FittingGPUs
//@   props C01 C02
//@   requires ssn != nil && node != nil && pod != nil
//@   pure
//@ end
// C04 "only nodes of the candidate set": the scoring step returns a re-ordered selection of its input
// (nodes whose scoring failed are dropped), the subset step returns subsets of the parent node set.
//@ func (*Session).OrderedNodesByTask
//@   props C01 C03 C04
//@   trusted
//@   note goroutines + sync.WaitGroup / Mutex + sort (outside the subset: a `go` statement havocs the heap in the engine, so no clause could be proved against the body; the whole function stays trusted). The goroutine-free parts ARE verified separately: (*Session).NodePreOrderFn (every pre-order hook runs, node list kept) and (*Session).NodeOrderFn (sum of the registered scores, first error wins), both with the plugin frame. Assumed here: that frame for the concurrent calls, and that the result only contains nodes of the input slice (the body appends input nodes to score buckets and concatenates the buckets)
//@   requires ssn != nil
//@   modifies *
//@   ensures [logsSame] logsSame()
//@   ensures [virtual] noEmission() && reversals() == old(reversals()) && reverseFailures() == old(reverseFailures())
//@   ensures [sessionKept] old(sessOK(ssn)) ==> sessionKept(ssn)
//@   ensures [onlyInputNodes] forall i int :: 0 <= i && i < len(result) ==> result[i] != nil && (exists j int :: 0 <= j && j < len(nodes) && nodes[j] == result[i])
//@   ensures [inputKept] forall j int :: 0 <= j && j < len(nodes) ==> nodes[j] == old(nodes[j])
//@ end
// log line only: builds name lists in fresh slices
//@ func logNodeSetsPluginResult
//@   props C04
//@   nopanic off
//@   note nopanic off: node.Name / podGroup.Namespace are read for a log line (nil entries are the caller's matter)
//@   pure
//@   loop 1
//@     invariant true
//@   loop 2
//@     invariant true
//@ end

// C04 "only nodes of the candidate set". [subsetsOfParent] is a `trust` clause: the loop structure, the frame and the
// boundary cases ARE verified, the nested subset property is not. (It was proved once from a type-level assumption
// "a subset function maps node sets whose nodes satisfy an uninterpreted predicate to sets whose nodes do" with the
// invariants subsetsOK(nodeSets) / subsetsOK(newNodeSets), subsetsOK(S) = forall q :: incells(q, S) ==> forall j :: candNode((*q)[j]),
// 34/34 obligations; but the preservation step across `newNodeSets = append(newNodeSets, nodeSubsets...)` - a slice of
// slices, case split at len(newNodeSets), inner cells behind two `modifies *` havocs - needs a quantifier instance at
// sk - len(s) that the solvers find only for some seeds / instantiation budgets (0.5 s .. timeout). Too fragile to claim.)
//@ func (*Session).SubsetNodesFn
//@   props C01 C03 C04
//@   usestable []Operation Session.SubsetNodesFns []api.SubsetNodesFn []node_info.NodeSet Session.ClusterInfo Session.Cache Session.eventHandlers []*EventHandler ClusterInfo.PodGroupInfos ClusterInfo.Nodes map[common_info.PodGroupID]*podgroup_info.PodGroupInfo map[string]*node_info.NodeInfo
//@   nopanic off
//@   note nopanic off: podGroup.Namespace is read for log lines only (a nil podGroup is the caller's matter)
//@   requires ssn != nil
//@   requires [podSetsCoverSubGroup] subgroup_info.podSetsCover(subGroupInfo.parent, subGroupInfo.name, podSets)
//@   requires [podSetsOnlyOfSubGroup] subgroup_info.podSetsOnly(subGroupInfo.parent, subGroupInfo.name, podSets)
//@   assume forall i int :: 0 <= i && i < len(ssn.SubsetNodesFns) ==> ssn.SubsetNodesFns[i] != nil
//@   note assumed: no nil function is registered
//@   modifies *
//@   loop 1
//@     modifies *
//@     invariant 0 - 1 <= rangeindex && rangeindex < len(ssn.SubsetNodesFns)
//@     invariant ssn.SubsetNodesFns == old(ssn.SubsetNodesFns)
//@     invariant rangeindex == 0 - 1 ==> len(nodeSets) == 1 && nodeSets[0] == initNodeSet
//@     invariant pluginFrame()
//@     invariant skelSame(ssn)
//@     decreases len(ssn.SubsetNodesFns) - rangeindex
//@   loop 2
//@     modifies *
//@     invariant 0 - 1 <= rangeindex && rangeindex < len(nodeSets)
//@     invariant ssn.SubsetNodesFns == old(ssn.SubsetNodesFns)
//@     invariant pluginFrame()
//@     invariant skelSame(ssn)
//@     decreases len(nodeSets) - rangeindex
//@   ensures [logsSame] logsSame()
//@   ensures [virtual] noEmission() && reversals() == old(reversals()) && reverseFailures() == old(reverseFailures())
//@   ensures [sessionKept] old(sessOK(ssn)) ==> sessionKept(ssn)
//@   trust [subsetsOfParent] result1 == nil ==> forall a int, i int :: 0 <= a && a < len(result0) && 0 <= i && i < len(result0[a]) ==> result0[a][i] != nil && (exists j int :: 0 <= j && j < len(initNodeSet) && initNodeSet[j] == result0[a][i])
//@   note [subsetsOfParent] trusted (it was assumed by the whole-function `trusted` contract this block replaces): ASSUMED that every registered subset function (topology plugin) returns non-nil nodes of the node set it is given and that the candidate set holds no nil node; the wrapper applies each level to the previous level's subsets and concatenates, so the result sets are subsets of initNodeSet. Not proved: see the comment above the block
//@   ensures [noSubsetFnIsIdentity] old(len(ssn.SubsetNodesFns)) == 0 ==> result1 == nil && len(result0) == 1 && result0[0] == initNodeSet
//@   ensures [errorMeansNoSets] result1 != nil ==> len(result0) == 0
//@ end

// ---- session.go: the two look-up helpers of BindPod / Evict / commitEvict -------------------------------------------
// updatePodOnSession (job look-up + PodGroupInfo.UpdateTaskStatus) and updatePodOnNode (node look-up +
// NodeInfo.UpdateTask) are loop-free; they are executed INSIDE their callers' units ((*Session).BindPod,
// (*Statement).commitEvict - verified above - and Session.Evict), so their bodies are covered by those proofs with the
// full C14 contracts of UpdateTaskStatus / UpdateTask. A standalone summary would only replace that by something weaker.
//@ func (*Session).updatePodOnSession
//@   props C13 C01
//@   inline
//@ end
//@ func (*Session).updatePodOnNode
//@   props C13 C06
//@   inline
//@ end

// ---- session.go: configuration getters ------------------------------------------------------------------------
// C10/C16 "jobs depth": the per-action queue depth, infinite (-1) when the action has no entry
//@ func (*Session).GetJobsDepth
//@   props C10 C16 C05
//@   requires ssn != nil && ssn.Config != nil
//@   pure
//@   ensures [configured] string(action) in ssn.Config.QueueDepthPerAction ==> result == ssn.Config.QueueDepthPerAction[string(action)]
//@   ensures [infiniteByDefault] !(string(action) in ssn.Config.QueueDepthPerAction) ==> result == 0 - 1
//@ end

// number of leaf queues (queues without children) of the snapshot; used for a log line only
//@ func (*Session).CountLeafQueues
//@   props C10
//@   requires ssn != nil && ssn.ClusterInfo != nil
//@   assume forall k in ssn.ClusterInfo.Queues :: ssn.ClusterInfo.Queues[k] != nil
//@   note assumed: no nil queue is recorded in the snapshot
//@   pure
//@   loop 1
//@     invariant forall k in visited :: k in ssn.ClusterInfo.Queues
//@     invariant cnt == (count k in visited :: len(ssn.ClusterInfo.Queues[k].ChildQueues) == 0)
//@   ensures [countsLeaves] result == (count k in ssn.ClusterInfo.Queues :: len(ssn.ClusterInfo.Queues[k].ChildQueues) == 0)
//@ end

// ---- stable fields (engine batches 7-9): written by constructors / plugin registration only; govc checks
// mechanically, per havoc, that no storing function is reachable. Used only by units that say `usestable`.
//@ stable Statement.ssn
//@ stable Statement.sessionID
//@ stable Session.ClusterInfo
//@ stable Session.Cache
//@ stable Session.eventHandlers
//@ stable slicetype []*EventHandler
//@ stable Session.ReclaimScenarioValidatorFns
//@ stable Session.PreemptScenarioValidatorFns
//@ stable Session.ReclaimVictimFilterFns
//@ stable Session.PreemptVictimFilterFns
// (helper "sess") the registration slices of the dispatch wrappers: each is written only by its Add...Fn method
//@ stable slicetype []Operation
//@ stable Session.PredicateFns
//@ stable slicetype []api.PredicateFn
//@ stable Session.PrePredicateFns
//@ stable slicetype []api.PrePredicateFn
//@ stable Session.SubsetNodesFns
//@ stable slicetype []api.SubsetNodesFn
//@ stable slicetype []node_info.NodeSet
//@ stable Session.NodeOrderFns
//@ stable slicetype []api.NodeOrderFn
//@ stable Session.NodePreOrderFns
//@ stable slicetype []api.NodePreOrderFn
//@ stable Session.PreJobAllocationFns
//@ stable slicetype []api.PreJobAllocationFn
