//go:build verif

// Contracts for govc (contract-based deductive verification); comments only.
package framework

// ---- operations.go: the four log entry kinds ---------------------------------------------------
//@ define isEvictOp(o Operation) bool = typeis(o, "evictOperation")
//@ define isPipelineOp(o Operation) bool = typeis(o, "pipelineOperation")
//@ define isAllocateOp(o Operation) bool = typeis(o, "allocateOperation")
//@ define isUndoOp(o Operation) bool = typeis(o, "undoOperation")
//@ define knownOp(o Operation) bool = isEvictOp(o) || isPipelineOp(o) || isAllocateOp(o) || isUndoOp(o)
// index of the log entry an undo entry reverses
//@ define undoTarget(o Operation) int = unbox(o, "undoOperation").operationIndex

// the task an entry is about (undo entries carry a fresh placeholder task with empty UID/Job)
//@ define opTask(o Operation) *pod_info.PodInfo = ite(isEvictOp(o), unbox(o, "evictOperation").taskInfo, ite(isPipelineOp(o), unbox(o, "pipelineOperation").taskInfo, unbox(o, "allocateOperation").taskInfo))
// the closure stored in an entry that reverses it
//@ define revFn(o Operation) ReverseOperation = ite(isEvictOp(o), unbox(o, "evictOperation").reverseOperation, ite(isPipelineOp(o), unbox(o, "pipelineOperation").reverseOperation, ite(isAllocateOp(o), unbox(o, "allocateOperation").reverseOperation, unbox(o, "undoOperation").reverseOperation)))
//@ define opName(o Operation) string = ite(isEvictOp(o), "evict", ite(isPipelineOp(o), "pipeline", ite(isAllocateOp(o), "allocate", "undo")))

// Interface-level contracts (used at `invoke` sites): assumed, but each of the four in-repo
// implementations is verified below against the same statement; `requires knownOp(recv)` makes the
// closed-world step explicit at every call site.
//@ func Operation.Name
//@   requires knownOp(recv)
//@   pure
//@   ensures result == opName(recv)
//@ end
//@ func Operation.TaskInfo
//@   requires knownOp(recv)
//@   ensures !isUndoOp(recv) ==> result == opTask(recv)
//@   ensures isUndoOp(recv) ==> fresh(result) && result.UID == "" && result.Job == ""
//@ end

//@ func (evictOperation).Name
//@   props C13
//@   pure
//@   ensures result == "evict"
//@ end
//@ func (pipelineOperation).Name
//@   props C13
//@   pure
//@   ensures result == "pipeline"
//@ end
//@ func (allocateOperation).Name
//@   props C13
//@   pure
//@   ensures result == "allocate"
//@ end
//@ func (undoOperation).Name
//@   props C13
//@   pure
//@   ensures result == "undo"
//@ end

//@ func (evictOperation).TaskInfo
//@   props C13
//@   pure
//@   ensures result == op.taskInfo
//@ end
//@ func (pipelineOperation).TaskInfo
//@   props C13
//@   pure
//@   ensures result == op.taskInfo
//@ end
//@ func (allocateOperation).TaskInfo
//@   props C13
//@   pure
//@   ensures result == op.taskInfo
//@ end
//@ func (undoOperation).TaskInfo
//@   props C13
//@   fresh
//@   ensures result.UID == "" && result.Job == ""
//@ end

// ---- statement.go: the undo log ------------------------------------------------------------------
// Well-formed log: only the four in-repo entry kinds, and an undo entry points strictly backwards
// (DESIGN C13: "log invariant undo@j => target < j"; it is what makes operationValid terminate).
//@ define wfKnown(s *Statement) bool = forall j int :: 0 <= j && j < len(s.operations) ==> knownOp(s.operations[j])
//@ define wfRev(s *Statement) bool = forall j int :: 0 <= j && j < len(s.operations) ==> revFn(s.operations[j]) != nil
//@ define wfBack(s *Statement) bool = forall j int :: 0 <= j && j < len(s.operations) && isUndoOp(s.operations[j]) ==> 0 <= undoTarget(s.operations[j]) && undoTarget(s.operations[j]) < j
//@ define wfLog(s *Statement) bool = wfKnown(s) && wfRev(s) && wfBack(s)
// entry j is an undo entry for entry i
//@ define targets(s *Statement, j int, i int) bool = isUndoOp(s.operations[j]) && undoTarget(s.operations[j]) == i
//@ define noUndoFor(s *Statement, i int) bool = forall j int :: 0 <= j && j < len(s.operations) ==> !targets(s, j, i)
//@ define firstUndoFor(s *Statement, i int, j int) bool = 0 <= j && j < len(s.operations) && targets(s, j, i) && (forall k int :: 0 <= k && k < j ==> !targets(s, k, i))
// Flat log (the shape at every quiescent point, i.e. outside Rollback/Discard): undo entries are
// themselves never undone and no entry is undone twice. On a flat log the number of live undo
// entries targeting i is 0 or 1, so "even number of live undo entries" <==> "no undo entry".
//@ define flatLog(s *Statement) bool = (forall j int :: 0 <= j && j < len(s.operations) && isUndoOp(s.operations[j]) ==> noUndoFor(s, j)) && (forall j int, k int :: 0 <= j && j < k && k < len(s.operations) && isUndoOp(s.operations[j]) && isUndoOp(s.operations[k]) ==> undoTarget(s.operations[j]) != undoTarget(s.operations[k]))

// C13: "nothing is emitted for undone steps" rests on operationValid. DESIGN: valid(i) <==> an even
// number of live undo entries target i. The code decides by the FIRST undo entry targeting i
// (valid(i) = !valid(first undo of i)); stated here as the unfolding of that recursion to depth 3
// (the deepest nesting Rollback/Discard can create) plus the parity form on flat logs.
//@ func (*Statement).operationValid
//@   props C13
//@   requires s != nil && wfLog(s)
//@   pure
//@   decreases len(s.operations) - i
//@   loop 1
//@     invariant 0 - 1 <= rangeindex && rangeindex < len(s.operations)
//@     invariant forall j int :: 0 <= j && j <= rangeindex ==> !targets(s, j, i)
//@     decreases len(s.operations) - rangeindex
//@   ensures [noUndo] noUndoFor(s, i) ==> result
//@   ensures [undone] forall j int :: firstUndoFor(s, i, j) && noUndoFor(s, j) ==> !result
//@   ensures [redone] forall j int, k int :: firstUndoFor(s, i, j) && firstUndoFor(s, j, k) && noUndoFor(s, k) ==> result
//@   ensures [parityOnFlat] flatLog(s) ==> (result <==> noUndoFor(s, i))
//@ end

// ---- frame facts about ALL statements (callees run plugin code, so their frame is `modifies *`) --
// The log field is unexported and only Statement methods assign it; every such assignment appends
// (or happens in Rollback/Discard/Commit/ConvertAllAllocatedToPipelined, which no ReverseOperation
// or event handler calls). Hence, across any ReverseOperation / handler call: logs only grow and
// existing entries stay.
//@ define logsGrow() bool = forall st *Statement :: len(st.operations) >= old(len(st.operations))
//@ define entriesKept() bool = forall st *Statement, j int :: 0 <= j && j < old(len(st.operations)) ==> st.operations[j] == old(st.operations[j])
// entries appended by the callee are well-formed ones (together with entriesKept: wfLog is preserved)
//@ define okEntry(o Operation, j int) bool = knownOp(o) && revFn(o) != nil && (isUndoOp(o) ==> 0 <= undoTarget(o) && undoTarget(o) < j)
//@ define newEntriesOK() bool = forall st *Statement, j int :: old(len(st.operations)) <= j && j < len(st.operations) ==> okEntry(st.operations[j], j)
// address-taken locals of the caller (captured by the redo closures) are not reachable by the callee
//@ define localsKept() bool = (forall p **Statement :: *p == old(*p)) && (forall p *Operation :: old(allocated(p)) ==> *p == old(*p))

// number of ReverseOperation invocations so far (ghost): lets callers state "nothing is reversed for
// an already undone entry" and "exactly one reversal per undone entry".
//@ ghost reversals() int

//@ func type:ReverseOperation
//@   modifies *
//@   ensures [assumed] logsGrow() && entriesKept() && newEntriesOK() && localsKept()
//@   ensures [assumed] reversals() == old(reversals()) + 1
//@   note every ReverseOperation value is one of the closures created in Evict/Pipeline/Allocate/undoOperation; each calls unevict/unpipeline/unallocate or Evict/Pipeline/Allocate/undoOperation, which only append to logs
//@ end

//@ func Operation.Reverse
//@   requires knownOp(recv) && revFn(recv) != nil
//@   modifies *
//@   ensures [assumed] logsGrow() && entriesKept() && newEntriesOK() && localsKept()
//@   ensures [assumed] reversals() == old(reversals()) + 1
//@   note assumed at invoke sites; the four implementations (below) just call the stored ReverseOperation and are verified against this statement
//@ end
//@ func (evictOperation).Reverse
//@   props C13
//@   requires op.reverseOperation != nil
//@   modifies *
//@   ensures logsGrow() && entriesKept() && newEntriesOK() && localsKept()
//@   ensures reversals() == old(reversals()) + 1
//@ end
//@ func (pipelineOperation).Reverse
//@   props C13
//@   requires op.reverseOperation != nil
//@   modifies *
//@   ensures logsGrow() && entriesKept() && newEntriesOK() && localsKept()
//@   ensures reversals() == old(reversals()) + 1
//@ end
//@ func (allocateOperation).Reverse
//@   props C13
//@   requires op.reverseOperation != nil
//@   modifies *
//@   ensures logsGrow() && entriesKept() && newEntriesOK() && localsKept()
//@   ensures reversals() == old(reversals()) + 1
//@ end
//@ func (undoOperation).Reverse
//@   props C13
//@   requires op.reverseOperation != nil
//@   modifies *
//@   ensures logsGrow() && entriesKept() && newEntriesOK() && localsKept()
//@   ensures reversals() == old(reversals()) + 1
//@ end

// entry i was undone and that undo is live (depth-2 case of operationValid)
//@ define undone(s *Statement, i int) bool = exists j int :: firstUndoFor(s, i, j) && noUndoFor(s, j)

// C13: "undoOperation appends one undo entry, reverses only valid ops".
//@ func (*Statement).undoOperation
//@   props C13
//@   requires s != nil && wfLog(s) && 0 <= index && index < len(s.operations)
//@   modifies *
//@   ensures [lenGrows] len(s.operations) >= old(len(s.operations))
//@   ensures [prefixKept] forall j int :: 0 <= j && j < old(len(s.operations)) ==> s.operations[j] == old(s.operations[j])
//@   ensures [wfKnown] wfKnown(s)
//@   ensures [wfRev] wfRev(s)
//@   ensures [wfBack] wfBack(s)
//@   ensures [invalidSkipped] old(undone(s, index)) ==> result == nil && len(s.operations) == old(len(s.operations)) && reversals() == old(reversals())
//@   ensures [atMostOneReversal] old(reversals()) <= reversals() && reversals() <= old(reversals()) + 1
//@   ensures [validReversedOnce] old(noUndoFor(s, index)) ==> reversals() == old(reversals()) + 1
//@   ensures [appendsUndoEntry] old(noUndoFor(s, index)) && result == nil ==> len(s.operations) > old(len(s.operations)) && targets(s, len(s.operations) - 1, index)
//@ end

//@ func (*Statement).Checkpoint
//@   props C13
//@   requires s != nil
//@   pure
//@   ensures result == len(s.operations)
//@ end

//@ func (*Statement).clearOperations
//@   props C13
//@   requires s != nil
//@   modifies s.operations
//@   ensures len(s.operations) == 0
//@ end

// C13: "rolls back to a checkpoint": post len' == cp; entries below the checkpoint are untouched;
// every entry >= cp is visited once, last to first (the loop variant is the entry index), each still
// valid one is reversed exactly once (undoOperation), already undone ones are skipped.
//@ func (*Statement).Rollback
//@   props C13
//@   requires s != nil && wfLog(s)
//@   modifies *
//@   loop 1
//@     modifies *
//@     invariant cp - 1 <= i && i < old(len(s.operations)) && 0 <= cp
//@     invariant len(s.operations) >= old(len(s.operations))
//@     invariant forall j int :: 0 <= j && j < old(len(s.operations)) ==> s.operations[j] == old(s.operations[j])
//@     invariant wfKnown(s)
//@     invariant wfRev(s)
//@     invariant wfBack(s)
//@     invariant reversals() - old(reversals()) <= old(len(s.operations)) - 1 - i
//@     decreases i - cp + 1
//@   ensures [badCheckpoint] cp < 0 || cp > old(len(s.operations)) ==> result != nil && s.operations == old(s.operations) && reversals() == old(reversals())
//@   ensures [lenIsCheckpoint] 0 <= cp && cp <= old(len(s.operations)) && result == nil ==> len(s.operations) == cp
//@   ensures [belowCheckpointKept] 0 <= cp && cp <= old(len(s.operations)) ==> forall j int :: 0 <= j && j < cp ==> s.operations[j] == old(s.operations[j])
//@   ensures [failedKeepsLog] result != nil ==> len(s.operations) >= old(len(s.operations))
//@   ensures [atMostOncePerEntry] 0 <= cp && cp <= old(len(s.operations)) ==> reversals() - old(reversals()) <= old(len(s.operations)) - cp
//@   ensures [wfKnown] wfKnown(s)
//@   ensures [wfRev] wfRev(s)
//@   ensures [wfBack] wfBack(s)
//@ end

// C13: "any sequence ... that an action later discards": post len' == 0 on every path.
//@ func (*Statement).Discard
//@   props C13
//@   requires s != nil && wfLog(s)
//@   modifies *
//@   loop 1
//@     modifies *
//@     invariant 0 - 1 <= i && i < old(len(s.operations))
//@     invariant len(s.operations) >= old(len(s.operations))
//@     invariant wfKnown(s)
//@     invariant wfRev(s)
//@     invariant wfBack(s)
//@     invariant reversals() - old(reversals()) <= old(len(s.operations)) - 1 - i
//@     decreases i + 1
//@   ensures [logEmpty] len(s.operations) == 0
//@   ensures [atMostOncePerEntry] reversals() - old(reversals()) <= old(len(s.operations))
//@   ensures [emptyIsNoop] old(len(s.operations)) == 0 ==> reversals() == old(reversals())
//@ end

// ---- session_plugins.go: victim filters / scenario validators (C06) ----------------------------
// C06: "never evict pods of non-preemptible workloads, nor of workloads still inside the minimum
// runtime ...": the session-level verdict is the conjunction of EVERY registered plugin verdict
// (api.victimFilterHolds(f, actor, victim) is the abstract verdict of plugin function f).
//@ define reclaimVictimOK(ssn *Session, actor *podgroup_info.PodGroupInfo, victim *podgroup_info.PodGroupInfo) bool = forall i int :: 0 <= i && i < len(ssn.ReclaimVictimFilterFns) ==> api.victimFilterHolds(ssn.ReclaimVictimFilterFns[i], actor, victim)
//@ define preemptVictimOK(ssn *Session, actor *podgroup_info.PodGroupInfo, victim *podgroup_info.PodGroupInfo) bool = forall i int :: 0 <= i && i < len(ssn.PreemptVictimFilterFns) ==> api.victimFilterHolds(ssn.PreemptVictimFilterFns[i], actor, victim)
//@ define reclaimScenarioOK(ssn *Session, scenario api.ScenarioInfo) bool = forall i int :: 0 <= i && i < len(ssn.ReclaimScenarioValidatorFns) ==> api.scenarioValid(ssn.ReclaimScenarioValidatorFns[i], scenario)
//@ define preemptScenarioOK(ssn *Session, scenario api.ScenarioInfo) bool = forall i int :: 0 <= i && i < len(ssn.PreemptScenarioValidatorFns) ==> api.scenarioValid(ssn.PreemptScenarioValidatorFns[i], scenario)

//@ func (*Session).ReclaimVictimFilter
//@   props C06 C05
//@   requires ssn != nil
//@   requires forall i int :: 0 <= i && i < len(ssn.ReclaimVictimFilterFns) ==> ssn.ReclaimVictimFilterFns[i] != nil
//@   pure
//@   loop 1
//@     invariant 0 - 1 <= rangeindex && rangeindex < len(ssn.ReclaimVictimFilterFns)
//@     invariant forall i int :: 0 <= i && i <= rangeindex ==> api.victimFilterHolds(ssn.ReclaimVictimFilterFns[i], reclaimer, victim)
//@     decreases len(ssn.ReclaimVictimFilterFns) - rangeindex
//@   ensures result == reclaimVictimOK(ssn, reclaimer, victim)
//@   ensures [noFilters] len(ssn.ReclaimVictimFilterFns) == 0 ==> result
//@ end

//@ func (*Session).PreemptVictimFilter
//@   props C06 C05
//@   requires ssn != nil
//@   requires forall i int :: 0 <= i && i < len(ssn.PreemptVictimFilterFns) ==> ssn.PreemptVictimFilterFns[i] != nil
//@   pure
//@   loop 1
//@     invariant 0 - 1 <= rangeindex && rangeindex < len(ssn.PreemptVictimFilterFns)
//@     invariant forall i int :: 0 <= i && i <= rangeindex ==> api.victimFilterHolds(ssn.PreemptVictimFilterFns[i], preemptor, victim)
//@     decreases len(ssn.PreemptVictimFilterFns) - rangeindex
//@   ensures result == preemptVictimOK(ssn, preemptor, victim)
//@   ensures [noFilters] len(ssn.PreemptVictimFilterFns) == 0 ==> result
//@ end

//@ func (*Session).ReclaimScenarioValidatorFn
//@   props C06
//@   requires ssn != nil
//@   requires forall i int :: 0 <= i && i < len(ssn.ReclaimScenarioValidatorFns) ==> ssn.ReclaimScenarioValidatorFns[i] != nil
//@   pure
//@   loop 1
//@     invariant 0 - 1 <= rangeindex && rangeindex < len(ssn.ReclaimScenarioValidatorFns)
//@     invariant forall i int :: 0 <= i && i <= rangeindex ==> api.scenarioValid(ssn.ReclaimScenarioValidatorFns[i], scenario)
//@     decreases len(ssn.ReclaimScenarioValidatorFns) - rangeindex
//@   ensures result == reclaimScenarioOK(ssn, scenario)
//@ end

//@ func (*Session).PreemptScenarioValidator
//@   props C06
//@   requires ssn != nil
//@   requires forall i int :: 0 <= i && i < len(ssn.PreemptScenarioValidatorFns) ==> ssn.PreemptScenarioValidatorFns[i] != nil
//@   pure
//@   loop 1
//@     invariant 0 - 1 <= rangeindex && rangeindex < len(ssn.PreemptScenarioValidatorFns)
//@     invariant forall i int :: 0 <= i && i <= rangeindex ==> api.scenarioValid(ssn.PreemptScenarioValidatorFns[i], scenario)
//@     decreases len(ssn.PreemptScenarioValidatorFns) - rangeindex
//@   ensures result == preemptScenarioOK(ssn, scenario)
//@ end

// ---- session_plugins.go: comparators (C16) -----------------------------------------------------
// C16: "nor - at equal priority - a younger one while leaving an older one unplaced": whenever every
// registered comparator is neutral on (l, r) - which the priority and elastic comparators are for two
// workloads of equal priority and equal gang state (their own contracts) - the older workload is
// ordered first, ties broken by UID, so the order is strict and total.
//@ define pgOf(x interface{}) *podgroup_info.PodGroupInfo = unbox(x, "*podgroup_info.PodGroupInfo")
//@ define isPG(x interface{}) bool = typeis(x, "*podgroup_info.PodGroupInfo") && pgOf(x) != nil
//@ define fifoLessJob(a *podgroup_info.PodGroupInfo, b *podgroup_info.PodGroupInfo) bool = a.CreationTimestamp < b.CreationTimestamp || (a.CreationTimestamp == b.CreationTimestamp && a.UID < b.UID)
//@ define jobCmp(ssn *Session, i int, l interface{}, r interface{}) int = common_info.cmpVerdict(ssn.JobOrderFns[i], l, r)
//@ define jobNeutral(ssn *Session, l interface{}, r interface{}) bool = forall i int :: 0 <= i && i < len(ssn.JobOrderFns) ==> jobCmp(ssn, i, l, r) == 0
//@ define jobDecider(ssn *Session, k int, l interface{}, r interface{}) bool = 0 <= k && k < len(ssn.JobOrderFns) && jobCmp(ssn, k, l, r) != 0 && (forall i int :: 0 <= i && i < k ==> jobCmp(ssn, i, l, r) == 0)

//@ func (*Session).JobOrderFn
//@   props C16
//@   requires ssn != nil && isPG(l) && isPG(r)
//@   requires forall i int :: 0 <= i && i < len(ssn.JobOrderFns) ==> ssn.JobOrderFns[i] != nil
//@   pure
//@   loop 1
//@     invariant 0 - 1 <= rangeindex && rangeindex < len(ssn.JobOrderFns)
//@     invariant forall i int :: 0 <= i && i <= rangeindex ==> jobCmp(ssn, i, l, r) == 0
//@     decreases len(ssn.JobOrderFns) - rangeindex
//@   ensures [fifoFallback] jobNeutral(ssn, l, r) ==> result == fifoLessJob(pgOf(l), pgOf(r))
//@   ensures [firstPluginDecides] forall k int :: jobDecider(ssn, k, l, r) ==> result == (jobCmp(ssn, k, l, r) < 0)
//@   lemma [irreflexive] jobNeutral(ssn, l, r) && pgOf(l) == pgOf(r) ==> !result
//@   lemma [asymmetric] jobNeutral(ssn, l, r) && result ==> !fifoLessJob(pgOf(r), pgOf(l))
//@   lemma [totalOnDistinctKeys] jobNeutral(ssn, l, r) && (pgOf(l).CreationTimestamp != pgOf(r).CreationTimestamp || pgOf(l).UID != pgOf(r).UID) ==> result || fifoLessJob(pgOf(r), pgOf(l))
//@   lemma [transitive] forall c *podgroup_info.PodGroupInfo :: c != nil && jobNeutral(ssn, l, r) && result && fifoLessJob(pgOf(r), c) ==> fifoLessJob(pgOf(l), c)
//@ end

//@ define piOf(x interface{}) *pod_info.PodInfo = unbox(x, "*pod_info.PodInfo")
//@ define isPI(x interface{}) bool = typeis(x, "*pod_info.PodInfo") && piOf(x) != nil && piOf(x).Pod != nil
//@ define fifoLessTask(a *pod_info.PodInfo, b *pod_info.PodInfo) bool = a.Pod.CreationTimestamp < b.Pod.CreationTimestamp || (a.Pod.CreationTimestamp == b.Pod.CreationTimestamp && a.UID < b.UID)
//@ define taskCmp(ssn *Session, i int, l interface{}, r interface{}) int = common_info.cmpVerdict(ssn.TaskOrderFns[i], l, r)
//@ define taskNeutral(ssn *Session, l interface{}, r interface{}) bool = forall i int :: 0 <= i && i < len(ssn.TaskOrderFns) ==> taskCmp(ssn, i, l, r) == 0
//@ define taskDecider(ssn *Session, k int, l interface{}, r interface{}) bool = 0 <= k && k < len(ssn.TaskOrderFns) && taskCmp(ssn, k, l, r) != 0 && (forall i int :: 0 <= i && i < k ==> taskCmp(ssn, i, l, r) == 0)

//@ func (*Session).TaskOrderFn
//@   props C16
//@   requires ssn != nil && isPI(l) && isPI(r)
//@   requires forall i int :: 0 <= i && i < len(ssn.TaskOrderFns) ==> ssn.TaskOrderFns[i] != nil
//@   pure
//@   loop 1
//@     invariant 0 - 1 <= rangeindex && rangeindex < len(ssn.TaskOrderFns)
//@     invariant forall i int :: 0 <= i && i <= rangeindex ==> taskCmp(ssn, i, l, r) == 0
//@     decreases len(ssn.TaskOrderFns) - rangeindex
//@   ensures [fifoFallback] taskNeutral(ssn, l, r) ==> result == fifoLessTask(piOf(l), piOf(r))
//@   ensures [firstPluginDecides] forall k int :: taskDecider(ssn, k, l, r) ==> result == (taskCmp(ssn, k, l, r) < 0)
//@   lemma [irreflexive] taskNeutral(ssn, l, r) && piOf(l) == piOf(r) ==> !result
//@   lemma [asymmetric] taskNeutral(ssn, l, r) && result ==> !fifoLessTask(piOf(r), piOf(l))
//@ end

// Queues: the plugin comparators also look at the victim slices, so no abstract verdict is available;
// the fallback is pinned down for a session without queue comparators.
//@ define fifoLessQueue(a *queue_info.QueueInfo, b *queue_info.QueueInfo) bool = a.CreationTimestamp < b.CreationTimestamp || (a.CreationTimestamp == b.CreationTimestamp && a.UID < b.UID)
//@ func (*Session).QueueOrderFn
//@   props C16
//@   requires ssn != nil && ssn.ClusterInfo != nil && lQ != nil && rQ != nil
//@   requires forall i int :: 0 <= i && i < len(ssn.QueueOrderFns) ==> ssn.QueueOrderFns[i] != nil
//@   pure
//@   loop 1
//@     invariant 0 - 1 <= rangeindex && rangeindex < len(ssn.QueueOrderFns)
//@     decreases len(ssn.QueueOrderFns) - rangeindex
//@   ensures [fifoFallback] len(ssn.QueueOrderFns) == 0 ==> result == fifoLessQueue(lQ, rQ)
//@   lemma [asymmetric] len(ssn.QueueOrderFns) == 0 && result ==> !fifoLessQueue(rQ, lQ)
//@ end
