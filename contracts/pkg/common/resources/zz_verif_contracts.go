//go:build verif

// Contracts for govc (contract-based deductive verification); comments only.
package resources

// (library models for resource.Quantity.Add / DeepCopy and v1.ResourceList.DeepCopy live in
//  pkg/podgroupcontroller/controllers/resources/zz_verif_contracts.go; they are global)

// Property C20: "a Queue's reported values equal the sums over its pod groups and child queues":
// the sum of two resource lists is the pointwise sum (absent = 0); operands are not modified and the
// result is a new map.
//@ func SumResources
//@   props C20
//@   fresh
//@   loop 1
//@     invariant total != nil && total != left && total != right && fresh(total)
//@     invariant forall k v1.ResourceName :: (k in total) == ((k in left) || ((k in right) && (k in visited)))
//@     invariant forall k v1.ResourceName :: total[k] == left[k] + ite(k in visited, right[k], 0.0)
//@     # frame of pre-existing Quantity cells (the loop only writes the local `sum`)
//@     invariant forall p *resource.Quantity :: old(allocated(p)) ==> *p == old(*p)
//@   ensures [nonnil] result != nil
//@   ensures [keys] forall k v1.ResourceName :: (k in result) == ((k in left) || (k in right))
//@   ensures [sum] forall k v1.ResourceName :: result[k] == left[k] + right[k]
//@ end

// ---- helpers of the scheduler's pod constructor: safety contracts only (C10/C19 callers need the frame) ----
// (what GetGpuGroups returns is the subject of C17/C02, not claimed here)
//@ func GetGpuGroups
//@   props C19 C10
//@   requires pod != nil
//@   loop 1
//@     invariant true
//@ end

//@ func ExtractDRAGPUResourcesFromClaims
//@   props C19 C10
//@   loop 1
//@     invariant deviceClassCounts != nil
//@     invariant -1 <= rangeindex && rangeindex < len(podResourceClaims)
//@   ensures result != nil
//@ end
