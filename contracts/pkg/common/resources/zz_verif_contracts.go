//go:build verif

// Contracts for govc (contract-based deductive verification); comments only.
package resources

// ===== section owned by the C20 helper (SumResources) =====
// (library models for resource.Quantity.Add / DeepCopy and v1.ResourceList.DeepCopy live in
//  pkg/podgroupcontroller/controllers/resources/zz_verif_contracts.go; they are global)

// Property C20: "a Queue's reported values equal the sums over its pod groups and child queues":
// the sum of two resource lists is the pointwise sum (absent = 0); operands are not modified and the
// result is a new map.
//@ func SumResources
//@   props C20
//@   fresh
//@   loop 1
//@     invariant total != nil && total != left && total != right && fresh(total)
//@     invariant forall k v1.ResourceName :: (k in total) == ((k in left) || ((k in right) && (k in visited)))
//@     invariant forall k v1.ResourceName :: total[k] == left[k] + ite(k in visited, right[k], 0.0)
//@     # frame of pre-existing Quantity cells (the loop only writes the local `sum`)
//@     invariant forall p *resource.Quantity :: old(allocated(p)) ==> *p == old(*p)
//@   ensures [nonnil] result != nil
//@   ensures [keys] forall k v1.ResourceName :: (k in result) == ((k in left) || (k in right))
//@   ensures [sum] forall k v1.ResourceName :: result[k] == left[k] + right[k]
//@ end

// ===== end of C20 section; below: C19 (helper gpureq) =====
// ---- the three parsers as deterministic functions of the annotation string (shared by the C19
// contracts of admission, binder and scheduler: every component that parses the SAME string sees
// the SAME (value, err)) ---------------------------------------------------------------------
//@ define pfVal(s string) real = tuple0(strconv.ParseFloat(s, 64))
//@ define pfOk(s string) bool = tuple1(strconv.ParseFloat(s, 64)) == nil
//@ define puVal(s string) int = tuple0(strconv.ParseUint(s, 10, 64))
//@ define puOk(s string) bool = tuple1(strconv.ParseUint(s, 10, 64)) == nil
//@ define piVal(s string) int = tuple0(strconv.ParseInt(s, 10, 64))
//@ define piOk(s string) bool = tuple1(strconv.ParseInt(s, 10, 64)) == nil
//@ define maxInt64() int = 9223372036854775807

// C19: "Every GPU request that admission accepts ... denotes a finite positive quantity".
// a well-formed fraction: parses, finite, 0 < f < 1
//@ define wfFraction(s string) bool = pfOk(s) && isfinite(pfVal(s)) && fval(pfVal(s)) > 0.0 && fval(pfVal(s)) < 1.0
// a well-formed positive count / amount of memory: a decimal integer n with 1 <= n <= MaxInt64
// (scheduler and binder read it with ParseInt(…, 10, 64))
//@ define wfPosInt(s string) bool = piOk(s) && 1 <= piVal(s) && piVal(s) <= maxInt64()

//@ define hasFrac(pod *v1.Pod) bool = constants.GpuFraction in pod.Annotations
//@ define hasMem(pod *v1.Pod) bool = constants.GpuMemory in pod.Annotations
//@ define hasCount(pod *v1.Pod) bool = constants.GpuFractionsNumDevices in pod.Annotations
//@ define fracStr(pod *v1.Pod) string = pod.Annotations[constants.GpuFraction]
//@ define memStr(pod *v1.Pod) string = pod.Annotations[constants.GpuMemory]
//@ define countStr(pod *v1.Pod) string = pod.Annotations[constants.GpuFractionsNumDevices]

// C19: the binder materialises the same values: the accessor returns exactly the number the
// annotation string denotes, or an error.
//@ func GetGPUFraction
//@   props C19
//@   ieee
//@   requires pod != nil
//@   pure
//@   ensures [ok] (result1 == nil) == (hasFrac(pod) && pfOk(fracStr(pod)))
//@   ensures [value] result1 == nil ==> result0 == pfVal(fracStr(pod))
//@   ensures [zero-on-error] result1 != nil ==> result0 == 0.0
//@ end

//@ func GetGPUMemory
//@   props C19
//@   requires pod != nil
//@   pure
//@   ensures [ok] (result1 == nil) == (hasMem(pod) && piOk(memStr(pod)))
//@   ensures [value] result1 == nil ==> result0 == piVal(memStr(pod))
//@   ensures [zero-on-error] result1 != nil ==> result0 == 0
//@ end

// C19: number of fractional devices, default 1 for a fraction / memory request without the annotation.
//@ func GetNumGPUFractionDevices
//@   props C19
//@   requires pod != nil
//@   assume fractionDevicesAnnotationNotFound != nil
//@   note the sentinel error is a package variable initialised once with fmt.Errorf(...) and never reassigned
//@   pure
//@   ensures [ok] (result1 == nil) == ite(hasCount(pod), piOk(countStr(pod)), hasFrac(pod) || hasMem(pod))
//@   ensures [value] result1 == nil ==> result0 == ite(hasCount(pod), piVal(countStr(pod)), 1)
//@   ensures [zero-on-error] result1 != nil ==> result0 == 0
//@   ensures [not-found-sentinel] !hasCount(pod) && !hasFrac(pod) && !hasMem(pod) ==> result1 == fractionDevicesAnnotationNotFound
//@ end

//@ func RequestsGPUFraction
//@   props C19
//@   requires pod != nil
//@   pure
//@   ensures result == (hasFrac(pod) || hasMem(pod))
//@ end

// assumed library contract (errors.Is has no body in the loaded program): reflexivity only.
//@ func errors.Is
//@   trusted
//@   note library function; only reflexivity is assumed: errors.Is(e, e) is true (also for nil, nil)
//@   pure
//@   ensures err == target ==> result
//@ end

// the converse case (a parse error is not the sentinel) would need "fmt.Errorf without %w does not
// wrap the sentinel", which the engine does not model: only the clauses below are claimed.
//@ func IsMultiFraction
//@   props C19
//@   requires pod != nil
//@   assume fractionDevicesAnnotationNotFound != nil
//@   pure
//@   ensures [absent] !hasCount(pod) ==> result1 == nil && result0 == (false)
//@   ensures [present-ok] hasCount(pod) && piOk(countStr(pod)) ==> result1 == nil && result0 == (piVal(countStr(pod)) > 1)
//@   ensures [value] result0 ==> hasCount(pod) && piOk(countStr(pod)) && piVal(countStr(pod)) > 1
//@ end

//@ func RequestsWholeGPU
//@   props C19
//@   requires pod != nil
//@   pure
//@   loop 1
//@     invariant -1 <= rangeindex && rangeindex < len(pod.Spec.Containers)
//@     invariant forall j int :: 0 <= j && j <= rangeindex ==> !(constants.NvidiaGpuResource in pod.Spec.Containers[j].Resources.Requests) && !(constants.NvidiaGpuResource in pod.Spec.Containers[j].Resources.Limits)
//@     decreases len(pod.Spec.Containers) - rangeindex
//@   ensures result == (exists i int :: 0 <= i && i < len(pod.Spec.Containers) && (constants.NvidiaGpuResource in pod.Spec.Containers[i].Resources.Requests || constants.NvidiaGpuResource in pod.Spec.Containers[i].Resources.Limits))
//@ end

// ---- helpers of the scheduler's pod constructor: safety contracts only (C10/C19 callers need the frame) ----
// (what GetGpuGroups returns is the subject of C17/C02, not claimed here)
//@ func GetGpuGroups
//@   props C19 C10
//@   requires pod != nil
//@   loop 1
//@     invariant true
//@ end

//@ func ExtractDRAGPUResourcesFromClaims
//@   props C19 C10
//@   loop 1
//@     invariant deviceClassCounts != nil
//@     invariant -1 <= rangeindex && rangeindex < len(podResourceClaims)
//@   ensures result != nil
//@ end

// ===== section owned by helper bplug (C11: DRA claim reservations written by the binder's DRA plugin) =====
// "claim reservations in place": the claim's status lists the pod (by name and UID) as a consumer.
//@ define claimReservedFor(c *resourceapi.ResourceClaim, pod *v1.Pod) bool = exists i int :: 0 <= i && i < len(c.Status.ReservedFor) && c.Status.ReservedFor[i].Name == pod.Name && c.Status.ReservedFor[i].UID == pod.UID && c.Status.ReservedFor[i].Resource == "pods" && c.Status.ReservedFor[i].APIGroup == ""
//@ define isPodRef(c *resourceapi.ResourceClaim, i int, pod *v1.Pod) bool = c.Status.ReservedFor[i].Name == pod.Name && c.Status.ReservedFor[i].UID == pod.UID && c.Status.ReservedFor[i].Resource == "pods" && c.Status.ReservedFor[i].APIGroup == ""
//@ define sameRefAsOld(c *resourceapi.ResourceClaim, i int) bool = c.Status.ReservedFor[i].Name == old(c.Status.ReservedFor[i].Name) && c.Status.ReservedFor[i].UID == old(c.Status.ReservedFor[i].UID) && c.Status.ReservedFor[i].Resource == old(c.Status.ReservedFor[i].Resource) && c.Status.ReservedFor[i].APIGroup == old(c.Status.ReservedFor[i].APIGroup)    // (added by plug2)
//@ func UpsertReservedFor
//@   props C11
//@   requires claim != nil && pod != nil
//@   modifies claim.Status.ReservedFor
//@   loop 1
//@     invariant -1 <= rangeindex && rangeindex < len(claim.Status.ReservedFor)
//@     invariant claim.Status.ReservedFor == old(claim.Status.ReservedFor)
//@     invariant forall j int :: 0 <= j && j <= rangeindex ==> !isPodRef(claim, j, pod)    // (added by plug2)
//@     decreases len(claim.Status.ReservedFor) - rangeindex
//@   hint [witness] (len(claim.Status.ReservedFor) == old(len(claim.Status.ReservedFor)) + 1 && isPodRef(claim, len(claim.Status.ReservedFor) - 1, pod)) || (rangeindex + 1 < len(claim.Status.ReservedFor) && isPodRef(claim, rangeindex + 1, pod))
//@   ensures [pod-listed-as-consumer] claimReservedFor(claim, pod)
//@   ensures [at-most-one-entry-added] len(claim.Status.ReservedFor) == old(len(claim.Status.ReservedFor)) || len(claim.Status.ReservedFor) == old(len(claim.Status.ReservedFor)) + 1
// (the three clauses below were added by helper plug2, C13: what Upsert adds is exactly what RemoveReservedFor removes)
//@   ensures [every-other-consumer-kept] forall i int :: 0 <= i && i < old(len(claim.Status.ReservedFor)) ==> sameRefAsOld(claim, i)
//@   ensures [appended-iff-not-yet-listed] len(claim.Status.ReservedFor) == old(len(claim.Status.ReservedFor)) + ite(old(claimReservedFor(claim, pod)), 0, 1)
//@   ensures [appended-entry-is-the-pod] len(claim.Status.ReservedFor) == old(len(claim.Status.ReservedFor)) + 1 ==> isPodRef(claim, len(claim.Status.ReservedFor) - 1, pod)
//@ end

// ===== section owned by helper plug2 (C13 / C12 / C04 / C10: the scheduler-side DRA plugin, pkg/scheduler/plugins/dynamicresources) =====
// A consumer reference is the quadruple (APIGroup, Resource, Name, UID); hasRef: the claim's status lists it.
//@ define hasRef(c *resourceapi.ResourceClaim, g string, r string, n string, u types.UID) bool = exists i int :: 0 <= i && i < len(c.Status.ReservedFor) && c.Status.ReservedFor[i].APIGroup == g && c.Status.ReservedFor[i].Resource == r && c.Status.ReservedFor[i].Name == n && c.Status.ReservedFor[i].UID == u
//@ define isPodQuad(pod *v1.Pod, g string, r string, n string, u types.UID) bool = g == "" && r == "pods" && n == pod.Name && u == pod.UID

// C13 "leaves the scheduler's view of ... resource claims ... exactly as it was": RemoveReservedFor is the mirror of
// UpsertReservedFor: afterwards the pod is no consumer, and every other consumer reference is listed iff it was listed.
//@ func RemoveReservedFor
//@   props C13 C10
//@   requires claim != nil && pod != nil
//@   modifies claim.Status.ReservedFor
//@   loop 1
//@     invariant -1 <= rangeindex && rangeindex < len(claim.Status.ReservedFor)
//@     invariant claim.Status.ReservedFor == old(claim.Status.ReservedFor)
//@     invariant len(newReservedFor) <= rangeindex + 1
//@     invariant forall j int :: 0 <= j && j < len(newReservedFor) ==> !(newReservedFor[j].Name == pod.Name && newReservedFor[j].UID == pod.UID && newReservedFor[j].Resource == "pods" && newReservedFor[j].APIGroup == "")
//@     invariant forall i int :: 0 <= i && i <= rangeindex && !old(isPodRef(claim, i, pod)) ==> (exists j int :: 0 <= j && j < len(newReservedFor) && newReservedFor[j].APIGroup == old(claim.Status.ReservedFor[i].APIGroup) && newReservedFor[j].Resource == old(claim.Status.ReservedFor[i].Resource) && newReservedFor[j].Name == old(claim.Status.ReservedFor[i].Name) && newReservedFor[j].UID == old(claim.Status.ReservedFor[i].UID))
//@     invariant forall j int :: 0 <= j && j < len(newReservedFor) ==> (exists i int :: 0 <= i && i <= rangeindex && !old(isPodRef(claim, i, pod)) && newReservedFor[j].APIGroup == old(claim.Status.ReservedFor[i].APIGroup) && newReservedFor[j].Resource == old(claim.Status.ReservedFor[i].Resource) && newReservedFor[j].Name == old(claim.Status.ReservedFor[i].Name) && newReservedFor[j].UID == old(claim.Status.ReservedFor[i].UID))
//@     invariant len(newReservedFor) == (count i in range(0, rangeindex + 1) :: !old(isPodRef(claim, i, pod)))
//@     invariant len(newReservedFor) == rangeindex + 1 || (exists k int :: 0 <= k && k <= rangeindex && old(isPodRef(claim, k, pod)))
//@     invariant forall k int :: 0 <= k && k <= rangeindex && old(isPodRef(claim, k, pod)) ==> len(newReservedFor) <= rangeindex
//@     decreases len(claim.Status.ReservedFor) - rangeindex
//@   ensures [pod-no-longer-consumer] !claimReservedFor(claim, pod)
//@   ensures [kept-entries-were-listed] forall g string, r string, n string, u types.UID :: hasRef(claim, g, r, n, u) ==> old(hasRef(claim, g, r, n, u)) && !isPodQuad(pod, g, r, n, u)
//@   ensures [every-other-consumer-kept] forall g string, r string, n string, u types.UID :: old(hasRef(claim, g, r, n, u)) && !isPodQuad(pod, g, r, n, u) ==> hasRef(claim, g, r, n, u)
//@   ensures [exactly-the-pod-entries-dropped] len(claim.Status.ReservedFor) == (count i in range(0, old(len(claim.Status.ReservedFor))) :: !old(isPodRef(claim, i, pod)))
//@   ensures [never-grows] len(claim.Status.ReservedFor) <= old(len(claim.Status.ReservedFor))
//@   ensures [shrinks-iff-pod-was-listed] (len(claim.Status.ReservedFor) < old(len(claim.Status.ReservedFor))) == old(claimReservedFor(claim, pod))
//@ end

// which API object a pod-level claim reference names: the direct name, else (template claims) the generated name the
// pod status records for that reference - the FIRST status entry with that name and a recorded claim name.
//@ define rcStatusHit(pod *v1.Pod, n string, i int) bool = pod.Status.ResourceClaimStatuses[i].Name == n && pod.Status.ResourceClaimStatuses[i].ResourceClaimName != nil
//@ define rcFirstHit(pod *v1.Pod, n string, i int) bool = 0 <= i && i < len(pod.Status.ResourceClaimStatuses) && rcStatusHit(pod, n, i) && (forall j int :: 0 <= j && j < i ==> !rcStatusHit(pod, n, j))
// rcResolves(pod, pc, name): the reference pc of pod names the API object `name`; rcResolvable: it names one at all
//@ define rcResolves(pod *v1.Pod, pc *v1.PodResourceClaim, name string) bool = (pc.ResourceClaimName != nil && name == *pc.ResourceClaimName) || (pc.ResourceClaimName == nil && pc.ResourceClaimTemplateName != nil && (exists i int :: rcFirstHit(pod, pc.Name, i) && name == *pod.Status.ResourceClaimStatuses[i].ResourceClaimName))
//@ define rcResolvable(pod *v1.Pod, pc *v1.PodResourceClaim) bool = pc.ResourceClaimName != nil || (pc.ResourceClaimTemplateName != nil && (exists i int :: 0 <= i && i < len(pod.Status.ResourceClaimStatuses) && rcStatusHit(pod, pc.Name, i)))
//@ func GetResourceClaimName
//@   props C13 C12 C10 C04
//@   requires pod != nil && podClaim != nil
//@   pure
//@   loop 1
//@     invariant -1 <= rangeindex && rangeindex < len(pod.Status.ResourceClaimStatuses)
//@     invariant forall j int :: 0 <= j && j <= rangeindex ==> !rcStatusHit(pod, podClaim.Name, j)
//@     decreases len(pod.Status.ResourceClaimStatuses) - rangeindex
//@   ensures [direct-name] podClaim.ResourceClaimName != nil ==> result1 == nil && result0 == *podClaim.ResourceClaimName
//@   ensures [no-name-no-template] podClaim.ResourceClaimName == nil && podClaim.ResourceClaimTemplateName == nil ==> result1 != nil
//@   ensures [template-resolved-iff-recorded] podClaim.ResourceClaimName == nil && podClaim.ResourceClaimTemplateName != nil ==> ((result1 == nil) == (exists i int :: 0 <= i && i < len(pod.Status.ResourceClaimStatuses) && rcStatusHit(pod, podClaim.Name, i)))
//@   ensures [template-name-is-first-recorded] podClaim.ResourceClaimName == nil && result1 == nil ==> (forall i int :: rcFirstHit(pod, podClaim.Name, i) ==> result0 == *pod.Status.ResourceClaimStatuses[i].ResourceClaimName)
//@   ensures [error-has-no-name] result1 != nil ==> result0 == ""
//@   ensures [error-iff-unresolvable] (result1 == nil) == rcResolvable(pod, podClaim)
//@   ensures [result-is-a-resolution] result1 == nil ==> rcResolves(pod, podClaim, result0)
//@   ensures [resolution-is-functional] result1 == nil ==> (forall name string :: rcResolves(pod, podClaim, name) ==> name == result0)
//@ end

// a claim asks for a GPU: one of its exact device requests names a device class containing "gpu" (case-insensitive)
//@ define gpuRequestAt(claim *resourceapi.ResourceClaim, i int) bool = claim.Spec.Devices.Requests[i].Exactly != nil && IsGPUDeviceClass(claim.Spec.Devices.Requests[i].Exactly.DeviceClassName)
//@ func IsGpuResourceClaim
//@   props C04 C10
//@   requires claim != nil
//@   pure
//@   loop 1
//@     invariant -1 <= rangeindex && rangeindex < len(claim.Spec.Devices.Requests)
//@     invariant forall j int :: 0 <= j && j <= rangeindex ==> !gpuRequestAt(claim, j)
//@     decreases len(claim.Spec.Devices.Requests) - rangeindex
//@   ensures result == (exists i int :: 0 <= i && i < len(claim.Spec.Devices.Requests) && gpuRequestAt(claim, i))
//@ end
