//go:build verif

// Contracts for govc (contract-based deductive verification); comments only.
package v2alpha2

// Generated deep copies (zz_generated.deepcopy.go). They bottom out in library deep copies whose
// bodies are not part of the loaded program (metav1.ObjectMeta.DeepCopyInto, metav1.Time,
// resource.Quantity.DeepCopy), hence `trusted`: the result is a new object whose scalar fields equal
// the receiver's and whose maps / pointer fields are new objects with equal contents.

//@ define sameStrMap(a map[string]string, b map[string]string) bool = ((a == nil) == (b == nil)) && dom(a) == dom(b) && (forall k string :: a[k] == b[k])
//@ define sameResList(a v1.ResourceList, b v1.ResourceList) bool = ((a == nil) == (b == nil)) && dom(a) == dom(b) && (forall k v1.ResourceName :: a[k] == b[k])

//@ func (*PodGroup).DeepCopy
//@   props C18
//@   trusted
//@   note generated deepcopy; calls metav1.ObjectMeta.DeepCopyInto (library, body not loaded)
//@   requires in != nil
//@   fresh
//@   ensures result != nil
//@   ensures result.Name == in.Name && result.Namespace == in.Namespace
//@   ensures sameStrMap(result.Labels, in.Labels) && (result.Labels != nil ==> fresh(result.Labels))
//@   ensures sameStrMap(result.Annotations, in.Annotations) && (result.Annotations != nil ==> fresh(result.Annotations))
//@   ensures result.Labels == nil || result.Labels != result.Annotations
//@   ensures result.Spec.MinMember == in.Spec.MinMember && result.Spec.Queue == in.Spec.Queue && result.Spec.PriorityClassName == in.Spec.PriorityClassName && result.Spec.Preemptibility == in.Spec.Preemptibility
//@   ensures result.Spec.Parallelism == in.Spec.Parallelism && result.Spec.Completions == in.Spec.Completions && result.Spec.BackoffLimit == in.Spec.BackoffLimit
//@   ensures result.Spec.TopologyConstraint.Topology == in.Spec.TopologyConstraint.Topology && result.Spec.TopologyConstraint.RequiredTopologyLevel == in.Spec.TopologyConstraint.RequiredTopologyLevel && result.Spec.TopologyConstraint.PreferredTopologyLevel == in.Spec.TopologyConstraint.PreferredTopologyLevel
//@   ensures len(result.Spec.SubGroups) == len(in.Spec.SubGroups) && len(result.OwnerReferences) == len(in.OwnerReferences)
//@ end

//@ func (*PodGroupStatus).DeepCopy
//@   props C20
//@   trusted
//@   note generated deepcopy; the nested copies end in resource.Quantity.DeepCopy / metav1.Time.DeepCopyInto (library, bodies not loaded)
//@   requires in != nil
//@   fresh
//@   ensures result != nil
//@   ensures result.Phase == in.Phase && result.Running == in.Running && result.Succeeded == in.Succeeded && result.Failed == in.Failed && result.Pending == in.Pending
//@   ensures len(result.Conditions) == len(in.Conditions) && len(result.SchedulingConditions) == len(in.SchedulingConditions)
//@   ensures sameResList(result.ResourcesStatus.Allocated, in.ResourcesStatus.Allocated)
//@   ensures sameResList(result.ResourcesStatus.AllocatedNonPreemptible, in.ResourcesStatus.AllocatedNonPreemptible)
//@   ensures sameResList(result.ResourcesStatus.Requested, in.ResourcesStatus.Requested)
//@   ensures result.ResourcesStatus.AllocatedNonPreemptible != nil ==> fresh(result.ResourcesStatus.AllocatedNonPreemptible)
//@ end
