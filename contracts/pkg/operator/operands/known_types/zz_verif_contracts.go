//go:build verif

// Contracts for govc (contract-based deductive verification); comments only.
package known_types

// C20 (operator half): "the operator's deployment of the components is a fixpoint determined only by its
// configuration". The field-inherit hooks are the one place where the object the operator is about to apply
// (desired, built from the configuration) takes values from the object found in the cluster (current). The
// postconditions below are taken from the property sentence: whatever the configuration sets wins; the cluster's
// value is used only where the configuration is silent (so a second pass over the applied object changes nothing).

//@ define mwc(o client.Object) *admissionv1.MutatingWebhookConfiguration = unbox(o, "*admissionv1.MutatingWebhookConfiguration")
//@ define vwc(o client.Object) *admissionv1.ValidatingWebhookConfiguration = unbox(o, "*admissionv1.ValidatingWebhookConfiguration")

//@ func mergeAnnotations
//@   props C20
//@   modifies desiredAnnotations[*]
//@   loop 1
//@     invariant now_desiredAnnotations != nil
//@     invariant forall k in visited :: k in currentAnnotations
//@     invariant forall k string :: old(k in desiredAnnotations) ==> (k in now_desiredAnnotations) && now_desiredAnnotations[k] == old(desiredAnnotations[k])
//@     invariant forall k string :: (k in now_desiredAnnotations) ==> old(k in desiredAnnotations) || (k in visited)
//@     invariant forall k in visited :: (k in now_desiredAnnotations) && (!old(k in desiredAnnotations) ==> now_desiredAnnotations[k] == currentAnnotations[k])
//@   ensures [neverNil] result != nil
//@   ensures [sameMapUnlessNil] old(desiredAnnotations) != nil ==> result == old(desiredAnnotations)
//@   ensures [configuredAnnotationWins] forall k string :: old(k in desiredAnnotations) ==> (k in result) && result[k] == old(desiredAnnotations[k])
//@   ensures [inheritedOnlyWhereUnset] forall k in currentAnnotations :: (k in result) && (!old(k in desiredAnnotations) ==> result[k] == currentAnnotations[k])
//@   ensures [nothingInvented] forall k string :: (k in result) ==> old(k in desiredAnnotations) || (k in currentAnnotations)
//@ end

//@ func MutatingWebhookConfigurationFieldInherit
//@   props C20
//@   note the two type assertions are the registration contract of the Collectable (FieldInherit is registered per kind); stated as preconditions
//@   requires current != nil ==> typeis(current, "*admissionv1.MutatingWebhookConfiguration") && mwc(current) != nil
//@   requires current != nil ==> typeis(desired, "*admissionv1.MutatingWebhookConfiguration") && mwc(desired) != nil
//@   requires current != nil ==> mwc(current) != mwc(desired)
//@   modifies mwc(desired).Annotations, mwc(desired).Annotations[*], mwc(desired).Webhooks[*]
//@   loop 1
//@     invariant 0 - 1 <= rangeindex && rangeindex < len(currentT.Webhooks)
//@     invariant len(desiredT.Webhooks) == len(currentT.Webhooks)
//@     invariant forall j int :: 0 <= j && j < len(desiredT.Webhooks) && old(desiredT.Webhooks[j].NamespaceSelector) != nil ==> desiredT.Webhooks[j].NamespaceSelector == old(desiredT.Webhooks[j].NamespaceSelector)
//@   ensures [configuredSelectorWins] current != nil ==> forall j int :: 0 <= j && j < len(mwc(desired).Webhooks) && old(mwc(desired).Webhooks[j].NamespaceSelector) != nil ==> mwc(desired).Webhooks[j].NamespaceSelector == old(mwc(desired).Webhooks[j].NamespaceSelector)
//@   ensures [configuredAnnotationWins] current != nil ==> forall k string :: old(k in mwc(desired).Annotations) ==> (k in mwc(desired).Annotations) && mwc(desired).Annotations[k] == old(mwc(desired).Annotations[k])
//@ end

//@ func ValidatingWebhookConfigurationFieldInherit
//@   props C20
//@   note the two type assertions are the registration contract of the Collectable (FieldInherit is registered per kind); stated as preconditions
//@   requires current != nil ==> typeis(current, "*admissionv1.ValidatingWebhookConfiguration") && vwc(current) != nil
//@   requires current != nil ==> typeis(desired, "*admissionv1.ValidatingWebhookConfiguration") && vwc(desired) != nil
//@   requires current != nil ==> vwc(current) != vwc(desired)
//@   modifies vwc(desired).Annotations, vwc(desired).Annotations[*], vwc(desired).Webhooks[*]
//@   loop 1
//@     invariant 0 - 1 <= rangeindex && rangeindex < len(currentT.Webhooks)
//@     invariant len(desiredT.Webhooks) == len(currentT.Webhooks)
//@     invariant forall j int :: 0 <= j && j < len(desiredT.Webhooks) && old(desiredT.Webhooks[j].NamespaceSelector) != nil ==> desiredT.Webhooks[j].NamespaceSelector == old(desiredT.Webhooks[j].NamespaceSelector)
//@   ensures [configuredSelectorWins] current != nil ==> forall j int :: 0 <= j && j < len(vwc(desired).Webhooks) && old(vwc(desired).Webhooks[j].NamespaceSelector) != nil ==> vwc(desired).Webhooks[j].NamespaceSelector == old(vwc(desired).Webhooks[j].NamespaceSelector)
//@   ensures [configuredAnnotationWins] current != nil ==> forall k string :: old(k in vwc(desired).Annotations) ==> (k in vwc(desired).Annotations) && vwc(desired).Annotations[k] == old(vwc(desired).Annotations[k])
//@ end
