//go:build verif

// Contracts for govc (contract-based deductive verification); comments only.
package controllers

// ---- ghost API store for the BindRequest status sub-resource (DESIGN 1.9) -------------------
// A persisted revision of an object is identified by its resourceVersion string. The store content
// of a BindRequest revision is given by the uninterpreted functions storedPhase / storedAttempts.
// A successful write produces a new revision nextRV(rv) and decodes it into the in-memory object
// (that is what the controller-runtime client does with the server's response); a failing write
// leaves store and object alone. Whether the write issued against revision rv fails is the
// uninterpreted oracle statusPatchFails(rv): every fault schedule is covered, no enumeration.
//@ import bri "github.com/NVIDIA/KAI-scheduler/pkg/scheduler/api/bindrequest_info"
//@ declare storedPhase(rv string) string
//@ declare storedAttempts(rv string) int
//@ declare nextRV(rv string) string
//@ declare statusPatchFails(rv string) bool
//@ declare statusWriterOf(c ref) ref
// statusWrites(): number of BindRequest status writes issued so far (successful or not).
//@ ghost statusWrites() int
// snapshot of what the reconciler last read from the store (written by the assumed contract of Client.Get)
//@ ghost gotPhase() string
//@ ghost gotDeleted() bool
//@ ghost gotPodNode() string
//@ declare mergeBase(p ref) ref
//@ declare isMergePatch(p ref) bool
//@ define asBR(o ref) *schedulingv1alpha2.BindRequest = unbox(o, "*schedulingv1alpha2.BindRequest")

// ASSUMED contracts of the external controller-runtime client (never verified against a body).
//@ func sigs.k8s.io/controller-runtime/pkg/client.Client.Status
//@   props C12 C11
//@   pure
//@   ensures result != nil && result == statusWriterOf(recv)
//@ end

//@ func sigs.k8s.io/controller-runtime/pkg/client.MergeFrom
//@   props C12 C11
//@   pure
//@   ensures result != nil && isMergePatch(result) && mergeBase(result) == obj
//@ end

// Status().Patch(obj, MergeFrom(base)) on a BindRequest: JSON merge patch of the status diff
// base -> obj. Fields that do not differ between base and obj are not sent and keep the stored value.
//@ func sigs.k8s.io/controller-runtime/pkg/client.SubResourceWriter.Patch
//@   props C12 C11
//@   requires obj != nil && patch != nil
//@   modifies asBR(obj).ResourceVersion, statusWrites()
//@   ensures statusWrites() == old(statusWrites()) + ite(typeis(obj, "*schedulingv1alpha2.BindRequest"), 1, 0)
//@   ensures typeis(obj, "*schedulingv1alpha2.BindRequest") && isMergePatch(patch) ==> (result != nil) == statusPatchFails(old(asBR(obj).ResourceVersion))
//@   ensures result != nil ==> asBR(obj).ResourceVersion == old(asBR(obj).ResourceVersion)
//@   ensures typeis(obj, "*schedulingv1alpha2.BindRequest") && isMergePatch(patch) && result == nil ==> asBR(obj).ResourceVersion == nextRV(old(asBR(obj).ResourceVersion))
//@   ensures typeis(obj, "*schedulingv1alpha2.BindRequest") && isMergePatch(patch) && result == nil ==> storedPhase(asBR(obj).ResourceVersion) == ite(asBR(obj).Status.Phase == asBR(mergeBase(patch)).Status.Phase, storedPhase(old(asBR(obj).ResourceVersion)), asBR(obj).Status.Phase)
//@   ensures typeis(obj, "*schedulingv1alpha2.BindRequest") && isMergePatch(patch) && result == nil ==> storedAttempts(asBR(obj).ResourceVersion) == ite(asBR(obj).Status.FailedAttempts == asBR(mergeBase(patch)).Status.FailedAttempts, storedAttempts(old(asBR(obj).ResourceVersion)), asBR(obj).Status.FailedAttempts)
//@ end

// C12: "The binder retries a failing request at most BackoffLimit times with the attempt count
// persisted, after which the request is observably failed to the scheduler."
// DESIGN C12: err != nil && limit != nil && limit > attempts ==> persisted.failedAttempts = attempts+1;
// err != nil ==> persisted.phase = Failed and the error is returned; err == nil ==> persisted.phase = Succeeded.
// "persisted" = content of the store revision the in-memory object carries at exit, unless the one
// status write of this call was made to fail by the fault oracle.
//@ define synced(br *schedulingv1alpha2.BindRequest) bool = storedPhase(br.ResourceVersion) == br.Status.Phase && storedAttempts(br.ResourceVersion) == br.Status.FailedAttempts
//@ func (*BindRequestReconciler).UpdateStatus
//@   props C12
//@   requires r != nil && r.Client != nil && bindRequest != nil
//@   requires synced(bindRequest)     // the object was read from the store (Reconcile: Client.Get)
//@   requires bindRequest.Status.FailedAttempts >= 0
//@   modifies bindRequest.Status.Phase, bindRequest.Status.Reason, bindRequest.Status.FailedAttempts, bindRequest.ResourceVersion, statusWrites()
//@   ensures [retry-counter-persisted] err != nil && bindRequest.Spec.BackoffLimit != nil && *bindRequest.Spec.BackoffLimit > old(bindRequest.Status.FailedAttempts) ==> statusPatchFails(old(bindRequest.ResourceVersion)) || storedAttempts(bindRequest.ResourceVersion) == old(bindRequest.Status.FailedAttempts) + 1
// the error is handed back to controller-runtime (=> requeue) exactly when this call had a status change to
// persist; a request whose stored status already says Failed with no retry left returns nil: it is terminal and
// must not be retried ("at most BackoffLimit times").
//@   ensures [error-returned-when-status-changed] err != nil && (old(bindRequest.Status.Phase) != "Failed" || (bindRequest.Spec.BackoffLimit != nil && *bindRequest.Spec.BackoffLimit > old(bindRequest.Status.FailedAttempts))) ==> result1 == err
//@   ensures [terminal-failure-not-retried] err != nil && old(bindRequest.Status.Phase) == "Failed" && !(bindRequest.Spec.BackoffLimit != nil && *bindRequest.Spec.BackoffLimit > old(bindRequest.Status.FailedAttempts)) ==> result1 == nil && result0.RequeueAfter == old(result.RequeueAfter)
// step lemma of "atMostLimitRetries": the failing attempt that reaches the limit (or any failing attempt without a
// limit) leaves an object for which the scheduler's IsFailed() holds, in memory and (unless the write failed) in the store.
//@   ensures [limit-reached-is-failed] err != nil && (bindRequest.Spec.BackoffLimit == nil || old(bindRequest.Status.FailedAttempts) + 1 >= *bindRequest.Spec.BackoffLimit) ==> bri.brFailed(bindRequest)
//@   ensures [limit-reached-is-failed-in-store] err != nil && (bindRequest.Spec.BackoffLimit == nil || old(bindRequest.Status.FailedAttempts) + 1 >= *bindRequest.Spec.BackoffLimit) ==> statusPatchFails(old(bindRequest.ResourceVersion)) || (storedPhase(bindRequest.ResourceVersion) == "Failed" && (bindRequest.Spec.BackoffLimit == nil || storedAttempts(bindRequest.ResourceVersion) >= *bindRequest.Spec.BackoffLimit))
// and below the limit the distance to it shrinks by exactly one per persisted failing attempt ([retry-counter-persisted]),
// so IsFailed() holds after at most BackoffLimit persisted failing reconciles (the induction over reconciles is not mechanised).
//@   ensures [failed-phase-persisted] err != nil ==> statusPatchFails(old(bindRequest.ResourceVersion)) || storedPhase(bindRequest.ResourceVersion) == "Failed"
//@   ensures [succeeded-phase-persisted] err == nil ==> statusPatchFails(old(bindRequest.ResourceVersion)) || storedPhase(bindRequest.ResourceVersion) == "Succeeded"
//@   ensures [one-write-iff-status-changed] statusWrites() == old(statusWrites()) + ite(bindRequest.Status.Phase != old(bindRequest.Status.Phase) || bindRequest.Status.FailedAttempts != old(bindRequest.Status.FailedAttempts), 1, 0)
//@   ensures [attempts-never-decrease] storedAttempts(bindRequest.ResourceVersion) >= old(bindRequest.Status.FailedAttempts)
//@   ensures [no-error-invented] err == nil ==> result1 == nil
//@   ensures [retry-requeued] err != nil && bindRequest.Spec.BackoffLimit != nil && *bindRequest.Spec.BackoffLimit > old(bindRequest.Status.FailedAttempts) ==> result0.RequeueAfter >= 1000000000
//@   ensures [no-retry-no-requeue-change] !(err != nil && bindRequest.Spec.BackoffLimit != nil && *bindRequest.Spec.BackoffLimit > old(bindRequest.Status.FailedAttempts)) ==> result0.RequeueAfter == old(result.RequeueAfter) && result0.Requeue == old(result.Requeue)
//@ end

// C17: "After any sequence of binds, bind failures, pod completions or deletions ... and the sync
// that follows them": a pod update is a completion event iff both objects are pods, the phase
// changed, and the new phase is terminal (Failed or Succeeded).
//@ define asPod(o ref) *corev1.Pod = unbox(o, "*corev1.Pod")
//@ func isCompletionEvent
//@   props C17
//@   requires typeis(oldObject, "*corev1.Pod") ==> asPod(oldObject) != nil     // events never carry typed-nil pods
//@   requires typeis(newObject, "*corev1.Pod") ==> asPod(newObject) != nil
//@   pure
//@   ensures result == (typeis(oldObject, "*corev1.Pod") && typeis(newObject, "*corev1.Pod") && asPod(oldObject).Status.Phase != asPod(newObject).Status.Phase && (asPod(newObject).Status.Phase == "Failed" || asPod(newObject).Status.Phase == "Succeeded"))
//@ end

// ---- C11: Reconcile protocol ------------------------------------------------------------------
//@ define asNode(o ref) *v1.Node = unbox(o, "*v1.Node")
//@ define asV1Pod(o ref) *v1.Pod = unbox(o, "*v1.Pod")
// Client.Get (ASSUMED): on success the fetched object is decoded into obj; outcome nondeterministic.
//@ func sigs.k8s.io/controller-runtime/pkg/client.Client.Get
//@   props C11
//@   requires obj != nil
//@   modifies fields(asBR(obj)), fields(asV1Pod(obj)), fields(asNode(obj)), gotPhase(), gotDeleted(), gotPodNode()
//@   ensures result == nil && typeis(obj, "*schedulingv1alpha2.BindRequest") ==> synced(asBR(obj)) && asBR(obj).Status.FailedAttempts >= 0
//@   ensures result == nil && typeis(obj, "*schedulingv1alpha2.BindRequest") ==> gotPhase() == asBR(obj).Status.Phase && gotDeleted() == (asBR(obj).DeletionTimestamp != nil)
//@   ensures !(result == nil && typeis(obj, "*schedulingv1alpha2.BindRequest")) ==> gotPhase() == old(gotPhase()) && gotDeleted() == old(gotDeleted())
//@   ensures result == nil && typeis(obj, "*v1.Pod") ==> gotPodNode() == asV1Pod(obj).Spec.NodeName
//@   ensures !(result == nil && typeis(obj, "*v1.Pod")) ==> gotPodNode() == old(gotPodNode())
//@   ensures result == nil && typeis(obj, "*v1.Node") ==> asNode(obj).Name == key.Name
//@   ensures result == nil && typeis(obj, "*v1.Pod") ==> asV1Pod(obj).Name == key.Name && asV1Pod(obj).Namespace == key.Namespace
//@ end

//@ func sigs.k8s.io/controller-runtime/pkg/client.Client.Delete
//@   props C11
//@   requires obj != nil
//@   pure
//@ end

//@ func sigs.k8s.io/controller-runtime/pkg/client.ObjectKeyFromObject
//@   props C11
//@   pure
//@   ensures typeis(obj, "*v1.Node") ==> result.Name == asNode(obj).Name
//@   ensures typeis(obj, "*v1.Pod") ==> result.Name == asV1Pod(obj).Name && result.Namespace == asV1Pod(obj).Namespace
//@ end

//@ func sigs.k8s.io/controller-runtime/pkg/client.IgnoreNotFound
//@   props C11
//@   pure
//@   ensures err == nil ==> result == nil
//@   ensures result == nil || result == err
//@ end

// event + pod condition patch: json.Marshal, record.EventRecorder and the vendored podutil.UpdatePodCondition are
// outside the subset; it only touches the in-memory pod and the pod's status sub-resource.
//@ func (*BindRequestReconciler).updatePodCondition
//@   props C11
//@   trusted
//@   note json.Marshal / record.EventRecorder / k8s.io/kubernetes podutil.UpdatePodCondition: outside the subset; assumed to write only the pod object
//@   requires r != nil && bindRequest != nil && pod != nil
//@   modifies pod.Status, pod.ResourceVersion
//@ end

// C11: "A pod is never bound twice or to another node, a request that already Succeeded or whose pod is already
// bound is a no-op"; mechanism "Reconcile: Bind, on error Rollback, deferred UpdateStatus".
//@ func (*BindRequestReconciler).Reconcile
//@   props C11
//@   requires r != nil && r.Client != nil && r.binder != nil
//@   modifies *
//@   ensures [never-bound-twice] binding.bindAttempts() <= old(binding.bindAttempts()) + 1
//@   ensures [no-bind-when-succeeded-deleted-or-already-bound] binding.bindAttempts() > old(binding.bindAttempts()) ==> gotPhase() != "Succeeded" && !gotDeleted() && gotPodNode() == ""
//@   ensures [succeeded-or-deleted-is-noop] statusWrites() > old(statusWrites()) || binding.rollbacks() > old(binding.rollbacks()) ==> gotPhase() != "Succeeded" && !gotDeleted()
//@   ensures [bound-to-the-selected-node-only] binding.bindAttempts() > old(binding.bindAttempts()) ==> pod != nil && binding.bindNodeOf(pod) == bindRequest.Spec.SelectedNode && pod.Name == bindRequest.Spec.PodName && pod.Namespace == bindRequest.Namespace
//@   ensures [rollback-only-after-bind] binding.rollbacks() <= old(binding.rollbacks()) + 1 && (binding.rollbacks() > old(binding.rollbacks()) ==> binding.bindAttempts() > old(binding.bindAttempts()))
//@   ensures [reported-bind-failure-was-rolled-back] err != nil && binding.bindAttempts() > old(binding.bindAttempts()) ==> binding.rollbacks() == old(binding.rollbacks()) + 1
//@   ensures [at-most-one-status-write] statusWrites() <= old(statusWrites()) + 1
//@ end

// C17 (mechanism "pod delete/completion and BindRequest delete handlers call SyncForGpuGroup"): the handler asks for a
// sync of EVERY group that resources.GetGpuGroups reports for the pod, whether or not earlier syncs failed.
//@ import rr "github.com/NVIDIA/KAI-scheduler/pkg/binder/binding/resourcereservation"
//@ func (*PodReconciler).syncReservationIfNeeded
//@   props C17
//@   requires r != nil && r.ResourceReservation != nil
//@   requires typeis(object, "*corev1.Pod") ==> asPod(object) != nil
//@   modifies family(rr.gone(nil)), family(rr.syncRequested(""))
//@   loop 1
//@     invariant 0 - 1 <= rangeindex && rangeindex < len(gpuGroups)
//@     invariant forall i int :: 0 <= i && i <= rangeindex ==> rr.syncRequested(gpuGroups[i])
//@     invariant forall g string :: old(rr.syncRequested(g)) ==> rr.syncRequested(g)
//@     invariant forall g string :: rr.syncRequested(g) && !old(rr.syncRequested(g)) ==> (exists i int :: 0 <= i && i <= rangeindex && gpuGroups[i] == g)
//@     decreases len(gpuGroups) - rangeindex
//@   ensures [every-group-of-the-pod-synced] typeis(object, "*corev1.Pod") ==> (forall i int :: 0 <= i && i < len(gpuGroups) ==> rr.syncRequested(gpuGroups[i]))
//@   ensures [only-groups-of-the-pod-synced] forall g string :: rr.syncRequested(g) && !old(rr.syncRequested(g)) ==> typeis(object, "*corev1.Pod") && (exists i int :: 0 <= i && i < len(gpuGroups) && gpuGroups[i] == g)
//@ end

// BindRequest deleted: every selected GPU group of a shared-GPU request is synced.
//@ func (*BindRequestReconciler).deleteHandler
//@   props C17
//@   requires r != nil && r.resourceReservation != nil
//@   requires typeis(event.Object, "*schedulingv1alpha2.BindRequest") ==> asBR(event.Object) != nil
//@   modifies family(rr.gone(nil)), family(rr.syncRequested(""))
//@   loop 1
//@     invariant 0 - 1 <= rangeindex && rangeindex < len(bindRequest.Spec.SelectedGPUGroups)
//@     invariant forall i int :: 0 <= i && i <= rangeindex ==> rr.syncRequested(bindRequest.Spec.SelectedGPUGroups[i])
//@     invariant forall g string :: old(rr.syncRequested(g)) ==> rr.syncRequested(g)
//@     decreases len(bindRequest.Spec.SelectedGPUGroups) - rangeindex
//@   ensures [every-selected-group-synced] typeis(event.Object, "*schedulingv1alpha2.BindRequest") && asBR(event.Object).Spec.ReceivedResourceType == "Fraction" ==> (forall i int :: 0 <= i && i < len(asBR(event.Object).Spec.SelectedGPUGroups) ==> rr.syncRequested(asBR(event.Object).Spec.SelectedGPUGroups[i]))
//@ end
