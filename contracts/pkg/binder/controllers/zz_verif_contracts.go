//go:build verif

// Contracts for govc (contract-based deductive verification); comments only.
package controllers

// ---- ghost API store for the BindRequest status sub-resource (DESIGN 1.9) -------------------
// A persisted revision of an object is identified by its resourceVersion string. The store content
// of a BindRequest revision is given by the uninterpreted functions storedPhase / storedAttempts.
// A successful write produces a new revision nextRV(rv) and decodes it into the in-memory object
// (that is what the controller-runtime client does with the server's response); a failing write
// leaves store and object alone. Whether the write issued against revision rv fails is the
// uninterpreted oracle statusPatchFails(rv): every fault schedule is covered, no enumeration.
//@ import bri "github.com/NVIDIA/KAI-scheduler/pkg/scheduler/api/bindrequest_info"
//@ declare storedPhase(rv string) string
//@ declare storedAttempts(rv string) int
//@ declare nextRV(rv string) string
//@ declare statusPatchFails(rv string) bool
//@ declare statusWriterOf(c ref) ref
//@ declare mergeBase(p ref) ref
//@ declare isMergePatch(p ref) bool
//@ define asBR(o ref) *schedulingv1alpha2.BindRequest = unbox(o, "*schedulingv1alpha2.BindRequest")

// ASSUMED contracts of the external controller-runtime client (never verified against a body).
//@ func sigs.k8s.io/controller-runtime/pkg/client.Client.Status
//@   props C12 C11
//@   pure
//@   ensures result != nil && result == statusWriterOf(recv)
//@ end

//@ func sigs.k8s.io/controller-runtime/pkg/client.MergeFrom
//@   props C12 C11
//@   pure
//@   ensures result != nil && isMergePatch(result) && mergeBase(result) == obj
//@ end

// Status().Patch(obj, MergeFrom(base)) on a BindRequest: JSON merge patch of the status diff
// base -> obj. Fields that do not differ between base and obj are not sent and keep the stored value.
//@ func sigs.k8s.io/controller-runtime/pkg/client.SubResourceWriter.Patch
//@   props C12 C11
//@   requires obj != nil && patch != nil
//@   modifies asBR(obj).ResourceVersion
//@   ensures typeis(obj, "*schedulingv1alpha2.BindRequest") && isMergePatch(patch) ==> (result != nil) == statusPatchFails(old(asBR(obj).ResourceVersion))
//@   ensures result != nil ==> asBR(obj).ResourceVersion == old(asBR(obj).ResourceVersion)
//@   ensures typeis(obj, "*schedulingv1alpha2.BindRequest") && isMergePatch(patch) && result == nil ==> asBR(obj).ResourceVersion == nextRV(old(asBR(obj).ResourceVersion))
//@   ensures typeis(obj, "*schedulingv1alpha2.BindRequest") && isMergePatch(patch) && result == nil ==> storedPhase(asBR(obj).ResourceVersion) == ite(asBR(obj).Status.Phase == asBR(mergeBase(patch)).Status.Phase, storedPhase(old(asBR(obj).ResourceVersion)), asBR(obj).Status.Phase)
//@   ensures typeis(obj, "*schedulingv1alpha2.BindRequest") && isMergePatch(patch) && result == nil ==> storedAttempts(asBR(obj).ResourceVersion) == ite(asBR(obj).Status.FailedAttempts == asBR(mergeBase(patch)).Status.FailedAttempts, storedAttempts(old(asBR(obj).ResourceVersion)), asBR(obj).Status.FailedAttempts)
//@ end

// C12: "The binder retries a failing request at most BackoffLimit times with the attempt count
// persisted, after which the request is observably failed to the scheduler."
// DESIGN C12: err != nil && limit != nil && limit > attempts ==> persisted.failedAttempts = attempts+1;
// err != nil ==> persisted.phase = Failed and the error is returned; err == nil ==> persisted.phase = Succeeded.
// "persisted" = content of the store revision the in-memory object carries at exit, unless the one
// status write of this call was made to fail by the fault oracle.
//@ define synced(br *schedulingv1alpha2.BindRequest) bool = storedPhase(br.ResourceVersion) == br.Status.Phase && storedAttempts(br.ResourceVersion) == br.Status.FailedAttempts
//@ func (*BindRequestReconciler).UpdateStatus
//@   props C12
//@   requires r != nil && r.Client != nil && bindRequest != nil
//@   requires synced(bindRequest)     // the object was read from the store (Reconcile: Client.Get)
//@   requires bindRequest.Status.FailedAttempts >= 0
//@   modifies bindRequest.Status.Phase, bindRequest.Status.Reason, bindRequest.Status.FailedAttempts, bindRequest.ResourceVersion
//@   ensures [retry-counter-persisted] err != nil && bindRequest.Spec.BackoffLimit != nil && *bindRequest.Spec.BackoffLimit > old(bindRequest.Status.FailedAttempts) ==> statusPatchFails(old(bindRequest.ResourceVersion)) || storedAttempts(bindRequest.ResourceVersion) == old(bindRequest.Status.FailedAttempts) + 1
// the error is handed back to controller-runtime (=> requeue) exactly when this call had a status change to
// persist; a request whose stored status already says Failed with no retry left returns nil: it is terminal and
// must not be retried ("at most BackoffLimit times").
//@   ensures [error-returned-when-status-changed] err != nil && (old(bindRequest.Status.Phase) != "Failed" || (bindRequest.Spec.BackoffLimit != nil && *bindRequest.Spec.BackoffLimit > old(bindRequest.Status.FailedAttempts))) ==> result1 == err
//@   ensures [terminal-failure-not-retried] err != nil && old(bindRequest.Status.Phase) == "Failed" && !(bindRequest.Spec.BackoffLimit != nil && *bindRequest.Spec.BackoffLimit > old(bindRequest.Status.FailedAttempts)) ==> result1 == nil && result0.RequeueAfter == old(result.RequeueAfter)
// step lemma of "atMostLimitRetries": the failing attempt that reaches the limit (or any failing attempt without a
// limit) leaves an object for which the scheduler's IsFailed() holds, in memory and (unless the write failed) in the store.
//@   ensures [limit-reached-is-failed] err != nil && (bindRequest.Spec.BackoffLimit == nil || old(bindRequest.Status.FailedAttempts) + 1 >= *bindRequest.Spec.BackoffLimit) ==> bri.brFailed(bindRequest)
//@   ensures [limit-reached-is-failed-in-store] err != nil && (bindRequest.Spec.BackoffLimit == nil || old(bindRequest.Status.FailedAttempts) + 1 >= *bindRequest.Spec.BackoffLimit) ==> statusPatchFails(old(bindRequest.ResourceVersion)) || (storedPhase(bindRequest.ResourceVersion) == "Failed" && (bindRequest.Spec.BackoffLimit == nil || storedAttempts(bindRequest.ResourceVersion) >= *bindRequest.Spec.BackoffLimit))
// and below the limit the distance to it shrinks by exactly one per persisted failing attempt ([retry-counter-persisted]),
// so IsFailed() holds after at most BackoffLimit persisted failing reconciles (the induction over reconciles is not mechanised).
//@   ensures [failed-phase-persisted] err != nil ==> statusPatchFails(old(bindRequest.ResourceVersion)) || storedPhase(bindRequest.ResourceVersion) == "Failed"
//@   ensures [succeeded-phase-persisted] err == nil ==> statusPatchFails(old(bindRequest.ResourceVersion)) || storedPhase(bindRequest.ResourceVersion) == "Succeeded"
//@   ensures [attempts-never-decrease] storedAttempts(bindRequest.ResourceVersion) >= old(bindRequest.Status.FailedAttempts)
//@   ensures [no-error-invented] err == nil ==> result1 == nil
//@   ensures [retry-requeued] err != nil && bindRequest.Spec.BackoffLimit != nil && *bindRequest.Spec.BackoffLimit > old(bindRequest.Status.FailedAttempts) ==> result0.RequeueAfter >= 1000000000
//@   ensures [no-retry-no-requeue-change] !(err != nil && bindRequest.Spec.BackoffLimit != nil && *bindRequest.Spec.BackoffLimit > old(bindRequest.Status.FailedAttempts)) ==> result0.RequeueAfter == old(result.RequeueAfter) && result0.Requeue == old(result.Requeue)
//@ end

// C17: "After any sequence of binds, bind failures, pod completions or deletions ... and the sync
// that follows them": a pod update is a completion event iff both objects are pods, the phase
// changed, and the new phase is terminal (Failed or Succeeded).
//@ define asPod(o ref) *corev1.Pod = unbox(o, "*corev1.Pod")
//@ func isCompletionEvent
//@   props C17
//@   requires typeis(oldObject, "*corev1.Pod") ==> asPod(oldObject) != nil     // events never carry typed-nil pods
//@   requires typeis(newObject, "*corev1.Pod") ==> asPod(newObject) != nil
//@   pure
//@   ensures result == (typeis(oldObject, "*corev1.Pod") && typeis(newObject, "*corev1.Pod") && asPod(oldObject).Status.Phase != asPod(newObject).Status.Phase && (asPod(newObject).Status.Phase == "Failed" || asPod(newObject).Status.Phase == "Succeeded"))
//@ end

// ---- C11: Reconcile protocol ------------------------------------------------------------------
//@ define asNode(o ref) *v1.Node = unbox(o, "*v1.Node")
//@ define asV1Pod(o ref) *v1.Pod = unbox(o, "*v1.Pod")
// Client.Get (ASSUMED): on success the fetched object is decoded into obj; outcome nondeterministic.
//@ func sigs.k8s.io/controller-runtime/pkg/client.Client.Get
//@   props C11
//@   requires obj != nil
//@   modifies fields(asBR(obj)), fields(asV1Pod(obj)), fields(asNode(obj))
//@ end

//@ func (*BindRequestReconciler).Reconcile
//@   props C11
//@   requires r != nil && r.Client != nil && r.binder != nil
//@   modifies *
//@   ensures [never-bound-twice] binding.bindAttempts() <= old(binding.bindAttempts()) + 1
//@ end
