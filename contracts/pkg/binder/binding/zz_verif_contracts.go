//go:build verif

// Contracts for govc (contract-based deductive verification); comments only.
package binding

// ---- ghost protocol state for C11 -------------------------------------------------------------
// bindAttempts(): number of Interface.Bind calls so far; rollbacks(): number of Interface.Rollback calls;
// bindNodeOf(p): name of the node handed to the most recent Bind call for pod p.
//@ ghost bindAttempts() int
//@ ghost rollbacks() int
//@ ghost bindNodeOf(p *v1.Pod) string

// ASSUMED contracts of the binder interface as seen by the reconciler (outcome nondeterministic).
//@ func Interface.Bind
//@   props C11
//@   requires task != nil && host != nil && bindRequest != nil
//@   modifies bindAttempts(), bindNodeOf(task)
//@   ensures bindAttempts() == old(bindAttempts()) + 1
//@   ensures bindNodeOf(task) == host.Name
//@ end

//@ func Interface.Rollback
//@   props C11
//@   requires task != nil && host != nil && bindRequest != nil
//@   modifies rollbacks()
//@   ensures rollbacks() == old(rollbacks()) + 1
//@ end

// ---- (*Binder).Bind ---------------------------------------------------------------------------
// boundTo(p): the node the API store has pod p bound to ("" = unbound). Only the assumed contract of the
// pods/binding sub-resource create writes it.
//@ import rr "github.com/NVIDIA/KAI-scheduler/pkg/binder/binding/resourcereservation"
//@ ghost boundTo(p *v1.Pod) string
//@ define podObj(o ref) *v1.Pod = unbox(o, "*v1.Pod")
//@ define bindingObj(o ref) *v1.Binding = unbox(o, "*v1.Binding")

// ASSUMED contracts of the external controller-runtime client.
//@ func sigs.k8s.io/controller-runtime/pkg/client.Client.SubResource
//@   props C11
//@   pure
//@   ensures result != nil
//@ end
// SubResource("binding").Create(ctx, pod, binding): success binds the pod to binding.Target.Name, failure leaves it alone.
//@ func sigs.k8s.io/controller-runtime/pkg/client.SubResourceClient.Create
//@   props C11
//@   requires obj != nil && subResource != nil
//@   modifies boundTo(podObj(obj))
//@   ensures result == nil && typeis(obj, "*v1.Pod") && typeis(subResource, "*v1.Binding") ==> boundTo(podObj(obj)) == bindingObj(subResource).Target.Name
//@   ensures !(result == nil && typeis(obj, "*v1.Pod") && typeis(subResource, "*v1.Binding")) ==> boundTo(podObj(obj)) == old(boundTo(podObj(obj)))
//@ end
// Client.Patch(ctx, pod, patch): the response is decoded into the object; identity fields are immutable.
//@ func sigs.k8s.io/controller-runtime/pkg/client.Client.Patch
//@   props C11
//@   requires obj != nil
//@   modifies fields(podObj(obj))
//@   ensures podObj(obj).Name == old(podObj(obj).Name) && podObj(obj).Namespace == old(podObj(obj).Namespace) && podObj(obj).UID == old(podObj(obj).UID)
//@ end
//@ func sigs.k8s.io/controller-runtime/pkg/client.RawPatch
//@   props C11
//@   pure
//@   ensures result != nil
//@ end
//@ func encoding/json.Marshal
//@   props C11
//@   pure
//@ end

//@ func (*Binder).patchResourceReceivedTypeAnnotation
//@   props C11
//@   requires b != nil && b.kubeClient != nil && pod != nil && bindRequest != nil
//@   modifies fields(pod)
//@   ensures pod.Name == old(pod.Name) && pod.Namespace == old(pod.Namespace) && pod.UID == old(pod.UID)
//@ end

// C11: "... the attempt's side effects removed or removable by the next sync": Rollback removes the GPU-group labels
// found on the in-memory pod, so after a successful reservation that pod carries the label of EVERY selected group
// (runai-gpu-group for a single-fraction pod, runai-gpu-group/<group> for a multi-fraction pod) and agrees with the store.
//@ func (*Binder).reserveGPUs
//@   props C11 C17
//@   requires b != nil && b.resourceReservationService != nil && pod != nil && bindRequest != nil
// a decoded pod never shares one map object between its labels and its annotations
//@   requires pod.Labels == nil || pod.Labels != pod.Annotations
//@   modifies pod.Labels, pod.Labels[*], pod.ResourceVersion, rr.podRev(pod), family(rr.gone(nil))
//@   loop 1
//@     invariant 0 - 1 <= rangeindex && rangeindex < len(bindRequest.Spec.SelectedGPUGroups)
//@     invariant len(gpuIndexes) == rangeindex + 1
//@     invariant forall k string :: old(k in pod.Labels) ==> (k in pod.Labels)
//@     invariant pod.Labels == old(pod.Labels) || fresh(pod.Labels)
//@     invariant forall k string :: pod.Annotations[k] == old(pod.Annotations[k]) && (k in pod.Annotations) == old(k in pod.Annotations)
//@     invariant old(rr.singleFraction(pod)) && rangeindex >= 0 ==> ("runai-gpu-group" in pod.Labels)
//@     invariant old(rr.multiFraction(pod)) ==> (forall i int :: 0 <= i && i <= rangeindex ==> (rr.multiKey(bindRequest.Spec.SelectedGPUGroups[i]) in pod.Labels))
//@     invariant rangeindex >= 0 ==> (forall k string :: rr.labelStored(pod, k) == pod.Labels[k])
//@     decreases len(bindRequest.Spec.SelectedGPUGroups) - rangeindex
// C17: "every pod bound into the group is given that reservation pod's device index": one index per selected group
//@   ensures [one-index-per-selected-group] result1 == nil ==> len(result0) == len(bindRequest.Spec.SelectedGPUGroups) && len(result0) > 0
//@   ensures result1 != nil ==> len(result0) == 0
//@   ensures [single-fraction-pod-labelled-in-memory] result1 == nil && old(rr.singleFraction(pod)) ==> ("runai-gpu-group" in pod.Labels)
//@   ensures [every-selected-group-labelled-in-memory] result1 == nil && old(rr.multiFraction(pod)) ==> (forall i int :: 0 <= i && i < len(bindRequest.Spec.SelectedGPUGroups) ==> (rr.multiKey(bindRequest.Spec.SelectedGPUGroups[i]) in pod.Labels))
//@   ensures [labels-map-kept-or-new] pod.Labels == old(pod.Labels) || fresh(pod.Labels)
//@   ensures [stored-labels-are-the-in-memory-labels] result1 == nil ==> forall k string :: rr.labelStored(pod, k) == pod.Labels[k]
//@   ensures [in-memory-labels-only-grow] forall k string :: old(k in pod.Labels) ==> (k in pod.Labels)
//@ end

// C11: "the pod ends either bound to exactly the node named in the request ..., or unbound with the request reported
// Failed"; "never bound ... to another node". DESIGN C11: err = nil ==> bound(pod) = node; err != nil ==> bound(pod)
// unchanged (the binding sub-resource create is the last call that can fail, so no failure point leaves the pod
// bound AND reports failure); the only node ever named in a binding create is node.Name.
//@ func (*Binder).Bind
//@   props C11
//@   requires b != nil && b.kubeClient != nil && b.resourceReservationService != nil && b.plugins != nil
//@   requires pod != nil && node != nil && bindRequest != nil
//@   requires forall i int :: 0 <= i && i < len(b.plugins.plugins) ==> b.plugins.plugins[i] != nil
// a decoded pod never shares one map object between its labels and its annotations
//@   requires pod.Labels == nil || pod.Labels != pod.Annotations
//@   modifies boundTo(pod), fields(pod), pod.Labels[*], rr.podRev(pod), family(rr.gone(nil)), rr.nodeSyncs(), rr.lastNodeSyncSawRemovals()
// C17: every bind attempt starts with a sync of the selected node's GPU groups
//@   ensures [bind-starts-with-node-sync] rr.nodeSyncs() == old(rr.nodeSyncs()) + 1
//@   ensures [success-means-bound-to-the-given-node] result == nil ==> boundTo(pod) == node.Name
//@   ensures [failure-leaves-the-pod-unbound] result != nil ==> boundTo(pod) == old(boundTo(pod))
//@ end

//@ import bp "github.com/NVIDIA/KAI-scheduler/pkg/binder/plugins"
//@ func errors.Join
//@   props C11
//@   trusted
//@   note library function (no body in the loaded program): documented behaviour, nil iff every argument is nil
//@   pure
//@   ensures (result == nil) == (forall i int :: 0 <= i && i < len(errs) ==> errs[i] == nil)
//@ end

// C11: "... or unbound with the request reported Failed and the attempt's side effects removed or removable by the
// next sync". Rollback never touches the binding (boundTo is not in its frame) and attempts EVERY compensation step
// even when an earlier one failed: plugin rollbacks always; for shared-GPU requests also the removal of the pod's
// GPU-group labels and the node-wide reservation sync.
// The labels REMOVED from the store are exactly the group labels of the in-memory pod Rollback was given (that is all
// RemovePodGpuGroupsConnection can see): together with reserveGPUs' "every stored group label is on the in-memory
// pod" this is "the attempt's side effects removed"; a label stored but absent from memory survives the rollback.
// C17: "a reservation pod exists if and only if at least one live pod still carries that group ... after ... bind
// failures ... and the sync that follows them": the node sync of a rollback runs AFTER the label removal (a sync
// that runs before it still sees the labelled Pending consumer and keeps the reservation pod).
//@ func (*Binder).Rollback
//@   props C11 C17
//@   requires b != nil && b.resourceReservationService != nil && b.plugins != nil
//@   requires pod != nil && node != nil && bindRequest != nil
//@   modifies fields(pod), family(rr.gone(nil)), rr.nodeSyncs(), rr.labelRemovals(), rr.lastNodeSyncSawRemovals(), rr.podRev(pod), bp.pluginRollbacks()
//@   requires forall i int :: 0 <= i && i < len(b.plugins.plugins) ==> b.plugins.plugins[i] != nil
//@   ensures [plugins-rolled-back] bp.pluginRollbacks() == old(bp.pluginRollbacks()) + len(b.plugins.plugins)
//@   ensures [shared-gpu-labels-removed-and-node-synced] bindRequest.Spec.ReceivedResourceType == "Fraction" ==> rr.labelRemovals() == old(rr.labelRemovals()) + 1 && rr.nodeSyncs() == old(rr.nodeSyncs()) + 1
//@   ensures [whole-gpu-nothing-else] bindRequest.Spec.ReceivedResourceType != "Fraction" ==> rr.labelRemovals() == old(rr.labelRemovals()) && rr.nodeSyncs() == old(rr.nodeSyncs())
//@   ensures [sync-after-label-removal] bindRequest.Spec.ReceivedResourceType == "Fraction" ==> rr.lastNodeSyncSawRemovals() == rr.labelRemovals()
//@   ensures [in-memory-group-label-removed-from-store] result == nil && bindRequest.Spec.ReceivedResourceType == "Fraction" && old("runai-gpu-group" in pod.Labels) ==> rr.labelStored(pod, "runai-gpu-group") == ""
//@   ensures [in-memory-multi-group-labels-removed-from-store] result == nil && bindRequest.Spec.ReceivedResourceType == "Fraction" ==> (forall g string :: old(rr.multiKey(g) in pod.Labels) ==> rr.labelStored(pod, rr.multiKey(g)) == "")
//@   ensures [only-in-memory-labels-removed] forall k string :: !old(k in pod.Labels) ==> rr.labelStored(pod, k) == old(rr.labelStored(pod, k))
//@ end
