//go:build verif

// Contracts for govc (contract-based deductive verification); comments only.
package binding

// ---- ghost protocol state for C11 -------------------------------------------------------------
// bindAttempts(): number of Interface.Bind calls so far; rollbacks(): number of Interface.Rollback calls;
// bindNodeOf(p): name of the node handed to the most recent Bind call for pod p.
//@ ghost bindAttempts() int
//@ ghost rollbacks() int
//@ ghost bindNodeOf(p *v1.Pod) string

// ASSUMED contracts of the binder interface as seen by the reconciler (outcome nondeterministic).
//@ func Interface.Bind
//@   props C11
//@   requires task != nil && host != nil && bindRequest != nil
//@   modifies bindAttempts(), bindNodeOf(task)
//@   ensures bindAttempts() == old(bindAttempts()) + 1
//@   ensures bindNodeOf(task) == host.Name
//@ end

//@ func Interface.Rollback
//@   props C11
//@   requires task != nil && host != nil && bindRequest != nil
//@   modifies rollbacks()
//@   ensures rollbacks() == old(rollbacks()) + 1
//@ end
