//go:build verif

// Contracts for govc (contract-based deductive verification); comments only.
package group_mutex

// C17, "not applicable" part made explicit: the family has no concurrency reasoning. The per-group mutex is
// modelled SEQUENTIALLY by the ghost held(g) ("this goroutine holds the lock of group g"); the bodies use
// sync.Mutex (outside the subset). What the callers prove with it: every syncForGpuGroupWithLock runs while the
// group's lock is held, and the lock is released on every path.
//@ ghost held(g string) bool

//@ func (*GroupMutex).LockMutexForGroup
//@   props C17
//@   trusted
//@   note sync.Mutex is outside the subset; sequential model of a ref-counted per-group lock (no other goroutine considered)
//@   requires gm != nil
//@   modifies held(group), gm.mutexMap[*], gm.mutexRefsMap[*]
//@   ensures held(group)
//@ end

//@ func (*GroupMutex).ReleaseMutex
//@   props C17
//@   trusted
//@   note sync.Mutex is outside the subset; sequential model of a ref-counted per-group lock (no other goroutine considered)
//@   requires gm != nil
//@   modifies held(group), gm.mutexMap[*], gm.mutexRefsMap[*]
//@   ensures !held(group)
//@ end
