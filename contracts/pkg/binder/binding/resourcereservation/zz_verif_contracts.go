//go:build verif

// Contracts for govc (contract-based deductive verification); comments only.
package resourcereservation

// ---- fault oracle for the API client (DESIGN 1.9: "for every failing call index k") ----------
// The engine has no mutable ghost state, so "which objects does the function delete" is observed
// through fault injection: whether Delete(obj) fails is an UNINTERPRETED function of the object,
// i.e. universally quantified over all fault schedules. A functional postcondition
// `result != nil <==> (some object of the set D has a failing delete)` that holds for every oracle
// pins the set of objects on which Delete is invoked (up to the first failure) to exactly D.
//@ declare deleteFails(o ref) bool
//@ declare deleteNotFound(o ref) bool
//@ declare isNotFoundErr(e ref) bool
//@ axiom !isNotFoundErr(nil)
//@ define podOf(o ref) *v1.Pod = unbox(o, "*v1.Pod")
//@ define hardDeleteFail(p *v1.Pod) bool = deleteFails(p) && !deleteNotFound(p)

// ASSUMED contracts of external code.
//@ func sigs.k8s.io/controller-runtime/pkg/client.WithWatch.Delete
//@   props C17 C11
//@   requires obj != nil
//@   pure
//@   ensures typeis(obj, "*v1.Pod") ==> (result != nil) == deleteFails(podOf(obj))
//@   ensures typeis(obj, "*v1.Pod") ==> isNotFoundErr(result) == (deleteFails(podOf(obj)) && deleteNotFound(podOf(obj)))
//@ end

//@ func k8s.io/apimachinery/pkg/api/errors.IsNotFound
//@   props C17 C11
//@   pure
//@   ensures result == isNotFoundErr(err)
//@ end

// C17: "no running pod stays attached to a group that has no reservation": every Running pod of the
// slice is deleted (Pending ones are left alone); stops at the first failing delete.
//@ func (*service).deleteNonReservedPods
//@   props C17
//@   requires rsc != nil && rsc.kubeClient != nil
//@   requires forall i int :: 0 <= i && i < len(pods) ==> pods[i] != nil
//@   pure
//@   loop 1
//@     invariant 0 - 1 <= rangeindex && rangeindex < len(pods)
//@     invariant forall i int :: 0 <= i && i <= rangeindex ==> !(pods[i].Status.Phase == "Running" && deleteFails(pods[i]))
//@     decreases len(pods) - rangeindex
//@   ensures (result != nil) == (exists i int :: 0 <= i && i < len(pods) && pods[i].Status.Phase == "Running" && deleteFails(pods[i]))
//@ end

// A reservation pod that is already gone counts as deleted.
//@ func (*service).deleteReservationPod
//@   props C17
//@   requires rsc != nil && rsc.kubeClient != nil && pod != nil
//@   pure
//@   ensures (result != nil) == hardDeleteFail(pod)
//@ end

// ---- syncForPods ----------------------------------------------------------------------------
// C17: "a reservation pod exists if and only if at least one live pod still carries that group, and
// no running pod stays attached to a group that has no reservation."
// pods = everything listed for the group: reservation pods are the ones in the service namespace,
// live consumers are Pending/Running pods of other namespaces.
//@ define isRes(rsc *service, p *v1.Pod) bool = p.Namespace == rsc.namespace
//@ define isLive(rsc *service, p *v1.Pod) bool = p.Namespace != rsc.namespace && (p.Status.Phase == "Running" || p.Status.Phase == "Pending")
//@ define hasRes(rsc *service, s []*v1.Pod, n int) bool = exists i int :: 0 <= i && i < n && isRes(rsc, s[i])
//@ define hasLive(rsc *service, s []*v1.Pod, n int) bool = exists i int :: 0 <= i && i < n && isLive(rsc, s[i])
//@ define lastResAt(rsc *service, s []*v1.Pod, n int, j int) bool = 0 <= j && j < n && isRes(rsc, s[j]) && (forall k int :: j < k && k < n ==> !isRes(rsc, s[k]))
//@ define runningFail(p *v1.Pod) bool = p.Status.Phase == "Running" && deleteFails(p)

// Stated through the fault oracle (see top of file): for EVERY assignment of failing deletes the
// function reports an error iff
//   - the group has no reservation pod and some Running consumer's delete fails      (consumers without reservation are deleted), or
//   - it has a reservation pod, no live consumer, and deleting that pod fails         (reservation without consumers is deleted);
// in particular with a reservation pod AND a live consumer nothing is deleted at all.
//@ func (*service).syncForPods
//@   props C17
//@   requires rsc != nil && rsc.kubeClient != nil
//@   requires forall i int :: 0 <= i && i < len(pods) ==> pods[i] != nil
//@   pure
//@   loop 1
//@     invariant 0 - 1 <= rangeindex && rangeindex < len(pods)
//@     invariant reservationPods != nil && fractionPods != nil
//@     invariant forall k in reservationPods :: k == gpuGroupToSync
//@     invariant forall k in fractionPods :: k == gpuGroupToSync
//@     invariant (gpuGroupToSync in reservationPods) == hasRes(rsc, pods, rangeindex + 1)
//@     invariant gpuGroupToSync in reservationPods ==> (exists j int :: lastResAt(rsc, pods, rangeindex + 1, j) && reservationPods[gpuGroupToSync] == pods[j])
//@     invariant (gpuGroupToSync in fractionPods) == hasLive(rsc, pods, rangeindex + 1)
//@     invariant forall m int :: 0 <= m && m < len(fractionPods[gpuGroupToSync]) ==> (exists j int :: 0 <= j && j <= rangeindex && pods[j] == fractionPods[gpuGroupToSync][m] && isLive(rsc, pods[j]))
//@     invariant forall j int :: 0 <= j && j <= rangeindex && isLive(rsc, pods[j]) ==> (exists m int :: 0 <= m && m < len(fractionPods[gpuGroupToSync]) && fractionPods[gpuGroupToSync][m] == pods[j])
//@     decreases len(pods) - rangeindex
//@   loop 2
//@     invariant forall k in visited :: (k in reservationPods) || !(exists m int :: 0 <= m && m < len(fractionPods[k]) && runningFail(fractionPods[k][m]))
//@   loop 3
//@     invariant forall k in visited :: (k in fractionPods) || !hardDeleteFail(reservationPods[k])
//@   ensures [sync-deletes-exactly] (result != nil) == ((!hasRes(rsc, pods, len(pods)) && (exists i int :: 0 <= i && i < len(pods) && isLive(rsc, pods[i]) && runningFail(pods[i]))) || (hasRes(rsc, pods, len(pods)) && !hasLive(rsc, pods, len(pods)) && (exists j int :: lastResAt(rsc, pods, len(pods), j) && hardDeleteFail(pods[j]))))
//@ end
