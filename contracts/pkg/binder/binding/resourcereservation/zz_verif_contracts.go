//go:build verif

// Contracts for govc (contract-based deductive verification); comments only.
package resourcereservation

// ---- fault oracle for the API client (DESIGN 1.9: "for every failing call index k") ----------
// The engine has no mutable ghost state, so "which objects does the function delete" is observed
// through fault injection: whether Delete(obj) fails is an UNINTERPRETED function of the object,
// i.e. universally quantified over all fault schedules. A functional postcondition
// `result != nil <==> (some object of the set D has a failing delete)` that holds for every oracle
// pins the set of objects on which Delete is invoked (up to the first failure) to exactly D.
//@ declare deleteFails(o ref) bool
//@ declare deleteNotFound(o ref) bool
//@ declare isNotFoundErr(e ref) bool
//@ axiom !isNotFoundErr(nil)
//@ define podOf(o ref) *v1.Pod = unbox(o, "*v1.Pod")
//@ define hardDeleteFail(p *v1.Pod) bool = deleteFails(p) && !deleteNotFound(p)

// ASSUMED contracts of external code.
//@ func sigs.k8s.io/controller-runtime/pkg/client.WithWatch.Delete
//@   props C17 C11
//@   requires obj != nil
//@   pure
//@   ensures typeis(obj, "*v1.Pod") ==> (result != nil) == deleteFails(podOf(obj))
//@   ensures typeis(obj, "*v1.Pod") ==> isNotFoundErr(result) == (deleteFails(podOf(obj)) && deleteNotFound(podOf(obj)))
//@ end

//@ func k8s.io/apimachinery/pkg/api/errors.IsNotFound
//@   props C17 C11
//@   pure
//@   ensures result == isNotFoundErr(err)
//@ end

// C17: "no running pod stays attached to a group that has no reservation": every Running pod of the
// slice is deleted (Pending ones are left alone); stops at the first failing delete.
//@ func (*service).deleteNonReservedPods
//@   props C17
//@   requires rsc != nil && rsc.kubeClient != nil
//@   requires forall i int :: 0 <= i && i < len(pods) ==> pods[i] != nil
//@   pure
//@   loop 1
//@     invariant 0 - 1 <= rangeindex && rangeindex < len(pods)
//@     invariant forall i int :: 0 <= i && i <= rangeindex ==> !(pods[i].Status.Phase == "Running" && deleteFails(pods[i]))
//@     decreases len(pods) - rangeindex
//@   ensures (result != nil) == (exists i int :: 0 <= i && i < len(pods) && pods[i].Status.Phase == "Running" && deleteFails(pods[i]))
//@ end

// A reservation pod that is already gone counts as deleted.
//@ func (*service).deleteReservationPod
//@   props C17
//@   requires rsc != nil && rsc.kubeClient != nil && pod != nil
//@   pure
//@   ensures (result != nil) == hardDeleteFail(pod)
//@ end
