//go:build verif

// Contracts for govc (contract-based deductive verification); comments only.
package resourcereservation

// ---- ghost API store (DESIGN 1.9) ------------------------------------------------------------
// gone(p): the pod object p is absent from the API store (deleted, or found to be already deleted).
// Only the assumed contract of the client's Delete writes it. Every client call has a
// nondeterministic outcome (the returned error is unconstrained), which is the universal
// quantification over "every failing call index".
//@ ghost gone(p *v1.Pod) bool
//@ declare isNotFoundErr(e ref) bool
//@ axiom !isNotFoundErr(nil)
//@ define podOf(o ref) *v1.Pod = unbox(o, "*v1.Pod")

// ASSUMED contracts of external code.
// Delete: success or NotFound => the object is gone; any other error => store unchanged.
//@ func sigs.k8s.io/controller-runtime/pkg/client.WithWatch.Delete
//@   props C17 C11
//@   requires obj != nil
//@   modifies family(gone(nil))
//@   ensures forall q *v1.Pod :: q != podOf(obj) ==> gone(q) == old(gone(q))
//@   ensures typeis(obj, "*v1.Pod") && (result == nil || isNotFoundErr(result)) ==> gone(podOf(obj))
//@   ensures !(typeis(obj, "*v1.Pod") && (result == nil || isNotFoundErr(result))) ==> gone(podOf(obj)) == old(gone(podOf(obj)))
//@ end

//@ func k8s.io/apimachinery/pkg/api/errors.IsNotFound
//@   props C17 C11
//@   pure
//@   ensures result == isNotFoundErr(err)
//@ end

// C17: "no running pod stays attached to a group that has no reservation": every Running pod of the
// slice is deleted, nothing else is (Pending ones are left alone); stops at the first failing delete.
//@ func (*service).deleteNonReservedPods
//@   props C17
//@   requires rsc != nil && rsc.kubeClient != nil
//@   requires forall i int :: 0 <= i && i < len(pods) ==> pods[i] != nil
//@   modifies family(gone(nil))
//@   loop 1
//@     invariant 0 - 1 <= rangeindex && rangeindex < len(pods)
//@     invariant forall i int :: 0 <= i && i <= rangeindex && pods[i].Status.Phase == "Running" ==> gone(pods[i])
//@     invariant forall p *v1.Pod :: gone(p) != old(gone(p)) ==> p != nil && p.Status.Phase == "Running" && (exists i int :: 0 <= i && i <= rangeindex && pods[i] == p)
//@     decreases len(pods) - rangeindex
//@   ensures [all-running-deleted] result == nil ==> (forall i int :: 0 <= i && i < len(pods) && pods[i].Status.Phase == "Running" ==> gone(pods[i]))
//@   ensures [only-running-of-slice-deleted] forall p *v1.Pod :: gone(p) != old(gone(p)) ==> p != nil && gone(p) && p.Status.Phase == "Running" && (exists i int :: 0 <= i && i < len(pods) && pods[i] == p)
//@ end

// A reservation pod that is already gone counts as deleted.
//@ func (*service).deleteReservationPod
//@   props C17
//@   requires rsc != nil && rsc.kubeClient != nil && pod != nil
//@   modifies gone(pod)
//@   ensures result == nil ==> gone(pod)
//@   ensures result != nil ==> gone(pod) == old(gone(pod))
//@ end

// ---- syncForPods ----------------------------------------------------------------------------
// C17: "a reservation pod exists if and only if at least one live pod still carries that group, and
// no running pod stays attached to a group that has no reservation."
// pods = everything listed for the group: reservation pods are the ones in the service namespace,
// live consumers are Pending/Running pods of other namespaces.
//@ define isRes(rsc *service, p *v1.Pod) bool = p.Namespace == rsc.namespace
//@ define isLive(rsc *service, p *v1.Pod) bool = p.Namespace != rsc.namespace && (p.Status.Phase == "Running" || p.Status.Phase == "Pending")
//@ define hasRes(rsc *service, s []*v1.Pod, n int) bool = exists i int :: 0 <= i && i < n && isRes(rsc, s[i])
//@ define hasLive(rsc *service, s []*v1.Pod, n int) bool = exists i int :: 0 <= i && i < n && isLive(rsc, s[i])

//@ func (*service).syncForPods
//@   props C17
//@   requires rsc != nil && rsc.kubeClient != nil
//@   requires forall i int :: 0 <= i && i < len(pods) ==> pods[i] != nil
//@   modifies family(gone(nil))
//@   loop 1
//@     invariant 0 - 1 <= rangeindex && rangeindex < len(pods)
//@     invariant reservationPods != nil && fractionPods != nil
//@     invariant forall k in reservationPods :: k == gpuGroupToSync
//@     invariant forall k in fractionPods :: k == gpuGroupToSync
//@     invariant (gpuGroupToSync in reservationPods) == hasRes(rsc, pods, rangeindex + 1)
//@     invariant gpuGroupToSync in reservationPods ==> reservationPods[gpuGroupToSync] != nil && isRes(rsc, reservationPods[gpuGroupToSync]) && (exists j int :: 0 <= j && j <= rangeindex && reservationPods[gpuGroupToSync] == pods[j])
//@     invariant (gpuGroupToSync in fractionPods) == hasLive(rsc, pods, rangeindex + 1)
//@     invariant forall m int :: 0 <= m && m < len(fractionPods[gpuGroupToSync]) ==> fractionPods[gpuGroupToSync][m] != nil
//@     invariant forall m int :: 0 <= m && m < len(fractionPods[gpuGroupToSync]) ==> fractionPods[gpuGroupToSync][m].Namespace != rsc.namespace
//@     invariant forall m int :: 0 <= m && m < len(fractionPods[gpuGroupToSync]) ==> fractionPods[gpuGroupToSync][m].Status.Phase == "Running" || fractionPods[gpuGroupToSync][m].Status.Phase == "Pending"
//@     decreases len(pods) - rangeindex
//@   loop 2
//@     invariant forall k in visited :: (k in reservationPods) || (forall m int :: 0 <= m && m < len(fractionPods[k]) && fractionPods[k][m].Status.Phase == "Running" ==> gone(fractionPods[k][m]))
//@     invariant forall p *v1.Pod :: gone(p) != old(gone(p)) ==> p != nil && gone(p) && isLive(rsc, p) && p.Status.Phase == "Running" && !(gpuGroupToSync in reservationPods)
//@   loop 3
//@     invariant forall k in visited :: (k in fractionPods) || gone(reservationPods[k])
//@     invariant forall p *v1.Pod :: gone(p) != old(gone(p)) ==> p != nil && gone(p) && ((isLive(rsc, p) && p.Status.Phase == "Running" && !(gpuGroupToSync in reservationPods)) || (isRes(rsc, p) && !(gpuGroupToSync in fractionPods)))
// NOT CLAIMED here (solver limit, see report): "result == nil && no reservation pod ==> every Running consumer of
// pods is gone". It needs the loop-1 invariant  forall j . live(pods[j]) ==> exists m . fractionPods[g][m] == pods[j],
// whose preservation across `append` no solver decides in 10 s. The callee deleteNonReservedPods carries the
// corresponding fact for the slice it is given ([all-running-deleted]).
// "a reservation pod exists [only] if at least one live pod still carries that group"
//@   ensures [reservation-without-consumers-deleted] result == nil && hasRes(rsc, pods, len(pods)) && !hasLive(rsc, pods, len(pods)) ==> (exists j int :: 0 <= j && j < len(pods) && isRes(rsc, pods[j]) && gone(pods[j]))
// "... if and only if ...": nothing is deleted without that justification; in particular a reservation pod
// is never deleted while a live consumer is listed, a consumer never while a reservation pod is listed.
//@   ensures [only-justified-deletes] forall p *v1.Pod :: gone(p) != old(gone(p)) ==> p != nil && gone(p) && ((isLive(rsc, p) && p.Status.Phase == "Running" && !hasRes(rsc, pods, len(pods))) || (isRes(rsc, p) && !hasLive(rsc, pods, len(pods))))
//@ end

// ---- the service as seen by the binder (package binding): ASSUMED interface contracts ----------
// SyncForNode / ReserveGpuDevice / RemovePodGpuGroupsConnection may delete pods (gone) and relabel the in-memory
// pod; they never touch the pods/binding sub-resource.
// syncRequested(g): a SyncForGpuGroup(g) has been issued (by an event handler) since the ghost was last cleared
//@ ghost syncRequested(g string) bool
//@ func Interface.SyncForGpuGroup
//@   props C17
//@   modifies family(gone(nil)), family(syncRequested(""))
//@   ensures syncRequested(gpuGroup)
//@   ensures forall g string :: old(syncRequested(g)) ==> syncRequested(g)
//@   ensures forall g string :: g != gpuGroup ==> syncRequested(g) == old(syncRequested(g))
//@ end
// protocol counters: how often the binder asked for a node-wide sync / for the removal of a pod's GPU-group labels
//@ ghost nodeSyncs() int
//@ ghost labelRemovals() int
// lastNodeSyncSawRemovals(): the value of labelRemovals() at the time of the most recent node-wide sync, i.e. which
// label removals that sync could already see in the store. C17: "... bind failures ... and the sync that follows
// them": a sync only cleans up after a label removal that happened BEFORE it.
//@ ghost lastNodeSyncSawRemovals() int
//@ func Interface.SyncForNode
//@   props C11 C17
//@   modifies family(gone(nil)), nodeSyncs(), lastNodeSyncSawRemovals()
//@   ensures nodeSyncs() == old(nodeSyncs()) + 1
//@   ensures lastNodeSyncSawRemovals() == labelRemovals()
//@ end

// ---- API-store model of the consumer pod's labels -----------------------------------------------
// podRev(p): revision of p's API object (a successful label patch produces a new one, a failing patch none);
// labelAt(p, rev, k): value of label k of that revision ("" = absent; GPU-group labels are never empty strings).
// Only the assumed contracts of Patch / RemovePodGpuGroupsConnection write podRev.
//@ ghost podRev(p *v1.Pod) int
//@ declare labelAt(p ref, rev int, k string) string
//@ define labelStored(p *v1.Pod, k string) string = labelAt(p, podRev(p), k)
// value of the runai-gpu-group label of pod p in the API store
//@ define groupLabelStored(p *v1.Pod) string = labelStored(p, "runai-gpu-group")
// label key of a multi-fraction pod for group g (resources.GetMultiFractionGpuGroupLabel)
//@ define multiKey(g string) string = "runai-gpu-group/" + g
// single-fraction pod: no gpu-fraction-num-devices annotation, or one that parses to <= 1 (defines of package resources)
//@ define singleFraction(pod *v1.Pod) bool = !resources.hasCount(pod) || (resources.piOk(resources.countStr(pod)) && resources.piVal(resources.countStr(pod)) <= 1)
//@ define multiFraction(pod *v1.Pod) bool = resources.hasCount(pod) && resources.piOk(resources.countStr(pod)) && resources.piVal(resources.countStr(pod)) > 1

// C11: "... the attempt's side effects removed or removable by the next sync": Rollback removes the GPU-group labels
// it finds on the IN-MEMORY pod, so a successful reservation must leave the label it stored on the caller's pod too.
//@ func Interface.ReserveGpuDevice
//@   props C11 C17
//@   requires pod != nil
//@   modifies family(gone(nil)), pod.Labels, pod.Labels[*], pod.ResourceVersion, podRev(pod)
//@   ensures result1 == nil && old(singleFraction(pod)) ==> ("runai-gpu-group" in pod.Labels) && pod.Labels["runai-gpu-group"] == gpuGroup
//@   ensures result1 == nil && old(multiFraction(pod)) ==> (multiKey(gpuGroup) in pod.Labels) && pod.Labels[multiKey(gpuGroup)] == gpuGroup
//@   ensures result1 == nil ==> forall k string :: labelStored(pod, k) == pod.Labels[k]
//@   ensures forall k string :: old(k in pod.Labels) ==> (k in pod.Labels)
//@   ensures pod.Labels == old(pod.Labels) || fresh(pod.Labels)
//@ end
// The remove-patch is built from the labels of the in-memory pod: on success exactly its runai-gpu-group and
// runai-gpu-group/<g> labels leave the store (a JSON-patch "remove" of an absent path fails the whole patch); a
// failing patch changes nothing. The response is decoded into the pod.
//@ func Interface.RemovePodGpuGroupsConnection
//@   props C11 C17
//@   requires pod != nil
//@   modifies fields(pod), labelRemovals(), podRev(pod)
//@   ensures labelRemovals() == old(labelRemovals()) + 1
//@   ensures pod.Name == old(pod.Name) && pod.Namespace == old(pod.Namespace) && pod.UID == old(pod.UID)
//@   ensures result == nil && old("runai-gpu-group" in pod.Labels) ==> labelStored(pod, "runai-gpu-group") == ""
//@   ensures result == nil ==> forall g string :: old(multiKey(g) in pod.Labels) ==> labelStored(pod, multiKey(g)) == ""
//@   ensures result == nil ==> forall k string :: !old(k in pod.Labels) ==> labelStored(pod, k) == old(labelStored(pod, k))
//@   ensures result != nil ==> podRev(pod) == old(podRev(pod))
//@ end

// ---- findGPUIndexByGroup ------------------------------------------------------------------------
// ASSUMED contract of List for a *v1.PodList: on success the list holds exactly what the options select; the two
// options used by findGPUIndexByGroup are InNamespace(ns) (first option) and MatchingLabels{k: v}.
//@ define podListOf(o ref) *v1.PodList = unbox(o, "*v1.PodList")
// lastListCount(): number of pods returned by the most recent successful List
//@ ghost lastListCount() int
//@ define nsOpt(o ref) string = unbox(o, "client.InNamespace")
//@ func sigs.k8s.io/controller-runtime/pkg/client.WithWatch.List
//@   props C17
//@   requires list != nil
//@   modifies fields(podListOf(list)), lastListCount()
//@   ensures result == nil && typeis(list, "*v1.PodList") ==> lastListCount() == len(podListOf(list).Items)
//@   ensures result == nil && typeis(list, "*v1.PodList") && len(opts) > 0 && typeis(opts[0], "client.InNamespace") ==> (forall i int :: 0 <= i && i < len(podListOf(list).Items) ==> podListOf(list).Items[i].Namespace == nsOpt(opts[0]))
//@ end

// C17: "every pod bound into the group is given that reservation pod's device index": the index handed out for a
// group is the run.ai/reserve_for_gpu_index annotation of a pod listed in the reservation namespace; "" (= create a
// new reservation pod) only when no such pod is listed; a reservation pod without the annotation is an error.
//@ func (*service).findGPUIndexByGroup
//@   props C17
//@   requires rsc != nil && rsc.kubeClient != nil
//@   modifies lastListCount()
//@   lemma [empty-index-means-nothing-listed] err == nil && gpuIndex == "" ==> lastListCount() == 0 || (len(pods.Items) > 0 && pods.Items[0].Annotations["run.ai/reserve_for_gpu_index"] == "")
//@   lemma [index-comes-from-a-reservation-pod] err == nil && gpuIndex != "" ==> len(pods.Items) > 0 && pods.Items[0].Namespace == rsc.namespace && ("run.ai/reserve_for_gpu_index" in pods.Items[0].Annotations) && gpuIndex == pods.Items[0].Annotations["run.ai/reserve_for_gpu_index"]
//@   ensures [error-carries-no-index] err != nil ==> gpuIndex == ""
//@   lemma [listed-pod-without-annotation-is-an-error] len(pods.Items) > 0 && !("run.ai/reserve_for_gpu_index" in pods.Items[0].Annotations) ==> err != nil
//@ end

// ---- lock protocol (sequential) ---------------------------------------------------------------
//@ import gm "github.com/NVIDIA/KAI-scheduler/pkg/binder/binding/resourcereservation/group_mutex"
// the group-wide sync must only run under the group's lock: `requires` is proved at BOTH call sites
// (SyncForGpuGroup and the label-patch failure path of ReserveGpuDevice).
//@ func (*service).syncForGpuGroupWithLock
//@   props C17
//@   requires rsc != nil && rsc.kubeClient != nil
//@   requires gm.held(gpuGroup)
//@   modifies family(gone(nil)), lastListCount()
//@   loop 1
//@     invariant 0 <= rangeint_iter && rangeint_iter < len(podsList.Items)
//@     invariant forall i int :: 0 <= i && i < len(pods) ==> pods[i] != nil
//@     decreases len(podsList.Items) - rangeint_iter
//@   loop 2
//@     invariant 0 <= rangeint_iter && rangeint_iter < len(multiFractionsPodsList.Items)
//@     invariant forall i int :: 0 <= i && i < len(pods) ==> pods[i] != nil
//@     decreases len(multiFractionsPodsList.Items) - rangeint_iter
//@   ensures [only-justified-deletes] forall p *v1.Pod :: gone(p) != old(gone(p)) ==> p != nil && gone(p) && (isRes(rsc, p) || (isLive(rsc, p) && p.Status.Phase == "Running"))
//@ end

// C17: "label patch fails => syncForGpuGroupWithLock runs before the lock is released" (the callee's `requires held`),
// and the lock is released on every path.
//@ func (*service).SyncForGpuGroup
//@   props C17
//@   requires rsc != nil && rsc.kubeClient != nil && rsc.gpuGroupMutex != nil
//@   modifies family(gone(nil)), family(gm.held("")), rsc.gpuGroupMutex.mutexMap[*], rsc.gpuGroupMutex.mutexRefsMap[*], lastListCount()
//@   ensures [lock-released] !gm.held(gpuGroup)
//@ end

// ---- ReserveGpuDevice ---------------------------------------------------------------------------
// reservationCreates(): number of reservation pods created
//@ ghost reservationCreates() int

// create + wait-for-index: waitForGPUReservationPodAllocation is a select over a watch channel and timers
// (channels/select are outside the subset); createGPUReservationPod uses rand.String and resource.Quantity.
//@ func (*service).createGPUReservationPodAndGetIndex
//@   props C17
//@   trusted
//@   note select/channels (waitForGPUReservationPodAllocation), rand.String, resource.NewQuantity: outside the subset; summary taken from the code: one reservation pod is created, "-1" is returned exactly with an error (and the pod is deleted again)
//@   requires rsc != nil && rsc.kubeClient != nil
//@   modifies family(gone(nil)), reservationCreates(), lastListCount()
//@   ensures reservationCreates() == old(reservationCreates()) + 1
//@   ensures (err != nil) == (gpuIndex == "-1")
//@ end

// C17: "For every GPU group there is at most one reservation pod" (sequential part, conditional on the lock):
// find-then-create - a reservation pod is created only when the lookup succeeded and listed none.
//@ func (*service).acquireGPUIndexByGroup
//@   props C17
//@   requires rsc != nil && rsc.kubeClient != nil
//@   modifies family(gone(nil)), reservationCreates(), lastListCount()
//@   ensures [at-most-one-create] reservationCreates() <= old(reservationCreates()) + 1
//@   ensures [found-index-is-reused] result1 == nil && reservationCreates() == old(reservationCreates()) ==> result0 != ""
//@ end

// Patch(pod, MergeFrom(original)) on the pod: success stores the in-memory labels (new revision), failure stores nothing.
//@ func sigs.k8s.io/controller-runtime/pkg/client.WithWatch.Patch
//@   props C17 C11
//@   requires obj != nil
//@   modifies podOf(obj).ResourceVersion, podRev(podOf(obj))
//@   ensures result == nil && typeis(obj, "*v1.Pod") ==> (forall k string :: labelStored(podOf(obj), k) == podOf(obj).Labels[k])
//@   ensures !(result == nil && typeis(obj, "*v1.Pod")) ==> podRev(podOf(obj)) == old(podRev(podOf(obj)))
//@ end

// C17: "success => the pod is labelled with g"
// C11: "... or unbound with the request reported Failed and the attempt's side effects removed or removable by the
// next sync": Binder.Rollback -> RemovePodGpuGroupsConnection removes the group labels it finds on the caller's
// IN-MEMORY pod. So whatever this function stores in the API must also be on the pod object the caller passed in:
// a label that is stored but not in memory can never be rolled back.
//@ func (*service).updatePodGPUGroup
//@   props C17 C11
//@   requires rsc != nil && rsc.kubeClient != nil && pod != nil
//@   modifies pod.Labels, pod.Labels[*], pod.ResourceVersion, podRev(pod)
//@   ensures [single-fraction-pod-labelled-with-the-group] result == nil && old(singleFraction(pod)) ==> groupLabelStored(pod) == gpuGroup
//@   ensures [multi-fraction-pod-labelled-with-the-group] result == nil && old(multiFraction(pod)) ==> labelStored(pod, multiKey(gpuGroup)) == gpuGroup
//@   ensures [failure-leaves-the-stored-label] result != nil ==> groupLabelStored(pod) == old(groupLabelStored(pod))
//@   ensures [failure-stores-nothing] result != nil ==> podRev(pod) == old(podRev(pod))
//@   ensures [in-memory-single-fraction-pod-carries-the-group-label] result == nil && old(singleFraction(pod)) ==> ("runai-gpu-group" in pod.Labels) && pod.Labels["runai-gpu-group"] == gpuGroup
//@   ensures [in-memory-multi-fraction-pod-carries-the-group-label] result == nil && old(multiFraction(pod)) ==> (multiKey(gpuGroup) in pod.Labels) && pod.Labels[multiKey(gpuGroup)] == gpuGroup
//@   ensures [stored-labels-are-the-in-memory-labels] result == nil ==> forall k string :: labelStored(pod, k) == pod.Labels[k]
//@   ensures [in-memory-labels-only-grow] forall k string :: old(k in pod.Labels) ==> (k in pod.Labels)
//@   ensures [labels-map-kept-or-new] pod.Labels == old(pod.Labels) || fresh(pod.Labels)
//@ end

// C17: "every pod bound into the group is given that reservation pod's device index"; "label patch fails =>
// syncForGpuGroupWithLock runs before the lock is released" (call-site obligation `requires gm.held` of the callee).
// C11 (see updatePodGPUGroup): success leaves the stored label on the caller's in-memory pod, where Rollback looks.
//@ func (*service).ReserveGpuDevice
//@   props C17 C11
//@   requires rsc != nil && rsc.kubeClient != nil && rsc.gpuGroupMutex != nil && pod != nil
//@   modifies family(gone(nil)), family(gm.held("")), rsc.gpuGroupMutex.mutexMap[*], rsc.gpuGroupMutex.mutexRefsMap[*], lastListCount(), reservationCreates(), pod.Labels, pod.Labels[*], pod.ResourceVersion, podRev(pod)
//@   ensures [lock-released] !gm.held(gpuGroup)
//@   ensures [failure-returns-the-unknown-index] result1 != nil ==> result0 == "-1"
//@   ensures [success-labels-the-pod] result1 == nil && old(singleFraction(pod)) ==> groupLabelStored(pod) == gpuGroup
//@   ensures [success-labels-the-multi-fraction-pod] result1 == nil && old(multiFraction(pod)) ==> labelStored(pod, multiKey(gpuGroup)) == gpuGroup
//@   ensures [in-memory-single-fraction-pod-carries-the-group-label] result1 == nil && old(singleFraction(pod)) ==> ("runai-gpu-group" in pod.Labels) && pod.Labels["runai-gpu-group"] == gpuGroup
//@   ensures [in-memory-multi-fraction-pod-carries-the-group-label] result1 == nil && old(multiFraction(pod)) ==> (multiKey(gpuGroup) in pod.Labels) && pod.Labels[multiKey(gpuGroup)] == gpuGroup
//@   ensures [stored-labels-are-the-in-memory-labels] result1 == nil ==> forall k string :: labelStored(pod, k) == pod.Labels[k]
//@   ensures [in-memory-labels-only-grow] forall k string :: old(k in pod.Labels) ==> (k in pod.Labels)
//@   ensures [labels-map-kept-or-new] pod.Labels == old(pod.Labels) || fresh(pod.Labels)
//@   ensures [at-most-one-create] reservationCreates() <= old(reservationCreates()) + 1
//@ end
