//go:build verif

// Contracts for govc (contract-based deductive verification); comments only.
package common

//@ define fracName(pod *v1.Pod) string = pod.Annotations[constants.GpuFractionContainerName]
//@ define hasFracName(pod *v1.Pod) bool = constants.GpuFractionContainerName in pod.Annotations
//@ define noInitNamed(pod *v1.Pod, name string, n int) bool = forall j int :: 0 <= j && j < n ==> pod.Spec.InitContainers[j].Name != name
//@ define noRegNamed(pod *v1.Pod, name string, n int) bool = forall j int :: 0 <= j && j < n ==> pod.Spec.Containers[j].Name != name

//@ func GetFractionContainerRef
//@   props C19
//@   requires pod != nil && len(pod.Spec.Containers) > 0
//@   loop 1
//@     invariant -1 <= rangeindex && rangeindex < len(pod.Spec.InitContainers)
//@     invariant noInitNamed(pod, name, rangeindex + 1)
//@     decreases len(pod.Spec.InitContainers) - rangeindex
//@   loop 2
//@     invariant -1 <= rangeindex && rangeindex < len(pod.Spec.Containers)
//@     invariant noInitNamed(pod, name, len(pod.Spec.InitContainers))
//@     invariant noRegNamed(pod, name, rangeindex + 1)
//@     decreases len(pod.Spec.Containers) - rangeindex
//@   ensures [default] !hasFracName(pod) ==> result1 == nil && result0 != nil && result0.Index == 0 && result0.Type == gpusharingconfigmap.RegularContainer
//@ end
