//go:build verif

// Contracts for govc (contract-based deductive verification); comments only.
package common

//@ define fracName(pod *v1.Pod) string = pod.Annotations[constants.GpuFractionContainerName]
//@ define hasFracName(pod *v1.Pod) bool = constants.GpuFractionContainerName in pod.Annotations
//@ define noInitNamed(pod *v1.Pod, name string, n int) bool = forall j int :: 0 <= j && j < n ==> pod.Spec.InitContainers[j].Name != name
//@ define noRegNamed(pod *v1.Pod, name string, n int) bool = forall j int :: 0 <= j && j < n ==> pod.Spec.Containers[j].Name != name
//@ define firstInitNamed(pod *v1.Pod, name string, i int) bool = 0 <= i && i < len(pod.Spec.InitContainers) && pod.Spec.InitContainers[i].Name == name && noInitNamed(pod, name, i)
//@ define firstRegNamed(pod *v1.Pod, name string, i int) bool = 0 <= i && i < len(pod.Spec.Containers) && pod.Spec.Containers[i].Name == name && noRegNamed(pod, name, i)

// C19 (per-container selection): the fraction container is the container named by the
// gpu-fraction-container-name annotation, searched among the init containers first, then the regular
// ones (first match); without the annotation it is regular container 0; a name that matches no
// container is an error.  No panic needs at least one regular container (admission's Mutate guards
// this; see the report for the binder side).
//@ func GetFractionContainerRef
//@   props C19
//@   requires pod != nil && len(pod.Spec.Containers) > 0
//@   loop 1
//@     invariant -1 <= rangeindex && rangeindex < len(pod.Spec.InitContainers)
//@     invariant noInitNamed(pod, name, rangeindex + 1)
//@     decreases len(pod.Spec.InitContainers) - rangeindex
//@   loop 2
//@     invariant -1 <= rangeindex && rangeindex < len(pod.Spec.Containers)
//@     invariant noInitNamed(pod, name, len(pod.Spec.InitContainers))
//@     invariant noRegNamed(pod, name, rangeindex + 1)
//@     decreases len(pod.Spec.Containers) - rangeindex
//@   ensures [nil-xor-err] (result0 == nil) == (result1 != nil)
//@   ensures [default] !hasFracName(pod) ==> result1 == nil && result0 != nil && result0.Index == 0 && result0.Type == gpusharingconfigmap.RegularContainer && result0.Container != nil && result0.Container.Name == pod.Spec.Containers[0].Name
//@   ensures [named-init] hasFracName(pod) && result1 == nil && result0.Type == gpusharingconfigmap.InitContainer ==> firstInitNamed(pod, fracName(pod), result0.Index) && result0.Container != nil && result0.Container.Name == fracName(pod)
//@   ensures [named-regular] hasFracName(pod) && result1 == nil && result0.Type != gpusharingconfigmap.InitContainer ==> result0.Type == gpusharingconfigmap.RegularContainer && noInitNamed(pod, fracName(pod), len(pod.Spec.InitContainers)) && firstRegNamed(pod, fracName(pod), result0.Index) && result0.Container != nil && result0.Container.Name == fracName(pod)
//@   ensures [not-found] hasFracName(pod) ==> (result1 != nil) == (noInitNamed(pod, fracName(pod), len(pod.Spec.InitContainers)) && noRegNamed(pod, fracName(pod), len(pod.Spec.Containers)))
//@   ensures [init-first] hasFracName(pod) && !noInitNamed(pod, fracName(pod), len(pod.Spec.InitContainers)) ==> result1 == nil && result0.Type == gpusharingconfigmap.InitContainer
//@ end
