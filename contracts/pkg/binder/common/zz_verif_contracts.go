//go:build verif

// Contracts for govc (contract-based deductive verification); comments only.
package common

//@ define fracName(pod *v1.Pod) string = pod.Annotations[constants.GpuFractionContainerName]
//@ define hasFracName(pod *v1.Pod) bool = constants.GpuFractionContainerName in pod.Annotations
//@ define noInitNamed(pod *v1.Pod, name string, n int) bool = forall j int :: 0 <= j && j < n ==> pod.Spec.InitContainers[j].Name != name
//@ define noRegNamed(pod *v1.Pod, name string, n int) bool = forall j int :: 0 <= j && j < n ==> pod.Spec.Containers[j].Name != name
//@ define firstInitNamed(pod *v1.Pod, name string, i int) bool = 0 <= i && i < len(pod.Spec.InitContainers) && pod.Spec.InitContainers[i].Name == name && noInitNamed(pod, name, i)
//@ define firstRegNamed(pod *v1.Pod, name string, i int) bool = 0 <= i && i < len(pod.Spec.Containers) && pod.Spec.Containers[i].Name == name && noRegNamed(pod, name, i)

// C19 (per-container selection): the fraction container is the container named by the
// gpu-fraction-container-name annotation, searched among the init containers first, then the regular
// ones (first match); without the annotation it is regular container 0; a name that matches no
// container is an error.  No panic needs at least one regular container (admission's Mutate guards
// this; see the report for the binder side).
//@ func GetFractionContainerRef
//@   props C19
//@   requires pod != nil && len(pod.Spec.Containers) > 0
//@   loop 1
//@     invariant -1 <= rangeindex && rangeindex < len(pod.Spec.InitContainers)
//@     invariant noInitNamed(pod, name, rangeindex + 1)
//@     decreases len(pod.Spec.InitContainers) - rangeindex
//@   loop 2
//@     invariant -1 <= rangeindex && rangeindex < len(pod.Spec.Containers)
//@     invariant noInitNamed(pod, name, len(pod.Spec.InitContainers))
//@     invariant noRegNamed(pod, name, rangeindex + 1)
//@     decreases len(pod.Spec.Containers) - rangeindex
//@   ensures [nil-xor-err] (result0 == nil) == (result1 != nil)
//@   ensures [default] !hasFracName(pod) ==> result1 == nil && result0 != nil && result0.Index == 0 && result0.Type == gpusharingconfigmap.RegularContainer && result0.Container != nil && result0.Container.Name == pod.Spec.Containers[0].Name
//@   ensures [named-init] hasFracName(pod) && result1 == nil && result0.Type == gpusharingconfigmap.InitContainer ==> firstInitNamed(pod, fracName(pod), result0.Index) && result0.Container != nil && result0.Container.Name == fracName(pod)
//@   ensures [named-regular] hasFracName(pod) && result1 == nil && result0.Type != gpusharingconfigmap.InitContainer ==> result0.Type == gpusharingconfigmap.RegularContainer && noInitNamed(pod, fracName(pod), len(pod.Spec.InitContainers)) && firstRegNamed(pod, fracName(pod), result0.Index) && result0.Container != nil && result0.Container.Name == fracName(pod)
//@   ensures [not-found] hasFracName(pod) ==> (result1 != nil) == (noInitNamed(pod, fracName(pod), len(pod.Spec.InitContainers)) && noRegNamed(pod, fracName(pod), len(pod.Spec.Containers)))
//@   ensures [init-first] hasFracName(pod) && !noInitNamed(pod, fracName(pod), len(pod.Spec.InitContainers)) ==> result1 == nil && result0.Type == gpusharingconfigmap.InitContainer
//@ end

// ---- C19 "admission's mutation is idempotent": the pieces of (*GPUSharing).Mutate that live here ----------
// envFrom source: a second call with the same config map name changes nothing.
//@ define hasEnvFrom(c *v1.Container, name string) bool = exists i int :: 0 <= i && i < len(c.EnvFrom) && c.EnvFrom[i].ConfigMapRef != nil && c.EnvFrom[i].ConfigMapRef.Name == name

//@ func AddDirectEnvVarsConfigMapSource
//@   props C19
//@   requires container != nil
//@   modifies container.EnvFrom
//@   loop 1
//@     invariant -1 <= rangeindex && rangeindex < len(container.EnvFrom)
//@     invariant forall j int :: 0 <= j && j <= rangeindex ==> !(container.EnvFrom[j].ConfigMapRef != nil && container.EnvFrom[j].ConfigMapRef.Name == directEnvVarsMapName)
//@     decreases len(container.EnvFrom) - rangeindex
//@   ensures [idempotent-len] old(hasEnvFrom(container, directEnvVarsMapName)) ==> len(container.EnvFrom) == old(len(container.EnvFrom))
//@   ensures [idempotent-elems] old(hasEnvFrom(container, directEnvVarsMapName)) ==> (forall i int :: 0 <= i && i < old(len(container.EnvFrom)) ==> container.EnvFrom[i].ConfigMapRef == old(container.EnvFrom[i].ConfigMapRef))
//@   ensures [established] hasEnvFrom(container, directEnvVarsMapName)
//@   ensures [appends-one] !old(hasEnvFrom(container, directEnvVarsMapName)) ==> len(container.EnvFrom) == old(len(container.EnvFrom)) + 1
//@ end

// env var: afterwards the variable is the LAST entry and no other entry has its name; entries with
// other names are kept (count).  Applying it again leaves an already normalised list as it is.
//@ define otherNames(c *v1.Container, name string, n int) bool = forall j int :: 0 <= j && j < n ==> c.Env[j].Name != name
//@ func AddEnvVarToContainer
//@   props C19
//@   requires container != nil
//@   modifies container.Env
//@   loop 1
//@     invariant -1 <= rangeindex && rangeindex < len(container.Env)
//@     invariant len(envVars) <= rangeindex + 1
//@     invariant forall j int :: 0 <= j && j < len(envVars) ==> envVars[j].Name != envVar.Name
//@     invariant old(otherNames(container, envVar.Name, len(container.Env))) ==> len(envVars) == rangeindex + 1 && (forall j int :: 0 <= j && j <= rangeindex ==> envVars[j].Name == container.Env[j].Name && envVars[j].Value == container.Env[j].Value && envVars[j].ValueFrom == container.Env[j].ValueFrom)
//@     decreases len(container.Env) - rangeindex
//@   ensures [last-is-var] len(container.Env) >= 1 && container.Env[len(container.Env) - 1].Name == envVar.Name && container.Env[len(container.Env) - 1].Value == envVar.Value && container.Env[len(container.Env) - 1].ValueFrom == envVar.ValueFrom
//@   ensures [unique] otherNames(container, envVar.Name, len(container.Env) - 1)
//@   ensures [no-growth] len(container.Env) <= old(len(container.Env)) + 1
//@   ensures [others-kept-when-absent] old(otherNames(container, envVar.Name, len(container.Env))) ==> len(container.Env) == old(len(container.Env)) + 1 && (forall j int :: 0 <= j && j < old(len(container.Env)) ==> container.Env[j].Name == old(container.Env[j].Name) && container.Env[j].Value == old(container.Env[j].Value) && container.Env[j].ValueFrom == old(container.Env[j].ValueFrom))
//@ end

// config map volume: afterwards the volume is the LAST entry, carries the config map name, and no other
// volume has its name (that the volumes with other names are kept is not claimed: v1.Volume has ~30 pointer
// fields and the copy invariant times out).
//@ define otherVolNames(ps *v1.PodSpec, name string, n int) bool = forall j int :: 0 <= j && j < n ==> ps.Volumes[j].Name != name
//@ func addConfigMapVolume
//@   props C19
//@   requires podSpec != nil
//@   modifies podSpec.Volumes
//@   loop 1
//@     invariant -1 <= rangeindex && rangeindex < len(podSpec.Volumes)
//@     invariant len(updatedVolumes) <= rangeindex + 1
//@     invariant forall j int :: 0 <= j && j < len(updatedVolumes) ==> updatedVolumes[j].Name != volumeName
//@     decreases len(podSpec.Volumes) - rangeindex
//@   ensures [last-is-volume] len(podSpec.Volumes) >= 1 && podSpec.Volumes[len(podSpec.Volumes) - 1].Name == volumeName && podSpec.Volumes[len(podSpec.Volumes) - 1].ConfigMap != nil && podSpec.Volumes[len(podSpec.Volumes) - 1].ConfigMap.Name == configMapName
//@   ensures [unique] otherVolNames(podSpec, volumeName, len(podSpec.Volumes) - 1)
//@   ensures [no-growth] len(podSpec.Volumes) <= old(len(podSpec.Volumes)) + 1
//@ end

// ===== section owned by helper bplug (C11: what the binder's gpusharing plugin writes into the GPU-sharing ConfigMaps) =====
// Store model: ghost gpusharingconfigmap.cmStored(k) (see pkg/binder/common/gpusharingconfigmap); the assumed contracts of
// the controller-runtime client for ConfigMap objects are repeated in every package that talks to ConfigMaps.
//@ define cmOfObj(o ref) *v1.ConfigMap = unbox(o, "*v1.ConfigMap")
//@ define keyOfCM(o ref) string = gpusharingconfigmap.cmKey(cmOfObj(o).Namespace, cmOfObj(o).Name)
//@ func sigs.k8s.io/controller-runtime/pkg/client.Client.Get
//@   props C11
//@   requires obj != nil && typeis(obj, "*v1.ConfigMap")     // ConfigMap-only model: any other object type fails this precondition loudly
//@   modifies fields(cmOfObj(obj))
//@   ensures result == nil && typeis(obj, "*v1.ConfigMap") ==> gpusharingconfigmap.cmStored(gpusharingconfigmap.cmKey(key.Namespace, key.Name)) != nil && cmOfObj(obj).Name == key.Name && cmOfObj(obj).Namespace == key.Namespace
//@   ensures result == nil && typeis(obj, "*v1.ConfigMap") ==> cmOfObj(obj).Data == nil || fresh(cmOfObj(obj).Data)
//@   ensures result == nil && typeis(obj, "*v1.ConfigMap") ==> (forall s string :: cmOfObj(obj).Data[s] == gpusharingconfigmap.cmStored(gpusharingconfigmap.cmKey(key.Namespace, key.Name)).Data[s])
//@ end
//@ func sigs.k8s.io/controller-runtime/pkg/client.Client.Patch
//@   props C11
//@   requires obj != nil && typeis(obj, "*v1.ConfigMap")     // ConfigMap-only model: any other object type fails this precondition loudly
//@   modifies family(gpusharingconfigmap.cmStored(""))
//@   ensures forall k string :: k != keyOfCM(obj) ==> gpusharingconfigmap.cmStored(k) == old(gpusharingconfigmap.cmStored(k))
//@   ensures result == nil && typeis(obj, "*v1.ConfigMap") ==> gpusharingconfigmap.cmStored(keyOfCM(obj)) == cmOfObj(obj)
//@   ensures !(result == nil && typeis(obj, "*v1.ConfigMap")) ==> gpusharingconfigmap.cmStored(keyOfCM(obj)) == old(gpusharingconfigmap.cmStored(keyOfCM(obj)))
//@ end

// strconv.Itoa is a deterministic function of its argument (same declared function as in gpusharingconfigmap)
//@ func strconv.Itoa
//@   props C11
//@   trusted
//@   note library function (no body in the loaded program): deterministic function of its argument
//@   pure
//@   ensures result == gpusharingconfigmap.itoa(arg0)
//@ end
// names of the two ConfigMaps of a fraction container (functions of the pod's runai/shared-gpu-configmap annotation
// and the container reference): <prefix>-<index> (capabilities) and <prefix>-<index>-evar (direct env vars)
// (gpusharingconfigmap.capCMName / envCMName: the ONE naming function admission and binder are proved against, C19)
//@ define capName(pod *v1.Pod, ref *gpusharingconfigmap.PodContainerRef) string = gpusharingconfigmap.capCMName(gpusharingconfigmap.cmPrefix(pod), ref.Type, ref.Index)
//@ define envName(pod *v1.Pod, ref *gpusharingconfigmap.PodContainerRef) string = gpusharingconfigmap.envCMName(gpusharingconfigmap.cmPrefix(pod), ref.Type, ref.Index)
//@ define capKey(pod *v1.Pod, ref *gpusharingconfigmap.PodContainerRef) string = gpusharingconfigmap.cmKey(pod.Namespace, capName(pod, ref))
//@ define envKey(pod *v1.Pod, ref *gpusharingconfigmap.PodContainerRef) string = gpusharingconfigmap.cmKey(pod.Namespace, envName(pod, ref))

// Get, change the data in memory, merge-patch: executed by the callers with their own change function
//@ func UpdateConfigMapEnvironmentVariable
//@   inline
//@ end

// C11 "... with its side objects in place (... visible-device and portion settings ...)": success means the capabilities
// ConfigMap of the fraction container carries the given portion under GPU_PORTION (and the deprecated
// RUNAI_NUM_OF_GPUS); no other ConfigMap is written; a failure writes nothing.
// (the names are computed on the entry heap, hence old(..); no function here writes the pod's annotations)
//@ func SetGPUPortion
//@   props C11
//@   requires kubeClient != nil && pod != nil && containerRef != nil && gpusharingconfigmap.storeWF()
//@   modifies family(gpusharingconfigmap.cmStored(""))
//@   ensures [store-wf] gpusharingconfigmap.storeWF()
//@   ensures [portion-written-to-the-capabilities-configmap] result == nil ==> gpusharingconfigmap.cmStored(old(capKey(pod, containerRef))) != nil && gpusharingconfigmap.cmStored(old(capKey(pod, containerRef))).Data[GPUPortion] == gpuPortionStr && gpusharingconfigmap.cmStored(old(capKey(pod, containerRef))).Data[NumOfGpusEnvVarBC] == gpuPortionStr
//@   ensures [failure-writes-nothing] result != nil ==> (forall k string :: gpusharingconfigmap.cmStored(k) == old(gpusharingconfigmap.cmStored(k)))
//@   ensures [other-entries-kept] result == nil ==> (forall s string :: s != GPUPortion && s != NumOfGpusEnvVarBC ==> gpusharingconfigmap.cmStored(old(capKey(pod, containerRef))).Data[s] == old(gpusharingconfigmap.cmStored(capKey(pod, containerRef)).Data[s]))
//@   ensures [nothing-deleted] forall k string :: old(gpusharingconfigmap.cmStored(k)) != nil ==> gpusharingconfigmap.cmStored(k) != nil
//@   ensures [only-the-capabilities-configmap] forall k string :: k != old(capKey(pod, containerRef)) ==> gpusharingconfigmap.cmStored(k) == old(gpusharingconfigmap.cmStored(k))
//@ end

//@ define nvdRefAt(ref *gpusharingconfigmap.PodContainerRef, i int) bool = ref.Container.Env[i].Name == constants.NvidiaVisibleDevices && ref.Container.Env[i].ValueFrom != nil && ref.Container.Env[i].ValueFrom.ConfigMapKeyRef != nil
//@ define nvdFromConfigMap(ref *gpusharingconfigmap.PodContainerRef, n int) bool = exists i int :: 0 <= i && i < n && nvdRefAt(ref, i)
// visible devices: written to the capabilities ConfigMap when the container's NVIDIA_VISIBLE_DEVICES comes from a
// ConfigMap key reference (pods mutated by older versions), otherwise to the direct-env-vars ConfigMap.
//@ func SetNvidiaVisibleDevices
//@   props C11
//@   requires kubeClient != nil && pod != nil && containerRef != nil && containerRef.Container != nil && gpusharingconfigmap.storeWF()
//@   modifies family(gpusharingconfigmap.cmStored(""))
//@   ensures [store-wf] gpusharingconfigmap.storeWF()
//@   loop 1
//@     invariant -1 <= rangeindex && rangeindex < len(containerRef.Container.Env)
//@     invariant nvidiaVisibleDevicesDefinedInSpec == nvdFromConfigMap(containerRef, rangeindex + 1)
//@     decreases len(containerRef.Container.Env) - rangeindex
//@   ensures [visible-devices-written] result == nil ==> gpusharingconfigmap.cmStored(ite(nvdFromConfigMap(containerRef, len(containerRef.Container.Env)), old(capKey(pod, containerRef)), old(envKey(pod, containerRef)))) != nil && gpusharingconfigmap.cmStored(ite(nvdFromConfigMap(containerRef, len(containerRef.Container.Env)), old(capKey(pod, containerRef)), old(envKey(pod, containerRef)))).Data[constants.NvidiaVisibleDevices] == visibleDevicesValue
//@   ensures [failure-writes-nothing] result != nil ==> (forall k string :: gpusharingconfigmap.cmStored(k) == old(gpusharingconfigmap.cmStored(k)))
//@   ensures [nothing-deleted] forall k string :: old(gpusharingconfigmap.cmStored(k)) != nil ==> gpusharingconfigmap.cmStored(k) != nil
//@   ensures [only-the-two-configmaps-of-the-container] forall k string :: k != old(capKey(pod, containerRef)) && k != old(envKey(pod, containerRef)) ==> gpusharingconfigmap.cmStored(k) == old(gpusharingconfigmap.cmStored(k))
//@ end
