//go:build verif

// Contracts for govc (contract-based deductive verification); comments only.
// (file owned by helper bplug: C11, the GPU-sharing ConfigMaps the binder's gpusharing plugin creates)
package gpusharingconfigmap

// ---- ghost API store for ConfigMaps (DESIGN 1.9) ---------------------------------------------------------------
// A ConfigMap of the store is named by cmKey(namespace, name). cmStored(k) == nil: no ConfigMap k in the store;
// otherwise it is the in-memory object whose content the most recent SUCCESSFUL Create / Patch of k carried (for a
// ConfigMap that existed before: some object nothing is known about). Written objects are never touched again, so
// their fields are the stored content. Only the assumed client contracts write it; every client call has a
// nondeterministic outcome (the returned error is unconstrained): all fault schedules, no enumeration.
//@ ghost cmStored(k string) *v1.ConfigMap
//@ define cmKey(ns string, name string) string = ns + "/" + name
//@ define cmOf(o ref) *v1.ConfigMap = unbox(o, "*v1.ConfigMap")
//@ define keyOfObj(o ref) string = cmKey(cmOf(o).Namespace, cmOf(o).Name)
// well-formedness of the model: every stored object is an object that exists (one that was sent, or the placeholder
// of a ConfigMap that existed before); objects allocated later are therefore different from every stored one
//@ define storeWF() bool = forall k string :: allocated(cmStored(k))
//@ declare isNotFoundErr(e ref) bool
//@ axiom !isNotFoundErr(nil)

// ASSUMED contracts of the external controller-runtime client, for ConfigMap objects.
// Get: success decodes the stored object into obj (so one exists); NotFound means there is none.
//@ func sigs.k8s.io/controller-runtime/pkg/client.Client.Get
//@   props C11
//@   requires obj != nil && typeis(obj, "*v1.ConfigMap")     // ConfigMap-only model: any other object type fails this precondition loudly
//@   modifies fields(cmOf(obj))
//@   ensures result == nil && typeis(obj, "*v1.ConfigMap") ==> cmStored(cmKey(key.Namespace, key.Name)) != nil && cmOf(obj).Name == key.Name && cmOf(obj).Namespace == key.Namespace
//@   ensures result == nil && typeis(obj, "*v1.ConfigMap") ==> cmOf(obj).Data == nil || fresh(cmOf(obj).Data)
//@   ensures result == nil && typeis(obj, "*v1.ConfigMap") ==> (forall s string :: cmOf(obj).Data[s] == cmStored(cmKey(key.Namespace, key.Name)).Data[s])
//@   ensures isNotFoundErr(result) && typeis(obj, "*v1.ConfigMap") ==> cmStored(cmKey(key.Namespace, key.Name)) == nil
//@ end
// Create / Patch: success stores the content of the object that was sent, failure leaves the store alone.
//@ func sigs.k8s.io/controller-runtime/pkg/client.Client.Create
//@   props C11
//@   requires obj != nil && typeis(obj, "*v1.ConfigMap")     // ConfigMap-only model: any other object type fails this precondition loudly
//@   modifies family(cmStored(""))
//@   ensures forall k string :: k != keyOfObj(obj) ==> cmStored(k) == old(cmStored(k))
//@   ensures result == nil && typeis(obj, "*v1.ConfigMap") ==> cmStored(keyOfObj(obj)) == cmOf(obj)
//@   ensures !(result == nil && typeis(obj, "*v1.ConfigMap")) ==> cmStored(keyOfObj(obj)) == old(cmStored(keyOfObj(obj)))
//@ end
//@ func sigs.k8s.io/controller-runtime/pkg/client.Client.Patch
//@   props C11
//@   requires obj != nil && typeis(obj, "*v1.ConfigMap")     // ConfigMap-only model: any other object type fails this precondition loudly
//@   modifies family(cmStored(""))
//@   ensures forall k string :: k != keyOfObj(obj) ==> cmStored(k) == old(cmStored(k))
//@   ensures result == nil && typeis(obj, "*v1.ConfigMap") ==> cmStored(keyOfObj(obj)) == cmOf(obj)
//@   ensures !(result == nil && typeis(obj, "*v1.ConfigMap")) ==> cmStored(keyOfObj(obj)) == old(cmStored(keyOfObj(obj)))
//@ end
//@ func k8s.io/apimachinery/pkg/api/errors.IsNotFound
//@   props C11
//@   pure
//@   ensures result == isNotFoundErr(err)
//@ end
// strconv.Itoa is a deterministic function of its argument (named itoa so that two calls agree; the ConfigMap names
// are built from the container index)
//@ declare itoa(i int) string
//@ func strconv.Itoa
//@   props C11
//@   trusted
//@   note library function (no body in the loaded program): deterministic function of its argument
//@   pure
//@   ensures result == itoa(arg0)
//@   ensures len(result) >= 1 && len(result) <= 20     // decimal representation of a 64-bit int
//@ end
// generated deep copy: a new object with the same name and namespace
//@ func (*k8s.io/api/core/v1.ConfigMap).DeepCopy
//@   props C11
//@   trusted
//@   note generated deepcopy (k8s.io/api, no body in the loaded program): new object, same name/namespace
//@   requires in != nil
//@   fresh
//@   ensures result.Name == in.Name && result.Namespace == in.Namespace
//@   ensures result.Data == nil || fresh(result.Data)
//@ end

// compareObjectOwners has no contract: it is mechanically inferred read-only (its verdict is left open: both branches
// of patchConfigMap are covered)

// an existing ConfigMap is taken over (owner reference) or kept; with no data to add nothing else changes
//@ func patchConfigMap
//@   props C11
//@   requires kubeClient != nil && desiredConfigMap != nil && existingConfigMap != nil
//@   requires forall k string :: !(k in desiredConfigMap.Data)     // the binder only ever upserts EMPTY ConfigMaps
//@   requires desiredConfigMap.Name == existingConfigMap.Name && desiredConfigMap.Namespace == existingConfigMap.Namespace
//@   requires storeWF()
//@   modifies family(cmStored(""))
//@   ensures [store-wf] storeWF()
//@   loop 1 unroll 0
//@   ensures [only-this-configmap] forall k string :: k != cmKey(desiredConfigMap.Namespace, desiredConfigMap.Name) ==> cmStored(k) == old(cmStored(k))
//@   ensures [failure-leaves-store] result != nil ==> cmStored(cmKey(desiredConfigMap.Namespace, desiredConfigMap.Name)) == old(cmStored(cmKey(desiredConfigMap.Namespace, desiredConfigMap.Name)))
//@   ensures [success-keeps-it-present] result == nil ==> cmStored(cmKey(desiredConfigMap.Namespace, desiredConfigMap.Name)) != nil
//@ end

// C11 "... with its side objects in place": after a successful upsert a ConfigMap <pod namespace>/<name> exists; a
// ConfigMap created here is owned by the pod (garbage-collected with it); no other ConfigMap is touched and a failure
// leaves the store as it was.
//@ func UpsertJobConfigMap
//@   props C11
//@   requires kubeClient != nil && pod != nil
//@   requires forall k string :: !(k in data)
//@   requires storeWF()
//@   modifies family(cmStored(""))
//@   ensures [store-wf] storeWF()
//@   ensures [success-means-present] err == nil ==> cmStored(cmKey(pod.Namespace, configMapName)) != nil
//@   ensures [created-configmap-owned-by-the-pod] err == nil && old(cmStored(cmKey(pod.Namespace, configMapName))) == nil ==> len(cmStored(cmKey(pod.Namespace, configMapName)).OwnerReferences) == 1 && cmStored(cmKey(pod.Namespace, configMapName)).OwnerReferences[0].UID == pod.UID && cmStored(cmKey(pod.Namespace, configMapName)).OwnerReferences[0].Kind == "Pod"
//@   ensures [failure-leaves-store] err != nil ==> cmStored(cmKey(pod.Namespace, configMapName)) == old(cmStored(cmKey(pod.Namespace, configMapName)))
//@   ensures [only-this-configmap] forall k string :: k != cmKey(pod.Namespace, configMapName) ==> cmStored(k) == old(cmStored(k))
//@ end

// ---- C19 "admission ... and the binder ... materialise identically": the names of the two ConfigMaps ---------------
// ONE spec function of (name prefix, kind of the container reference, index) for both sides:
//   capCMName = <prefix>-<index>      for a regular container,  <prefix>-i<index>  for an init container;
//   envCMName = <capCMName>-evar.
// Admission (SetGpuCapabilitiesConfigMapName, called by the webhook's Mutate) names the ConfigMap it mounts into the
// pod; the binder (ExtractCapabilitiesConfigMapName / ExtractDirectEnvVarsConfigMapName, called by the gpusharing
// plugin) names the ConfigMap it creates for the persisted pod. Both are proved equal to the same spec function of
// the prefix stored in the pod's runai/shared-gpu-configmap annotation, hence to each other.
//@ define cmIndexStr(kind ContainerType, idx int) string = ite(kind == InitContainer, "i" + itoa(idx), itoa(idx))
//@ define capCMName(prefix string, kind ContainerType, idx int) string = fmt.Sprintf("%s-%s", prefix, cmIndexStr(kind, idx))
//@ define envCMName(prefix string, kind ContainerType, idx int) string = fmt.Sprintf("%s-evar", capCMName(prefix, kind, idx))
//@ define hasCMPrefix(pod *v1.Pod) bool = gpuSharingConfigMapAnnotation in pod.Annotations
//@ define cmPrefix(pod *v1.Pod) string = pod.Annotations[gpuSharingConfigMapAnnotation]

//@ func ExtractCapabilitiesConfigMapName
//@   props C19 C11
//@   requires pod != nil && containerRef != nil
//@   pure
//@   ensures [error-iff-no-prefix-annotation] (result1 != nil) == !hasCMPrefix(pod)
//@   ensures [name-is-the-spec-function] result1 == nil ==> result0 == capCMName(cmPrefix(pod), containerRef.Type, containerRef.Index)
//@   ensures [no-name-on-error] result1 != nil ==> result0 == ""
//@ end
//@ func ExtractDirectEnvVarsConfigMapName
//@   props C19 C11
//@   requires pod != nil && containerRef != nil
//@   pure
//@   ensures [error-iff-no-prefix-annotation] (result1 != nil) == !hasCMPrefix(pod)
//@   ensures [name-is-the-spec-function] result1 == nil ==> result0 == envCMName(cmPrefix(pod), containerRef.Type, containerRef.Index)
//@   ensures [no-name-on-error] result1 != nil ==> result0 == ""
//@ end
// admission side: the prefix is generated once (random suffix) and stored in the annotation; an existing prefix is
// reused, so a second mutation (and the binder) sees the same names.
//@ func SetGpuCapabilitiesConfigMapName
//@   props C19 C11
//@   requires pod != nil && containerRef != nil
//@   modifies pod.Annotations, pod.Annotations[*]
//@   ensures [prefix-annotation-present] hasCMPrefix(pod)
//@   ensures [existing-prefix-kept] old(hasCMPrefix(pod)) ==> cmPrefix(pod) == old(cmPrefix(pod))
//@   ensures [name-is-the-spec-function] result == capCMName(cmPrefix(pod), containerRef.Type, containerRef.Index)
//@   lemma [binder-extracts-the-same-name] tuple1(ExtractCapabilitiesConfigMapName(pod, containerRef)) == nil && result == tuple0(ExtractCapabilitiesConfigMapName(pod, containerRef))
//@ end
