//go:build verif

// Contracts for govc (contract-based deductive verification); comments only.
package dynamicresources

//@ import rapi "k8s.io/api/resource/v1"

// ---- ghost API store for the status sub-resource of ResourceClaims (DESIGN 1.9) -----------------
// A ResourceClaim of the store is named by draKey(namespace, object name). claimStatusSent(k) is the
// in-memory object whose status the most recent SUCCESSFUL UpdateStatus on claim k carried (nil = no
// write so far); the object is never touched again after the write, so its fields are the stored
// status. Only the assumed contract of ResourceClaimInterface.UpdateStatus writes it. Every client
// call has a nondeterministic outcome: all fault schedules are covered, no enumeration.
// lastClaimCallOK(): the most recent Get / UpdateStatus on a ResourceClaim returned no error.
//@ ghost claimStatusSent(k string) *rapi.ResourceClaim
//@ ghost lastClaimCallOK() bool
//@ declare claimsNs(r ref) string
//@ define draKey(ns string, name string) string = ns + "/" + name
// "claim reservations in place" (C11): the stored status of claim k lists the pod as a consumer and carries an allocation
//@ define claimBound(k string, pod *corev1.Pod) bool = claimStatusSent(k) != nil && resources.claimReservedFor(claimStatusSent(k), pod) && claimStatusSent(k).Status.Allocation != nil
// the API object a pod-level claim reference resolves to (names the result of getClaimName)
//@ declare draClaimOf(pod ref, podClaimName string) string
//@ define allocKey(pod *corev1.Pod, request *v1alpha2.BindRequest, i int) string = draKey(pod.Namespace, draClaimOf(pod, request.Spec.ResourceClaimAllocations[i].Name))

// ASSUMED contracts of the external client-go clientset (never verified against a body).
//@ func k8s.io/client-go/kubernetes.Interface.ResourceV1
//@   props C11
//@   pure
//@   ensures result != nil
//@ end
//@ func k8s.io/client-go/kubernetes/typed/resource/v1.ResourceV1Interface.ResourceClaims
//@   props C11
//@   pure
//@   ensures result != nil && claimsNs(result) == namespace
//@ end
// Get: on success the stored object (its name is the requested one) is decoded into a new object.
//@ func k8s.io/client-go/kubernetes/typed/resource/v1.ResourceClaimInterface.Get
//@   props C11
//@   modifies lastClaimCallOK()
//@   ensures lastClaimCallOK() == (result1 == nil)
//@   ensures result1 == nil ==> result0 != nil && result0.Name == name && result0.Namespace == claimsNs(recv)
//@ end
// UpdateStatus: success stores the status of the object that was sent, failure leaves the store alone.
//@ func k8s.io/client-go/kubernetes/typed/resource/v1.ResourceClaimInterface.UpdateStatus
//@   props C11
//@   requires resourceClaim != nil
//@   modifies family(claimStatusSent("")), lastClaimCallOK()
//@   ensures lastClaimCallOK() == (result1 == nil)
//@   ensures forall k string :: k != draKey(claimsNs(recv), resourceClaim.Name) ==> claimStatusSent(k) == old(claimStatusSent(k))
//@   ensures result1 == nil ==> claimStatusSent(draKey(claimsNs(recv), resourceClaim.Name)) == resourceClaim
//@   ensures result1 != nil ==> claimStatusSent(draKey(claimsNs(recv), resourceClaim.Name)) == old(claimStatusSent(draKey(claimsNs(recv), resourceClaim.Name)))
//@ end
// generated deep copy: a new object with the same metadata and status content
//@ func (*k8s.io/api/resource/v1.ResourceClaim).DeepCopy
//@   props C11
//@   trusted
//@   note generated deepcopy (k8s.io/api, no body in the loaded program): new object, same name/namespace, allocation nil iff the source's is
//@   requires in != nil
//@   fresh
//@   ensures result.Name == in.Name && result.Namespace == in.Namespace
//@   ensures (result.Status.Allocation == nil) == (in.Status.Allocation == nil)
//@ end
//@ func context.WithTimeout
//@   props C11
//@   trusted
//@   note library: returns a non-nil derived context (the cancel function is a no-op for the engine)
//@   pure
//@   ensures result0 != nil
//@ end
//@ func google.golang.org/grpc/status.Error
//@   props C11
//@   pure
//@   ensures result != nil
//@ end
//@ func google.golang.org/grpc/status.Errorf
//@   props C11
//@   pure
//@   ensures result != nil
//@ end

// one run of the retried closure: Get, DeepCopy, add the pod to reservedFor, fill in the allocation, UpdateStatus.
//@ func (*dynamicResourcesPlugin).bindResourceClaim$1
//@   props C11
//@   requires drp != nil && drp.client != nil && pod != nil && desiredStatus != nil
//@   requires desiredStatus.Allocation != nil
//@   modifies family(claimStatusSent("")), lastClaimCallOK()
//@   ensures [nil-iff-last-client-call-succeeded] (result == nil) == lastClaimCallOK()
//@   ensures [run-success-stores-reservation-and-allocation] result == nil ==> claimBound(draKey(pod.Namespace, claimName), pod)
//@   ensures [run-touches-only-this-claim] forall k string :: k != draKey(pod.Namespace, claimName) ==> claimStatusSent(k) == old(claimStatusSent(k))
//@   ensures [run-failure-stores-nothing] result != nil ==> claimStatusSent(draKey(pod.Namespace, claimName)) == old(claimStatusSent(draKey(pod.Namespace, claimName)))
//@ end

// RetryOnConflict(backoff, fn) (ASSUMED, library higher-order function): runs fn at least once, again while fn
// reports a conflict, and returns nil only when the LAST run of fn returned nil. The engine cannot apply a closure's
// contract inside an assumed library contract, so the clauses below are the instances of that rule for the only
// closure ever passed in this repository, (*dynamicResourcesPlugin).bindResourceClaim$1, whose per-run contract is
// PROVED above: [nil-iff-last-client-call-succeeded] gives the first clause; its frame gives the frame.
//@ func k8s.io/client-go/util/retry.RetryOnConflict
//@   props C11
//@   requires fn != nil
//@   modifies family(claimStatusSent("")), lastClaimCallOK()
//@   ensures (result == nil) == lastClaimCallOK()
//@ end

// which API object a claim reference of the pod names: the first entry of pod.Spec.ResourceClaims with that name,
// resolved by resources.GetResourceClaimName (direct name, or the generated name recorded in the pod status).
// draClaimOf(pod, n) names that result: getClaimName reads only the pod, which no function of this package writes.
//@ func getClaimName
//@   props C11
//@   requires pod != nil
//@   pure
//@   loop 1
//@     invariant -1 <= rangeindex && rangeindex < len(pod.Spec.ResourceClaims)
//@     invariant claimName == ""
//@     decreases len(pod.Spec.ResourceClaims) - rangeindex
//@   ensures [name-xor-error] (result1 == nil) == (result0 != "")
//@   trust [resolution-is-a-function-of-pod-and-reference] result1 == nil ==> result0 == draClaimOf(pod, podClaimName)
//@   note [resolution-is-a-function-of-pod-and-reference]: getClaimName is deterministic and reads only the pod; the engine's pure-determinism rule does not cover (string, error) results, so the function is given a name
//@ end

// C11 "... with its side objects in place (... claim reservations)": a nil result means the status write of the
// resolved claim went through with the pod in reservedFor and an allocation; an entry without allocation, an
// unresolvable reference and any client failure (after the conflict retries) are reported.
//@ func (*dynamicResourcesPlugin).bindResourceClaim
//@   props C11
//@   requires drp != nil && drp.client != nil && pod != nil && desiredStatus != nil
//@   modifies family(claimStatusSent("")), lastClaimCallOK()
//@   ensures [missing-allocation-reported] desiredStatus.Allocation == nil ==> result != nil
//@   ensures [client-failure-reported] result == nil ==> lastClaimCallOK()
//@   ensures [nothing-written-without-allocation] desiredStatus.Allocation == nil ==> (forall k string :: claimStatusSent(k) == old(claimStatusSent(k)))
//@   trust [success-stores-reservation-and-allocation] result == nil ==> claimBound(draKey(pod.Namespace, draClaimOf(pod, desiredStatus.Name)), pod)
//@   trust [reservations-only-grow] forall k string :: old(claimBound(k, pod)) ==> claimBound(k, pod)
//@   note the two trust clauses are the closure's proved per-run clauses [run-success-stores-reservation-and-allocation] / [run-touches-only-this-claim] + [run-failure-stores-nothing] carried through retry.RetryOnConflict (see the note there); they mention the pod and the claim, which the library contract cannot name
//@ end

// C11: "the pod ends either bound to exactly the node named in the request with its side objects in place (...
// claim reservations), or unbound with the request reported Failed": the DRA plugin reports success ONLY IF the
// status of EVERY claim allocation of the request was stored (reservedFor has the pod, allocation present).
//@ func (*dynamicResourcesPlugin).Bind
//@   props C11
//@   requires drp != nil && drp.client != nil && pod != nil && request != nil
//@   modifies family(claimStatusSent("")), lastClaimCallOK()
//@   loop 1
//@     invariant -1 <= rangeindex && rangeindex < len(request.Spec.ResourceClaimAllocations)
//@     invariant forall j int :: 0 <= j && j <= rangeindex ==> claimBound(allocKey(pod, request, j), pod)
//@     invariant forall j int :: 0 <= j && j <= rangeindex ==> request.Spec.ResourceClaimAllocations[j].Allocation != nil
//@     invariant forall k string :: old(claimBound(k, pod)) ==> claimBound(k, pod)
//@     decreases len(request.Spec.ResourceClaimAllocations) - rangeindex
//@   ensures [every-claim-of-the-request-stored] result == nil ==> (forall i int :: 0 <= i && i < len(request.Spec.ResourceClaimAllocations) ==> claimBound(allocKey(pod, request, i), pod))
//@   ensures [entry-without-allocation-fails-the-bind] (exists i int :: 0 <= i && i < len(request.Spec.ResourceClaimAllocations) && request.Spec.ResourceClaimAllocations[i].Allocation == nil) ==> result != nil
//@   ensures [reservations-only-grow] forall k string :: old(claimBound(k, pod)) ==> claimBound(k, pod)
//@ end

// ---- the rest of the K8sPlugin implementation, each proved against the clause of common.K8sPlugin.* it implements ----
// (the DRA plugin keeps no in-memory reservation: Allocate / UnAllocate / PreFilter / Filter / PostBind do nothing)
//@ func (*dynamicResourcesPlugin).Name
//@   props C11
//@   pure
//@   ensures result == "DynamicResources"
//@ end
//@ func (*dynamicResourcesPlugin).IsRelevant
//@   props C11
//@   requires pod != nil
//@   pure
//@   ensures result == (len(pod.Spec.ResourceClaims) > 0)
//@ end
//@ func (*dynamicResourcesPlugin).PreFilter
//@   props C11
//@   pure
//@   ensures result0 == nil && !result1
//@ end
//@ func (*dynamicResourcesPlugin).Filter
//@   props C11
//@   pure
//@   ensures result == nil
//@ end
//@ func (*dynamicResourcesPlugin).Allocate
//@   props C11
//@   pure
//@   ensures result == nil
//@ end
//@ func (*dynamicResourcesPlugin).UnAllocate
//@   props C11
//@   pure
//@ end
//@ func (*dynamicResourcesPlugin).PostBind
//@   props C11
//@   pure
//@ end
