//go:build verif

// Contracts for govc (contract-based deductive verification); comments only.
package volumebinding

//@ import ksfw "k8s.io/kube-scheduler/framework"

// ---- C11: the wrapper around the upstream kube-scheduler VolumeBinding plugin --------------------------------
// The upstream plugin (k8s.io/kubernetes/pkg/scheduler/framework/plugins/volumebinding) is library code: ASSUMED,
// as weak as possible. Ghost state per upstream plugin object, for the pod being bound:
// volReserved(b): Reserve succeeded (volumes assumed in the binder's cache) and Unreserve has not run since;
// volBound(b):    PreBind succeeded (the PV/PVC binding API writes went through).
// statusErr(s): (*Status).AsError() != nil. Every outcome is nondeterministic: all fault schedules are covered.
//@ ghost volReserved(b *volumebinding.VolumeBinding) bool
//@ ghost volBound(b *volumebinding.VolumeBinding) bool
// volBoundNode(b): the node name the most recent successful upstream PreBind bound the pod's volumes for
//@ ghost volBoundNode(b *volumebinding.VolumeBinding) string
//@ declare statusErr(s ref) bool
//@ declare statusSkip(s ref) bool
//@ func (*k8s.io/kube-scheduler/framework.Status).AsError
//@   props C11
//@   pure
//@   ensures (result != nil) == statusErr(recv)
//@ end
//@ func (*k8s.io/kube-scheduler/framework.Status).IsSkip
//@   props C11
//@   pure
//@   ensures result == statusSkip(recv)
//@ end
//@ func (*k8s.io/kube-scheduler/framework.Status).Code
//@   props C11
//@   pure
//@ end
//@ func (k8s.io/kube-scheduler/framework.Code).String
//@   props C11
//@   pure
//@ end
//@ func (*k8s.io/kubernetes/pkg/scheduler/framework/plugins/volumebinding.VolumeBinding).PreFilter
//@   props C11
//@   pure
//@ end
//@ func (*k8s.io/kubernetes/pkg/scheduler/framework/plugins/volumebinding.VolumeBinding).Filter
//@   props C11
//@   pure
//@ end
//@ func (*k8s.io/kubernetes/pkg/scheduler/framework/plugins/volumebinding.VolumeBinding).Reserve
//@   props C11
//@   modifies volReserved(recv)
//@   ensures !statusErr(result) ==> volReserved(recv)
//@   ensures statusErr(result) ==> volReserved(recv) == old(volReserved(recv))
//@ end
//@ func (*k8s.io/kubernetes/pkg/scheduler/framework/plugins/volumebinding.VolumeBinding).Unreserve
//@   props C11
//@   modifies volReserved(recv)
//@   ensures !volReserved(recv)
//@ end
//@ func (*k8s.io/kubernetes/pkg/scheduler/framework/plugins/volumebinding.VolumeBinding).PreBind
//@   props C11
//@   modifies volBound(recv), volBoundNode(recv)
//@   ensures !statusErr(result) ==> volBound(recv) && volBoundNode(recv) == nodeName
//@   ensures statusErr(result) ==> volBound(recv) == old(volBound(recv)) && volBoundNode(recv) == old(volBoundNode(recv))
//@ end
//@ func k8s.io/kubernetes/pkg/scheduler/framework.NewNodeInfo
//@   props C11
//@   pure
//@   ensures result != nil
//@ end
//@ func (*k8s.io/kubernetes/pkg/scheduler/framework.NodeInfo).SetNode
//@   props C11
//@   pure
//@ end

// ---- the K8sPlugin implementation, each method proved against the clause of common.K8sPlugin.* it implements ----
// (reservedBy(box(vb)) of the interface contract is volReserved(vb.binding), boundBy(box(vb)) is volBound(vb.binding))
//@ func (*volumeBindingPlugin).Name
//@   props C11
//@   pure
//@   ensures result == "VolumeBinding"
//@ end
//@ func (*volumeBindingPlugin).IsRelevant
//@   props C11
//@   requires pod != nil
//@   pure
//@   ensures result == (len(pod.Spec.Volumes) > 0)
//@ end
// the upstream verdicts are handed through unchanged: an upstream error is an error, a skip is a skip
//@ func (*volumeBindingPlugin).PreFilter
//@   props C11
//@   requires vb != nil && pod != nil
//@   pure
//@ end
//@ func (*volumeBindingPlugin).Filter
//@   props C11
//@   requires vb != nil && pod != nil && node != nil
//@   pure
//@ end
// Allocate = upstream Reserve: success takes the reservation, failure takes none
//@ func (*volumeBindingPlugin).Allocate
//@   props C11
//@   requires vb != nil && pod != nil
//@   modifies volReserved(vb.binding)
//@   ensures [success-reserves] result == nil ==> volReserved(vb.binding)
//@   ensures [failure-reserves-nothing] result != nil ==> volReserved(vb.binding) == old(volReserved(vb.binding))
//@ end
// UnAllocate = upstream Unreserve
//@ func (*volumeBindingPlugin).UnAllocate
//@   props C11
//@   requires vb != nil && pod != nil
//@   modifies volReserved(vb.binding)
//@   ensures [reservation-released] !volReserved(vb.binding)
//@ end
// Bind = upstream PreBind towards the node SELECTED IN THE REQUEST; an upstream failure is reported
//@ func (*volumeBindingPlugin).Bind
//@   props C11
//@   requires vb != nil && pod != nil && request != nil
//@   modifies volBound(vb.binding), volBoundNode(vb.binding)
//@   ensures [success-means-volumes-bound-for-the-selected-node] result == nil ==> volBound(vb.binding) && volBoundNode(vb.binding) == request.Spec.SelectedNode
//@   ensures [failure-binds-nothing] result != nil ==> volBound(vb.binding) == old(volBound(vb.binding)) && volBoundNode(vb.binding) == old(volBoundNode(vb.binding))
//@ end
//@ func (*volumeBindingPlugin).PostBind
//@   props C11
//@   pure
//@ end
