//go:build verif

// Contracts for govc (contract-based deductive verification); comments only.
package common

// ---- C11: the kube-scheduler style plugins behind (*K8sPlugins) (volume binding, dynamic resources) -------------
// Ghost protocol state of ONE binding attempt (the pod being bound), per plugin value:
// reservedBy(pl): pl holds an in-memory reservation for the pod (Allocate succeeded, no UnAllocate since);
// boundBy(pl):    pl's Bind succeeded: its API side objects (PV/PVC bindings, claim reservations) are in place.
// Only the assumed interface contracts below write them; each in-repo implementation is proved against the same
// clauses stated over its own store model (dynamicresources: claimBound; volumebinding: volReserved / volBound).
// Every call has a nondeterministic outcome (error unconstrained): all fault schedules, no enumeration.
//@ ghost reservedBy(pl K8sPlugin) bool
//@ ghost boundBy(pl K8sPlugin) bool
// pluginName(pl): the constant Name() returns; relevantTo(pl, pod): IsRelevant(pod) - VolumeBinding:
// len(pod.Spec.Volumes) > 0, DynamicResources: len(pod.Spec.ResourceClaims) > 0; both fields are immutable once the
// pod exists and no function under contract writes them, so relevance is a function of the plugin and the pod object.
//@ declare pluginName(pl ref) string
//@ declare relevantTo(pl ref, pod ref) bool

// ASSUMED contracts of the K8sPlugin interface as seen by (*K8sPlugins).
//@ func K8sPlugin.Name
//@   props C11
//@   pure
//@   ensures result == pluginName(recv)
//@ end
//@ func K8sPlugin.IsRelevant
//@   props C11
//@   pure
//@   ensures result == relevantTo(recv, pod)
//@ end
//@ func K8sPlugin.PreFilter
//@   props C11
//@   pure
//@ end
//@ func K8sPlugin.Filter
//@   props C11
//@   pure
//@ end
// Allocate (kube-scheduler "Reserve"): success takes the reservation, failure takes none.
//@ func K8sPlugin.Allocate
//@   props C11
//@   modifies reservedBy(recv)
//@   ensures result == nil ==> reservedBy(recv)
//@   ensures result != nil ==> reservedBy(recv) == old(reservedBy(recv))
//@ end
// UnAllocate (kube-scheduler "Unreserve"): idempotent, cannot fail.
//@ func K8sPlugin.UnAllocate
//@   props C11
//@   modifies reservedBy(recv)
//@   ensures !reservedBy(recv)
//@ end
// Bind (kube-scheduler "PreBind"): success means EVERY side object of the plugin for this pod is written.
//@ func K8sPlugin.Bind
//@   props C11
//@   modifies boundBy(recv)
//@   ensures result == nil ==> boundBy(recv)
//@   ensures result != nil ==> boundBy(recv) == old(boundBy(recv))
//@ end
//@ func K8sPlugin.PostBind
//@   props C11
//@   pure
//@ end

// upstream constructor of an (opaque) cycle state
//@ func k8s.io/kubernetes/pkg/scheduler/framework.NewCycleState
//@   props C11
//@   pure
//@   ensures result != nil
//@ end
