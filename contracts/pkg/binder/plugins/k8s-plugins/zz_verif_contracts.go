//go:build verif

// Contracts for govc (contract-based deductive verification); comments only.
package k8s_plugins

//@ import types "k8s.io/apimachinery/pkg/types"

// ---- the per-pod state table p.states (a sync.Map keyed by pod UID) -----------------------------------------
// podStateOf(uid): the *PodState stored under uid (nil = none). Only the ASSUMED contracts of sync.Map write it
// (sync.Map is library code; K8sPlugins.states is the only sync.Map of this package).
//@ ghost podStateOf(uid string) *PodState
//@ define keyUID(key ref) string = string(unbox(key, "types.UID"))
//@ func (*sync.Map).Store
//@   props C11
//@   trusted
//@   note library (sync.Map): modelled by the ghost table podStateOf
//@   modifies family(podStateOf(""))
//@   ensures podStateOf(keyUID(key)) == unbox(value, "*PodState")
//@   ensures forall u string :: u != keyUID(key) ==> podStateOf(u) == old(podStateOf(u))
//@ end
//@ func (*sync.Map).LoadAndDelete
//@   props C11
//@   trusted
//@   note library (sync.Map): modelled by the ghost table podStateOf
//@   modifies family(podStateOf(""))
//@   ensures forall u string :: u != keyUID(key) ==> podStateOf(u) == old(podStateOf(u))
//@   ensures result1 == (old(podStateOf(keyUID(key))) != nil)
//@   ensures result1 ==> typeis(result0, "*PodState") && unbox(result0, "*PodState") == old(podStateOf(keyUID(key)))
//@   ensures podStateOf(keyUID(key)) == nil
//@ end

// (*K8sPlugins) implements plugins.Plugin: PreBind / PostBind / Rollback are PROVED against the clauses the assumed
// interface contract plugins.Plugin.<Method> promises at the invoke sites in (*BinderPlugins) (frame within fields(pod):
// only pod.Spec.NodeName is written; pod identity kept; Rollback keeps pod.Labels - tagged [iface-Plugin.*]) plus the
// property-derived clauses over the ghosts of this file and of k8s-plugins/common (outside Plugin.*'s frame, mentioned
// by no caller-side contract).
//@ define pluginsOK(p *K8sPlugins) bool = forall i int :: 0 <= i && i < len(p.plugins) ==> p.plugins[i] != nil
// New registers "VolumeBinding" and "DynamicResources": distinct names (the skip table is keyed by name)
//@ define namesDistinct(p *K8sPlugins) bool = forall i int, j int :: 0 <= i && i < j && j < len(p.plugins) ==> common.pluginName(p.plugins[i]) != common.pluginName(p.plugins[j])
//@ define skipped(st *PodState, pl common.K8sPlugin) bool = st.skip[common.pluginName(pl)]

//@ func (*K8sPlugins).Name
//@   props C11
//@   pure
//@   ensures result == "k8s-plugins"
//@ end

// one plugin of the chain: IsRelevant, PreFilter (may ask to be skipped), Filter, Allocate, Bind; a failing Bind
// gives the reservation back at once.
//@ func (*K8sPlugins).bindPluginWrapper
//@   props C11
//@   requires p != nil && plugin != nil && pod != nil && node != nil && request != nil && podState != nil && podState.skip != nil
//@   requires !common.reservedBy(plugin) && !skipped(podState, plugin)
//@   modifies common.reservedBy(plugin), common.boundBy(plugin), podState.skip[*]
//@   ensures [only-own-skip-entry-written] forall k string :: k != common.pluginName(plugin) ==> podState.skip[k] == old(podState.skip[k])
//@   ensures [state-returned] result1 != nil
//@   ensures [success-means-bound-unless-irrelevant-or-skipped] result0 == nil && common.relevantTo(plugin, pod) && !skipped(podState, plugin) ==> common.boundBy(plugin) && common.reservedBy(plugin)
//@   ensures [failure-holds-no-reservation] result0 != nil ==> !common.reservedBy(plugin)
//@   ensures [irrelevant-or-skipped-plugin-untouched] !common.relevantTo(plugin, pod) || skipped(podState, plugin) ==> !common.reservedBy(plugin) && common.boundBy(plugin) == old(common.boundBy(plugin))
//@ end

// C11 "binding is all-or-nothing": PreBind runs every plugin in order and stops at the first error; success means
// every relevant, non-skipped plugin has its side objects in place and the reservations held are exactly the ones
// recorded in the stored state; failure leaves NO plugin holding a reservation, the in-memory node name cleared and
// no state behind.
//@ func (*K8sPlugins).PreBind
//@   props C11
//@   requires p != nil && pod != nil && node != nil && request != nil && pluginsOK(p) && namesDistinct(p)
//@   requires forall i int :: 0 <= i && i < len(p.plugins) ==> !common.reservedBy(p.plugins[i])     // no reservation outstanding before the attempt
//@   modifies pod.Spec.NodeName, family(common.reservedBy(nil)), family(common.boundBy(nil)), family(podStateOf(""))
//@   loop 1
//@     invariant -1 <= rangeindex && rangeindex < len(p.plugins)
//@     invariant podState != nil && podState.skip != nil && podState.states != nil && fresh(podState) && fresh(podState.skip) && fresh(podState.states)
//@     invariant forall j int :: 0 <= j && j <= rangeindex && common.relevantTo(p.plugins[j], pod) && !skipped(podState, p.plugins[j]) ==> common.boundBy(p.plugins[j])
//@     invariant forall j int :: 0 <= j && j < len(p.plugins) && common.reservedBy(p.plugins[j]) ==> j <= rangeindex && common.relevantTo(p.plugins[j], pod) && !skipped(podState, p.plugins[j])
//@     invariant forall j int :: rangeindex < j && j < len(p.plugins) ==> !podState.skip[common.pluginName(p.plugins[j])]
//@     invariant pod.Spec.NodeName == node.Name
//@     invariant forall m map[string]bool, k string :: old(allocated(m)) ==> m[k] == old(m[k]) && (k in m) == old(k in m)
//@     invariant forall u string :: podStateOf(u) == old(podStateOf(u))
//@     decreases len(p.plugins) - rangeindex
//@   loop 2
//@     invariant 0 <= i && i <= index
//@     invariant forall j int :: 0 <= j && j < len(p.plugins) && common.reservedBy(p.plugins[j]) ==> i <= j && j < index
//@     invariant forall u string :: podStateOf(u) == old(podStateOf(u))
//@     decreases index - i
//@   ensures [iface-Plugin.PreBind] pod.Name == old(pod.Name) && pod.Namespace == old(pod.Namespace) && pod.UID == old(pod.UID)
//@   ensures [node-name-set-iff-success] pod.Spec.NodeName == ite(result == nil, node.Name, "")
//@   ensures [success-means-every-relevant-plugin-bound] result == nil ==> (forall i int :: 0 <= i && i < len(p.plugins) && common.relevantTo(p.plugins[i], pod) && !skipped(podStateOf(string(pod.UID)), p.plugins[i]) ==> common.boundBy(p.plugins[i]))
//@   ensures [held-reservations-are-recorded] result == nil ==> (forall i int :: 0 <= i && i < len(p.plugins) && common.reservedBy(p.plugins[i]) ==> common.relevantTo(p.plugins[i], pod) && !skipped(podStateOf(string(pod.UID)), p.plugins[i]))
//@   ensures [failure-releases-every-reservation] result != nil ==> (forall i int :: 0 <= i && i < len(p.plugins) ==> !common.reservedBy(p.plugins[i]))
//@   ensures [state-stored-on-success] result == nil ==> podStateOf(string(pod.UID)) != nil && podStateOf(string(pod.UID)).skip != nil
//@   ensures [no-state-on-failure] result != nil ==> podStateOf(string(pod.UID)) == old(podStateOf(string(pod.UID)))
//@   ensures [other-pods-state-untouched] forall u string :: u != string(pod.UID) ==> podStateOf(u) == old(podStateOf(u))
//@ end

// C11 "... the attempt's side effects removed": Rollback consumes the stored state and gives back the reservation of
// EVERY plugin that state records as reserved (relevant and not skipped); it cannot fail and never touches the pod.
//@ func (*K8sPlugins).Rollback
//@   props C11
//@   requires p != nil && pod != nil && node != nil && pluginsOK(p)
//@   modifies family(common.reservedBy(nil)), family(podStateOf(""))
//@   loop 1
//@     invariant -1 <= rangeindex && rangeindex < len(p.plugins)
//@     invariant forall j int :: 0 <= j && j <= rangeindex && common.relevantTo(p.plugins[j], pod) && !skipped(podState, p.plugins[j]) ==> !common.reservedBy(p.plugins[j])
//@     invariant forall pl common.K8sPlugin :: common.reservedBy(pl) ==> old(common.reservedBy(pl))
//@     invariant podStateOf(string(pod.UID)) == nil
//@     invariant forall u string :: u != string(pod.UID) ==> podStateOf(u) == old(podStateOf(u))
//@     decreases len(p.plugins) - rangeindex
//@   ensures [iface-Plugin.Rollback] pod.Name == old(pod.Name) && pod.Namespace == old(pod.Namespace) && pod.UID == old(pod.UID) && pod.Labels == old(pod.Labels)
//@   ensures [never-fails] result == nil
//@   ensures [state-consumed] podStateOf(string(pod.UID)) == nil
//@   ensures [other-pods-state-untouched] forall u string :: u != string(pod.UID) ==> podStateOf(u) == old(podStateOf(u))
//@   ensures [every-recorded-reservation-released] old(podStateOf(string(pod.UID))) != nil ==> (forall i int :: 0 <= i && i < len(p.plugins) && common.relevantTo(p.plugins[i], pod) && !skipped(old(podStateOf(string(pod.UID))), p.plugins[i]) ==> !common.reservedBy(p.plugins[i]))
//@   ensures [no-state-nothing-to-do] old(podStateOf(string(pod.UID))) == nil ==> (forall pl common.K8sPlugin :: common.reservedBy(pl) == old(common.reservedBy(pl)))
//@   ensures [no-new-reservation] forall pl common.K8sPlugin :: common.reservedBy(pl) ==> old(common.reservedBy(pl))
//@ end

// PostBind consumes the stored state; reservations and side objects stay (the pod is bound).
//@ func (*K8sPlugins).PostBind
//@   props C11
//@   requires p != nil && pod != nil && node != nil && pluginsOK(p)
//@   modifies family(podStateOf(""))
//@   loop 1
//@     invariant -1 <= rangeindex && rangeindex < len(p.plugins)
//@     invariant podStateOf(string(pod.UID)) == nil
//@     invariant forall u string :: u != string(pod.UID) ==> podStateOf(u) == old(podStateOf(u))
//@     decreases len(p.plugins) - rangeindex
//@   ensures [state-consumed] podStateOf(string(pod.UID)) == nil
//@   ensures [other-pods-state-untouched] forall u string :: u != string(pod.UID) ==> podStateOf(u) == old(podStateOf(u))
//@ end
