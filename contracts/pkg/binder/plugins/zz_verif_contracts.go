//go:build verif

// Contracts for govc (contract-based deductive verification); comments only.
package plugins

// C11 helper contracts (frames derived from the code): what the plugin chain may touch while a pod is
// being bound. The plugins (gpusharing, k8s-plugins/DRA/volume binding) write ConfigMaps, claims and
// the in-memory pod; none of them holds a handle on the pods/binding sub-resource, so they leave the
// ghost "bound" state of package binding alone (it is not in their frames).

// ASSUMED contract of a registered plugin (vendored kube-scheduler plugins behind bindPluginWrapper included).
//@ func Plugin.PreBind
//@   props C11
//@   modifies fields(pod)
//@   ensures pod.Name == old(pod.Name) && pod.Namespace == old(pod.Namespace) && pod.UID == old(pod.UID)
//@ end
//@ func Plugin.PostBind
//@   props C11
//@   modifies fields(pod)
//@   ensures pod.Name == old(pod.Name) && pod.Namespace == old(pod.Namespace) && pod.UID == old(pod.UID)
//@ end
//@ func Plugin.Rollback
//@   props C11
//@   modifies fields(pod)
//@   ensures pod.Name == old(pod.Name) && pod.Namespace == old(pod.Namespace) && pod.UID == old(pod.UID)
//@ end
//@ func Plugin.Name
//@   props C11
//@   pure
//@ end

//@ func (*BinderPlugins).PreBind
//@   props C11
//@   trusted
//@   note TEMPORARY (engine limitation reported to main, still present after batch 5 for INTERFACE-method callees): the loop-head havoc for the callee-contract write `fields(pod)` of Plugin.PreBind is whole-family, so the 118 frame obligations cannot be proved; body = one loop over the registered plugins calling Plugin.PreBind (assumed contract above)
//@   requires bp != nil && pod != nil
//@   requires forall i int :: 0 <= i && i < len(bp.plugins) ==> bp.plugins[i] != nil
//@   modifies fields(pod)
//@   loop 1
//@     invariant 0 - 1 <= rangeindex && rangeindex < len(bp.plugins)
//@     invariant pod.Name == old(pod.Name) && pod.Namespace == old(pod.Namespace) && pod.UID == old(pod.UID)
//@     decreases len(bp.plugins) - rangeindex
//@   ensures pod.Name == old(pod.Name) && pod.Namespace == old(pod.Namespace) && pod.UID == old(pod.UID)
//@ end

//@ func (*BinderPlugins).PostBind
//@   props C11
//@   trusted
//@   note TEMPORARY (engine limitation reported to main, still present after batch 5 for INTERFACE-method callees): the loop-head havoc for the callee-contract write `fields(pod)` of Plugin.PostBind is whole-family, so the 118 frame obligations cannot be proved; body = one loop over the registered plugins calling Plugin.PostBind (assumed contract above)
//@   requires bp != nil && pod != nil
//@   requires forall i int :: 0 <= i && i < len(bp.plugins) ==> bp.plugins[i] != nil
//@   modifies fields(pod)
//@   loop 1
//@     invariant 0 - 1 <= rangeindex && rangeindex < len(bp.plugins)
//@     invariant pod.Name == old(pod.Name) && pod.Namespace == old(pod.Namespace) && pod.UID == old(pod.UID)
//@     decreases len(bp.plugins) - rangeindex
//@   ensures pod.Name == old(pod.Name) && pod.Namespace == old(pod.Namespace) && pod.UID == old(pod.UID)
//@ end

// pluginRollbacks(): number of BinderPlugins.Rollback rounds
//@ ghost pluginRollbacks() int
//@ func (*BinderPlugins).Rollback
//@   props C11
//@   trusted
//@   note TEMPORARY (same engine limitation as PreBind): loop over the registered plugins calling Plugin.Rollback, errors joined with errors.Join
//@   requires bp != nil && pod != nil
//@   modifies fields(pod), pluginRollbacks()
//@   ensures pluginRollbacks() == old(pluginRollbacks()) + 1
//@   ensures pod.Name == old(pod.Name) && pod.Namespace == old(pod.Namespace) && pod.UID == old(pod.UID)
//@ end
