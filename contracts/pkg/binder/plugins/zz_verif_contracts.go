//go:build verif

// Contracts for govc (contract-based deductive verification); comments only.
package plugins

// C11 helper contracts (frames derived from the code): what the plugin chain may touch while a pod is
// being bound. The plugins (gpusharing, k8s-plugins/DRA/volume binding) write ConfigMaps, claims and
// the in-memory pod; none of them holds a handle on the pods/binding sub-resource, so they leave the
// ghost "bound" state of package binding alone (it is not in their frames).

//@ ghost pluginRollbacks() int
// ASSUMED contract of a registered plugin (vendored kube-scheduler plugins behind bindPluginWrapper included).
// BACKED BY PROOFS for the two in-repo implementations that cmd/binder registers: every clause below (frame within
// fields(pod), pod identity, Rollback keeps pod.Labels) is an `ensures [iface-Plugin.*]` / frame obligation of
//   gpusharing.(*GPUSharing).PreBind / PostBind / Rollback      (contracts/pkg/binder/plugins/gpusharing) and
//   k8s_plugins.(*K8sPlugins).PreBind / PostBind / Rollback      (contracts/pkg/binder/plugins/k8s-plugins),
// which in turn rest on the K8sPlugin.* interface contracts (k8s-plugins/common) proved for dynamicresources and
// volumebinding. The implementations additionally change their own store ghosts (ConfigMaps: gpusharingconfigmap.cmStored;
// kube plugins: common.reservedBy / common.boundBy, k8s_plugins.podStateOf); those families are mentioned by no
// caller-side contract and are therefore not listed in the frames here. pluginRollbacks() counts calls (bumped by the
// call, not by a body).
//@ func Plugin.PreBind
//@   props C11
//@   modifies fields(pod)
//@   ensures pod.Name == old(pod.Name) && pod.Namespace == old(pod.Namespace) && pod.UID == old(pod.UID)
//@ end
//@ func Plugin.PostBind
//@   props C11
//@   modifies fields(pod)
//@   ensures pod.Name == old(pod.Name) && pod.Namespace == old(pod.Namespace) && pod.UID == old(pod.UID)
//@ end
// A plugin's Rollback undoes the plugin's own side objects (ConfigMaps, claims, volume reservations); it reads the
// pod's labels and never relabels the in-memory pod (gpusharing.Rollback / K8sPlugins.Rollback -> UnAllocate only
// read the pod): the labels Binder.Rollback hands to RemovePodGpuGroupsConnection are the ones it was given.
//@ func Plugin.Rollback
//@   props C11
//@   modifies fields(pod), pluginRollbacks()
//@   ensures pluginRollbacks() == old(pluginRollbacks()) + 1
//@   ensures pod.Name == old(pod.Name) && pod.Namespace == old(pod.Namespace) && pod.UID == old(pod.UID)
//@   ensures pod.Labels == old(pod.Labels)
//@ end
//@ func Plugin.Name
//@   props C11
//@   pure
//@ end

//@ func (*BinderPlugins).PreBind
//@   props C11
//@   requires bp != nil && pod != nil
//@   requires forall i int :: 0 <= i && i < len(bp.plugins) ==> bp.plugins[i] != nil
//@   modifies fields(pod)
//@   loop 1
//@     invariant 0 - 1 <= rangeindex && rangeindex < len(bp.plugins)
//@     invariant pod.Name == old(pod.Name) && pod.Namespace == old(pod.Namespace) && pod.UID == old(pod.UID)
//@     decreases len(bp.plugins) - rangeindex
//@   ensures pod.Name == old(pod.Name) && pod.Namespace == old(pod.Namespace) && pod.UID == old(pod.UID)
//@ end

//@ func (*BinderPlugins).PostBind
//@   props C11
//@   requires bp != nil && pod != nil
//@   requires forall i int :: 0 <= i && i < len(bp.plugins) ==> bp.plugins[i] != nil
//@   modifies fields(pod)
//@   loop 1
//@     invariant 0 - 1 <= rangeindex && rangeindex < len(bp.plugins)
//@     invariant pod.Name == old(pod.Name) && pod.Namespace == old(pod.Namespace) && pod.UID == old(pod.UID)
//@     decreases len(bp.plugins) - rangeindex
//@   ensures pod.Name == old(pod.Name) && pod.Namespace == old(pod.Namespace) && pod.UID == old(pod.UID)
//@ end

// pluginRollbacks(): number of Plugin.Rollback calls made so far
// every registered plugin is rolled back, also when an earlier plugin's rollback failed
//@ func (*BinderPlugins).Rollback
//@   props C11
//@   requires bp != nil && pod != nil
//@   requires forall i int :: 0 <= i && i < len(bp.plugins) ==> bp.plugins[i] != nil
//@   modifies fields(pod), pluginRollbacks()
//@   loop 1
//@     invariant 0 - 1 <= rangeindex && rangeindex < len(bp.plugins)
//@     invariant pluginRollbacks() == old(pluginRollbacks()) + rangeindex + 1
//@     invariant pod.Name == old(pod.Name) && pod.Namespace == old(pod.Namespace) && pod.UID == old(pod.UID)
//@     invariant pod.Labels == old(pod.Labels)
//@     decreases len(bp.plugins) - rangeindex
//@   ensures [every-plugin-rolled-back] pluginRollbacks() == old(pluginRollbacks()) + len(bp.plugins)
//@   ensures pod.Name == old(pod.Name) && pod.Namespace == old(pod.Namespace) && pod.UID == old(pod.UID)
//@   ensures [in-memory-labels-untouched] pod.Labels == old(pod.Labels)
//@ end
