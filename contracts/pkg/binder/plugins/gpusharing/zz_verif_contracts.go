//go:build verif

// Contracts for govc (contract-based deductive verification); comments only.
package gpusharing

//@ import constants "github.com/NVIDIA/KAI-scheduler/pkg/common/constants"

// ---- C11: the gpusharing binder plugin (ConfigMaps of a fractional-GPU pod) -------------------------------------
// (*GPUSharing) implements plugins.Plugin. Each method is PROVED against the clauses the assumed interface contract
// plugins.Plugin.<Method> promises at the invoke sites in (*BinderPlugins): frame within fields(pod) (here: the pod is
// not written at all), pod identity kept, Rollback keeps pod.Labels - clauses tagged [iface-Plugin.*] - plus the
// property-derived clauses about the ConfigMap store, which the interface contract does not mention (the store ghost
// gpusharingconfigmap.cmStored is outside Plugin.*'s frame and is mentioned by no caller-side contract). The ghost
// counter pluginRollbacks() of Plugin.Rollback counts calls; it is bumped by the call itself, not by a body.
// Store model: ghost gpusharingconfigmap.cmStored(k) (pkg/binder/common/gpusharingconfigmap). ASSUMED contracts of
// the controller-runtime client for ConfigMap objects (repeated in every package that talks to ConfigMaps):
// Delete: success or NotFound => the ConfigMap is gone; any other error => store unchanged.
//@ define cmObj(o ref) *v1.ConfigMap = unbox(o, "*v1.ConfigMap")
//@ define keyOfCM(o ref) string = gpusharingconfigmap.cmKey(cmObj(o).Namespace, cmObj(o).Name)
//@ func sigs.k8s.io/controller-runtime/pkg/client.Client.Delete
//@   props C11
//@   requires obj != nil && typeis(obj, "*v1.ConfigMap")     // ConfigMap-only model: any other object type fails this precondition loudly
//@   modifies family(gpusharingconfigmap.cmStored(""))
//@   ensures forall k string :: k != keyOfCM(obj) ==> gpusharingconfigmap.cmStored(k) == old(gpusharingconfigmap.cmStored(k))
//@   ensures typeis(obj, "*v1.ConfigMap") && (result == nil || gpusharingconfigmap.isNotFoundErr(result)) ==> gpusharingconfigmap.cmStored(keyOfCM(obj)) == nil
//@   ensures !(typeis(obj, "*v1.ConfigMap") && (result == nil || gpusharingconfigmap.isNotFoundErr(result))) ==> gpusharingconfigmap.cmStored(keyOfCM(obj)) == old(gpusharingconfigmap.cmStored(keyOfCM(obj)))
//@ end
//@ func sigs.k8s.io/controller-runtime/pkg/client.IgnoreNotFound
//@   props C11
//@   pure
//@   ensures (result == nil) == (err == nil || gpusharingconfigmap.isNotFoundErr(err))
//@   ensures result == nil || result == err
//@ end
//@ func strconv.Itoa
//@   props C11
//@   trusted
//@   note library function (no body in the loaded program): deterministic function of its argument
//@   pure
//@   ensures result == gpusharingconfigmap.itoa(arg0)
//@ end
//@ func golang.org/x/exp/slices.Clone
//@   props C11
//@   pure
//@   fresh
//@   ensures len(result) == len(s)
//@ end

//@ define shared(br *v1alpha2.BindRequest) bool = br.Spec.ReceivedResourceType == "Fraction"

//@ func (*GPUSharing).Name
//@   props C11
//@   pure
//@   ensures result == "gpusharing"
//@ end
//@ func (*GPUSharing).PostBind
//@   props C11
//@   pure
//@ end

// a ConfigMap is gone after a successful delete (NotFound counts as success); nothing else is touched
//@ func (*GPUSharing).deleteConfigMap
//@   props C11
//@   requires p != nil && p.kubeClient != nil && gpusharingconfigmap.storeWF()
//@   modifies family(gpusharingconfigmap.cmStored(""))
//@   ensures [store-wf] gpusharingconfigmap.storeWF()
//@   ensures [deleted-on-success] result == nil ==> gpusharingconfigmap.cmStored(gpusharingconfigmap.cmKey(namespace, name)) == nil
//@   ensures [kept-on-failure] result != nil ==> gpusharingconfigmap.cmStored(gpusharingconfigmap.cmKey(namespace, name)) == old(gpusharingconfigmap.cmStored(gpusharingconfigmap.cmKey(namespace, name)))
//@   ensures [only-this-configmap] forall k string :: k != gpusharingconfigmap.cmKey(namespace, name) ==> gpusharingconfigmap.cmStored(k) == old(gpusharingconfigmap.cmStored(k))
//@ end

// C11 "... with its side objects in place (GPU-group labels, visible-device and portion settings ...)": for a
// fractional (shared-GPU) request a nil result means both ConfigMaps of the fraction container exist and the
// capabilities ConfigMap carries the portion of the BindRequest; a whole-GPU request creates and writes NOTHING; in
// every case (also when a call in the middle fails) only the two ConfigMaps of the fraction container can have been
// created or changed - exactly the ones Rollback deletes.
//@ func (*GPUSharing).PreBind
//@   props C11
//@   requires p != nil && p.kubeClient != nil && pod != nil && bindRequest != nil && state != nil && len(pod.Spec.Containers) > 0
// the scheduler always fills ReceivedGPU for a fraction request (cache.go createBindRequest); the CRD does not force it
//@   requires shared(bindRequest) ==> bindRequest.Spec.ReceivedGPU != nil
//@   requires gpusharingconfigmap.storeWF()     // model well-formedness (every stored object exists), kept by every function here
//@   modifies family(gpusharingconfigmap.cmStored(""))
//@   ensures [store-wf] gpusharingconfigmap.storeWF()
//@   loop 1
//@     invariant -1 <= rangeindex && rangeindex < len(reservedGPUIds)
//@     invariant fresh(reservedGPUIds)
//@     decreases len(reservedGPUIds) - rangeindex
//@   ensures [iface-Plugin.PreBind] pod.Name == old(pod.Name) && pod.Namespace == old(pod.Namespace) && pod.UID == old(pod.UID)
//@   ensures [whole-gpu-request-creates-nothing] !shared(bindRequest) ==> result == nil && (forall k string :: gpusharingconfigmap.cmStored(k) == old(gpusharingconfigmap.cmStored(k)))
//@   ensures [success-means-capabilities-configmap-present] result == nil && shared(bindRequest) ==> gpusharingconfigmap.cmStored(common.capKey(pod, containerRef)) != nil
//@   ensures [success-means-env-configmap-present] result == nil && shared(bindRequest) ==> gpusharingconfigmap.cmStored(common.envKey(pod, containerRef)) != nil
//@   ensures [portion-of-the-request-written] result == nil && shared(bindRequest) ==> gpusharingconfigmap.cmStored(common.capKey(pod, containerRef)).Data[common.GPUPortion] == bindRequest.Spec.ReceivedGPU.Portion
//@   ensures [visible-devices-of-the-reservation-written] result == nil && shared(bindRequest) ==> gpusharingconfigmap.cmStored(ite(common.nvdFromConfigMap(containerRef, len(containerRef.Container.Env)), common.capKey(pod, containerRef), common.envKey(pod, containerRef))).Data[constants.NvidiaVisibleDevices] == nVisibleDevicesStr
//@   ensures [no-container-nothing-written] shared(bindRequest) && containerRef == nil ==> result != nil && (forall k string :: gpusharingconfigmap.cmStored(k) == old(gpusharingconfigmap.cmStored(k)))
//@   ensures [only-the-two-configmaps-of-the-fraction-container] shared(bindRequest) && containerRef != nil ==> (forall k string :: k != common.capKey(pod, containerRef) && k != common.envKey(pod, containerRef) ==> gpusharingconfigmap.cmStored(k) == old(gpusharingconfigmap.cmStored(k)))
//@ end

// C11 "... or unbound with the request reported Failed and the attempt's side effects removed": Rollback deletes
// exactly the two ConfigMaps PreBind may have created for a fractional request (an absent one counts as deleted, a
// failing delete is reported and does not stop the other delete), and nothing for a whole-GPU request.
//@ func (*GPUSharing).Rollback
//@   props C11
//@   requires p != nil && p.kubeClient != nil && pod != nil && bindRequest != nil && len(pod.Spec.Containers) > 0
//@   requires gpusharingconfigmap.storeWF()
//@   modifies family(gpusharingconfigmap.cmStored(""))
//@   loop 1 unroll 2
//@   ensures [store-wf] gpusharingconfigmap.storeWF()
//@   ensures [whole-gpu-request-deletes-nothing] !shared(bindRequest) ==> result == nil && (forall k string :: gpusharingconfigmap.cmStored(k) == old(gpusharingconfigmap.cmStored(k)))
//@   ensures [both-configmaps-deleted] result == nil && shared(bindRequest) && containerRef != nil && capabilitiesConfigMapName != "" && directEnvVarsMapName != "" ==> gpusharingconfigmap.cmStored(common.capKey(pod, containerRef)) == nil && gpusharingconfigmap.cmStored(common.envKey(pod, containerRef)) == nil
//@   ensures [only-the-two-configmaps-of-the-fraction-container] shared(bindRequest) && containerRef != nil ==> (forall k string :: k != common.capKey(pod, containerRef) && k != common.envKey(pod, containerRef) ==> gpusharingconfigmap.cmStored(k) == old(gpusharingconfigmap.cmStored(k)))
//@   ensures [nothing-created] forall k string :: gpusharingconfigmap.cmStored(k) == nil || gpusharingconfigmap.cmStored(k) == old(gpusharingconfigmap.cmStored(k))
//@   ensures [iface-Plugin.Rollback] pod.Name == old(pod.Name) && pod.Namespace == old(pod.Namespace) && pod.UID == old(pod.UID) && pod.Labels == old(pod.Labels)
//@ end
