//go:build verif

// Contracts for govc (contract-based deductive verification); comments only.
package gpurequesthandler

//@ import res "github.com/NVIDIA/KAI-scheduler/pkg/common/resources"
// The parsers as functions of the annotation string (res.pfVal/pfOk, res.puVal/puOk, res.piVal/piOk) and
// the property-level notions res.wfFraction / res.wfPosInt are defined once, in pkg/common/resources.

// C19: "Every GPU request that admission accepts (fraction ...) denotes a finite positive quantity":
// a present gpu-fraction annotation is accepted iff it parses to a finite f with 0 < f < 1.
// (Before fix 1c0b67c "NaN" was accepted: NaN <= 0 and NaN >= 1 are both false.)
//@ func validateGpuFractionAnnotation
//@   props C19
//@   ieee
//@   pure
//@   ensures [fraction-wellformed-iff] (result == nil) == (!hasGpuFractionAnnotation || res.wfFraction(gpuFractionFromAnnotation))
//@   lemma [rejects-nan] hasGpuFractionAnnotation && isnan(res.pfVal(gpuFractionFromAnnotation)) ==> result != nil
//@   lemma [rejects-inf] hasGpuFractionAnnotation && isinf(res.pfVal(gpuFractionFromAnnotation)) ==> result != nil
//@   lemma [rejects-unparsable] hasGpuFractionAnnotation && !res.pfOk(gpuFractionFromAnnotation) ==> result != nil
//@   lemma [rejects-one] hasGpuFractionAnnotation && isfinite(res.pfVal(gpuFractionFromAnnotation)) && fval(res.pfVal(gpuFractionFromAnnotation)) >= 1.0 ==> result != nil
//@   lemma [rejects-zero] hasGpuFractionAnnotation && isfinite(res.pfVal(gpuFractionFromAnnotation)) && fval(res.pfVal(gpuFractionFromAnnotation)) <= 0.0 ==> result != nil
//@ end

// C19: gpu-memory present ==> 1 <= m <= MaxInt64, where m is what the scheduler / binder read with
// ParseInt.  (Before fix 1c0b67c the validator used ParseUint: (MaxInt64, MaxUint64] was accepted.)
//@ func validateMemoryAnnotation
//@   props C19
//@   pure
//@   ensures [memory-wellformed-iff] (result == nil) == (!hasGpuMemoryAnnotation || res.wfPosInt(gpuMemoryFromAnnotation))
//@   lemma [rejects-above-maxint64] hasGpuMemoryAnnotation && res.puOk(gpuMemoryFromAnnotation) && res.puVal(gpuMemoryFromAnnotation) > res.maxInt64() ==> result != nil
//@   lemma [rejects-nonpositive] hasGpuMemoryAnnotation && res.piOk(gpuMemoryFromAnnotation) && res.piVal(gpuMemoryFromAnnotation) <= 0 ==> result != nil
//@ end

//@ func validateMultiFractionRequest
//@   props C19
//@   pure
//@   ensures [count-wellformed-iff] (result == nil) == (!hasGpuFractionsCount || res.wfPosInt(gpuFractionsCountFromAnnotation))
//@   lemma [rejects-above-maxint64] hasGpuFractionsCount && res.puOk(gpuFractionsCountFromAnnotation) && res.puVal(gpuFractionsCountFromAnnotation) > res.maxInt64() ==> result != nil
//@   lemma [rejects-nonpositive] hasGpuFractionsCount && res.piOk(gpuFractionsCountFromAnnotation) && res.piVal(gpuFractionsCountFromAnnotation) <= 0 ==> result != nil
//@ end

// ---- whole-GPU limit ------------------------------------------------------------------------
// "whole GPU" = some regular or init container carries an nvidia.com/gpu limit.  Index i runs over the
// regular containers followed by the init containers.
//@ define gpuLimitAt(pod *v1.Pod, i int) bool = ite(i < len(pod.Spec.Containers), constants.NvidiaGpuResource in pod.Spec.Containers[i].Resources.Limits, constants.NvidiaGpuResource in pod.Spec.InitContainers[i - len(pod.Spec.Containers)].Resources.Limits)
//@ define hasWholeGpuLimit(pod *v1.Pod) bool = exists i int :: 0 <= i && i < len(pod.Spec.Containers) + len(pod.Spec.InitContainers) && gpuLimitAt(pod, i)

//@ func getFirstGPULimit
//@   props C19
//@   requires pod != nil
//@   pure
//@   loop 1
//@     invariant -1 <= rangeindex && rangeindex < len(containers)
//@     invariant len(containers) == len(pod.Spec.Containers) + len(pod.Spec.InitContainers)
//@     invariant forall j int :: 0 <= j && j < len(containers) ==> (constants.NvidiaGpuResource in containers[j].Resources.Limits) == gpuLimitAt(pod, j)
//@     invariant forall j int :: 0 <= j && j <= rangeindex ==> !gpuLimitAt(pod, j)
//@     # ground instance of invariant 3 for the element the next iteration looks at (hint for [found])
//@     invariant rangeindex + 1 < len(containers) ==> (constants.NvidiaGpuResource in containers[rangeindex + 1].Resources.Limits) == gpuLimitAt(pod, rangeindex + 1)
//@     decreases len(containers) - rangeindex
//@   ensures [found] result != nil ==> hasWholeGpuLimit(pod)
//@   ensures [none] result == nil ==> !hasWholeGpuLimit(pod)
//@ end

// ---- the validator shared by admission (gpusharing.Validate) and the binder plugin ---------------
//@ define mpsWithoutFraction(pod *v1.Pod) bool = !res.hasFrac(pod) && !res.hasMem(pod) && constants.MpsAnnotation in pod.Annotations && pod.Annotations[constants.MpsAnnotation] == "true"
// combinations that must be rejected whatever the values are (C19: "not both fraction and memory / whole GPU";
// a device count needs a portion or an amount of memory; MPS only with a fraction)
//@ define badCombination(pod *v1.Pod) bool = mpsWithoutFraction(pod) || (res.hasFrac(pod) && hasWholeGpuLimit(pod)) || (res.hasMem(pod) && (res.hasFrac(pod) || hasWholeGpuLimit(pod))) || (res.hasCount(pod) && !res.hasFrac(pod) && !res.hasMem(pod))
// what the property demands, value-wise
//@ define valuesWellFormed(pod *v1.Pod) bool = (!res.hasMem(pod) || res.wfPosInt(res.memStr(pod))) && (!res.hasFrac(pod) || res.wfFraction(res.fracStr(pod))) && (!res.hasCount(pod) || res.wfPosInt(res.countStr(pod)))

// C19 (top level): "Every GPU request that admission accepts (fraction, GPU memory, number of
// fractional devices, whole GPUs ...) denotes a finite positive quantity ... Anything the scheduler
// would treat as a GPU-sharing request is rejected by admission when malformed".
//@ func ValidateGpuRequests
//@   props C19
//@   ieee
//@   requires pod != nil
//@   pure
//@   ensures [exact] (result == nil) == (!badCombination(pod) && valuesWellFormed(pod))
//@   ensures [excl-fraction-whole] result == nil ==> !(res.hasFrac(pod) && hasWholeGpuLimit(pod))
//@   ensures [excl-memory-fraction] result == nil ==> !(res.hasMem(pod) && res.hasFrac(pod))
//@   ensures [excl-memory-whole] result == nil ==> !(res.hasMem(pod) && hasWholeGpuLimit(pod))
//@   ensures [count-needs-portion] result == nil && res.hasCount(pod) ==> res.hasFrac(pod) || res.hasMem(pod)
//@   ensures [mps-needs-fraction] result == nil ==> !mpsWithoutFraction(pod)
//@   ensures [accepts-wellformed] !badCombination(pod) && valuesWellFormed(pod) ==> result == nil
// (these three were red before fix 1c0b67c, then named lemma[finding-nan-fraction] / [finding-uint-memory] /
//  [finding-uint-count]: "NaN" was accepted, and so were values in (MaxInt64, MaxUint64])
//@   ensures [accepted-fraction-finite-in-0-1] result == nil && res.hasFrac(pod) ==> res.wfFraction(res.fracStr(pod))
//@   ensures [accepted-memory-in-1-maxint64] result == nil && res.hasMem(pod) ==> res.wfPosInt(res.memStr(pod))
//@   ensures [accepted-count-in-1-maxint64] result == nil && res.hasCount(pod) ==> res.wfPosInt(res.countStr(pod))
//@ end
