//go:build verif

// Contracts for govc (contract-based deductive verification); comments only.
package gpurequesthandler

// ---- the three parsers, as deterministic functions of the annotation string -------------------
//@ define pfVal(s string) real = tuple0(strconv.ParseFloat(s, 64))
//@ define pfOk(s string) bool = tuple1(strconv.ParseFloat(s, 64)) == nil
//@ define puVal(s string) int = tuple0(strconv.ParseUint(s, 10, 64))
//@ define puOk(s string) bool = tuple1(strconv.ParseUint(s, 10, 64)) == nil
//@ define piVal(s string) int = tuple0(strconv.ParseInt(s, 10, 64))
//@ define piOk(s string) bool = tuple1(strconv.ParseInt(s, 10, 64)) == nil

// C19: "Every GPU request that admission accepts (fraction, GPU memory, number of fractional
// devices ...) denotes a finite positive quantity".
// a well-formed fraction: parses, finite, 0 < f < 1
//@ define wfFraction(s string) bool = pfOk(s) && isfinite(pfVal(s)) && fval(pfVal(s)) > 0.0 && fval(pfVal(s)) < 1.0
// a well-formed positive count / amount of memory: a decimal integer n with 1 <= n <= MaxInt64
// (the scheduler and the binder read it with ParseInt(…, 10, 64))
//@ define wfPosInt(s string) bool = piOk(s) && 1 <= piVal(s) && piVal(s) <= 9223372036854775807

//@ func validateGpuFractionAnnotation
//@   props C19
//@   ieee
//@   pure
//@   ensures [accepts-wellformed] hasGpuFractionAnnotation && wfFraction(gpuFractionFromAnnotation) ==> result == nil
//@   ensures [absent-ok] !hasGpuFractionAnnotation ==> result == nil
//@   ensures [rejects-unparsable] hasGpuFractionAnnotation && !pfOk(gpuFractionFromAnnotation) ==> result != nil
//@   ensures [rejects-out-of-range] hasGpuFractionAnnotation && isfinite(pfVal(gpuFractionFromAnnotation)) && !(fval(pfVal(gpuFractionFromAnnotation)) > 0.0 && fval(pfVal(gpuFractionFromAnnotation)) < 1.0) ==> result != nil
//@   ensures [rejects-inf] hasGpuFractionAnnotation && isinf(pfVal(gpuFractionFromAnnotation)) ==> result != nil
// the property-derived clause: accepted ==> finite and 0 < f < 1.  The real code accepts "NaN"
// (lemma: proved at exit, NOT exported to callers, so a red finding cannot make a caller green).
//@   lemma [finding-nan-fraction] result == nil <==> (!hasGpuFractionAnnotation || wfFraction(gpuFractionFromAnnotation))
//@ end
