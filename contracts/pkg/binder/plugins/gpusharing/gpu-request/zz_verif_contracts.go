//go:build verif

// Contracts for govc (contract-based deductive verification); comments only.
package gpurequesthandler

// ---- the three parsers, as deterministic functions of the annotation string -------------------
//@ define pfVal(s string) real = tuple0(strconv.ParseFloat(s, 64))
//@ define pfOk(s string) bool = tuple1(strconv.ParseFloat(s, 64)) == nil
//@ define puVal(s string) int = tuple0(strconv.ParseUint(s, 10, 64))
//@ define puOk(s string) bool = tuple1(strconv.ParseUint(s, 10, 64)) == nil
//@ define piVal(s string) int = tuple0(strconv.ParseInt(s, 10, 64))
//@ define piOk(s string) bool = tuple1(strconv.ParseInt(s, 10, 64)) == nil

// C19: "Every GPU request that admission accepts (fraction, GPU memory, number of fractional
// devices ...) denotes a finite positive quantity".
// a well-formed fraction: parses, finite, 0 < f < 1
//@ define wfFraction(s string) bool = pfOk(s) && isfinite(pfVal(s)) && fval(pfVal(s)) > 0.0 && fval(pfVal(s)) < 1.0
// a well-formed positive count / amount of memory: a decimal integer n with 1 <= n <= MaxInt64
// (the scheduler and the binder read it with ParseInt(…, 10, 64))
//@ define wfPosInt(s string) bool = piOk(s) && 1 <= piVal(s) && piVal(s) <= 9223372036854775807

//@ define maxInt64() int = 9223372036854775807

// code-level characterisation (exported to callers): what the validator really accepts
//@ define okFractionCode(s string) bool = pfOk(s) && !(pfVal(s) <= 0.0) && !(pfVal(s) >= 1.0)
//@ define okUintCode(s string) bool = puOk(s) && puVal(s) >= 1

//@ func validateGpuFractionAnnotation
//@   props C19
//@   ieee
//@   pure
//@   ensures [exact] (result == nil) == (!hasGpuFractionAnnotation || okFractionCode(gpuFractionFromAnnotation))
//@   ensures [accepts-wellformed] hasGpuFractionAnnotation && wfFraction(gpuFractionFromAnnotation) ==> result == nil
//@   ensures [rejects-unparsable] hasGpuFractionAnnotation && !pfOk(gpuFractionFromAnnotation) ==> result != nil
//@   ensures [rejects-out-of-range] hasGpuFractionAnnotation && isfinite(pfVal(gpuFractionFromAnnotation)) && !(fval(pfVal(gpuFractionFromAnnotation)) > 0.0 && fval(pfVal(gpuFractionFromAnnotation)) < 1.0) ==> result != nil
//@   ensures [rejects-inf] hasGpuFractionAnnotation && isinf(pfVal(gpuFractionFromAnnotation)) ==> result != nil
//@   ensures [only-nan-escapes] result == nil && hasGpuFractionAnnotation && !wfFraction(gpuFractionFromAnnotation) ==> pfOk(gpuFractionFromAnnotation) && isnan(pfVal(gpuFractionFromAnnotation))
// the property-derived clause: accepted ==> finite and 0 < f < 1.  The real code accepts "NaN"
// (lemma: proved at exit, NOT exported to callers, so a red finding cannot make a caller green).
//@   lemma [finding-nan-fraction] result == nil <==> (!hasGpuFractionAnnotation || wfFraction(gpuFractionFromAnnotation))
//@ end

// C19: gpu-memory present ==> 1 <= m <= MaxInt64, where m is what the scheduler / binder read
// with ParseInt.  The validator uses ParseUint: values in (MaxInt64, MaxUint64] are accepted.
//@ func validateMemoryAnnotation
//@   props C19
//@   pure
//@   ensures [exact] (result == nil) == (!hasGpuMemoryAnnotation || okUintCode(gpuMemoryFromAnnotation))
//@   ensures [in-range-agrees] result == nil && hasGpuMemoryAnnotation && puVal(gpuMemoryFromAnnotation) <= maxInt64() ==> wfPosInt(gpuMemoryFromAnnotation) && piVal(gpuMemoryFromAnnotation) == puVal(gpuMemoryFromAnnotation)
//@   ensures [rejects-malformed] hasGpuMemoryAnnotation && !piOk(gpuMemoryFromAnnotation) && !puOk(gpuMemoryFromAnnotation) ==> result != nil
//@   ensures [rejects-nonpositive] hasGpuMemoryAnnotation && piOk(gpuMemoryFromAnnotation) && piVal(gpuMemoryFromAnnotation) <= 0 ==> result != nil
//@   lemma [finding-uint-memory] result == nil ==> (!hasGpuMemoryAnnotation || wfPosInt(gpuMemoryFromAnnotation))
//@ end

//@ func validateMultiFractionRequest
//@   props C19
//@   pure
//@   ensures [exact] (result == nil) == (!hasGpuFractionsCount || okUintCode(gpuFractionsCountFromAnnotation))
//@   ensures [in-range-agrees] result == nil && hasGpuFractionsCount && puVal(gpuFractionsCountFromAnnotation) <= maxInt64() ==> wfPosInt(gpuFractionsCountFromAnnotation) && piVal(gpuFractionsCountFromAnnotation) == puVal(gpuFractionsCountFromAnnotation)
//@   ensures [rejects-malformed] hasGpuFractionsCount && !piOk(gpuFractionsCountFromAnnotation) && !puOk(gpuFractionsCountFromAnnotation) ==> result != nil
//@   ensures [rejects-nonpositive] hasGpuFractionsCount && piOk(gpuFractionsCountFromAnnotation) && piVal(gpuFractionsCountFromAnnotation) <= 0 ==> result != nil
//@   lemma [finding-uint-count] result == nil ==> (!hasGpuFractionsCount || wfPosInt(gpuFractionsCountFromAnnotation))
//@ end

// ---- whole-GPU limit ------------------------------------------------------------------------
//@ define gpuLimitIn(cs []v1.Container) bool = exists i int :: 0 <= i && i < len(cs) && constants.NvidiaGpuResource in cs[i].Resources.Limits
//@ define hasWholeGpuLimit(pod *v1.Pod) bool = gpuLimitIn(pod.Spec.Containers) || gpuLimitIn(pod.Spec.InitContainers)

//@ define gpuLim(c v1.Container) bool = constants.NvidiaGpuResource in c.Resources.Limits
//@ func getFirstGPULimit
//@   props C19
//@   requires pod != nil
//@   pure
//@   loop 1
//@     invariant -1 <= rangeindex && rangeindex < len(containers)
//@     invariant len(containers) == len(pod.Spec.Containers) + len(pod.Spec.InitContainers)
//@     invariant forall j int :: 0 <= j && j < len(pod.Spec.Containers) ==> (constants.NvidiaGpuResource in containers[j].Resources.Limits) == (constants.NvidiaGpuResource in pod.Spec.Containers[j].Resources.Limits)
//@     invariant forall k int :: 0 <= k && k < len(pod.Spec.InitContainers) ==> (constants.NvidiaGpuResource in containers[len(pod.Spec.Containers) + k].Resources.Limits) == (constants.NvidiaGpuResource in pod.Spec.InitContainers[k].Resources.Limits)
//@     invariant forall j int :: 0 <= j && j <= rangeindex ==> !(constants.NvidiaGpuResource in containers[j].Resources.Limits)
//@     decreases len(containers) - rangeindex
//@   ensures [found] result != nil ==> hasWholeGpuLimit(pod)
//@   ensures [none-regular] result == nil ==> !gpuLimitIn(pod.Spec.Containers)
//@   ensures [none-init] result == nil ==> !gpuLimitIn(pod.Spec.InitContainers)
//@ end

// ---- the validator shared by admission (gpusharing.Validate) and the binder plugin ---------------
//@ define hasFrac(pod *v1.Pod) bool = constants.GpuFraction in pod.Annotations
//@ define hasMem(pod *v1.Pod) bool = constants.GpuMemory in pod.Annotations
//@ define hasCount(pod *v1.Pod) bool = constants.GpuFractionsNumDevices in pod.Annotations
//@ define fracStr(pod *v1.Pod) string = pod.Annotations[constants.GpuFraction]
//@ define memStr(pod *v1.Pod) string = pod.Annotations[constants.GpuMemory]
//@ define countStr(pod *v1.Pod) string = pod.Annotations[constants.GpuFractionsNumDevices]
//@ define mpsWithoutFraction(pod *v1.Pod) bool = !hasFrac(pod) && !hasMem(pod) && constants.MpsAnnotation in pod.Annotations && pod.Annotations[constants.MpsAnnotation] == "true"
// combinations that must be rejected whatever the values are (C19: "not both fraction and memory / whole GPU";
// a device count needs a portion or an amount of memory; MPS only with a fraction)
//@ define badCombination(pod *v1.Pod) bool = mpsWithoutFraction(pod) || (hasFrac(pod) && hasWholeGpuLimit(pod)) || (hasMem(pod) && (hasFrac(pod) || hasWholeGpuLimit(pod))) || (hasCount(pod) && !hasFrac(pod) && !hasMem(pod))
// what the code accepts, value-wise
//@ define valuesOkCode(pod *v1.Pod) bool = (!hasMem(pod) || okUintCode(memStr(pod))) && (!hasFrac(pod) || okFractionCode(fracStr(pod))) && (!hasCount(pod) || okUintCode(countStr(pod)))
// what the property demands, value-wise
//@ define valuesWellFormed(pod *v1.Pod) bool = (!hasMem(pod) || wfPosInt(memStr(pod))) && (!hasFrac(pod) || wfFraction(fracStr(pod))) && (!hasCount(pod) || wfPosInt(countStr(pod)))

// C19 (top level): "Every GPU request that admission accepts (fraction, GPU memory, number of
// fractional devices, whole GPUs ...) denotes a finite positive quantity ... Anything the scheduler
// would treat as a GPU-sharing request is rejected by admission when malformed".
//@ func ValidateGpuRequests
//@   props C19
//@   ieee
//@   requires pod != nil
//@   pure
//@   ensures [exact] (result == nil) == (!badCombination(pod) && valuesOkCode(pod))
//@   ensures [excl-fraction-whole] result == nil ==> !(hasFrac(pod) && hasWholeGpuLimit(pod))
//@   ensures [excl-memory-fraction] result == nil ==> !(hasMem(pod) && hasFrac(pod))
//@   ensures [excl-memory-whole] result == nil ==> !(hasMem(pod) && hasWholeGpuLimit(pod))
//@   ensures [count-needs-portion] result == nil && hasCount(pod) ==> hasFrac(pod) || hasMem(pod)
//@   ensures [mps-needs-fraction] result == nil ==> !mpsWithoutFraction(pod)
//@   ensures [accepts-wellformed] !badCombination(pod) && valuesWellFormed(pod) && (hasMem(pod) ==> puOk(memStr(pod))) && (hasCount(pod) ==> puOk(countStr(pod))) ==> result == nil
//@   ensures [fraction-only-nan-escapes] result == nil && hasFrac(pod) && !wfFraction(fracStr(pod)) ==> pfOk(fracStr(pod)) && isnan(pfVal(fracStr(pod)))
//@   ensures [memory-only-overflow-escapes] result == nil && hasMem(pod) && !wfPosInt(memStr(pod)) ==> puOk(memStr(pod)) && puVal(memStr(pod)) > maxInt64()
//@   ensures [count-only-overflow-escapes] result == nil && hasCount(pod) && !wfPosInt(countStr(pod)) ==> puOk(countStr(pod)) && puVal(countStr(pod)) > maxInt64()
// property-derived clauses the real code does not meet (kept as lemmas: never assumed by callers)
//@   lemma [finding-nan-fraction] result == nil && hasFrac(pod) ==> wfFraction(fracStr(pod))
//@   lemma [finding-uint-memory] result == nil && hasMem(pod) ==> wfPosInt(memStr(pod))
//@   lemma [finding-uint-count] result == nil && hasCount(pod) ==> wfPosInt(countStr(pod))
//@ end
