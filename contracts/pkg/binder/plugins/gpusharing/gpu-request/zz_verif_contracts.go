//go:build verif

// Contracts for govc (contract-based deductive verification); comments only.
package gpurequesthandler

//@ import res "github.com/NVIDIA/KAI-scheduler/pkg/common/resources"
// The parsers as functions of the annotation string (res.pfVal/pfOk, res.puVal/puOk, res.piVal/piOk) and
// the property-level notions res.wfFraction / res.wfPosInt are defined once, in pkg/common/resources.

// code-level characterisation (exported to callers): what the validator really accepts
//@ define okFractionCode(s string) bool = res.pfOk(s) && !(res.pfVal(s) <= 0.0) && !(res.pfVal(s) >= 1.0)
//@ define okUintCode(s string) bool = res.puOk(s) && res.puVal(s) >= 1

//@ func validateGpuFractionAnnotation
//@   props C19
//@   ieee
//@   pure
//@   ensures [exact] (result == nil) == (!hasGpuFractionAnnotation || okFractionCode(gpuFractionFromAnnotation))
//@   ensures [accepts-wellformed] hasGpuFractionAnnotation && res.wfFraction(gpuFractionFromAnnotation) ==> result == nil
//@   ensures [rejects-unparsable] hasGpuFractionAnnotation && !res.pfOk(gpuFractionFromAnnotation) ==> result != nil
//@   ensures [rejects-out-of-range] hasGpuFractionAnnotation && isfinite(res.pfVal(gpuFractionFromAnnotation)) && !(fval(res.pfVal(gpuFractionFromAnnotation)) > 0.0 && fval(res.pfVal(gpuFractionFromAnnotation)) < 1.0) ==> result != nil
//@   ensures [rejects-inf] hasGpuFractionAnnotation && isinf(res.pfVal(gpuFractionFromAnnotation)) ==> result != nil
//@   ensures [only-nan-escapes] result == nil && hasGpuFractionAnnotation && !res.wfFraction(gpuFractionFromAnnotation) ==> res.pfOk(gpuFractionFromAnnotation) && isnan(res.pfVal(gpuFractionFromAnnotation))
// the property-derived clause: accepted ==> finite and 0 < f < 1.  The real code accepts "NaN"
// (lemma: proved at exit, NOT exported to callers, so a red finding cannot make a caller green).
//@   lemma [finding-nan-fraction] result == nil <==> (!hasGpuFractionAnnotation || res.wfFraction(gpuFractionFromAnnotation))
//@ end

// C19: gpu-memory present ==> 1 <= m <= MaxInt64, where m is what the scheduler / binder read
// with ParseInt.  The validator uses ParseUint: values in (MaxInt64, MaxUint64] are accepted.
//@ func validateMemoryAnnotation
//@   props C19
//@   pure
//@   ensures [exact] (result == nil) == (!hasGpuMemoryAnnotation || okUintCode(gpuMemoryFromAnnotation))
//@   ensures [in-range-agrees] result == nil && hasGpuMemoryAnnotation && res.puVal(gpuMemoryFromAnnotation) <= res.maxInt64() ==> res.wfPosInt(gpuMemoryFromAnnotation) && res.piVal(gpuMemoryFromAnnotation) == res.puVal(gpuMemoryFromAnnotation)
//@   ensures [rejects-malformed] hasGpuMemoryAnnotation && !res.piOk(gpuMemoryFromAnnotation) && !res.puOk(gpuMemoryFromAnnotation) ==> result != nil
//@   ensures [rejects-nonpositive] hasGpuMemoryAnnotation && res.piOk(gpuMemoryFromAnnotation) && res.piVal(gpuMemoryFromAnnotation) <= 0 ==> result != nil
//@   lemma [finding-uint-memory] result == nil ==> (!hasGpuMemoryAnnotation || res.wfPosInt(gpuMemoryFromAnnotation))
//@ end

//@ func validateMultiFractionRequest
//@   props C19
//@   pure
//@   ensures [exact] (result == nil) == (!hasGpuFractionsCount || okUintCode(gpuFractionsCountFromAnnotation))
//@   ensures [in-range-agrees] result == nil && hasGpuFractionsCount && res.puVal(gpuFractionsCountFromAnnotation) <= res.maxInt64() ==> res.wfPosInt(gpuFractionsCountFromAnnotation) && res.piVal(gpuFractionsCountFromAnnotation) == res.puVal(gpuFractionsCountFromAnnotation)
//@   ensures [rejects-malformed] hasGpuFractionsCount && !res.piOk(gpuFractionsCountFromAnnotation) && !res.puOk(gpuFractionsCountFromAnnotation) ==> result != nil
//@   ensures [rejects-nonpositive] hasGpuFractionsCount && res.piOk(gpuFractionsCountFromAnnotation) && res.piVal(gpuFractionsCountFromAnnotation) <= 0 ==> result != nil
//@   lemma [finding-uint-count] result == nil ==> (!hasGpuFractionsCount || res.wfPosInt(gpuFractionsCountFromAnnotation))
//@ end

// ---- whole-GPU limit ------------------------------------------------------------------------
// "whole GPU" = some regular or init container carries an nvidia.com/gpu limit.  Index i runs over the
// regular containers followed by the init containers.
//@ define gpuLimitAt(pod *v1.Pod, i int) bool = ite(i < len(pod.Spec.Containers), constants.NvidiaGpuResource in pod.Spec.Containers[i].Resources.Limits, constants.NvidiaGpuResource in pod.Spec.InitContainers[i - len(pod.Spec.Containers)].Resources.Limits)
//@ define hasWholeGpuLimit(pod *v1.Pod) bool = exists i int :: 0 <= i && i < len(pod.Spec.Containers) + len(pod.Spec.InitContainers) && gpuLimitAt(pod, i)

//@ func getFirstGPULimit
//@   props C19
//@   requires pod != nil
//@   pure
//@   loop 1
//@     invariant -1 <= rangeindex && rangeindex < len(containers)
//@     invariant len(containers) == len(pod.Spec.Containers) + len(pod.Spec.InitContainers)
//@     invariant forall j int :: 0 <= j && j < len(containers) ==> (constants.NvidiaGpuResource in containers[j].Resources.Limits) == gpuLimitAt(pod, j)
//@     invariant forall j int :: 0 <= j && j <= rangeindex ==> !gpuLimitAt(pod, j)
//@     decreases len(containers) - rangeindex
//@   ensures [found] result != nil ==> hasWholeGpuLimit(pod)
//@   ensures [none] result == nil ==> !hasWholeGpuLimit(pod)
//@ end

// ---- the validator shared by admission (gpusharing.Validate) and the binder plugin ---------------
//@ define mpsWithoutFraction(pod *v1.Pod) bool = !res.hasFrac(pod) && !res.hasMem(pod) && constants.MpsAnnotation in pod.Annotations && pod.Annotations[constants.MpsAnnotation] == "true"
// combinations that must be rejected whatever the values are (C19: "not both fraction and memory / whole GPU";
// a device count needs a portion or an amount of memory; MPS only with a fraction)
//@ define badCombination(pod *v1.Pod) bool = mpsWithoutFraction(pod) || (res.hasFrac(pod) && hasWholeGpuLimit(pod)) || (res.hasMem(pod) && (res.hasFrac(pod) || hasWholeGpuLimit(pod))) || (res.hasCount(pod) && !res.hasFrac(pod) && !res.hasMem(pod))
// what the code accepts, value-wise
//@ define valuesOkCode(pod *v1.Pod) bool = (!res.hasMem(pod) || okUintCode(res.memStr(pod))) && (!res.hasFrac(pod) || okFractionCode(res.fracStr(pod))) && (!res.hasCount(pod) || okUintCode(res.countStr(pod)))
// what the property demands, value-wise
//@ define valuesWellFormed(pod *v1.Pod) bool = (!res.hasMem(pod) || res.wfPosInt(res.memStr(pod))) && (!res.hasFrac(pod) || res.wfFraction(res.fracStr(pod))) && (!res.hasCount(pod) || res.wfPosInt(res.countStr(pod)))

// C19 (top level): "Every GPU request that admission accepts (fraction, GPU memory, number of
// fractional devices, whole GPUs ...) denotes a finite positive quantity ... Anything the scheduler
// would treat as a GPU-sharing request is rejected by admission when malformed".
//@ func ValidateGpuRequests
//@   props C19
//@   ieee
//@   requires pod != nil
//@   pure
//@   ensures [exact] (result == nil) == (!badCombination(pod) && valuesOkCode(pod))
//@   ensures [excl-fraction-whole] result == nil ==> !(res.hasFrac(pod) && hasWholeGpuLimit(pod))
//@   ensures [excl-memory-fraction] result == nil ==> !(res.hasMem(pod) && res.hasFrac(pod))
//@   ensures [excl-memory-whole] result == nil ==> !(res.hasMem(pod) && hasWholeGpuLimit(pod))
//@   ensures [count-needs-portion] result == nil && res.hasCount(pod) ==> res.hasFrac(pod) || res.hasMem(pod)
//@   ensures [mps-needs-fraction] result == nil ==> !mpsWithoutFraction(pod)
//@   ensures [accepts-wellformed] !badCombination(pod) && valuesWellFormed(pod) && (res.hasMem(pod) ==> res.puOk(res.memStr(pod))) && (res.hasCount(pod) ==> res.puOk(res.countStr(pod))) ==> result == nil
//@   ensures [fraction-only-nan-escapes] result == nil && res.hasFrac(pod) && !res.wfFraction(res.fracStr(pod)) ==> res.pfOk(res.fracStr(pod)) && isnan(res.pfVal(res.fracStr(pod)))
//@   ensures [memory-only-overflow-escapes] result == nil && res.hasMem(pod) && !res.wfPosInt(res.memStr(pod)) ==> res.puOk(res.memStr(pod)) && res.puVal(res.memStr(pod)) > res.maxInt64()
//@   ensures [count-only-overflow-escapes] result == nil && res.hasCount(pod) && !res.wfPosInt(res.countStr(pod)) ==> res.puOk(res.countStr(pod)) && res.puVal(res.countStr(pod)) > res.maxInt64()
// property-derived clauses the real code does not meet (kept as lemmas: never assumed by callers)
//@   lemma [finding-nan-fraction] result == nil && res.hasFrac(pod) ==> res.wfFraction(res.fracStr(pod))
//@   lemma [finding-uint-memory] result == nil && res.hasMem(pod) ==> res.wfPosInt(res.memStr(pod))
//@   lemma [finding-uint-count] result == nil && res.hasCount(pod) ==> res.wfPosInt(res.countStr(pod))
//@ end
