//go:build verif

// Contracts for govc (contract-based deductive verification); comments only.
package resources

// ---- assumed models of k8s library methods (resource.Quantity is an opaque Real) ----

//@ func (*k8s.io/apimachinery/pkg/api/resource.Quantity).Add
//@   trusted
//@   note library method without body in the loaded program; Quantity modelled as an exact real number (A-QTY)
//@   requires q != nil
//@   modifies *q
//@   ensures *q == old(*q) + y
//@ end

//@ func (k8s.io/apimachinery/pkg/api/resource.Quantity).DeepCopy
//@   trusted
//@   note library method without body; a Quantity value copy denotes the same number
//@   pure
//@   ensures result == q
//@ end

//@ func (k8s.io/api/core/v1.ResourceList).DeepCopy
//@   trusted
//@   note generated deepcopy of map[ResourceName]Quantity in k8s.io/api (library, no body loaded)
//@   fresh
//@   ensures (in == nil) == (result == nil)
//@   ensures forall k v1.ResourceName :: (k in result) == (k in in)
//@   ensures forall k v1.ResourceName :: result[k] == in[k]
//@ end

// Property C20: "... equal the sums over its pods ..." - the sum of two resource lists is the
// pointwise sum (a resource absent from a list counts as 0), and the operands are not modified.
//@ func SumResources
//@   props C20
//@   fresh
//@   loop 1
//@     invariant total != nil && total != left && total != right && fresh(total)
//@     invariant forall k v1.ResourceName :: (k in total) == ((k in left) || ((k in right) && (k in visited)))
//@     invariant forall k v1.ResourceName :: total[k] == left[k] + ite(k in visited, right[k], 0.0)
//@     # frame of pre-existing Quantity cells (the loop only writes the local `sum`)
//@     invariant forall p *resource.Quantity :: old(allocated(p)) ==> *p == old(*p)
//@   ensures [nonnil] result != nil
//@   ensures [keys] forall k v1.ResourceName :: (k in result) == ((k in left) || (k in right))
//@   ensures [sum] forall k v1.ResourceName :: result[k] == left[k] + right[k]
//@ end
