//go:build verif

// Contracts for govc (contract-based deductive verification); comments only.
package controllers

// Property C20: "After reconciliation a PodGroup's reported requested, allocated and non-preemptible resources equal
// the SUMS over its pods by phase and current preemptibility".
//
// anyRes() is an arbitrary, unconstrained resource name (nullary uninterpreted constant, no axiom mentions it): a clause
// proved for anyRes() holds for EVERY resource name. It replaces `forall rn v1.ResourceName ::` around the sums because a
// range sum under an enclosing binder gets no unfolding instance (engine limit, see report).
//@ declare anyRes() v1.ResourceName

// the UIDs of a pod list are pairwise distinct (what the API server returns: one entry per object)
//@ define listedOnce(items []v1.Pod) bool = forall i int, j int :: 0 <= i && i < j && j < len(items) ==> items[i].UID != items[j].UID

// One step of the fold: the pod's requested / allocated lists (metadata.podReq / podAlloc: what GetPodMetadata computes
// for this pod) are added to the running totals; a pod whose metadata cannot be computed is an ERROR that leaves the
// totals untouched (it must not be skipped silently: the caller aborts).
//@ func addPodMetadata
//@   props C20
//@   requires podGroupMetadata != nil
//@   modifies podGroupMetadata.Requested, podGroupMetadata.Allocated
//@   ensures [errorKeepsTotals] result != nil ==> podGroupMetadata.Requested == old(podGroupMetadata.Requested) && podGroupMetadata.Allocated == old(podGroupMetadata.Allocated)
//@   ensures [nonNil] result == nil ==> podGroupMetadata.Requested != nil && podGroupMetadata.Allocated != nil
//@   ensures [addsRequested] result == nil ==> (forall rn v1.ResourceName :: podGroupMetadata.Requested[rn] == old(podGroupMetadata.Requested[rn]) + metadata.reqOfPod(pod, rn))
//@   ensures [addsAllocated] result == nil ==> (forall rn v1.ResourceName :: podGroupMetadata.Allocated[rn] == old(podGroupMetadata.Allocated[rn]) + metadata.allocOfPod(pod, rn))
//@   ensures [pendingUnscheduledAllocatesNothing] result == nil && !metadata.podIsAllocated(pod) ==> (forall rn v1.ResourceName :: metadata.allocOfPod(pod, rn) == 0.0)
//@ end

// "... equal the SUMS over its pods by phase": for every resource name,
//   Requested = sum over the listed pods of [pod Pending or Running] * podReq(pod)
//   Allocated = sum over the listed pods of [pod Pending or Running] * podAlloc(pod), and podAlloc(pod) = 0 for a Pending
//               pod whose first PodScheduled condition is missing or not True ([unscheduledAllocatesNothing]);
// "current preemptibility": Preemptible is what IsPreemptible answered in THIS reconcile.
//@ func (*PodGroupReconciler).calculatePodGroupMetadata
//@   props C20
//@   requires r != nil && podGroup != nil
//@   requires [listedOnce] listedOnce(relatedPods.Items)
//@   loop 1
//@     invariant 0 - 1 <= rangeindex && rangeindex < len(relatedPods.Items)
//@     invariant podGroupMetadata != nil && fresh(podGroupMetadata) && podGroupMetadata.Requested != nil && podGroupMetadata.Allocated != nil
//@     invariant podGroupMetadata.Preemptible == utilities.preemptibleNow(podGroup)
//@     invariant podGroupMetadata.Requested[anyRes()] == sum i in range(0, rangeindex + 1) :: metadata.reqOfPod(relatedPods.Items[i], anyRes())
//@     invariant podGroupMetadata.Allocated[anyRes()] == sum i in range(0, rangeindex + 1) :: metadata.allocOfPod(relatedPods.Items[i], anyRes())
//@     invariant forall j int :: 0 <= j && j <= rangeindex && !metadata.podIsAllocated(relatedPods.Items[j]) ==> metadata.allocOfPod(relatedPods.Items[j], anyRes()) == 0.0
//@     decreases len(relatedPods.Items) - rangeindex
//@   ensures [errorMeansNoMetadata] result1 != nil ==> result0 == nil
//@   ensures [successHasLists] result1 == nil ==> result0 != nil && result0.Requested != nil && result0.Allocated != nil
//@   ensures [currentPreemptibility] result1 == nil ==> result0.Preemptible == utilities.preemptibleNow(podGroup)
//@   ensures [requestedIsSum] result1 == nil ==> result0.Requested[anyRes()] == sum i in range(0, len(relatedPods.Items)) :: metadata.reqOfPod(relatedPods.Items[i], anyRes())
//@   ensures [allocatedIsSum] result1 == nil ==> result0.Allocated[anyRes()] == sum i in range(0, len(relatedPods.Items)) :: metadata.allocOfPod(relatedPods.Items[i], anyRes())
//@   ensures [unscheduledAllocatesNothing] result1 == nil ==> (forall j int :: 0 <= j && j < len(relatedPods.Items) && !metadata.podIsAllocated(relatedPods.Items[j]) ==> metadata.allocOfPod(relatedPods.Items[j], anyRes()) == 0.0)
//@ end
