//go:build verif

// Contracts for govc (contract-based deductive verification); comments only.
package metadata

// Property C20: "... equal the sums over its pods by phase ..." - which pods count:
// requested = pods that are Pending or Running; allocated = Running, or Pending and already
// scheduled (first PodScheduled condition is True).

// index of the first PodScheduled condition is i
//@ define firstScheduledAt(pod *v1.Pod, i int) bool = 0 <= i && i < len(pod.Status.Conditions) && pod.Status.Conditions[i].Type == v1.PodScheduled && (forall j int :: 0 <= j && j < i ==> pod.Status.Conditions[j].Type != v1.PodScheduled)
// the pod carries no PodScheduled condition at all
//@ define noScheduledCond(pod *v1.Pod) bool = forall i int :: 0 <= i && i < len(pod.Status.Conditions) ==> pod.Status.Conditions[i].Type != v1.PodScheduled
// closed forms (helper ctrl2; used as summand guards of the C20 folds):
// the first PodScheduled condition of the pod exists and is True
//@ define schedTrue(pod *v1.Pod) bool = exists i int :: firstScheduledAt(pod, i) && pod.Status.Conditions[i].Status == v1.ConditionTrue
// requested counts for Pending/Running pods; allocated counts for Running pods and for Pending pods that are already scheduled
//@ define podIsActive(pod *v1.Pod) bool = pod.Status.Phase == v1.PodPending || pod.Status.Phase == v1.PodRunning
//@ define podIsAllocated(pod *v1.Pod) bool = pod.Status.Phase == v1.PodRunning || (pod.Status.Phase == v1.PodPending && schedTrue(pod))
// b is the truth value of "the first PodScheduled condition of the pod exists and is True"
// (two clauses instead of an existential: every pod has either a first PodScheduled condition or none)
//@ define scheduledIs(pod *v1.Pod, b bool) bool = (noScheduledCond(pod) ==> !b) && (forall i int :: firstScheduledAt(pod, i) ==> b == (pod.Status.Conditions[i].Status == v1.ConditionTrue))

//@ func isActivePod
//@   props C20
//@   requires pod != nil
//@   pure
//@   ensures result == (pod.Status.Phase == v1.PodPending || pod.Status.Phase == v1.PodRunning)
//@ end

//@ func isPodScheduled
//@   props C20
//@   requires pod != nil
//@   pure
//@   loop 1
//@     invariant -1 <= rangeindex && rangeindex < len(pod.Status.Conditions)
//@     invariant forall j int :: 0 <= j && j <= rangeindex ==> pod.Status.Conditions[j].Type != v1.PodScheduled
//@     decreases len(pod.Status.Conditions) - rangeindex
//@   ensures [none] noScheduledCond(pod) ==> !result
//@   ensures [first] forall i int :: firstScheduledAt(pod, i) ==> result == (pod.Status.Conditions[i].Status == v1.ConditionTrue)
//@   ensures [closed] result == schedTrue(pod)
//@ end

//@ func isAllocatedPod
//@   props C20
//@   requires pod != nil
//@   pure
//@   ensures [running] pod.Status.Phase == v1.PodRunning ==> result
//@   ensures [otherPhases] pod.Status.Phase != v1.PodRunning && pod.Status.Phase != v1.PodPending ==> !result
//@   ensures [pendingUnscheduled] pod.Status.Phase == v1.PodPending && noScheduledCond(pod) ==> !result
//@   ensures [pendingScheduled] pod.Status.Phase == v1.PodPending ==> (forall i int :: firstScheduledAt(pod, i) ==> result == (pod.Status.Conditions[i].Status == v1.ConditionTrue))
//@   ensures [closed] result == podIsAllocated(pod)
//@ end

// Property C20: "requested, allocated ... equal the sums over its pods": folding one pod into the
// running totals adds the pod's lists pointwise (absent = 0); the pod's metadata is not modified.
//@ func (*PodGroupMetadata).AddPodMetadata
//@   props C20
//@   requires pgm != nil && podMetadata != nil
//@   modifies pgm.Requested, pgm.Allocated
//@   ensures [requestedSum] forall k v1.ResourceName :: pgm.Requested[k] == old(pgm.Requested[k]) + podMetadata.RequestedResources[k]
//@   ensures [allocatedSum] forall k v1.ResourceName :: pgm.Allocated[k] == old(pgm.Allocated[k]) + podMetadata.AllocatedResources[k]
//@   ensures [requestedKeys] forall k v1.ResourceName :: (k in pgm.Requested) == (old(k in pgm.Requested) || (k in podMetadata.RequestedResources))
//@   ensures [allocatedKeys] forall k v1.ResourceName :: (k in pgm.Allocated) == (old(k in pgm.Allocated) || (k in podMetadata.AllocatedResources))
//@   ensures [preemptibleKept] pgm.Preemptible == old(pgm.Preemptible)
//@   ensures [nonNil] pgm.Requested != nil && pgm.Allocated != nil
//@ end

// the accumulator starts from zero (empty lists, not preemptible until computed)
//@ func NewPodGroupMetadata
//@   props C20
//@   fresh
//@   ensures result != nil && result.Allocated != nil && result.Requested != nil
//@   ensures forall k v1.ResourceName :: !(k in result.Allocated) && !(k in result.Requested)
//@   ensures !result.Preemptible
//@ end

// Property C20: "sums over its pods by phase": a pod that is neither Pending nor Running contributes
// nothing (empty requested and allocated lists, no error, no API call).
// (what an active pod contributes - the fold over its containers plus GPU-sharing/DRA extraction -
//  needs recursive sums over the heap and API-client calls: not claimed, see report)
//@ func GetPodMetadata
//@   props C20
//@   requires pod != nil
//@   ensures [inactiveCountsNothing] old(pod.Status.Phase != v1.PodPending && pod.Status.Phase != v1.PodRunning) ==> result1 == nil && result0 != nil && (forall k v1.ResourceName :: !(k in result0.RequestedResources) && !(k in result0.AllocatedResources))
//@   ensures [inactiveNoSideEffect] old(pod.Status.Phase != v1.PodPending && pod.Status.Phase != v1.PodRunning) ==> pod.Status.Phase == old(pod.Status.Phase)
//@   ensures [errorMeansNoMetadata] result1 != nil ==> result0 == nil
//@   ensures [successHasLists] result1 == nil ==> result0 != nil && result0.RequestedResources != nil && result0.AllocatedResources != nil
//@   # closed form of "by phase" for the allocated list (the requested list: [inactiveCountsNothing])
//@   ensures [unallocatedCountsNothing] result1 == nil && !podIsAllocated(pod) ==> (forall k v1.ResourceName :: !(k in result0.AllocatedResources))
//@   # ASSUMED (naming): see the note at podReq / podAlloc below
//@   trust [requestedOf] result1 == nil ==> (forall r v1.ResourceName :: result0.RequestedResources[r] == podReq(string(pod.UID), pod.ResourceVersion, r))
//@   trust [allocatedOf] result1 == nil ==> (forall r v1.ResourceName :: result0.AllocatedResources[r] == podAlloc(string(pod.UID), pod.ResourceVersion, r))
//@   note [requestedOf] [allocatedOf] are ASSUMED: they NAME what GetPodMetadata computes for a pod (podReq / podAlloc, functions of the pod's API identity metadata.uid + metadata.resourceVersion and the resource name). Within one fold over a pod list whose UIDs are pairwise distinct (what the API server returns) this only names the value computed for each listed pod; across two reconciles it is the determinism assumption "same object version, unchanged cluster (nodes, resource claims) ==> same metadata". The callee reads the cluster through the client; its result is not a function of the in-memory pod alone.
//@ end

// ---- helper "ctrl2": what ONE pod contributes to the group totals, as named values (summands of the C20 folds) ----
// podReq / podAlloc: requested / allocated list GetPodMetadata computes for the pod object version (uid, resourceVersion).
// Keyed by API identity and not by the *v1.Pod pointer: the caller hands GetPodMetadata the address of a COPY of the
// list element (range variable, then by-value parameter), and the spec language cannot take the address of s[i].
//@ declare podReq(uid string, rv string, r v1.ResourceName) real
//@ declare podAlloc(uid string, rv string, r v1.ResourceName) real
// the closed forms "by phase" used as summands (quantifier-free: a summand must not contain a binder)
//@ define reqOfPod(p *v1.Pod, r v1.ResourceName) real = ite(podIsActive(p), podReq(string(p.UID), p.ResourceVersion, r), 0.0)
//@ define allocOfPod(p *v1.Pod, r v1.ResourceName) real = ite(podIsActive(p), podAlloc(string(p.UID), p.ResourceVersion, r), 0.0)

// The two per-pod computations: container requests folded with SumResources, plus GPU-sharing annotations
// (resource.ParseQuantity / MustParse / Quantity.Mul), the node's GPU-memory label (client.Get) and the pod's DRA
// claims (client.Get/List): outside the subset. ASSUMED: they do not write to objects that existed before the call.
//@ func calculateRequestedResources
//@   props C20
//@   trusted
//@   note body outside the subset (API reads through client.Client, resource.ParseQuantity/Quantity.Mul, DRA claim walk); assumed frame: writes nothing that existed before; the value is named by GetPodMetadata [requestedOf]
//@   requires pod != nil
//@   ensures [errorMeansNoList] result1 != nil ==> result0 == nil
//@   ensures [successHasList] result1 == nil ==> result0 != nil
//@ end

//@ func calculatedAllocatedResources
//@   props C20
//@   trusted
//@   note body outside the subset (API reads through client.Client: node GPU memory label, DRA claims; resource.MustParse); assumed frame: writes nothing that existed before; the value is named by GetPodMetadata [allocatedOf]
//@   requires pod != nil
//@   ensures [errorMeansNoList] result1 != nil ==> result0 == nil
//@   ensures [successHasList] result1 == nil ==> result0 != nil
//@ end
