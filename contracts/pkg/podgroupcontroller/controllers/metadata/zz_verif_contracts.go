//go:build verif

// Contracts for govc (contract-based deductive verification); comments only.
package metadata

// Property C20: "... equal the sums over its pods by phase ..." - which pods count:
// requested = pods that are Pending or Running; allocated = Running, or Pending and already
// scheduled (first PodScheduled condition is True).

// index of the first PodScheduled condition is i
//@ define firstScheduledAt(pod *v1.Pod, i int) bool = 0 <= i && i < len(pod.Status.Conditions) && pod.Status.Conditions[i].Type == v1.PodScheduled && (forall j int :: 0 <= j && j < i ==> pod.Status.Conditions[j].Type != v1.PodScheduled)
// the pod carries no PodScheduled condition at all
//@ define noScheduledCond(pod *v1.Pod) bool = forall i int :: 0 <= i && i < len(pod.Status.Conditions) ==> pod.Status.Conditions[i].Type != v1.PodScheduled
// b is the truth value of "the first PodScheduled condition of the pod exists and is True"
// (two clauses instead of an existential: every pod has either a first PodScheduled condition or none)
//@ define scheduledIs(pod *v1.Pod, b bool) bool = (noScheduledCond(pod) ==> !b) && (forall i int :: firstScheduledAt(pod, i) ==> b == (pod.Status.Conditions[i].Status == v1.ConditionTrue))

//@ func isActivePod
//@   props C20
//@   requires pod != nil
//@   pure
//@   ensures result == (pod.Status.Phase == v1.PodPending || pod.Status.Phase == v1.PodRunning)
//@ end

//@ func isPodScheduled
//@   props C20
//@   requires pod != nil
//@   pure
//@   loop 1
//@     invariant -1 <= rangeindex && rangeindex < len(pod.Status.Conditions)
//@     invariant forall j int :: 0 <= j && j <= rangeindex ==> pod.Status.Conditions[j].Type != v1.PodScheduled
//@     decreases len(pod.Status.Conditions) - rangeindex
//@   ensures [none] noScheduledCond(pod) ==> !result
//@   ensures [first] forall i int :: firstScheduledAt(pod, i) ==> result == (pod.Status.Conditions[i].Status == v1.ConditionTrue)
//@ end

//@ func isAllocatedPod
//@   props C20
//@   requires pod != nil
//@   pure
//@   ensures [running] pod.Status.Phase == v1.PodRunning ==> result
//@   ensures [otherPhases] pod.Status.Phase != v1.PodRunning && pod.Status.Phase != v1.PodPending ==> !result
//@   ensures [pendingUnscheduled] pod.Status.Phase == v1.PodPending && noScheduledCond(pod) ==> !result
//@   ensures [pendingScheduled] pod.Status.Phase == v1.PodPending ==> (forall i int :: firstScheduledAt(pod, i) ==> result == (pod.Status.Conditions[i].Status == v1.ConditionTrue))
//@ end

// Property C20: "requested, allocated ... equal the sums over its pods": folding one pod into the
// running totals adds the pod's lists pointwise (absent = 0); the pod's metadata is not modified.
//@ func (*PodGroupMetadata).AddPodMetadata
//@   props C20
//@   requires pgm != nil && podMetadata != nil
//@   modifies pgm.Requested, pgm.Allocated
//@   ensures [requestedSum] forall k v1.ResourceName :: pgm.Requested[k] == old(pgm.Requested[k]) + podMetadata.RequestedResources[k]
//@   ensures [allocatedSum] forall k v1.ResourceName :: pgm.Allocated[k] == old(pgm.Allocated[k]) + podMetadata.AllocatedResources[k]
//@   ensures [requestedKeys] forall k v1.ResourceName :: (k in pgm.Requested) == (old(k in pgm.Requested) || (k in podMetadata.RequestedResources))
//@   ensures [allocatedKeys] forall k v1.ResourceName :: (k in pgm.Allocated) == (old(k in pgm.Allocated) || (k in podMetadata.AllocatedResources))
//@   ensures [preemptibleKept] pgm.Preemptible == old(pgm.Preemptible)
//@   ensures [nonNil] pgm.Requested != nil && pgm.Allocated != nil
//@ end

// the accumulator starts from zero (empty lists, not preemptible until computed)
//@ func NewPodGroupMetadata
//@   props C20
//@   fresh
//@   ensures result != nil && result.Allocated != nil && result.Requested != nil
//@   ensures forall k v1.ResourceName :: !(k in result.Allocated) && !(k in result.Requested)
//@   ensures !result.Preemptible
//@ end

// Property C20: "sums over its pods by phase": a pod that is neither Pending nor Running contributes
// nothing (empty requested and allocated lists, no error, no API call).
// (what an active pod contributes - the fold over its containers plus GPU-sharing/DRA extraction -
//  needs recursive sums over the heap and API-client calls: not claimed, see report)
//@ func GetPodMetadata
//@   props C20
//@   requires pod != nil
//@   modifies *
//@   ensures [inactiveCountsNothing] old(pod.Status.Phase != v1.PodPending && pod.Status.Phase != v1.PodRunning) ==> result1 == nil && result0 != nil && (forall k v1.ResourceName :: !(k in result0.RequestedResources) && !(k in result0.AllocatedResources))
//@   ensures [inactiveNoSideEffect] old(pod.Status.Phase != v1.PodPending && pod.Status.Phase != v1.PodRunning) ==> pod.Status.Phase == old(pod.Status.Phase)
//@   ensures [errorMeansNoMetadata] result1 != nil ==> result0 == nil
//@ end
