//go:build verif

// Contracts for govc (contract-based deductive verification); comments only.
package patcher

// Property C20: "After reconciliation a PodGroup's reported requested, allocated and non-preemptible
// resources equal the sums over its pods by phase and current preemptibility".
//@ func getStatusWithMetadata
//@   props C20
//@   requires metaData != nil
//@   fresh
//@   ensures [requested] result.ResourcesStatus.Requested == metaData.Requested
//@   ensures [allocated] result.ResourcesStatus.Allocated == metaData.Allocated
//@   ensures [nonpreemptible] !metaData.Preemptible ==> result.ResourcesStatus.AllocatedNonPreemptible == metaData.Allocated
//@ end
