//go:build verif

// Contracts for govc (contract-based deductive verification); comments only.
package patcher

//@ import v1 "k8s.io/api/core/v1"

//@ define emptyList(m v1.ResourceList) bool = forall k v1.ResourceName :: !(k in m)
//@ define sameList(a v1.ResourceList, b v1.ResourceList) bool = forall k v1.ResourceName :: ((k in a) == (k in b)) && a[k] == b[k]

// Property C20: "After reconciliation a PodGroup's reported requested, allocated and non-preemptible
// resources equal the sums over its pods by phase and current preemptibility".
// metaData carries the sums and the CURRENT preemptibility; the status written must report them.
//@ func getStatusWithMetadata
//@   props C20
//@   requires metaData != nil
//@   fresh
//@   ensures [requested] result.ResourcesStatus.Requested == metaData.Requested
//@   ensures [allocated] result.ResourcesStatus.Allocated == metaData.Allocated
//@   ensures [nonPreemptibleGroup] !metaData.Preemptible ==> result.ResourcesStatus.AllocatedNonPreemptible == metaData.Allocated
//@   # "non-preemptible resources equal the sums over its pods by ... CURRENT preemptibility": a group that is
//@   # currently preemptible has no non-preemptible allocation (was violated before fix 7ff8ad2: stale value kept)
//@   ensures [preemptibleHasNoNonPreemptible] metaData.Preemptible ==> emptyList(result.ResourcesStatus.AllocatedNonPreemptible)
//@   # fixpoint (field-wise; reflect.DeepEqual itself has no model): recomputing from the status just produced changes nothing
//@   lemma [fixpointNonPreemptible1] !metaData.Preemptible ==> getStatusWithMetadata(metaData, *result).ResourcesStatus.AllocatedNonPreemptible == result.ResourcesStatus.AllocatedNonPreemptible
//@   lemma [fixpointRequested] getStatusWithMetadata(metaData, *result).ResourcesStatus.Requested == result.ResourcesStatus.Requested && getStatusWithMetadata(metaData, *result).ResourcesStatus.Allocated == result.ResourcesStatus.Allocated
//@   ensures [otherStatusKept] result.Phase == originalStatus.Phase && result.Running == originalStatus.Running && result.Succeeded == originalStatus.Succeeded && result.Failed == originalStatus.Failed && result.Pending == originalStatus.Pending
//@ end

// The "is a write needed" test must not itself change the stored object (reflect.DeepEqual: no model,
// so the boolean is not decided here).
//@ func ShouldUpdatePodGroupStatus
//@   props C20
//@   requires podGroup != nil && podGroupMetadata != nil
//@   pure
//@ end
