//go:build verif

// Contracts for govc (contract-based deductive verification); comments only.
package pod_group

// (file added by helper "ctrl2" for the C20 fold in pkg/podgroupcontroller/controllers: the caller needs to know that
//  asking for the group's preemptibility does not disturb the accumulator it has just created)

// preemptibleNow(pg): the answer IsPreemptible gives for the pod group in the current reconcile ("CURRENT
// preemptibility": spec.preemptibility, else the priority class read from the cluster). Naming only.
//@ declare preemptibleNow(pg *v2alpha2.PodGroup) bool

//@ func IsPreemptible
//@   props C20
//@   trusted
//@   note body outside the subset: reads PriorityClass objects through client.Client (Get/List into local objects, errors.IsNotFound); assumed frame: writes nothing that existed before the call. [current] only names the answer.
//@   requires podGroup != nil
//@   ensures [errorMeansFalse] result1 != nil ==> !result0
//@   ensures [current] result1 == nil ==> result0 == preemptibleNow(podGroup)
//@ end
